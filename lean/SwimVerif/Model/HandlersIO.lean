/-
Line protocol of the C06 machine: program text → `H`, trace/state rendering, the op interpreter.
The text syntax and the expansion of the modifying primitives (`s0=5` ↦ `effect(intent).followed_by(set)`) are the
same as in `harness/core/src/bin/sv-c06.rs`.
-/
import SwimVerif.Model.Handlers

namespace SwimVerif.Handlers

/-! ### Parser -/

def pDigit : List Char → Option (Nat × List Char)
  | c :: cs => if c.isDigit then some (c.toNat - 48, cs) else none
  | [] => none

def pNatAux (acc : Nat) (any : Bool) : List Char → Option (Nat × List Char)
  | c :: cs =>
    if c.isDigit then pNatAux (acc * 10 + (c.toNat - 48)) true cs
    else if any then some (acc, c :: cs) else none
  | [] => if any then some (acc, []) else none

def pNat (cs : List Char) : Option (Nat × List Char) := pNatAux 0 false cs

def pInt : List Char → Option (Int × List Char)
  | '-' :: cs => (pNat cs).map fun r => (-(r.1 : Int), r.2)
  | cs => (pNat cs).map fun r => ((r.1 : Int), r.2)

def pVLane (cs : List Char) : Option (Nat × List Char) :=
  match pDigit cs with
  | some (l, r) => if l < nv then some (l, r) else none
  | none => none

def pMLane (cs : List Char) : Option (Nat × List Char) :=
  match pDigit cs with
  | some (m, r) => if m < nm then some (m, r) else none
  | none => none

def pEat (c : Char) : List Char → Option (List Char)
  | d :: cs => if c = d then some cs else none
  | [] => none

def setH (l : Nat) (n : Int) : H := .fby (.emit (.wset l n)) (.set l n)

/-- `m.k` (keys are decimal numbers below 100: `10` sorts after `2` as a key and before it as text) -/
def pMapKey (cs : List Char) : Option (Nat × Nat × List Char) := do
  let (m, r) ← pMLane cs
  let r ← pEat '.' r
  let (k, r) ← pNat r
  if k < 100 then pure (m, k, r) else none

/-- The closure of a `transform_entry`: `i<int>` | `d` | `b<int>` | `f<int>`. -/
def pXf : List Char → Option (Xf × List Char)
  | 'i' :: r => (pInt r).map fun x => (.inc x.1, x.2)
  | 'd' :: r => some (.del, r)
  | 'b' :: r => (pInt r).map fun x => (.bump x.1, x.2)
  | 'f' :: r => (pInt r).map fun x => (.flip x.1, x.2)
  | _ => none

mutual
def pH : Nat → List Char → Option (H × List Char)
  | 0, _ => none
  | _, [] => none
  | f + 1, c :: cs =>
    if c = 'e' then (pNat cs).map fun r => (.emit (.eff r.1), r.2)
    else if c = 'g' then (pVLane cs).map fun r => (.getLog r.1, r.2)
    else if c = 'c' then do
      let (s, r) ← pVLane cs
      let (d, r) ← pVLane r
      match r with
      | '+' :: r => let (k, r) ← pNat r; pure (.copy s d (k : Int), r)
      | '-' :: r => let (k, r) ← pNat r; pure (.copy s d (-(k : Int)), r)
      | _ => none
    else if c = 's' then do
      let (l, r) ← pVLane cs
      let r ← pEat '=' r
      let (n, r) ← pInt r
      pure (setH l n, r)
    else if c = 'u' then do
      let (m, k, r) ← pMapKey cs
      let r ← pEat '=' r
      let (n, r) ← pInt r
      pure (.fby (.emit (.wupd m k n)) (.mupd m k n), r)
    else if c = 'r' then do
      let (m, k, r) ← pMapKey cs
      pure (.fby (.emit (.wrem m k)) (.mrem m k), r)
    else if c = 'x' then do
      let (m, r) ← pMLane cs
      pure (.fby (.emit (.wclr m)) (.mclr m), r)
    else if c = 'q' then do
      let (m, k, r) ← pMapKey cs
      pure (.mgetLog m k, r)
    else if c = 't' then do
      let (m, k, r) ← pMapKey cs
      let (x, r) ← pXf r
      pure (.fby (.emit (.wxf m k x)) (.mxf m k x), r)
    else if c = 'y' then do
      let (m, k, r) ← pMapKey cs
      pure (.mwithLog m k, r)
    else if c = 'F' then do
      let r ← pEat '(' cs
      let (a, r) ← pH f r
      let r ← pEat ',' r
      let (b, r) ← pH f r
      let r ← pEat ')' r
      pure (.fby a b, r)
    else if c = 'A' then do
      let r ← pEat '(' cs
      let (a, r) ← pH f r
      let r ← pEat ',' r
      let (b, r) ← pH f r
      let r ← pEat ')' r
      pure (.athen a b, r)
    else if c = 'Q' then
      match cs with
      | '[' :: ']' :: r => some (.seqNil, r)
      | '[' :: r => pSeq f r
      | _ => none
    else if c = 'L' then do
      let r ← pEat '(' cs
      let (a, r) ← pH f r
      let r ← pEat ')' r
      pure (.left a, r)
    else if c = 'R' then do
      let r ← pEat '(' cs
      let (a, r) ← pH f r
      let r ← pEat ')' r
      pure (.right a, r)
    else if c = 'O' then do
      let r ← pEat '(' cs
      let (a, r) ← pH f r
      let r ← pEat ')' r
      pure (.optSome a, r)
    else if c = 'Z' then do
      let r ← pEat '(' cs
      let (a, r) ← pH f r
      let r ← pEat ')' r
      pure (.fby (.emit .wsusp) (.suspend a), r)
    else if c = 'N' then some (.optNone, cs)
    else if c = '!' then some (.fby (.emit .wfail) .fail, cs)
    else if c = '$' then some (.fby (.emit .wstop) .stop, cs)
    else none
/-- The elements of `Q[...]` after the opening bracket, up to and including `]`. -/
def pSeq : Nat → List Char → Option (H × List Char)
  | 0, _ => none
  | f + 1, cs => do
    let (h, r) ← pH f cs
    match r with
    | ',' :: r => let (t, r) ← pSeq f r; pure (.seqCons h t, r)
    | ']' :: r => pure (.seqCons h .seqNil, r)
    | _ => none
end

def parseH (s : String) : Option H :=
  match pH (2 * s.length + 2) s.toList with
  | some (h, []) => some h
  | _ => none

/-! ### Rendering -/

def optInt : Option Int → String
  | some v => toString v
  | none => "-"

def insSorted (e : Nat × Int) : List (Nat × Int) → List (Nat × Int)
  | [] => [e]
  | x :: xs => if e.1 ≤ x.1 then e :: x :: xs else x :: insSorted e xs

def sortByKey (l : List (Nat × Int)) : List (Nat × Int) := l.foldr insSorted []

def renderMap (l : List (Nat × Int)) : String :=
  "{" ++ ",".intercalate ((sortByKey l).map fun e => s!"{e.1}={e.2}") ++ "}"

def Top.tag : Top → String
  | .start => "T" | .stop => "P" | .cmd => "C" | .susp => "Z"

def Xf.render : Xf → String
  | .inc d => s!"i{d}"
  | .del => "d"
  | .bump d => s!"b{d}"
  | .flip n => s!"f{n}"

def Ev.render : Ev → String
  | .eff i => s!"e{i}"
  | .got l v => s!"g{l}:{v}"
  | .gotE m k v => s!"q{m}.{k}:{optInt v}"
  | .gotW m k v => s!"y{m}.{k}:{optInt v}"
  | .wset l n => s!"ws{l}={n}"
  | .wupd m k n => s!"wu{m}.{k}={n}"
  | .wrem m k => s!"wr{m}.{k}"
  | .wclr m => s!"wx{m}"
  | .wxf m k f => s!"wt{m}.{k}{f.render}"
  | .wfail => "w!"
  | .wstop => "w$"
  | .wsusp => "wz"
  | .enEvent l n => s!"<E{l}({n})"
  | .exEvent l => s!">E{l}"
  | .enSet l p n => s!"<S{l}({optInt p},{n})"
  | .exSet l => s!">S{l}"
  | .enUpd m k p n => s!"<U{m}.{k}({optInt p},{n})"
  | .exUpd m => s!">U{m}"
  | .enRem m k p => s!"<R{m}.{k}({p})"
  | .exRem m => s!">R{m}"
  | .enClr m b => s!"<X{m}{renderMap b}"
  | .exClr m => s!">X{m}"
  | .enTop t => "<" ++ t.tag
  | .exTop t => ">" ++ t.tag

def renderTrace (tr : List Ev) : String :=
  if tr.isEmpty then "-" else " ".intercalate (tr.reverse.map Ev.render)

def renderState (st : St) : String :=
  "v=" ++ ",".intercalate (st.vals.map fun v => toString v.content) ++ " "
    ++ " ".intercalate ((List.range st.maps.length).map fun m => s!"m{m}={renderMap (st.readM m)}")

def Phase.render : Phase → String
  | .none => "none" | .running => "alive" | .stopped => "stopped" | .failed => "failed" | .nostart => "nostart"

def Agent.report (a : Agent) : String :=
  s!"{a.phase.render} {renderTrace a.st.trace} | " ++ (if a.phase = .running then renderState a.st else "-")

/-! ### Op interpreter -/

def parseProgs (ps : List String) : Option Prog :=
  match ps.mapM parseH with
  | some [t, p, e0, s0, e1, s1, e2, s2, u0, r0, x0, u1, r1, x1] =>
    some { onStart := t, onStop := p, onEvent := [e0, e1, e2], onSet := [s0, s1, s2],
           onUpd := [u0, u1], onRem := [r0, r1], onClr := [x0, x1] }
  | _ => none

def parseInt (s : String) : Option Int := match pInt s.toList with
  | some (n, []) => some n
  | _ => none

/-- The top-level handler of a request arriving from the runtime on a lane (`cmd` lane: the program, bracketed;
value/map lanes: the lane's own set/update/remove/clear handler, which logs nothing itself). -/
def laneRequest (parts : List String) : Option H :=
  match parts with
  | ["cmd", p] => (parseH p).map fun h => bracket (.enTop .cmd) h (.exTop .cmd)
  | ["vset", l, n] => do
    let l ← l.toNat?
    let n ← parseInt n
    if l < nv then some (.set l n) else none
  | ["mupd", m, k, n] => do
    let m ← m.toNat?
    let k ← k.toNat?
    let n ← parseInt n
    if m < nm ∧ k < 100 then some (.mupd m k n) else none
  | ["mrem", m, k] => do
    let m ← m.toNat?
    let k ← k.toNat?
    if m < nm ∧ k < 100 then some (.mrem m k) else none
  | ["mclr", m] => do
    let m ← m.toNat?
    if m < nm then some (.mclr m) else none
  | _ => none

def clearTrace (a : Agent) : Agent := { a with st := { a.st with trace := [] } }

def burstRun (a : Agent) : List H → Agent
  | [] => a
  | h :: rest => if a.phase = .running then burstRun (command a h) rest else a

def apiLine (s : Option Agent) (line : String) : Option Agent × String :=
  match words line with
  | "agent" :: ps =>
    match parseProgs ps with
    | some P => let a := start P; (some a, a.report)
    | none => (s, "bad-op")
  | ["stop"] =>
    match s with
    | some a =>
      if a.phase = .running then
        let a' := shutdown (clearTrace a) (clearTrace a).st
        (some a', a'.report)
      else (s, "dead")
    | none => (s, "bad-op")
  | "burst" :: items =>
    match s, items.mapM (fun it => laneRequest (it.splitOn ":")) with
    | some a, some hs =>
      if a.phase = .running then
        let a' := burstRun (clearTrace a) hs
        (some a', a'.report)
      else (s, "dead")
    | _, _ => (s, "bad-op")
  | parts =>
    match s, laneRequest parts with
    | some a, some h =>
      if a.phase = .running then
        let a' := command (clearTrace a) h
        (some a', a'.report)
      else (s, "dead")
    | _, _ => (s, "bad-op")

end SwimVerif.Handlers
