/-
The prune glue of the agent runtime's write task (`runtime/swimos_runtime/src/agent/task/prune.rs` `PruneRemotes`,
`task/mod.rs`: `AddPruneTimeout`, `schedule_prune`, `WriteTaskEvent::PruneRemote` → `remove_remote_if_idle`), for C03:
a remote that is registered is answered; it is deregistered only by its prune timeout.

* `PruneRemotes` = `next_id` + ONE shared `Sleep` + a FIFO of `(id, deadline)`; here one list whose head is `next_id`
  with the armed deadline. `push(id, delay)`: deadline = now + delay; armed at once if the queue is empty, else queued.
  `poll_next`: when the armed sleep is over, the head is reported and the sleep is RE-ARMED with the next entry's OWN
  deadline (`delay.reset(timeout_at)`).
* a prune timeout is scheduled when a remote attaches (`WriteTaskMessage::Remote` → `AddPruneTimeout`) and when an
  explicit unlink removes its LAST link (`Links::remove` → `TriggerUnlink.schedule_prune`).
* `PruneRemote(id)` → unless a LATER timeout is still queued for the same remote (`is_queued`, the repair 8d5e4f1 of
  C03-N1: an entry is never withdrawn, so an old entry of a remote that linked and unlinked again used to remove it):
  `remove_remote_if_idle`: the remote is removed (`DisconnectionReason::RemoteTimedOut`, its channel closed) iff it has
  no link at that moment (`idle`/`sched` are ghosts: since when link-less, when scheduled).
* requests: `link` of a registered remote → `linked` (every time); of a removed remote → nothing ("No remote with ID");
  `unlink` of a linked lane → `unlinked`; a sync answered by the lane → implicit `linked` if needed, the event, `synced`;
  for a removed remote the response is discarded.
Time in ms; only `adv k` (100 k ms) moves the clock; the inactivity timeout is out of the picture (a day).
-/
import SwimVerif.Model.Util

namespace SwimVerif.PruneRt
open SwimVerif

inductive Ev
  | linked (l : Nat) | unlinked (l : Nat) | ev (l : Nat) | synced (l : Nat) | closed (t : Nat)
  deriving DecidableEq, Repr

structure St where
  D : Nat
  now : Nat := 0
  queue : List (Nat × Nat) := []     -- (remote, deadline); the head is `next_id` with the armed `Sleep`
  reg : List Nat := []               -- remotes registered with the write task
  att : List Nat := []               -- remotes that have attached
  links : List (Nat × Nat) := []     -- (lane, remote)
  idle : List (Nat × Nat) := []      -- ghost: (remote, since when it has been without links), latest first
  sched : List (Nat × Nat) := []     -- ghost: (remote, time at which a prune timeout was scheduled for it)
  deriving Repr

def init (D : Nat) : St := { D := D }

inductive Op
  | attach (r : Nat) | link (r l : Nat) | unlink (r l : Nat) | rsync (r l : Nat) | ev (l : Nat) | adv (k : Nat)
  deriving DecidableEq, Repr

def linkless (s : St) (r : Nat) : Bool := !(s.links.any (fun p => p.2 == r))
def linked (s : St) (l r : Nat) : Bool := s.links.contains (l, r)
def idleOf (s : St) (r : Nat) : Nat := ((s.idle.find? (fun p => p.1 == r)).map (·.2)).getD 0

/-- `PruneRemotes::push` (+ the ghosts) -/
def push (s : St) (r : Nat) : St :=
  { s with queue := s.queue ++ [(r, s.now + s.D)], idle := (r, s.now) :: s.idle, sched := (r, s.now) :: s.sched }

/-- `WriteTaskEvent::PruneRemote(r)` at the instant `d`: `if !streams.prune_pending(&r) { remove_remote_if_idle(r) }`
— a fired timeout is ignored while a later one is queued for the same remote (`PruneRemotes::is_queued`) -/
def fire (s : St) (r d : Nat) (rest : List (Nat × Nat)) : St × List (Nat × Ev) :=
  if s.reg.contains r && linkless s r && !(rest.any (fun e => e.1 == r)) then
    ({ s with now := max s.now d, queue := rest, reg := s.reg.filter (fun x => !(x == r)) }, [(r, .closed d)])
  else ({ s with now := max s.now d, queue := rest }, [])

/-- the clock runs to `target`: the armed sleep fires, the next entry is armed with its own deadline, … -/
def advLoop : Nat → Nat → St → St × List (Nat × Ev)
  | 0, target, s => ({ s with now := max s.now target }, [])
  | fuel + 1, target, s =>
    match s.queue with
    | [] => ({ s with now := max s.now target }, [])
    | (r, d) :: rest =>
      if d ≤ target then
        ((advLoop fuel target (fire s r d rest).1).1, (fire s r d rest).2 ++ (advLoop fuel target (fire s r d rest).1).2)
      else ({ s with now := max s.now target }, [])

def addLink (s : St) (l r : Nat) : St := if linked s l r then s else { s with links := (l, r) :: s.links }
def delLink (s : St) (l r : Nat) : St := { s with links := s.links.filter (fun p => !(p == (l, r))) }

/-- the step: new state, acknowledged?, what the remotes receive (in order of emission) -/
def step (s : St) : Op → St × Bool × List (Nat × Ev)
  | .attach r =>
    if s.att.contains r then (s, false, [])
    else (push { s with att := r :: s.att, reg := r :: s.reg } r, true, [])
  | .link r l =>
    if s.att.contains r && decide (l < 2) then
      if s.reg.contains r then (addLink s l r, true, [(r, .linked l)]) else (s, true, [])
    else (s, false, [])
  | .unlink r l =>
    if s.att.contains r && decide (l < 2) then
      if s.reg.contains r && linked s l r then
        (if linkless (delLink s l r) r then push (delLink s l r) r else delLink s l r, true, [(r, .unlinked l)])
      else (s, true, [])
    else (s, false, [])
  | .rsync r l =>
    if s.att.contains r && decide (l < 2) then
      if s.reg.contains r then
        (addLink s l r, true, (if linked s l r then [] else [(r, .linked l)]) ++ [(r, .ev l), (r, .synced l)])
      else (s, true, [])
    else (s, false, [])
  | .ev l => (s, true, ((s.links.filter (fun p => p.1 == l)).map (fun p => (p.2, Ev.ev l))))
  | .adv k => ((advLoop (s.queue.length + 1) (s.now + 100 * k) s).1, true, (advLoop (s.queue.length + 1) (s.now + 100 * k) s).2)

def run (s : St) (ops : List Op) : St := ops.foldl (fun s op => (step s op).1) s

/-! ### line protocol -/

def parseOp (line : String) : Option Op :=
  match words line with
  | ["attach", r] => r.toNat?.map .attach
  | ["link", r, l] => do let r ← r.toNat?; let l ← l.toNat?; pure (.link r l)
  | ["unlink", r, l] => do let r ← r.toNat?; let l ← l.toNat?; pure (.unlink r l)
  | ["rsync", r, l] => do let r ← r.toNat?; let l ← l.toNat?; pure (.rsync r l)
  | ["ev", l] => do let l ← l.toNat?; if l < 2 then pure (.ev l) else none
  | ["adv", k] => do let k ← k.toNat?; if k ≤ 100 then pure (.adv k) else none
  | _ => none

def Ev.render : Ev → String
  | .linked l => s!"linked{l}" | .unlinked l => s!"unlinked{l}" | .ev l => s!"ev{l}" | .synced l => s!"synced{l}"
  | .closed t => s!"closed:remote-timed-out@{t}"

/-- sorted by remote, per remote in order of emission -/
def renderOut (ack : Bool) (es : List (Nat × Ev)) : String :=
  let rs := (es.map (·.1)).foldl (fun m r => max m r) 0
  let toks := (List.range (rs + 1)).flatMap fun r => (es.filter (fun e => e.1 == r)).map fun e => s!"r{r}={e.2.render}"
  " ".intercalate ((if ack then "ok" else "skipped") :: toks)

def apiLine (s : Option St) (line : String) : Option St × String :=
  match words line with
  | ["pr", d] =>
    match d.toNat? with
    | some d => if 100 ≤ d ∧ d ≤ 100000 then (some (init d), "ok init@0") else (s, "bad-op")
    | none => (s, "bad-op")
  | _ =>
    match s, parseOp line with
    | some st, some op => let r := step st op; (some r.1, renderOut r.2.1 r.2.2)
    | _, _ => (s, "bad-op")

/-! ### observable-level monitor
* `prune-remote-removed-early`: a remote's channel is closed while it has a link, or before it has been without links
  for the full delay and not at one of its own scheduled deadlines, or with a reason other than `RemoteTimedOut`;
* `prune-remote-removed-by-stale-timeout`: closed before the full delay, at a deadline scheduled for an EARLIER
  link-less period of the same remote (the entry was never withdrawn);
* `prune-remote-not-removed`: a remote has been without links for the full delay and is still registered;
* `prune-request-unanswered`: a link / sync / unlink of a remote whose channel is open got no answer. -/

structure Mon where
  D : Nat := 0
  now : Nat := 0
  att : List Nat := []
  closed : List Nat := []
  links : List (Nat × Nat) := []
  idle : List (Nat × Nat) := []
  sched : List (Nat × Nat) := []
  deriving Repr

def Mon.idleOf (m : Mon) (r : Nat) : Nat := ((m.idle.find? (fun p => p.1 == r)).map (·.2)).getD 0
def Mon.linkless (m : Mon) (r : Nat) : Bool := !(m.links.any (fun p => p.2 == r))
def Mon.mark (m : Mon) (r : Nat) : Mon := { m with idle := (r, m.now) :: m.idle, sched := (r, m.now) :: m.sched }

/-- `r<id>=<what>` → (id, what) -/
def parseTok (t : String) : Option (Nat × String) :=
  match t.splitOn "=" with
  | [a, b] => if a.startsWith "r" then ((a.drop 1).toString.toNat?).map (fun r => (r, b)) else none
  | _ => none

/-- check one `closed:<reason>@<t>` of remote `r` against what the monitor knows BEFORE the op's own effects -/
def Mon.checkClosed (m : Mon) (r : Nat) (what : String) : Option String :=
  match (what.drop 7).toString.splitOn "@" with
  | [reason, t] =>
    match t.toNat? with
    | none => some "unparsable"
    | some t =>
      if reason != "remote-timed-out" then some "prune-remote-removed-early"
      else if !m.linkless r then some "prune-remote-removed-early"
      else if decide (m.idleOf r + m.D ≤ t) then none
      else if m.sched.any (fun p => p.1 == r && p.2 + m.D == t) then some "prune-remote-removed-by-stale-timeout"
      else some "prune-remote-removed-early"
  | _ => some "unparsable"

def Mon.step (m : Mon) (line : String) (out : String) : Mon × Option String :=
  match words line with
  | ["pr", d] => ({ D := d.toNat?.getD 0 }, if (words out).head? = some "ok" then none else some "prune-init-failed")
  | _ =>
    match parseOp line with
    | none => (m, some "unparsable")
    | some op =>
      let ws := words out
      let ack := ws.headD ""
      match (ws.drop 1).mapM parseTok with
      | none => (m, some "unexpected-output")
      | some toks =>
        if ack != "ok" && ack != "skipped" then (m, some "unexpected-output") else
        let has (r : Nat) (w : String) : Bool := toks.any (fun t => t.1 == r && t.2 == w)
        let isOpen (r : Nat) : Bool := m.att.contains r && !m.closed.contains r
        -- the clock first: closings are judged at their own time stamps
        let m0 : Mon := match op with | .adv k => { m with now := m.now + 100 * k } | _ => m
        let closings := toks.filter (fun t => t.2.startsWith "closed:")
        match closings.findSome? (fun t => if m.closed.contains t.1 then some "prune-remote-removed-early" else m.checkClosed t.1 t.2) with
        | some v => (m0, some v)
        | none =>
          let m1 : Mon := { m0 with closed := closings.map (·.1) ++ m0.closed }
          -- requests
          let (m2, v) : Mon × Option String :=
            if ack = "skipped" then (m1, none) else
            match op with
            | .attach r => ({ m1 with att := r :: m1.att }.mark r, none)
            | .link r l =>
              if isOpen r then
                ({ m1 with links := if m1.links.contains (l, r) then m1.links else (l, r) :: m1.links },
                 if has r s!"linked{l}" then none else some "prune-request-unanswered")
              else (m1, none)
            | .rsync r l =>
              if isOpen r then
                ({ m1 with links := if m1.links.contains (l, r) then m1.links else (l, r) :: m1.links },
                 if has r s!"synced{l}" && (m1.links.contains (l, r) || has r s!"linked{l}") then none
                 else some "prune-request-unanswered")
              else (m1, none)
            | .unlink r l =>
              if isOpen r && m1.links.contains (l, r) then
                let m' := { m1 with links := m1.links.filter (fun p => !(p == (l, r))) }
                (if m'.linkless r then m'.mark r else m', if has r s!"unlinked{l}" then none else some "prune-request-unanswered")
              else (m1, none)
            | _ => (m1, none)
          match v with
          | some e => (m2, some e)
          | none =>
            -- nobody may outstay its delay
            if m2.att.any (fun r => !m2.closed.contains r && m2.linkless r && decide (m2.idleOf r + m2.D ≤ m2.now)) then
              (m2, some "prune-remote-not-removed")
            else (m2, none)

end SwimVerif.PruneRt
