/-
C16: the explicit decidable side conditions of the round-trip theorem.
`tyWF` = what `#[derive(Form)]` checks that matters for the layout (at most one `body` / `header_body`, distinct
names per group, labelled body) **plus** the conditions the macro does not check but the layout needs to be
invertible (each is witnessed by a battery type on which the real code fails, see Props/C16.lean):
  * `Option<T>`: `T` itself must not read `Extant` (`Option<Option<_>>`, `Option<()>`)
  * a `body` field is not an `Option`, and the tag of a struct body is not the name of an attribute field
  * an `attr` / `header_body` field of type `Vec<T>`: `T` must not read an attribute-less record
    (`Vec<Vec<_>>`: the flattened reading of an empty list wins)
`okInst` = the instance has the shape of the schema, integers are in range, skipped fields hold their default.
-/
import SwimVerif.Model.FormSchema

namespace SwimVerif.Form

mutual
/-- `make_recognizer()` of the type can succeed on a single `Extant` event. -/
def acceptsExtant : Ty → Bool
  | .unit => true
  | .opt _ => true
  | .newtype fs => acceptsExtantNT fs
  | _ => false
def acceptsExtantNT : Fields → Bool
  | .nil => false
  | .cons _ _ kind t rest => if kind == .skip then acceptsExtantNT rest else acceptsExtant t
end

mutual
/-- `make_recognizer()` of the type can succeed on a record without attributes. -/
def acceptsBare : Ty → Bool
  | .list _ => true
  | .opt t => acceptsBare t
  | .newtype fs => acceptsBareNT fs
  | _ => false
def acceptsBareNT : Fields → Bool
  | .nil => false
  | .cons _ _ kind t rest => if kind == .skip then acceptsBareNT rest else acceptsBare t
end

/-- attribute position (`make_attr_recognizer`) -/
def attrSafe : Ty → Bool
  | .list u => !acceptsBare u
  | .opt u => attrSafe u
  | _ => true

/-- `header_body` position: also the flattened header reading must not capture the header record. -/
def hbSafe : Ty → Bool
  | .list u => !acceptsBare u
  | t => !acceptsBare t

def variantTags : Variants → List String
  | .nil => []
  | .cons tag _ rest => tag :: variantTags rest

def nthVariant : Variants → Nat → Option (String × Fields)
  | .nil, _ => none
  | .cons tag fs _, 0 => some (tag, fs)
  | .cons _ _ rest, k + 1 => nthVariant rest k

/-- the content of an `Option` body: `None` is the body `{ Extant }` (and `{}`), so `Some(x)` must never be written
as an empty or `{ Extant }` body: no unit, no nested `Option`, no collection -/
def optBodyOK (names : List String) : Ty → Bool
  | .int _ | .bool | .text => true
  | .struct tag _ => !names.contains tag
  | .enum vs => (variantTags vs).all fun t => !names.contains t
  | _ => false

/-- delegated body position, `names` = the attribute fields of the container: the first attribute the body
contributes (the tag of a struct, of any variant of an enum) must not be one of them -/
def bodySafe (names : List String) : Ty → Bool
  | .int _ | .bool | .text | .unit | .list _ => true
  | .struct tag _ => !names.contains tag
  | .enum vs => (variantTags vs).all fun t => !names.contains t
  -- `None` is the body `{ Extant }`; `Some(x)` must not be written as an empty or `{ Extant }` body
  | .opt t => optBodyOK names t
  | _ => false

/-- types a `#[form(skip)]` field may have in the model (their `Default` is known) -/
def hasDflt : Ty → Bool
  | .int _ | .bool | .text | .unit | .opt _ | .list _ => true
  | _ => false

def isDflt : Ty → Inst → Bool
  | .int _, .int n => n == 0
  | .bool, .bool b => !b
  | .text, .text s => s == ""
  | .unit, .unit => true
  | .opt _, .none => true
  | .list _, .list ys => ys.isEmpty
  | _, _ => false

def posSafe (names : List String) (kind : FKind) (t : Ty) : Bool :=
  match kind with
  | .attr => attrSafe t
  | .headerBody => attrSafe t && hbSafe t
  | .body => bodySafe names t
  | .skip => hasDflt t
  | _ => true

def attrNames : Fields → List String
  | .nil => []
  | .cons name _ kind _ rest => if kind == .attr then name :: attrNames rest else attrNames rest

def distinct : List String → Bool
  | [] => true
  | n :: rest => !rest.contains n && distinct rest

/-- The struct-level conditions (only names and kinds are inspected). -/
def structWF (fs : List FieldC) : Bool :=
  decide ((fs.filter (isKind .body)).length ≤ 1) && decide ((fs.filter (isKind .headerBody)).length ≤ 1)
  && distinct ((segHs fs).map (·.name)) && distinct ((segAs fs).map (·.name))
  -- `assess_kind`: the body fields are all labelled (slots, with distinct names) or all unlabelled (tuple items)
  && (((segSlots fs).all (·.labelled) && distinct ((segSlots fs).map (·.name))) || (segSlots fs).all (fun f => !f.labelled))

/-- `#[form(newtype)]`: the fields after the wrapped one are all skipped, with a known default. -/
def allSkip : Fields → Bool
  | .nil => true
  | .cons _ _ kind t rest => kind == .skip && hasDflt t && allSkip rest

mutual
def tyWF : Ty → Bool
  | .int _ | .bool | .text | .unit => true
  | .opt t => tyWF t && !acceptsExtant t
  | .list t => tyWF t
  | .struct _ fs => fieldsWF (attrNames fs) fs && structWF (fieldCs fs 0)
  -- `FieldsModel::newtype_field`: exactly one field that is not skipped
  | .newtype fs => ntWF fs
  -- `EnumModel::validate`: "Duplicate enumeration tag"
  | .enum vs => variantsWF vs && distinct (variantTags vs)
def fieldsWF (names : List String) : Fields → Bool
  | .nil => true
  | .cons _ _ kind t rest => tyWF t && posSafe names kind t && fieldsWF names rest
def ntWF : Fields → Bool
  | .nil => false
  | .cons _ _ kind t rest => if kind == .skip then hasDflt t && ntWF rest else tyWF t && allSkip rest
def variantsWF : Variants → Bool
  | .nil => true
  | .cons _ fs rest => fieldsWF (attrNames fs) fs && structWF (fieldCs fs 0) && variantsWF rest
end

mutual
def okInst : Ty → Inst → Bool
  | .int k, x => match x with
    | .int n => k.inRange n
    | _ => false
  | .bool, x => match x with
    | .bool _ => true
    | _ => false
  | .text, x => match x with
    | .text _ => true
    | _ => false
  | .unit, x => match x with
    | .unit => true
    | _ => false
  | .opt t, x => match x with
    | .none => true
    | .some y => okInst t y
    | _ => false
  | .list t, x => match x with
    | .list ys => ys.all (okInst t)
    | _ => false
  | .struct _ fs, x => match x with
    | .struct xs => okFields fs xs
    | _ => false
  | .newtype fs, x => match x with
    | .struct xs => okFields fs xs
    | _ => false
  | .enum vs, x => match x with
    | .variant k xs => okVariants vs k xs
    | _ => false
def okFields : Fields → List Inst → Bool
  | .nil, xs => xs.isEmpty
  | .cons _ _ kind t rest, xs => match xs with
    | x :: xs' => (if kind == .skip then isDflt t x else okInst t x) && okFields rest xs'
    | [] => false
def okVariants : Variants → Nat → List Inst → Bool
  | .nil, _, _ => false
  | .cons _ fs rest, k, xs => match k with
    | 0 => okFields fs xs
    | k' + 1 => okVariants rest k' xs
end

end SwimVerif.Form
