/-
Line protocol of the C16 model (canonical text of values, instances and schema descriptors; see
harness/form/src/bin/sv-c16.rs), the model machine and the observable-level monitor.

  value  := x | i<n> | j<n> | u<n> | v<n> | bt | bf | t<hex> | {@<hex>=<value>,..|<item>,..}   item := value | value:value
  inst   := i<n> | bt | bf | t<hex> | u | n | s<inst> | [<inst>,..] | (<inst>,..) | #<k>(<inst>,..)
  schema := i32 | i64 | u32 | u64 | bool | text | unit | ?<schema> | *<schema>
          | S<hextag>(<field>,..) | T<hextag>(<field>,..) | U<hextag> | N<hex>(<field>,..) | M<hex>(<field>,..)
          | E(<struct schema>|..)            field := <h|H|a|s|b|k><hexname>=<schema>
-/
import SwimVerif.Model.FormSchema

namespace SwimVerif.Form

/-! ### rendering -/

def hexS (s : String) : String :=
  String.ofList (s.toUTF8.toList.flatMap fun b => [hexDigit (b.toNat / 16 % 16), hexDigit (b.toNat % 16)])

def NumKind.letter : NumKind → String
  | .i32 => "i" | .i64 => "j" | .u32 => "u" | .u64 => "v"

mutual
def Val.render : Val → String
  | .extant => "x"
  | .num k n => k.letter ++ toString n
  | .bool b => if b then "bt" else "bf"
  | .text s => "t" ++ hexS s
  | .record attrs items => "{" ++ renderAttrs attrs ++ "|" ++ renderItems items ++ "}"
def renderAttrs : List (String × Val) → String
  | [] => ""
  | [(n, v)] => "@" ++ hexS n ++ "=" ++ v.render
  | (n, v) :: rest => "@" ++ hexS n ++ "=" ++ v.render ++ "," ++ renderAttrs rest
def renderItems : List (Option Val × Val) → String
  | [] => ""
  | [(none, v)] => v.render
  | [(some k, v)] => k.render ++ ":" ++ v.render
  | (none, v) :: rest => v.render ++ "," ++ renderItems rest
  | (some k, v) :: rest => k.render ++ ":" ++ v.render ++ "," ++ renderItems rest
end

mutual
def Inst.render : Inst → String
  | .int n => "i" ++ toString n
  | .bool b => if b then "bt" else "bf"
  | .text s => "t" ++ hexS s
  | .unit => "u"
  | .none => "n"
  | .some x => "s" ++ x.render
  | .list xs => "[" ++ renderInsts xs ++ "]"
  | .struct xs => "(" ++ renderInsts xs ++ ")"
  | .variant k xs => "#" ++ toString k ++ "(" ++ renderInsts xs ++ ")"
def renderInsts : List Inst → String
  | [] => ""
  | [x] => x.render
  | x :: rest => x.render ++ "," ++ renderInsts rest
end

/-! ### parsing (recursive descent with fuel) -/

def isHexC (c : Char) : Bool := ('0' ≤ c && c ≤ '9') || ('a' ≤ c && c ≤ 'f')

def spanHex : List Char → List Char × List Char
  | c :: r => if isHexC c then let p := spanHex r; (c :: p.1, p.2) else ([], c :: r)
  | [] => ([], [])

def spanDigits : List Char → List Char × List Char
  | c :: r => if c.isDigit then let p := spanDigits r; (c :: p.1, p.2) else ([], c :: r)
  | [] => ([], [])

def hexToString (cs : List Char) : Option String :=
  match bytesOfHexAux cs with
  | some bs => String.fromUTF8? (ByteArray.mk (bs.map (·.toUInt8)).toArray)
  | none => none

def parseHexText (cs : List Char) : Option (String × List Char) :=
  let p := spanHex cs
  (hexToString p.1).map fun s => (s, p.2)

def digitsToNat (cs : List Char) : Nat := cs.foldl (fun a c => a * 10 + (c.toNat - 48)) 0

def parseInt (cs : List Char) : Option (Int × List Char) :=
  match cs with
  | '-' :: r =>
    let p := spanDigits r
    if p.1.isEmpty then none else some (-(digitsToNat p.1 : Int), p.2)
  | r =>
    let p := spanDigits r
    if p.1.isEmpty then none else some ((digitsToNat p.1 : Int), p.2)

def numOf (k : NumKind) (cs : List Char) : Option (Val × List Char) :=
  (parseInt cs).map fun p => (.num k p.1, p.2)

mutual
def parseVal : Nat → List Char → Option (Val × List Char)
  | 0, _ => none
  | _ + 1, 'x' :: r => some (.extant, r)
  | _ + 1, 'i' :: r => numOf .i32 r
  | _ + 1, 'j' :: r => numOf .i64 r
  | _ + 1, 'u' :: r => numOf .u32 r
  | _ + 1, 'v' :: r => numOf .u64 r
  | _ + 1, 'b' :: 't' :: r => some (.bool true, r)
  | _ + 1, 'b' :: 'f' :: r => some (.bool false, r)
  | _ + 1, 't' :: r => (parseHexText r).map fun p => (.text p.1, p.2)
  | fuel + 1, '{' :: r =>
    match parseAttrList fuel r with
    | some (attrs, '|' :: r1) =>
      match parseItemList fuel r1 with
      | some (items, '}' :: r2) => some (.record attrs items, r2)
      | _ => none
    | _ => none
  | _ + 1, _ => none
def parseAttrList : Nat → List Char → Option (List Attr × List Char)
  | 0, _ => none
  | fuel + 1, '@' :: r =>
    match parseHexText r with
    | some (name, '=' :: r1) =>
      match parseVal fuel r1 with
      | some (v, ',' :: r2) => (parseAttrList fuel r2).map fun p => ((name, v) :: p.1, p.2)
      | some (v, r2) => some ([(name, v)], r2)
      | none => none
    | _ => none
  | _ + 1, r => some ([], r)
def parseItemList : Nat → List Char → Option (List Item × List Char)
  | 0, _ => none
  | _ + 1, '}' :: r => some ([], '}' :: r)
  | fuel + 1, r =>
    match parseVal fuel r with
    | some (a, ':' :: r1) =>
      match parseVal fuel r1 with
      | some (b, ',' :: r2) => (parseItemList fuel r2).map fun p => ((some a, b) :: p.1, p.2)
      | some (b, r2) => some ([(some a, b)], r2)
      | none => none
    | some (a, ',' :: r1) => (parseItemList fuel r1).map fun p => ((none, a) :: p.1, p.2)
    | some (a, r1) => some ([(none, a)], r1)
    | none => none
end

def parseValue (s : String) : Option Val :=
  match parseVal (s.length + 1) s.toList with
  | some (v, []) => some v
  | _ => none

mutual
def parseInst : Nat → List Char → Option (Inst × List Char)
  | 0, _ => none
  | _ + 1, 'i' :: r => (parseInt r).map fun p => (.int p.1, p.2)
  | _ + 1, 'b' :: 't' :: r => some (.bool true, r)
  | _ + 1, 'b' :: 'f' :: r => some (.bool false, r)
  | _ + 1, 't' :: r => (parseHexText r).map fun p => (.text p.1, p.2)
  | _ + 1, 'u' :: r => some (.unit, r)
  | _ + 1, 'n' :: r => some (.none, r)
  | fuel + 1, 's' :: r => (parseInst fuel r).map fun p => (.some p.1, p.2)
  | fuel + 1, '[' :: r =>
    match parseInstList fuel r with
    | some (xs, ']' :: r1) => some (.list xs, r1)
    | _ => none
  | fuel + 1, '(' :: r =>
    match parseInstList fuel r with
    | some (xs, ')' :: r1) => some (.struct xs, r1)
    | _ => none
  | fuel + 1, '#' :: r =>
    let p := spanDigits r
    if p.1.isEmpty then none else
    match p.2 with
    | '(' :: r1 =>
      match parseInstList fuel r1 with
      | some (xs, ')' :: r2) => some (.variant (digitsToNat p.1) xs, r2)
      | _ => none
    | _ => none
  | _ + 1, _ => none
def parseInstList : Nat → List Char → Option (List Inst × List Char)
  | 0, _ => none
  | _ + 1, ']' :: r => some ([], ']' :: r)
  | _ + 1, ')' :: r => some ([], ')' :: r)
  | fuel + 1, r =>
    match parseInst fuel r with
    | some (x, ',' :: r1) => (parseInstList fuel r1).map fun p => (x :: p.1, p.2)
    | some (x, r1) => some ([x], r1)
    | none => none
end

def parseInstance (s : String) : Option Inst :=
  match parseInst (s.length + 1) s.toList with
  | some (x, []) => some x
  | _ => none

def kindOfChar : Char → Option FKind
  | 'h' => some .header | 'H' => some .headerBody | 'a' => some .attr
  | 's' => some .slot | 'b' => some .body | 'k' => some .skip
  | _ => none

mutual
def parseTy : Nat → List Char → Option (Ty × List Char)
  | 0, _ => none
  | _ + 1, 'i' :: '3' :: '2' :: r => some (.int .i32, r)
  | _ + 1, 'i' :: '6' :: '4' :: r => some (.int .i64, r)
  | _ + 1, 'u' :: '3' :: '2' :: r => some (.int .u32, r)
  | _ + 1, 'u' :: '6' :: '4' :: r => some (.int .u64, r)
  | _ + 1, 'b' :: 'o' :: 'o' :: 'l' :: r => some (.bool, r)
  | _ + 1, 't' :: 'e' :: 'x' :: 't' :: r => some (.text, r)
  | _ + 1, 'u' :: 'n' :: 'i' :: 't' :: r => some (.unit, r)
  | fuel + 1, '?' :: r => (parseTy fuel r).map fun p => (.opt p.1, p.2)
  | fuel + 1, '*' :: r => (parseTy fuel r).map fun p => (.list p.1, p.2)
  | fuel + 1, 'S' :: r => parseStruct fuel true false r
  | fuel + 1, 'T' :: r => parseStruct fuel false false r
  | fuel + 1, 'N' :: r => parseStruct fuel true true r
  | fuel + 1, 'M' :: r => parseStruct fuel false true r
  | _ + 1, 'U' :: r => (parseHexText r).map fun p => (.struct p.1 .nil, p.2)
  | fuel + 1, 'E' :: '(' :: r =>
    match parseVariants fuel r with
    | some (vs, ')' :: r1) => some (.enum vs, r1)
    | _ => none
  | _ + 1, _ => none
/-- `named`: fields of a struct with named fields are all labelled; a tuple field is labelled iff it was renamed. -/
def parseStruct : Nat → Bool → Bool → List Char → Option (Ty × List Char)
  | 0, _, _, _ => none
  | fuel + 1, named, nt, r =>
    match parseHexText r with
    | some (tag, '(' :: r1) =>
      match parseFields fuel named r1 with
      | some (fs, ')' :: r2) => some (if nt then .newtype fs else .struct tag fs, r2)
      | _ => none
    | _ => none
def parseFields : Nat → Bool → List Char → Option (Fields × List Char)
  | 0, _, _ => none
  | _ + 1, _, ')' :: r => some (.nil, ')' :: r)
  | fuel + 1, named, c :: r =>
    match kindOfChar c, parseHexText r with
    | some kind, some (name, '=' :: r1) =>
      match parseTy fuel r1 with
      | some (t, ',' :: r2) => (parseFields fuel named r2).map fun p => (.cons name (named || name != "") kind t p.1, p.2)
      | some (t, r2) => some (.cons name (named || name != "") kind t .nil, r2)
      | none => none
    | _, _ => none
  | _ + 1, _, [] => none
def parseVariants : Nat → List Char → Option (Variants × List Char)
  | 0, _ => none
  | fuel + 1, r =>
    match parseTy fuel r with
    | some (.struct tag fs, '|' :: r1) => (parseVariants fuel r1).map fun p => (.cons tag fs p.1, p.2)
    | some (.struct tag fs, r1) => some (.cons tag fs .nil, r1)
    | _ => none
end

def parseSchema (s : String) : Option Ty :=
  match parseTy (s.length + 1) s.toList with
  | some (t, []) => some t
  | _ => none

/-! ### the checks `#[derive(Form)]` makes (swimos_form_derive: `Manifest::validate_field`, `assess_kind`,
`check_field_names`, `FieldsModel::newtype_field`, `EnumModel::validate`) -/

def countKind (k : FKind) (fs : List FieldC) : Nat := (fs.filter (isKind k)).length

def namesDistinct : List String → Bool
  | [] => true
  | n :: rest => !rest.contains n && namesDistinct rest

/-- The per-struct checks on already-built field lists. -/
def deriveFieldsOK (fs : List FieldC) : Bool :=
  countKind .body fs ≤ 1 && countKind .headerBody fs ≤ 1
  -- "Header, tag and attribute fields must be labelled"
  && (fs.filter fun f => f.kind == .header || f.kind == .attr).all (·.labelled)
  -- "Form field names must be unique" (all labelled fields, whatever their kind)
  && namesDistinct ((fs.filter (·.labelled)).map (·.name))
  -- `assess_kind`: body fields all labelled or all unlabelled; with a replaced body the other items are labelled
  && (let items := fs.filter (isKind .slot)
      items.all (·.labelled) || (items.all (fun f => !f.labelled) && !hasBody fs))

mutual
def deriveOK : Ty → Bool
  | .opt t => deriveOK t
  | .list t => deriveOK t
  | .struct _ fs => deriveFieldsOK (fieldCs fs 0) && deriveOKFields fs
  | .newtype fs => ((fieldCs fs 0).filter fun f => !(f.kind == .skip)).length == 1 && deriveOKFields fs
  | .enum vs => namesDistinct ((variantCs vs).map (·.1)) && deriveOKVariants vs
  | _ => true
def deriveOKFields : Fields → Bool
  | .nil => true
  | .cons _ _ _ t rest => deriveOK t && deriveOKFields rest
def deriveOKVariants : Variants → Bool
  | .nil => true
  | .cons _ fs rest => deriveFieldsOK (fieldCs fs 0) && deriveOKFields fs && deriveOKVariants rest
end

end SwimVerif.Form
