/-
Model of `swimos_runtime::timeout_coord` (C17): a shared `AtomicU8` bit-set `flags`, one bit per voter.
Atomic steps are the single-location operations of the code (`fetch_or`, `load`, `compare_exchange`);
an execution is any interleaving (`List Ev`) of the voters' atomic steps and polls of the receiver.
The arithmetic is the code's (`|`, `&`, `^`, `!` on `u8`, `inverse < TWO_VOTERS_LIM`).
-/
import SwimVerif.Model.Util
import SwimVerif.Generated.TimeoutConsts

namespace SwimVerif.Coord

inductive PC
  | idle
  | loaded (c : Nat)   -- inside the CAS loop of `rescind`, having read `current = c`
  | dead               -- dropped
  deriving DecidableEq, Repr

structure Voter where
  voted : Bool := false   -- `Voter.voted`
  pc : PC := .idle
  deriving Repr

structure St where
  n : Nat                 -- number of parties (2..8)
  flags : Nat             -- `Inner.flags`
  voters : List Voter
  woken : Bool := false   -- `waker.wake()` has been called
  parked : Bool := false  -- the receiver's waker is registered in the `AtomicWaker` (a poll returned `Pending`)
  wakes : Nat := 0        -- wake-ups delivered to a registered waker
  deriving Repr

def allMask (n : Nat) : Nat := 2 ^ n - 1          -- `NumParties::all()`; `u8::MAX` for 8
def flagOf (i : Nat) : Nat := 2 ^ i               -- `1 << i`
def inverseOf (n i : Nat) : Nat := allMask n ^^^ flagOf i
def notU8 (x : Nat) : Nat := (2 ^ 8 - 1) ^^^ x    -- `!x` on `u8`

def init (n : Nat) : St :=
  { n := n, flags := Generated.coordInit, voters := List.replicate n {} }

inductive Act | vote | rescind | cas | drop
  deriving DecidableEq, Repr

inductive Ev
  | act (i : Nat) (a : Act)
  | poll
  deriving Repr

inductive Res
  | unanimous | pending      -- `VoteResult`
  | ready | notReady         -- `Receiver::poll`
  | cont                     -- operation still in progress (after the `load` of the CAS loop)
  | unit                     -- drop
  | disabled                 -- event not enabled in this state (ignored)
  deriving DecidableEq, Repr

def setVoter (s : St) (i : Nat) (v : Voter) : St := { s with voters := s.voters.set i v }

/-- `Voter::vote`: one `fetch_or`. -/
def doVote (s : St) (i : Nat) (v : Voter) (pc : PC) : St × Res :=
  let before := s.flags
  let s1 := setVoter { s with flags := before ||| flagOf i } i { voted := true, pc := pc }
  if before = inverseOf s.n i then
    ({ s1 with woken := true, parked := false, wakes := s.wakes + (if s.parked then 1 else 0) }, .unanimous)
  else (s1, .pending)

def stepAct (s : St) (i : Nat) (a : Act) : St × Res :=
  match s.voters[i]? with
  | none => (s, .disabled)
  | some v =>
    match v.pc, a with
    | .idle, .vote => doVote s i v .idle
    | .idle, .rescind =>
      if v.voted then
        if inverseOf s.n i < Generated.twoVotersLim then
          -- two parties: a single `compare_exchange(flag, INIT)`
          if s.flags = flagOf i then
            (setVoter { s with flags := Generated.coordInit } i { v with voted := false }, .pending)
          else (s, .unanimous)
        else
          -- CAS loop, first atomic step: `load`
          if s.flags = (inverseOf s.n i ||| flagOf i) then (s, .unanimous)
          else (setVoter s i { v with pc := .loaded s.flags }, .cont)
      else (s, .pending)
    | .loaded c, .cas =>
      -- second atomic step: `compare_exchange(current, current & !flag)`
      if s.flags = c then
        (setVoter { s with flags := c &&& notU8 (flagOf i) } i { voted := false, pc := .idle }, .pending)
      else
        -- retry: `load` again
        if s.flags = (inverseOf s.n i ||| flagOf i) then (setVoter s i { v with pc := .idle }, .unanimous)
        else (setVoter s i { v with pc := .loaded s.flags }, .cont)
    | .idle, .drop =>
      if v.voted then (setVoter s i { v with pc := .dead }, .unit)
      else ((doVote s i v .dead).1, .unit)
    | _, _ => (s, .disabled)

def step (s : St) : Ev → St × Res
  | .act i a => stepAct s i a
  | .poll => if s.flags = allMask s.n then (s, .ready) else ({ s with parked := true }, .notReady)

def run (s : St) (evs : List Ev) : St := evs.foldl (fun s e => (step s e).1) s

def votedAt (s : St) (i : Nat) : Bool := match s.voters[i]? with | some v => v.voted | none => false

/-! ### Line protocol (single-threaded: an API call runs to completion) -/

def Res.render : Res → String
  | .unanimous => "unanimous" | .pending => "pending" | .ready => "ready" | .notReady => "notready"
  | .cont => "cont" | .unit => "unit" | .disabled => "disabled"

/-- Whole `rescind` call: `load` then `compare_exchange` (which cannot fail without interference). -/
def apiRescind (s : St) (i : Nat) : St × Res :=
  let r := stepAct s i .rescind
  if r.2 = .cont then stepAct r.1 i .cas else r

def apiLine0 (s : St) (line : String) : St × String :=
  match words line with
  | ["vote", i] => match i.toNat? with
    | some i => let r := stepAct s i .vote; (r.1, r.2.render)
    | none => (s, "bad-op")
  | ["rescind", i] => match i.toNat? with
    | some i => let r := apiRescind s i; (r.1, r.2.render)
    | none => (s, "bad-op")
  | ["drop", i] => match i.toNat? with
    | some i => let r := stepAct s i .drop; (r.1, r.2.render)
    | none => (s, "bad-op")
  | ["poll"] => let r := step s .poll; (r.1, r.2.render)
  | _ => (s, "bad-op")

/-- as `apiLine0`, with ` wake` appended when the operation woke the parked receiver -/
def apiLine (s : St) (line : String) : St × String :=
  let r := apiLine0 s line
  (r.1, if r.1.wakes > s.wakes then r.2 ++ " wake" else r.2)

/-! ### Observable-level monitor (sequential API traces) -/

structure Mon where
  n : Nat := 0
  out : List Bool := []      -- outstanding vote (or dropped) per party
  alive : List Bool := []
  reached : Bool := false    -- every party had an outstanding vote at the same moment
  parked : Bool := false     -- the receiver's last poll returned `Pending` and it has not been woken since
  deriving Repr

def Mon.all (m : Mon) : Bool := m.out.all id

def Mon.step0 (m : Mon) (line : String) (out : String) : Mon × Option String :=
  match words line with
  | ["new", n] => let n := n.toNat?.getD 0; ({ n := n, out := List.replicate n false, alive := List.replicate n true }, none)
  | ["vote", i] =>
    let i := i.toNat?.getD 0
    if m.alive.getD i false = false then (m, if out = "disabled" then none else some "op-on-dropped-voter") else
    let m1 := { m with out := m.out.set i true }
    let m1 := { m1 with reached := m1.reached || m1.all }
    if out = "unanimous" then (m1, if m1.all then none else some "vote-unanimous-but-not-all-voted")
    else if out = "pending" then (m1, none)
    else (m1, some "unexpected-result")
  | ["rescind", i] =>
    let i := i.toNat?.getD 0
    if m.alive.getD i false = false then (m, if out = "disabled" then none else some "op-on-dropped-voter") else
    if out = "unanimous" then (m, if m.reached then none else some "rescind-unanimous-but-not-all-voted")
    else if out = "pending" then
      if m.reached then (m, some "unanimity-undone-by-rescind")
      else ({ m with out := m.out.set i false }, none)
    else (m, some "unexpected-result")
  | ["drop", i] =>
    let i := i.toNat?.getD 0
    if m.alive.getD i false = false then (m, if out = "disabled" then none else some "op-on-dropped-voter") else
    let m1 := { m with out := m.out.set i true, alive := m.alive.set i false }
    ({ m1 with reached := m1.reached || m1.all }, if out = "unit" then none else some "unexpected-result")
  | ["poll"] =>
    if out = "ready" then (m, if m.reached then none else some "receiver-ready-without-unanimity")
    else if out = "notready" then (m, if m.reached then some "receiver-not-ready-though-all-voted-or-dropped" else none)
    else (m, some "unexpected-result")
  | _ => (m, some "unparsable")

/-- The full monitor: `Mon.step0` on the result, plus the wake-up discipline (` wake` suffix = the operation woke the
waker registered by the receiver's last pending poll). -/
def Mon.step (m : Mon) (line : String) (out : String) : Mon × Option String :=
  let ws := words out
  let res := ws.headD ""
  let wk := ws.contains "wake"
  if ws.contains "stale-waker-woken" then (m, some "stale-waker-woken") else
  let r := Mon.step0 m line res
  let m1 := r.1
  let becameAll := m1.reached && !m.reached
  let m2 := if res = "notready" then { m1 with parked := true } else if wk then { m1 with parked := false } else m1
  match r.2 with
  | some e => (m2, some e)
  | none =>
    if (words line).head? = some "new" then ({ m1 with parked := false }, none)
    else if wk && !m.parked then (m2, some "wake-without-parked-receiver")
    else if wk && !becameAll then (m2, some "wake-without-unanimity")
    else if becameAll && m.parked && !wk then (m2, some "lost-wakeup-receiver-parked")
    else (m2, none)

end SwimVerif.Coord
