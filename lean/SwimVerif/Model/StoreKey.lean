/-
Key layout of `swimos_rocks_store` (C13): `StoreKey::write_into`, `map_ubound_bytes`, the bytewise order RocksDB
(default comparator) and `BTreeMap<Vec<u8>, _>` use, and an ordered byte-key map with the RocksDB operations the store
calls (`put/get/delete/delete_range/seek + prefix_same_as_start`).  All tags and widths come from
`Generated/StoreConsts.lean` (re-read from the sources on every run).
-/
import SwimVerif.Model.Util
import SwimVerif.Generated.StoreConsts

namespace SwimVerif.Store
open SwimVerif.Generated.Store

abbrev Bytes := List Nat

/-- `2^64`: lane ids are `u64`. -/
def u64 : Nat := 18446744073709551616

/-- Lexicographic `<` on byte strings: RocksDB's `BytewiseComparator` and `Ord for Vec<u8>`. -/
def blt : Bytes → Bytes → Bool
  | [], [] => false
  | [], _ :: _ => true
  | _ :: _, [] => false
  | a :: as, b :: bs => decide (a < b) || (a == b && blt as bs)

def ble (a b : Bytes) : Bool := !blt b a

/-- `u64::to_le_bytes` (`encode_fixed_light`), for any width. -/
def leBytes : Nat → Nat → Bytes
  | 0, _ => []
  | w + 1, n => (n % 256) :: leBytes w (n / 256)

/-- `StoreKey` (`server/mod.rs`). -/
inductive StoreKey
  | map (laneId : Nat) (key : Option Bytes)
  | value (laneId : Nat)
  deriving DecidableEq, Repr

/-- `StoreKey::write_into` / `serialize_as_bytes`. -/
def StoreKey.ser : StoreKey → Bytes
  | .map id none => mapTag :: leBytes idLen id
  | .map id (some k) => mapTag :: (leBytes idLen id ++ keyTag :: (leBytes sizeLen k.length ++ k))
  | .value id => valTag :: leBytes idLen id

/-- `StoreKey::map_ubound_bytes`. -/
def mapUbound (id : Nat) : Bytes := mapTag :: (leBytes idLen id ++ [uboundTag])

/-! ### Association lists (HashMap-like: order irrelevant, never iterated) -/

def aget {κ α : Type} [DecidableEq κ] : List (κ × α) → κ → Option α
  | [], _ => none
  | (a, b) :: t, k => if k = a then some b else aget t k

def adel {κ α : Type} [DecidableEq κ] (l : List (κ × α)) (k : κ) : List (κ × α) :=
  l.filter (fun e => !decide (e.1 = k))

def aset {κ α : Type} [DecidableEq κ] (l : List (κ × α)) (k : κ) (v : α) : List (κ × α) :=
  (k, v) :: adel l k

/-! ### Ordered byte map (one RocksDB column family; one `BTreeMap<Vec<u8>, Vec<u8>>`) -/

abbrev BMap := List (Bytes × Bytes)

/-- `put_cf` / `BTreeMap::insert`: sorted insert, replacing an equal key. -/
def bput : BMap → Bytes → Bytes → BMap
  | [], k, v => [(k, v)]
  | (a, b) :: t, k, v =>
    if blt k a then (k, v) :: (a, b) :: t
    else if k = a then (k, v) :: t
    else (a, b) :: bput t k v

/-- `delete_range_cf(start, ubound)`: removes every key in `[start, ubound)`. -/
def inRange (a b k : Bytes) : Bool := ble a k && blt k b

def bdelRange (m : BMap) (a b : Bytes) : BMap := m.filter (fun e => !inRange a b e.1)

/-- `raw_iterator_cf_opt` with `prefix_same_as_start(true)` and a fixed-width prefix extractor of `w` bytes,
after `seek(target)`: from the first key `≥ target`, while the key has the same `w`-byte prefix as `target`. -/
def bseekPrefix (m : BMap) (w : Nat) (target : Bytes) : BMap :=
  (m.dropWhile (fun e => blt e.1 target)).takeWhile (fun e => e.1.take w == target.take w)

end SwimVerif.Store
