/-
C11 (pure part): the WARP envelope text writer and the envelope header reader.

Writer  = `swimos_remote::task::envelopes::ReconEncoder` (`write_header`, `write_lit`, `put_body`) with
          `swimos_model::identifier::is_identifier` and `swimos_model::literal::{escape_if_needed, escape_text,
          needs_escape}`.
Reader  = `swimos_messages::warp::peel_envelope_header_str` = `extract_header_str(_, EnvelopeHeaderPeeler)`:
          the nom combinators of `recon_parser/record/matcher/mod.rs` (`peel_message`, `peel_tag_attr`, `match_tag`,
          `peel_items`, `peel_item_with_sep`, `peel_final_item`, `peel_item`, `peel_slot_item`, `slot_div`, `value`,
          `name`), `tokens.rs` (`identifier`, `string_literal`, `unescape`, `resolve_escapes`), `parse_text_token`,
          `EnvelopeHeaderPeeler::{tag, feed_header_slot, feed_header_value, feed_header_extant, done}`, `with_path`.

Strings are `List Char` (Unicode scalar values, exactly Rust's `char`).  The reader is modelled for headers whose
slot values are string literals or identifiers (what the writer produces and what the hand-made frames of the
harness contain); a value that starts a number, blob or record and the `rate`/`prio` slots give `unsup` (the harness
never feeds such frames to the model comparison).  Character classes, escape tables and all tag/slot/header
constants come from `Generated/EnvelopeTables.lean`.
-/
import SwimVerif.Model.Util
import SwimVerif.Generated.EnvelopeTables

namespace SwimVerif.Envelope
open SwimVerif.Generated.Env

abbrev Str := List Char

/-! ## Character classes (`identifier.rs`) -/

def inRanges (rs : List (Nat × Nat)) (n : Nat) : Bool := rs.any fun r => decide (r.1 ≤ n) && decide (n ≤ r.2)

/-- `is_identifier_start` -/
def isIdentStart (c : Char) : Bool := inRanges identStartRanges c.toNat
/-- `is_identifier_char` -/
def isIdentChar (c : Char) : Bool := isIdentStart c || inRanges identExtraRanges c.toNat

/-- `is_identifier` -/
def isIdentifier (s : Str) : Bool :=
  if identKeywords.contains s then false else
  match s with
  | [] => false
  | c :: cs => isIdentStart c && cs.all isIdentChar

/-! ## Writer (`literal.rs`, `envelopes/mod.rs`) -/

/-- `DIGITS[n]` -/
def hexDigitC (n : Nat) : Char := Char.ofNat (hexDigits.getD n 0)

/-- one iteration of the loop of `escape_text` -/
def escapeChar (c : Char) : Str :=
  match escTable.lookup c.toNat with
  | some e => ['\\', Char.ofNat e]
  | none =>
    if c.toNat < escapeBelow then
      ['\\', 'u', hexDigitC (c.toNat >>> 12 &&& 15), hexDigitC (c.toNat >>> 8 &&& 15),
        hexDigitC (c.toNat >>> 4 &&& 15), hexDigitC (c.toNat &&& 15)]
    else [c]

/-- `escape_text` -/
def escapeText (s : Str) : Str := s.flatMap escapeChar

def needsEscapeChar (c : Char) : Bool := decide (c.toNat < needsEscapeBelow) || needsEscapeExtra.contains c.toNat
/-- `needs_escape` -/
def needsEscape (s : Str) : Bool := s.any needsEscapeChar
/-- `escape_if_needed` -/
def escapeIfNeeded (s : Str) : Str := if needsEscape s then escapeText s else s

inductive Kind | link | sync | unlink | command | linked | synced | unlinked | event
  deriving DecidableEq, Repr

/-- A request or notification as handed to the encoder.  `body = []` stands for "no body" (`Command`/`Event` with
an empty body and `Unlinked(None)`/`Unlinked(Some(empty))` are all written without a body); the kinds without a
payload in the Rust types (`hasBody = false`) ignore the field. -/
structure Msg where
  kind : Kind
  node : Str
  lane : Str
  body : Str
  deriving DecidableEq, Repr

def hasBody : Kind → Bool
  | .command | .unlinked | .event => true
  | _ => false

/-- `LINK_HEADER` … `EVENT_HEADER` -/
def wHeader : Kind → Str
  | .link => wHeader_link | .sync => wHeader_sync | .unlink => wHeader_unlink | .command => wHeader_command
  | .linked => wHeader_linked | .synced => wHeader_synced | .unlinked => wHeader_unlinked | .event => wHeader_event

/-- `write_lit` -/
def writeLit (lit : Str) (ident : Bool) : Str := if ident then lit else '"' :: (lit ++ ['"'])

/-- the literal `write_header` writes for a node or lane name -/
def lit (s : Str) : Str := writeLit (escapeIfNeeded s) (isIdentifier s)

/-- `write_header` -/
def writeHeader (hdr node lane : Str) : Str :=
  hdr ++ (wNodeTag ++ (lit node ++ (',' :: (wLaneTag ++ (lit lane ++ [')'])))))

/-- `put_body` -/
def putBody (body : Str) : Str := if body.head? = some '@' then body else ' ' :: body

/-- `<ReconEncoder as Encoder<BytesRequestMessage / BytesResponseMessage>>::encode` -/
def encode (m : Msg) : Str :=
  writeHeader (wHeader m.kind) m.node m.lane ++ (if hasBody m.kind && !m.body.isEmpty then putBody m.body else [])

/-- `<ReconEncoder as Encoder<NoSuchAgent>>::encode` -/
def encodeNoSuchAgent (node : Str) (lane : Option Str) : Str :=
  writeHeader wHeader_unlinked node (lane.getD []) ++ putBody nodeNotFoundTag

/-! ## Reader -/

/-- nom `space0` -/
def isSpace (c : Char) : Bool := c == ' ' || c == '\t'
/-- nom `multispace0` -/
def isMultispace (c : Char) : Bool := c == ' ' || c == '\t' || c == '\r' || c == '\n'
def skipSpace (s : Str) : Str := s.dropWhile isSpace
def skipMulti (s : Str) : Str := s.dropWhile isMultispace

/-- `tokens::complete::identifier`: (identifier, rest) -/
def lexIdent : Str → Option (Str × Str)
  | [] => none
  | c :: cs => if isIdentStart c then some (c :: cs.takeWhile isIdentChar, cs.dropWhile isIdentChar) else none

/-- `c.is_ascii_hexdigit()` / `c.to_digit(16)` -/
def hexDigitVal (c : Char) : Option Nat :=
  if 48 ≤ c.toNat ∧ c.toNat ≤ 57 then some (c.toNat - 48)
  else if 97 ≤ c.toNat ∧ c.toNat ≤ 102 then some (c.toNat - 87)
  else if 65 ≤ c.toNat ∧ c.toNat ≤ 70 then some (c.toNat - 55)
  else none

/-- which `unwrap()`/`finish()` fires -/
inductive Cause
  | charTryFrom        -- `char::try_from(..).unwrap()` in `tokens.rs::unescape`
  | finishIncomplete   -- `finish()` on `Err::Incomplete` in `parse_text_token`
  deriving DecidableEq, Repr

/-- Outcome of a sub-parser: `fail` = nom `Err::Error`, `panic` = the Rust code panics, `unsup` = outside the
modelled fragment. -/
inductive R (α : Type)
  | ok (a : α)
  | fail
  | panic (c : Cause)
  | unsup
  deriving DecidableEq, Repr

/-- `EscapeState` without `Failed` (`Failed` is absorbing, emits nothing and makes the result `Err`). -/
inductive EscSt
  | none | esc | u0 | u1 (a : Nat) | u2 (a b : Nat) | u3 (a b c : Nat)
  deriving DecidableEq, Repr

/-- `char::try_from(u32)` for a value below 2^16 -/
def validScalar (n : Nat) : Bool := decide (n < 0xd800) || decide (0xdfff < n)

inductive StepRes
  | next (st : EscSt) (out : Option Char)
  | failed
  | panic (c : Cause)
  deriving DecidableEq, Repr

/-- one step of the `scan` closure of `unescape` -/
def unescStep (st : EscSt) (c : Char) : StepRes :=
  match st with
  | .none => if c = '\\' then .next .esc none else .next .none (some c)
  | .esc =>
    match unescTable.lookup c.toNat with
    | some r => .next .none (some (Char.ofNat r))
    | none => if c = 'u' then .next .u0 none else .failed
  | .u0 =>
    if c = 'u' then .next .u0 none else
    match hexDigitVal c with
    | some d => .next (.u1 d) none
    | none => .failed
  | .u1 a =>
    match hexDigitVal c with
    | some d => .next (.u2 a d) none
    | none => .failed
  | .u2 a b =>
    match hexDigitVal c with
    | some d => .next (.u3 a b d) none
    | none => .failed
  | .u3 a b d =>
    match hexDigitVal c with
    | some e =>
      if validScalar (a <<< 12 ||| b <<< 8 ||| d <<< 4 ||| e) then
        .next .none (some (Char.ofNat (a <<< 12 ||| b <<< 8 ||| d <<< 4 ||| e)))
      else if unescSurrogatePanics then .panic .charTryFrom   -- `char::try_from(..).unwrap()`
      else .failed
    | none => .failed

/-- `unescape` from a given automaton state (an escape cut short by the end of the literal is silently dropped,
as in the code) -/
def unescRun : EscSt → Str → R Str
  | _, [] => .ok []
  | st, c :: cs =>
    match unescStep st c with
    | .failed => .fail
    | .panic c => .panic c
    | .next st' (some o) =>
      match unescRun st' cs with
      | .ok r => .ok (o :: r)
      | e => e
    | .next st' none => unescRun st' cs

/-- `resolve_escapes` -/
def resolveEscapes (raw : Str) : R Str := if raw.contains '\\' then unescRun .none raw else .ok raw

/-- the `many0_count(alt((satisfy(c != '\\' && c != '"'), escape)))` + closing quote of `string_literal`:
(raw content, rest after the closing quote); `none` = the input ended first (`Incomplete`). The flag says that
the previous character was an unconsumed backslash. -/
def scanStr : Bool → Str → Option (Str × Str)
  | _, [] => none
  | true, c :: cs => (scanStr false cs).map fun r => (c :: r.1, r.2)
  | false, c :: cs =>
    if c = '"' then some ([], cs)
    else if c = '\\' then (scanStr true cs).map fun r => (c :: r.1, r.2)
    else (scanStr false cs).map fun r => (c :: r.1, r.2)

/-- `complete(string_literal)`: (raw content, unescaped text, rest) -/
def lexString : Str → R (Str × Str × Str)
  | [] => .fail
  | c :: cs =>
    if c = '"' then
      match scanStr false cs with
      | some r =>
        match resolveEscapes r.1 with
        | .ok u => .ok (r.1, u, r.2)
        | .fail => .fail
        | .panic c => .panic c
        | .unsup => .unsup
      | none => .fail
    else .fail

/-- `name` / `attr_name`: identifier or string literal, as text -/
def pName (s : Str) : R (Str × Str) :=
  match lexIdent s with
  | some r => .ok r
  | none =>
    match lexString s with
    | .ok r => .ok (r.2.1, r.2.2)
    | .fail => .fail
    | .panic c => .panic c
    | .unsup => .unsup

/-- first characters of the `value` alternatives that are outside the modelled fragment (numbers, blobs, records) -/
def startsOther (c : Char) : Bool :=
  (decide (48 ≤ c.toNat) && decide (c.toNat ≤ 57)) || c == '-' || c == '+' || c == '.' || c == '%' || c == '@' || c == '{'

/-- `recognize(value)`, restricted to string literals and identifiers: (recognised text, rest) -/
def pValue (s : Str) : R (Str × Str) :=
  match s with
  | [] => .fail
  | c :: _ =>
    if c = '"' then
      match lexString s with
      | .ok r => .ok ('"' :: (r.1 ++ ['"']), r.2.2)
      | .fail => .fail
      | .panic c => .panic c
      | .unsup => .unsup
    else
      match lexIdent s with
      | some r => .ok r
      | none => if startsOther c then .unsup else .fail

/-- `slot_div` -/
def slotDiv (s : Str) : Option Str :=
  match skipMulti s with
  | [] => none
  | c :: r => if c = ':' then some (skipMulti r) else none

inductive Item
  | slot (name value rest : Str)
  | valueItem (rest : Str)      -- always ends in `feed_header_value` = error for this peeler
  | noItem
  | panic (c : Cause)
  | unsup
  deriving DecidableEq, Repr

/-- `opt(peel_item)` with `peel_item = alt((peel_slot_item, peel_value_item))` -/
def pItem (s : Str) : Item :=
  match pName s with
  | .ok nr =>
    match slotDiv nr.2 with
    | some r2 =>
      match pValue r2 with
      | .ok vr => .slot nr.1 vr.1 vr.2
      | .fail => .slot nr.1 [] r2
      | .panic c => .panic c
      | .unsup => .unsup
    | none => .valueItem nr.2
  | .fail =>
    match pValue s with
    | .ok vr => .valueItem vr.2
    | .fail => .noItem
    | .panic c => .panic c
    | .unsup => .unsup
  | .panic c => .panic c
  | .unsup => .unsup

/-- the fields of `EnvelopeHeaderPeeler` that matter here (value spans as read) -/
structure PSt where
  node : Option Str := none
  lane : Option Str := none
  deriving DecidableEq, Repr

/-- `apply_item` for a slot = `feed_header_slot` on the accumulated `Result<P, P::Error>` (`none` = a stored
error); `none` as result = outside the fragment (`rate`/`prio`) -/
def applySlot (acc : Option PSt) (name value : Str) : Option (Option PSt) :=
  if name = rSlot_rate ∨ name = rSlot_prio then none
  else
    match acc with
    | none => some none
    | some p =>
      if name = rSlot_node then some (some { p with node := some value })
      else if name = rSlot_lane then some (some { p with lane := some value })
      else some none

inductive IRes
  | ok (p : PSt) (afterSep : Bool) (rest : Str)
  | fail
  | panic (c : Cause)
  | unsup
  deriving DecidableEq, Repr

/-- `map_res(sequence_with_res, ..)`: a stored error fails the bracketed branch -/
def loopEnd (acc : Option PSt) (afterSep : Bool) (s : Str) : IRes :=
  match acc with
  | some p => .ok p afterSep s
  | none => .fail

/-- `fold_many0(peel_item_with_sep, ..)` of `peel_items`: stops (keeping the input position) when neither
alternative of `peel_item_with_sep` applies; an error of the peeler is stored and the fold goes on. -/
def itemsLoop : Nat → Option PSt → Bool → Str → IRes
  | 0, _, _, _ => .unsup
  | fuel + 1, acc, afterSep, s =>
    match pItem (skipMulti s) with
    | .unsup => .unsup
    | .panic c => .panic c
    | .noItem =>
      match skipSpace (skipMulti s) with
      | [] => loopEnd acc afterSep s
      | c :: r' => if c = ',' ∨ c = ';' then itemsLoop fuel none true r' else loopEnd acc afterSep s
    | .valueItem r =>
      match skipSpace r with
      | [] => loopEnd acc afterSep s
      | c :: r' =>
        if c = ',' ∨ c = ';' then itemsLoop fuel none true r'
        else if c = '\r' ∨ c = '\n' then itemsLoop fuel none false r'
        else loopEnd acc afterSep s
    | .slot nm v r =>
      match skipSpace r with
      | [] => loopEnd acc afterSep s
      | c :: r' =>
        if c = ',' ∨ c = ';' then
          match applySlot acc nm v with
          | some acc' => itemsLoop fuel acc' true r'
          | none => .unsup
        else if c = '\r' ∨ c = '\n' then
          match applySlot acc nm v with
          | some acc' => itemsLoop fuel acc' false r'
          | none => .unsup
        else loopEnd acc afterSep s

inductive FRes | ok (p : PSt) (rest : Str) | fail | panic (c : Cause) | unsup
  deriving DecidableEq, Repr

/-- `peel_final_item` -/
def finalItem (p : PSt) (afterSep : Bool) (s : Str) : FRes :=
  match pItem (skipMulti s) with
  | .slot nm v r =>
    match applySlot (some p) nm v with
    | some (some p') => .ok p' r
    | some none => .fail
    | none => .unsup
  | .valueItem _ => .fail
  | .panic c => .panic c
  | .unsup => .unsup
  | .noItem => if afterSep then .fail else .ok p (skipMulti s)

/-- `delimited(char('('), peel_items(p), char(')'))` -/
def pParen (s : Str) : FRes :=
  match s with
  | [] => .fail
  | c :: r =>
    if c = '(' then
      match itemsLoop (r.length + 2) (some {}) true r with
      | .ok p a r1 =>
        match finalItem p a r1 with
        | .ok p' r2 =>
          match skipMulti r2 with
          | [] => .fail
          | d :: r3 => if d = ')' then .ok p' r3 else .fail
        | e => e
      | .fail => .fail
      | .panic c => .panic c
      | .unsup => .unsup
    else .fail

inductive RKind | auth | deauth | k (k : Kind)
  deriving DecidableEq, Repr

/-- `EnvelopeHeaderPeeler::tag` -/
def tagKind (name : Str) : Option RKind :=
  if name = rTag_auth then some .auth
  else if name = rTag_deauth then some .deauth
  else if name = rTag_link then some (.k .link)
  else if name = rTag_sync then some (.k .sync)
  else if name = rTag_command then some (.k .command)
  else if name = rTag_unlink then some (.k .unlink)
  else if name = rTag_linked then some (.k .linked)
  else if name = rTag_synced then some (.k .synced)
  else if name = rTag_event then some (.k .event)
  else if name = rTag_unlinked then some (.k .unlinked)
  else none

inductive TT | ok (s : Str) | err | panic (c : Cause)
  deriving DecidableEq, Repr

/-- `parse_text_token` followed by `finish()` (which panics on `Incomplete`: the *streaming* `string_literal`
asked for more input) -/
def parseTextToken (span : Str) : TT :=
  match lexIdent (skipSpace span) with
  | some r => if skipSpace r.2 = [] then .ok r.1 else .err
  | none =>
    match skipSpace span with
    | [] => if textTokenIncompletePanics then .panic .finishIncomplete else .err
    | c :: cs =>
      if c = '"' then
        match scanStr false cs with
        | none => if textTokenIncompletePanics then .panic .finishIncomplete else .err
        | some r =>
          match resolveEscapes r.1 with
          | .ok u => if skipSpace r.2 = [] then .ok u else .err
          | .panic c => .panic c
          | _ => .err
      else .err

/-- result of `peel_envelope_header_str` (rate/prio are not modelled) -/
inductive Peeled
  | env (kind : Kind) (node lane body : Str)
  | auth
  | deauth
  | err
  | panic (c : Cause)
  | unsup
  deriving DecidableEq, Repr

/-- `EnvelopeHeaderPeeler::done` + `with_path` -/
def done (k : RKind) (p : PSt) (body : Str) : Peeled :=
  match k with
  | .auth => .auth
  | .deauth => .deauth
  | .k kind =>
    match p.node, p.lane with
    | some n, some l =>
      match parseTextToken n with
      | .panic c => .panic c
      | .err => .err
      | .ok n' =>
        match parseTextToken l with
        | .panic c => .panic c
        | .err => .err
        | .ok l' => .env kind n' l' body
    | _, _ => .err

/-- `peel_envelope_header_str` -/
def peel (s : Str) : Peeled :=
  match s with
  | [] => .err
  | c :: r =>
    if c = '@' then
      match pName r with
      | .ok nr =>
        match tagKind nr.1 with
        | some k =>
          match pParen nr.2 with
          | .ok p r2 => done k p (skipSpace r2)
          | .fail => done k {} (skipSpace nr.2)
          | .panic c => .panic c
          | .unsup => .unsup
        | none => .err
      | .fail => .err
      | .panic c => .panic c
      | .unsup => .unsup
    else .err

/-- What the reader is expected to return for a message. -/
def rawOf (m : Msg) : Peeled := .env m.kind m.node m.lane (if hasBody m.kind then m.body else [])

/-- The bodies the round trip is claimed for: the payload-less kinds carry none (true by typing in Rust), and a
body does not begin with a space or a tab (`preceded(space0, rest)` strips them). -/
def BodyWF (m : Msg) : Prop :=
  (hasBody m.kind = false → m.body = []) ∧ (∀ c, m.body.head? = some c → isSpace c = false)

instance (m : Msg) : Decidable (BodyWF m) :=
  decidable_of_iff ((hasBody m.kind = false → m.body = []) ∧ m.body.head?.all (fun c => !isSpace c) = true) (by
    unfold BodyWF
    cases m.body.head? <;> simp)

/-! ## Line protocol

`rt <kind> <node-hex> <lane-hex|none> <body-hex|none>`  (hex of the UTF-8 bytes; `nosuch` = `NoSuchAgent`)
     → `<peeled> <frame-hex>`
`peel <frame-hex>` → `<peeled>`
`peeled` = `env <kind> <node-hex> <lane-hex> <body-hex>` | `auth` | `deauth` | `err` | `panic` | `unsup`
-/

def strOfHex (h : String) : Option Str := do
  let bs ← bytesOfHex h
  let s ← String.fromUTF8? (ByteArray.mk (bs.map UInt8.ofNat).toArray)
  pure s.toList

def hexOfStr (s : Str) : String := hexOfBytes ((String.ofList s).toUTF8.toList.map UInt8.toNat)

def Kind.name : Kind → String
  | .link => "link" | .sync => "sync" | .unlink => "unlink" | .command => "command"
  | .linked => "linked" | .synced => "synced" | .unlinked => "unlinked" | .event => "event"

def Kind.parse : String → Option Kind
  | "link" => some .link | "sync" => some .sync | "unlink" => some .unlink | "command" => some .command
  | "linked" => some .linked | "synced" => some .synced | "unlinked" => some .unlinked | "event" => some .event
  | _ => none

def Peeled.render : Peeled → String
  | .env k n l b => s!"env {k.name} {hexOfStr n} {hexOfStr l} {hexOfStr b}"
  | .auth => "auth" | .deauth => "deauth" | .err => "err" | .unsup => "unsup"
  | .panic .charTryFrom => "panic char-try-from"
  | .panic .finishIncomplete => "panic finish-incomplete"

def Peeled.parse : List String → Option Peeled
  | ["env", k, n, l, b] => do
    let k ← Kind.parse k; let n ← strOfHex n; let l ← strOfHex l; let b ← strOfHex b
    pure (.env k n l b)
  | ["auth"] => some .auth | ["deauth"] => some .deauth | ["err"] => some .err
  | ["panic", "char-try-from"] => some (.panic .charTryFrom)
  | ["panic", "finish-incomplete"] => some (.panic .finishIncomplete)
  | ["unsup"] => some .unsup
  | _ => none

inductive Op
  | rt (m : Msg)
  | nosuch (node : Str) (lane : Option Str)
  | peel (frame : Str)
  deriving Repr

def optHex (h : String) : Option (Option Str) := if h == "none" then some none else (strOfHex h).map some

def parseOp (line : String) : Option Op :=
  match words line with
  | ["rt", "nosuch", n, l, _] => do
    let n ← strOfHex n; let l ← optHex l
    pure (.nosuch n l)
  | ["rt", k, n, l, b] => do
    let k ← Kind.parse k; let n ← strOfHex n; let l ← strOfHex l; let b ← optHex b
    pure (.rt ⟨k, n, l, b.getD []⟩)
  | ["peel", f] => (strOfHex f).map .peel
  | _ => none

def runOp : Op → String
  | .rt m => s!"{(peel (encode m)).render} {hexOfStr (encode m)}"
  | .nosuch n l => s!"{(peel (encodeNoSuchAgent n l)).render} {hexOfStr (encodeNoSuchAgent n l)}"
  | .peel f => (peel f).render

/-! ## Monitor: decides the property on the implementation's trace alone -/

def stripSpace (s : Str) : Str := s.dropWhile isSpace

/-- Names an observed reader panic by the `unwrap`/`finish` that fired (reported by the harness). -/
def panicReason : List String → Option String
  | ["panic", "char-try-from"] => some "reader-panic-surrogate-escape"
  | ["panic", "finish-incomplete"] => some "reader-panic-empty-name"
  | "panic" :: _ => some "reader-panic"
  | _ => none

/-- Violation reason, if any, of one observed `rt`/`peel` line. -/
def monStep (op : Op) (out : String) : Option String :=
  match op with
  | .peel _ =>
    match panicReason (words out) with
    | some r => some r
    | none =>
      match Peeled.parse (words out) with
      | some _ => none
      | none => some "unparsable"
  | .rt m =>
    match panicReason (words out).dropLast with
    | some r => some ("rt-" ++ r)
    | none =>
      match (words out).dropLast |> Peeled.parse with
      | some (.env k n l b) =>
        if k ≠ m.kind then some "rt-kind-changed"
        else if n ≠ m.node then some "rt-node-changed"
        else if l ≠ m.lane then some "rt-lane-changed"
        else if b ≠ stripSpace (if hasBody m.kind then m.body else []) then some "rt-body-changed"
        else none
      | some _ => some "rt-not-decoded"
      | none => some "unparsable"
  | .nosuch node lane =>
    match panicReason (words out).dropLast with
    | some r => some ("rt-" ++ r)
    | none =>
      match (words out).dropLast |> Peeled.parse with
      | some (.env k n l b) =>
        if k ≠ .unlinked then some "rt-kind-changed"
        else if n ≠ node then some "rt-node-changed"
        else if l ≠ lane.getD [] then some "rt-lane-changed"
        else if b ≠ nodeNotFoundTag then some "rt-body-changed"
        else none
      | some _ => some "rt-not-decoded"
      | none => some "unparsable"

end SwimVerif.Envelope
