/-
C15 line protocol and observable-level monitor over `Model/ReconEq.lean` (see `harness/core/src/bin/sv-c15.rs`).

Ops (texts are hex of UTF-8, `-` = empty):
  ev <t>            ;; `evs=<tok,..|-> <end|err|panic>`
  val <t>           ;; `val=ok:<venc>` | `val=err` | `val=panic`
  hash <t>          ;; `calls=<call,..|->` | `calls=panic`
  pair <a> <b>      ;; `cmp=<0|1|panic> rcmp=.. heq=.. va=<ok|err|panic> vb=.. veq=<0|1|->`
  keys <t1> .. <tn> ;; `entries=<i>:<j>,..`   (monitor only)
Any op with a text outside the float fragment is answered `out-of-fragment` by harness and model alike.
-/
import SwimVerif.Model.ReconEq

namespace SwimVerif.ReconEq
open SwimVerif.Recon

/-! ## rendering -/

def Num.tok : Num → String
  | .int n => "Ni:" ++ toString n
  | .uint n => "Nu:" ++ toString n
  | .bigint n => "Nb:" ++ toString n
  | .biguint n => "Nc:" ++ toString n
  | .float f => f.enc

def Event.tok : Event → String
  | .extant => "X"
  | .text s => "T" ++ hexOfChars s
  | .num n => n.tok
  | .bool b => if b then "B1" else "B0"
  | .blob bs => "D" ++ hexOfBytes bs
  | .startAttr n => "A" ++ hexOfChars n
  | .endAttr => "EA"
  | .startBody => "SB"
  | .slot => "SL"
  | .endRecord => "ER"

def Term.tok : Term → String
  | .fin => "end"
  | .err => "err"
  | .panic => "panic"
  | .fuel => "fuel"

def joinOrDash (xs : List String) : String := if xs.isEmpty then "-" else ",".intercalate xs

def evOut (inp : List Char) : String :=
  let e := events inp
  "evs=" ++ joinOrDash (e.1.map Event.tok) ++ " " ++ e.2.tok

def valOut (inp : List Char) : String :=
  match parseValue inp with
  | some v => "val=ok:" ++ venc v
  | none => "val=err"

def HTok.tok : HTok → String
  | .i n => "i" ++ toString n
  | .u n => "u" ++ toString n
  | .w n => "w" ++ toString n
  | .z n => "z" ++ toString n
  | .q f => "q" ++ (f.enc.drop 1).toString
  | .b bs => "b" ++ hexOfBytes bs

def hashOut (inp : List Char) : String := "calls=" ++ joinOrDash ((hashCalls inp).map HTok.tok)

def pairOut (a b : List Char) : String :=
  let ra := run a
  let rb := run b
  let va := parseOf ra
  let vb := parseOf rb
  let st (v : Option Value) : String := if v.isSome then "ok" else "err"
  "cmp=" ++ boolBit (compareOf ra rb (a == b)) ++ " rcmp=" ++ boolBit (compareOf rb ra (b == a)) ++
  " heq=" ++ boolBit (hashOf ra a == hashOf rb b) ++ " va=" ++ st va ++ " vb=" ++ st vb ++
  " veq=" ++ (match va, vb with
    | some x, some y => boolBit (veq x y)
    | _, _ => "-")

def textsOf (hs : List String) : Option (List (List Char)) := hs.mapM charsOfHex

/-- Model output for one op line. -/
def apiLine (line : String) : String :=
  match words line with
  | "keys" :: _ => "skipped"
  | op :: hs =>
    (match textsOf hs with
     | none => "bad-op"
     | some ts =>
       if ts.any (fun t => !inFloatFragment t) then "out-of-fragment" else
       match op, ts with
       | "ev", [t] => evOut t
       | "val", [t] => valOut t
       | "hash", [t] => hashOut t
       | "pair", [a, b] => pairOut a b
       | _, _ => "bad-op")
  | [] => "bad-op"

/-! ## monitor -/

def field (out : String) (k : String) : Option String :=
  (words out).findSome? fun w => if w.startsWith (k ++ "=") then some (w.drop (k.length + 1)).toString else none

/-- `-0.0` written as `0.0` in a sequence of hasher calls. -/
def zeroNorm (h : List HTok) : List HTok :=
  h.map fun t => match t with
    | .q f => .q (fltCanon f)
    | x => x

/-- Why two texts that compare equal hash differently (classified on the model; narrow on purpose):
`negzero` — the call sequences differ only in the sign of a float zero (`NumericValue::hash` writes `to_bits`);
`implicit-scan` — both texts have the same normal form but `is_implicit_record`'s scan of the text after `@name(`
  mis-judged one of them (new-line separated items, delimiters inside string literals);
anything else is `unclassified`. -/
def hashDiffClass (a b : List Char) : String :=
  let ha := zeroNorm (hashCalls a)
  let hb := zeroNorm (hashCalls b)
  if hashCalls a == hashCalls b then "unclassified"     -- the model sees no difference: not a known class
  else if ha == hb then "negzero"
  else
    match parseValue a, parseValue b with
    | some va, some vb =>
      if hnorm va == hnorm vb && (ha != hnorm va || hb != hnorm vb) then "implicit-scan" else "unclassified"
    | _, _ => "unclassified"

/-- Why two texts of different values compare equal (classified on the model; narrow on purpose):
`same-leaves` — both texts are valid single values, their event streams differ only in where `StartBody`/`EndRecord`
  stand, and the comparator as modelled gives the same answer: it skips braces wherever the streams disagree and its
  size bookkeeping (`ValueType::len` is additive) cannot tell `{{1,1}}` from `{1,{1}}` (finding C15-N3).
  `C15_merge_class_exact` proves that this is every merge the modelled comparator can make;
anything else (a merge the modelled code would not make) is `other`. -/
def mergeClass (a b : List Char) : String :=
  if (events a).2 = .fin && (events b).2 = .fin && singleB (events a).1 && singleB (events b).1 &&
     evsAgree (leavesOf (events a).1) (leavesOf (events b).1) && compareRecon a b then "same-leaves" else "other"

/-- The property on one `pair` line, from the implementation's answers alone. -/
def pairVerdict (ha hb : String) (out : String) : Option String :=
  if out == "out-of-fragment" then none else
  match field out "cmp", field out "rcmp", field out "heq", field out "va", field out "vb", field out "veq" with
  | some cmp, some rcmp, some heq, some va, some vb, some ve =>
    if [cmp, rcmp, heq, va, vb, ve].contains "panic" then some "panic"
    else
      let valid := va == "ok" && vb == "ok"
      let expected := if valid then ve else boolBit (ha == hb)
      if !(cmp == "0" || cmp == "1") || !(heq == "0" || heq == "1") || (valid && !(ve == "0" || ve == "1")) then
        some "malformed-output"
      else if cmp != rcmp then some "cmp-asymmetric"
      else if cmp != expected then
        some (if valid then
                (if cmp == "1" then
                  "merged-distinct-values:" ++
                    (match charsOfHex ha, charsOfHex hb with
                     | some a, some b => mergeClass a b
                     | _, _ => "other")
                 else "split-equal-values")
              else "invalid-not-string-eq")
      else if cmp == "1" && heq == "0" then
        some ("eq-hash-differs:" ++
          (match charsOfHex ha, charsOfHex hb with
           | some a, some b => hashDiffClass a b
           | _, _ => "unclassified"))
      else none
  | _, _, _, _, _, _ => some "malformed-output"

structure Mon where
  /-- `val` answers of the current case: hex text ↦ the value the implementation reported (`none` = not valid Recon). -/
  vals : List (String × Option Value) := []

/-- Parsed value of a key text as the implementation reported it in this case (`val` line), else the model's. -/
def Mon.valueOf (m : Mon) (h : String) : Option Value :=
  match m.vals.lookup h with
  | some r => r
  | none => (charsOfHex h).bind parseValue

/-- Should two key texts be one key? Equal values if both are valid Recon, else the same string. -/
def Mon.sameKey (m : Mon) (x y : String) : Bool :=
  match m.valueOf x, m.valueOf y with
  | some a, some b => veq a b
  | _, _ => x == y

def parseEntry (s : String) : Option (Nat × Nat) :=
  match s.splitOn ":" with
  | [a, b] => (match a.toNat?, b.toNat? with | some i, some j => some (i, j) | _, _ => none)
  | _ => none

/-- `keys`: one entry per class of `sameKey`, holding the last value pushed for the class. -/
def keysVerdict (m : Mon) (hs : List String) (out : String) : Option String :=
  if out == "out-of-fragment" then none
  else if out == "entries=panic" then some "panic"
  else if !out.startsWith "entries=" then some "malformed-output"
  else
    match (if out == "entries=-" then some [] else ((out.drop 8).toString.splitOn ",").mapM parseEntry) with
    | none => some "malformed-output"
    | some es =>
      let txt (i : Nat) : String := hs.getD i "?"
      let n := hs.length
      if es.any (fun e => n ≤ e.1 || n ≤ e.2) then some "malformed-output"
      -- an entry whose value was pushed under a different key: distinct keys merged
      else if es.any (fun e => !m.sameKey (txt e.1) (txt e.2)) then some "keys-merged"
      else
        -- two entries for one key: the key was split
        match (List.range es.length).findSome? (fun i => (List.range es.length).findSome? fun j =>
            if i < j && m.sameKey (txt (es.getD i (0, 0)).1) (txt (es.getD j (0, 0)).1)
            then some (txt (es.getD i (0, 0)).1, txt (es.getD j (0, 0)).1) else none) with
        | some (x, y) =>
          some ("keys-split:" ++ (match charsOfHex x, charsOfHex y with
            | some a, some b => hashDiffClass a b
            | _, _ => "unclassified"))
        | none =>
          -- every text is represented, by the entry of its class, whose value is the last member of the class
          if (List.range n).all (fun i => es.any fun e =>
              m.sameKey (txt i) (txt e.1) &&
              ((List.range n).filter fun j => m.sameKey (txt j) (txt e.1)).getLast? == some e.2)
          then none else some "keys-lost-update"

def Mon.step (m : Mon) (op out : String) : Mon × Option String :=
  match words op with
  | ["val", h] =>
    let v : Option Value := match resDec (out.drop 4).toString with | some (.ok v) => some v | _ => none
    ({ m with vals := (h, v) :: m.vals }, if out == "val=panic" then some "panic" else none)
  | ["ev", _] => (m, if (words out).getLast? == some "panic" then some "panic" else none)
  | ["hash", h] =>
    if out == "calls=panic" then (m, some "panic")
    else
      -- self-check of the model: the text-level hash is the event-level hash of the text's events (the link between
      -- `hashCalls` and the theorems about `hashEvs`), once the implicit-record decision is event based
      match charsOfHex h with
      | some t =>
        if Generated.ReconEq.implicitByStructure && inFloatFragment t && (events t).2 = .fin &&
            hashCalls t != hashEvs [] (events t).1 then (m, some "model-self-check:hash-events")
        else (m, none)
      | none => (m, none)
  | ["pair", a, b] => (m, pairVerdict a b out)
  | "keys" :: hs => (m, keysVerdict m hs out)
  | _ => (m, none)

end SwimVerif.ReconEq
