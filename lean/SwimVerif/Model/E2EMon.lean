/-
Monitor for the end-to-end rig (`sv-e2e`): decides C01–C04 and C14 on a trace of the REAL agent + runtime.
Trace lines: `<op> ;; f=<frames> h=<agent-side history>` (see `harness/core/src/bin/sv-e2e.rs`).
The agent-side history (logged by the lifecycle handlers, in execution order) is the ground truth for what the lanes
held; the frames are what each remote actually received. All checks are tolerant of the (unobserved) moment at which
a frame was produced: they only use orders and time intervals that hold for every such moment.
-/
import SwimVerif.Model.AssocList
import SwimVerif.Model.Util

namespace SwimVerif.E2E

def laneId (s : String) : Nat :=
  if s = "val" then 0 else if s = "map" then 1 else if s = "sup" then 2 else if s = "cmd" then 3 else 4

inductive MapEv
  | upd (k v : Int)
  | rem (k : Int)
  | clr
  deriving DecidableEq, Repr

inductive FrameKind
  | linked
  | synced
  | unlinked (msg : String)
  | val (v : Int)            -- event body of a value / supply lane
  | map (e : MapEv)
  | raw (s : String)
  deriving DecidableEq, Repr

structure Frame where
  r : Nat
  lane : Nat
  kind : FrameKind
  deriving Repr

/-- integer keys are stored shifted so that association lists keyed by `Nat` can be used -/
def ikey (k : Int) : Nat := (k + 1000000).toNat

structure SyncReq where
  t0 : Nat
  /-- per key: every value (or absence) held since the request -/
  allowed : List (Nat × List (Option Int))
  /-- value lane: every value held since the request -/
  allowedVal : List Int
  /-- the remote asked to unlink afterwards: the answer may legitimately never come (or come after `unlinked`) -/
  voidable : Bool := false
  /-- the request itself linked the remote (no link request before it) -/
  implicit : Bool := false
  /-- keys changed by handlers that ran after the last settle before the request: their live events may have been
  emitted (through the lane's small output buffer) only after the lane took the key snapshot -/
  preChanged : List Nat := []
  deriving Repr

structure Pair where
  isOpen : Bool := false
  everLinkedFrame : Bool := false
  linkedAt : Option Nat := none          -- op-level: time of the link/sync request that made it linked (cleared by unlink)
  syncs : List SyncReq := []             -- unanswered sync requests, oldest first
  recvVals : List Int := []              -- value/supply events received, in order
  nextIdx : Nat := 0                     -- index into the lane history after the last matched event
  replica : List (Nat × Int) := []       -- map lane
  syncedOnce : Bool := false             -- a `synced` was received since the last `linked`-after-closed
  nfExpected : Nat := 0
  nfSeen : Nat := 0
  unlinkOps : List Nat := []             -- times of the explicit unlink requests not yet seen as `unlinked` frames
  implicitT0 : Option Nat := none        -- the remote became linked by a sync request (no link request before it)
  implicitW0 : Nat := 0                  -- ... and the first line whose changes may have been emitted after its snapshot
  syncedAt : Nat := 0                    -- when the latest `synced` frame was read
  deriving Repr

structure Mon where
  t : Nat := 0
  valHist : List (Nat × Int) := []                 -- (time, value)
  supHist : List (Nat × Int) := []
  mapHist : List (Nat × MapEv) := []
  curVal : Int := 0
  curMap : List (Nat × Int) := []
  keys : List Nat := []
  /-- a request was sent without waiting for the agent to settle and no `drain` has happened since -/
  unsettled : Bool := false
  /-- `life` entries seen (the agent's start/stop handler) -/
  life : Nat := 0
  /-- the last line that ended with a settle (every lane event of the changes logged up to it has been emitted) -/
  lastSettled : Nat := 0
  cmdSent : List (Nat × List Int) := []            -- per remote: commands sent to the command lane, in order
  cmdSeen : List Int := []                         -- handler invocations, in order
  pairs : List (Nat × Pair) := []
  attached : List Nat := []
  dropped : List Nat := []
  stopped : Bool := false
  /-- what the value lane held when the `on_get` handler of the HTTP lane ran (on this line) -/
  httpGet : Option Int := none
  deriving Repr

def pk (r lane : Nat) : Nat := r * 10 + lane
def Mon.pair (m : Mon) (r lane : Nat) : Pair := (alGet m.pairs (pk r lane)).getD {}
def Mon.setPair (m : Mon) (r lane : Nat) (p : Pair) : Mon := { m with pairs := alSet m.pairs (pk r lane) p }

/-! parsing -/

def parseInt (s : String) : Option Int := s.toInt?

def parseFrame (s : String) : Option Frame :=
  match s.splitOn ":" with
  | rs :: lane :: rest =>
    match (rs.drop 1).toString.toNat? with
    | none => none
    | some r =>
      let l := laneId lane
      match rest with
      | ["linked"] => some ⟨r, l, .linked⟩
      | ["synced"] => some ⟨r, l, .synced⟩
      | ["unl", m] => some ⟨r, l, .unlinked m⟩
      | ["ev", "upd", k, v] => match parseInt k, parseInt v with
        | some k, some v => some ⟨r, l, .map (.upd k v)⟩
        | _, _ => some ⟨r, l, .raw s⟩
      | ["ev", "rem", k] => match parseInt k with
        | some k => some ⟨r, l, .map (.rem k)⟩
        | none => some ⟨r, l, .raw s⟩
      | ["ev", "clr"] => some ⟨r, l, .map .clr⟩
      | ["ev", v] => match parseInt v with
        | some v => some ⟨r, l, .val v⟩
        | none => some ⟨r, l, .raw s⟩
      | _ => some ⟨r, l, .raw s⟩
  | _ => none

def fieldOf (ws : List String) (k : String) : Option String :=
  (ws.find? (·.startsWith (k ++ "="))).map fun w => (w.drop (k.length + 1)).toString

def splitList (s : String) : List String := if s = "-" then [] else s.splitOn ","

/-! history -/

def applyMapEv (m : List (Nat × Int)) : MapEv → List (Nat × Int)
  | .upd k v => alSet m (ikey k) v
  | .rem k => alErase m (ikey k)
  | .clr => []

def noteKey (m : Mon) (k : Nat) (v : Option Int) : Mon :=
  { m with keys := if m.keys.contains k then m.keys else m.keys ++ [k],
           pairs := m.pairs.map fun p =>
             (p.1, { p.2 with syncs := p.2.syncs.map fun sq =>
               { sq with allowed := alSet sq.allowed k ((alGet sq.allowed k).getD [none] ++ [v]) } }) }

def noteVal (m : Mon) (v : Int) : Mon :=
  { m with pairs := m.pairs.map fun p =>
      (p.1, { p.2 with syncs := p.2.syncs.map fun sq => { sq with allowedVal := sq.allowedVal ++ [v] } }) }

def Mon.history (m : Mon) (h : String) : Mon × Option String :=
  if h = "life" then ({ m with life := m.life + 1 }, none) else
  -- nothing the lifecycle logs may precede the agent's `on_start`
  if m.life = 0 then (m, some "on-start-not-run-first") else
  match h.splitOn ":" with
  | ["val", v] => match parseInt v with
    | some v => (noteVal { m with valHist := m.valHist ++ [(m.t, v)], curVal := v } v, none)
    | none => (m, some "unparsable-history")
  | ["sup", v] => match parseInt v with
    | some v => ({ m with supHist := m.supHist ++ [(m.t, v)] }, none)
    | none => (m, some "unparsable-history")
  | ["cmd", v] => match parseInt v with
    | some v => ({ m with cmdSeen := m.cmdSeen ++ [v] }, none)
    | none => (m, some "unparsable-history")
  | ["map", "upd", k, v] => match parseInt k, parseInt v with
    | some k, some v =>
      (noteKey { m with mapHist := m.mapHist ++ [(m.t, .upd k v)], curMap := applyMapEv m.curMap (.upd k v) } (ikey k) (some v), none)
    | _, _ => (m, some "unparsable-history")
  | ["map", "rem", k] => match parseInt k with
    | some k =>
      (noteKey { m with mapHist := m.mapHist ++ [(m.t, .rem k)], curMap := applyMapEv m.curMap (.rem k) } (ikey k) none, none)
    | none => (m, some "unparsable-history")
  | ["map", "clr"] =>
    let m1 := m.curMap.foldl (fun (acc : Mon) p => noteKey acc p.1 none) m
    ({ m1 with mapHist := m1.mapHist ++ [(m.t, .clr)], curMap := [] }, none)
  -- the HTTP lane's handlers note that they ran; the history is in execution order, so the value lane's content at
  -- the moment `on_get` ran is the monitor's current value here
  | ["http", "get", _] => ({ m with httpGet := some m.curVal }, none)
  | ["http", _, _] => (m, none)
  | _ => (m, some "unparsable-history")

/-- index ≥ start of the first history entry with this value -/
def findFrom (hist : List (Nat × Int)) (v : Int) (start : Nat) : Option Nat :=
  let rec go : List (Nat × Int) → Nat → Option Nat
    | [], _ => none
    | x :: xs, i => if i ≥ start && x.2 == v then some i else go xs (i + 1)
  go hist 0

/-! frames -/

def Mon.frame (m : Mon) (f : Frame) : Mon × Option String :=
  let p := m.pair f.r f.lane
  match f.kind with
  | .raw s => (m, some "unexpected-frame-body")
  | .linked =>
    if f.lane = 4 then (m, some "linked-for-unknown-lane")
    else (m.setPair f.r f.lane { p with isOpen := true, everLinkedFrame := true,
                                        replica := if p.isOpen then p.replica else [],
                                        syncedOnce := if p.isOpen then p.syncedOnce else false }, none)
  | .unlinked msg =>
    if msg = "nf" then
      if f.lane ≠ 4 then (m, some "lane-not-found-for-existing-lane")
      else if p.nfSeen + 1 > p.nfExpected then (m, some "lane-not-found-not-requested")
      else (m.setPair f.r f.lane { p with nfSeen := p.nfSeen + 1 }, none)
    else if !p.isOpen then (m, some "unlinked-without-open-link")
    else
      -- an explicit unlink answers the oldest outstanding unlink request: sync requests made before it are void
      -- (the unlink overtook them: if they are answered at all, and no later request links the remote, they link it
      -- implicitly themselves)
      match p.unlinkOps with
      | _ :: rest =>
        let syncs := if p.linkedAt.isNone then p.syncs.map (fun sq => { sq with implicit := true }) else p.syncs
        (m.setPair f.r f.lane { p with isOpen := false, unlinkOps := rest, syncs := syncs }, none)
      | [] => (m.setPair f.r f.lane { p with isOpen := false, syncs := p.syncs.map (fun sq => { sq with voidable := true }) }, none)
  | .synced =>
    if !p.isOpen then (m, some "synced-outside-link") else
    -- the answer is attributed to the oldest request that cannot have been voided by an unlink, else to the oldest
    let pick : Option (SyncReq × List SyncReq) :=
      match p.syncs.find? (fun sq => !sq.voidable) with
      | some sq => some (sq, p.syncs.eraseP (fun x => !x.voidable))
      | none => match p.syncs with
        | sq :: rest => some (sq, rest)
        | [] => none
    match pick with
    | none => (m, some "synced-not-requested")
    | some (sq, rest) =>
      let p' := { p with syncs := rest, syncedOnce := true, syncedAt := m.t }
      -- the remote asked to unlink after this request: the session was abandoned half way (frames sent before the
      -- `unlinked` belong to the closed link, the rest re-links implicitly); no snapshot is claimed for it
      if sq.voidable then (m.setPair f.r f.lane p', none) else
      if f.lane = 0 then
        -- the last value received must be one the lane held since the request
        match p.recvVals.getLast? with
        | none => (m.setPair f.r f.lane p', some "value-synced-without-value")
        | some v =>
          if sq.allowedVal.contains v then (m.setPair f.r f.lane p', none)
          else (m.setPair f.r f.lane p', some "value-snapshot-inconsistent")
      else if f.lane = 1 then
        let bad := m.keys.filter (fun k => !((alGet sq.allowed k).getD [none]).contains (alGet p.replica k))
        if bad.isEmpty then (m.setPair f.r f.lane p', none)
        else
          -- a remote that linked implicitly by this very sync: keys that changed after the request are the known
          -- loss (the live update was broadcast before the link existed)
          let changedSince (k : Nat) : Bool :=
            ((alGet sq.allowed k).getD [none]).length > 1 || sq.preChanged.contains k
          if (sq.implicit || p.implicitT0 == some sq.t0) && bad.all changedSince then
            (m.setPair f.r f.lane p', some "map-update-lost-during-implicit-link-sync")
          else (m.setPair f.r f.lane p', some "map-snapshot-inconsistent")
      else (m.setPair f.r f.lane p', none)
  | .val v =>
    if !p.isOpen then (m, some "event-outside-link") else
    if f.lane = 0 then
      -- value lane: an in-order sampling of the history (the initial 0 may be synced)
      match findFrom m.valHist v p.nextIdx with
      | some j => (m.setPair f.r f.lane { p with recvVals := p.recvVals ++ [v], nextIdx := j }, none)
      | none =>
        if v = 0 && p.nextIdx = 0 then (m.setPair f.r f.lane { p with recvVals := p.recvVals ++ [v] }, none)
        else if (m.valHist.any (·.2 == v)) then (m, some "value-event-stale-or-reordered")
        else (m, some "fabricated-event-body")
    else if f.lane = 2 then
      match findFrom m.supHist v p.nextIdx with
      | some j => (m.setPair f.r f.lane { p with recvVals := p.recvVals ++ [v], nextIdx := j + 1 }, none)
      | none =>
        if (m.supHist.any (·.2 == v)) then (m, some "supply-item-duplicated-or-reordered")
        else (m, some "fabricated-event-body")
    else (m, some "value-event-on-map-lane")
  | .map e =>
    if !p.isOpen then (m, some "event-outside-link") else
    if f.lane ≠ 1 then (m, some "map-event-on-other-lane") else
    match e with
    | .upd k v =>
      -- the value must have been held by that key at some time
      if m.mapHist.any (fun h => h.2 == .upd k v) then
        (m.setPair f.r f.lane { p with replica := applyMapEv p.replica e }, none)
      else (m, some "fabricated-event-body")
    | _ => (m.setPair f.r f.lane { p with replica := applyMapEv p.replica e }, none)

def sameMap (a b : List (Nat × Int)) : Bool :=
  a.all (fun p => alGet b p.1 == some p.2) && b.all (fun p => alGet a p.1 == some p.2)

/-- checks once everything has been drained -/
def Mon.final (m : Mon) : Option String :=
  m.pairs.foldl (fun (acc : Option String) (kp : Nat × Pair) =>
    match acc with
    | some e => some e
    | none =>
      let r := kp.1 / 10
      let lane := kp.1 % 10
      let p := kp.2
      if m.dropped.contains r then none else
      if lane = 4 then (if p.nfSeen ≠ p.nfExpected then some "lane-not-found-answer-missing" else none) else
      match p.linkedAt with
      | none => none
      | some tl =>
        if !p.isOpen then some "linked-remote-never-told-linked" else
        if p.syncs.any (fun sq => !sq.voidable) then some "sync-request-never-answered" else
        if lane = 0 then
          -- freshness: a change made after the link settled must have arrived
          match m.valHist.getLast? with
          | some (tc, v) => if tc > tl && p.recvVals.getLast? ≠ some v then some "value-stale-at-quiescence" else none
          | none => none
        else if lane = 2 then
          let owed := (m.supHist.filter (fun h => h.1 > tl)).map (·.2)
          if owed.all (fun v => p.recvVals.contains v) then none else some "supply-item-lost"
        else if lane = 1 then
          let firstChange := (m.mapHist.head?.map (·.1)).getD (m.t + 1)
          if p.syncedOnce || tl < firstChange then
            if sameMap p.replica m.curMap then none
            else
              -- classify: keys that differ, and when each of them last changed
              let diff := m.keys.filter (fun k => alGet p.replica k != alGet m.curMap k)
              let lastChange (k : Nat) : Nat :=
                m.mapHist.foldl (fun acc h => match h.2 with
                  | .upd k' _ => if ikey k' = k then h.1 else acc
                  | .rem k' => if ikey k' = k then h.1 else acc
                  | .clr => h.1) 0
              match p.implicitT0 with
              | some _ =>
                if diff.all (fun k => p.implicitW0 ≤ lastChange k && lastChange k ≤ p.syncedAt) then
                  some "map-update-lost-during-implicit-link-sync"
                else some "map-replica-diverged"
              | none => some "map-replica-diverged"
          else none
        else none) none

def Mon.commandsOk (m : Mon) : Option String :=
  let sent := m.cmdSent.foldl (fun acc p => acc ++ p.2) []
  if sent.length ≠ m.cmdSeen.length then some "command-handler-count-wrong"
  else if !(sent.all (fun c => m.cmdSeen.contains c)) then some "command-lost"
  else
    -- per remote order
    m.cmdSent.foldl (fun (acc : Option String) p =>
      match acc with
      | some e => some e
      | none =>
        let seenOfR := m.cmdSeen.filter (fun c => p.2.contains c)
        if seenOfR == p.2 then none else some "command-reordered") none

/-- `@take(n)` / `@drop(n)` sent to the map lane while everything is settled: the keys removed must be exactly the
ones designated by the key order (take keeps the first `n` keys, drop removes the first `n`). -/
def takeDropExpected (cur : List (Nat × Int)) (body : String) : Option (List Nat) :=
  let keys := (cur.map (·.1)).mergeSort (· ≤ ·)
  if body.startsWith "@take(" then
    ((body.drop 6).toString.takeWhile Char.isDigit).toString.toNat?.map (fun n => keys.drop n)
  else if body.startsWith "@drop(" then
    ((body.drop 6).toString.takeWhile Char.isDigit).toString.toNat?.map (fun n => keys.take n)
  else none

def removedKeys (hs : List String) : List Nat :=
  (hs.filterMap fun h => match h.splitOn ":" with
    | ["map", "rem", k] => (parseInt k).map ikey
    | _ => none).mergeSort (· ≤ ·)

/-- Map key used by the HTTP handlers (and `on_command`) for the number `n`: `MAP_KEYS[n % 4]` of the rig. -/
def mapKeyOf (n : Int) : Int := [2, 10, 33, 7].getD (n % 4).toNat 0

/-- An HTTP lane request (`http`: the response was awaited, `httpd`: the response receiver was dropped before the
request was sent; that op always settles). `post`/`put n` make the handler change a lane (n%3: 0 value lane := n,
1 map entry `mapKeyOf n` := n, 2 push n to the supply lane): the change is logged where it happens (`on_event` /
`on_update` of the lane), synchronously with the handler, so it must be in the history of this very line. From there on
the ordinary rules (never stale at quiescence, replicas converge, supply exactly once) cover it. `post` changes the lane
in a non-final step of the handler, `put` in its final step: only the latter can be hit by the "response receiver
dropped" branch of `HttpLifecycleHandler::step`, which has its own reasons. `get` answers with the value lane's content
at the time the handler ran. `m` is the monitor after this line's history. -/
def Mon.httpCheck (m : Mon) (kind method : String) (n : Int) (hs ws : List String) : Option String :=
  if m.stopped then none else
  let st := (fieldOf ws "st").getD "none"
  let b := (fieldOf ws "b").getD "-"
  let dropped := kind == "httpd"
  if dropped && st != "dropped" then some "http-response-unexpected"
  else if method == "get" then
    if dropped then none
    else if st != "200" then some "http-response-unexpected"
    else match m.httpGet with
      | none => some "http-response-unexpected"
      | some v => if b.toInt? == some v then none else some "http-get-stale"
  else if method == "head" then
    if dropped || (st == "200" && b == "-") then none else some "http-response-unexpected"
  else if method == "delete" then
    if dropped || st == "405" then none else some "http-response-unexpected"
  else if method == "post" || method == "put" then
    if !dropped && st != "200" then some "http-response-unexpected" else
    let lost := dropped && method == "put"
    let a := n % 3
    if a == 0 then
      if hs.contains s!"val:{n}" then none
      else some (if lost then "http-dropped-response-change-lost" else "http-handler-change-not-applied")
    else if a == 1 then
      if hs.contains s!"map:upd:{mapKeyOf n}:{n}" then none
      else some (if lost then "map-http-dropped-response-change-lost" else "map-http-handler-change-not-applied")
    else
      if hs.contains s!"sup:{n}" then none else some "supply-http-handler-not-run"
  else some "unparsable-op"

def Mon.step (m : Mon) (line : String) (out : String) : Mon × Option String :=
  let prevSettled := m.lastSettled
  let m := { m with t := m.t + 1, httpGet := none }
  let ws := words out
  let burst := line.startsWith "!"
  let m := if burst then m else { m with lastSettled := m.t }
  let settledBefore := !m.unsettled && !burst
  let m := { m with unsettled := (m.unsettled || burst) && line != "drain" }
  let line := if burst then (line.drop 1).toString else line
  match words line with
  | ["cfg", _] => (m, none)
  | ["end"] => (m, some ("run-" ++ (ws.headD "failed")))
  | opw =>
    -- 1. the request itself. In a burst the request may be handled before or after the effects reported with
    --    it, so its bookkeeping starts from the state *before* this line's history.
    let m1 := m
    let m2 : Mon := match opw with
      | ["attach", r, _] => { m1 with attached := m1.attached ++ [r.toNat?.getD 0] }
      | ["link", r, lane] =>
        let r := r.toNat?.getD 0; let l := laneId lane; let p := m1.pair r l
        if l = 4 then m1.setPair r l { p with nfExpected := p.nfExpected + 1 }
        else m1.setPair r l { p with linkedAt := some (p.linkedAt.getD m1.t) }
      | ["sync", r, lane] =>
        let r := r.toNat?.getD 0; let l := laneId lane; let p := m1.pair r l
        if l = 4 then m1.setPair r l { p with nfExpected := p.nfExpected + 1 }
        else
          let pre := (m1.mapHist.filter (fun h => h.1 > prevSettled)).foldl (fun (acc : List Nat) h =>
            match h.2 with
            | .upd k _ => acc ++ [ikey k]
            | .rem k => acc ++ [ikey k]
            | .clr => acc ++ m1.keys) []
          let sq : SyncReq := { t0 := m1.t, allowed := m1.curMap.map (fun e => (e.1, [some e.2])), allowedVal := [m1.curVal],
                                implicit := p.linkedAt.isNone, preChanged := pre }
          m1.setPair r l { p with linkedAt := some (p.linkedAt.getD m1.t), syncs := p.syncs ++ [sq],
                                  implicitT0 := if p.linkedAt.isNone then some m1.t else p.implicitT0,
                                  implicitW0 := if p.linkedAt.isNone then prevSettled + 1 else p.implicitW0 }
      | ["unlink", r, lane] =>
        let r := r.toNat?.getD 0; let l := laneId lane; let p := m1.pair r l
        m1.setPair r l { p with linkedAt := none, implicitT0 := none,
                                syncs := p.syncs.map (fun sq => { sq with voidable := true }),
                                unlinkOps := if p.linkedAt.isSome then p.unlinkOps ++ [m1.t] else p.unlinkOps }
      | ["cmd", r, "cmd", body] =>
        let r := r.toNat?.getD 0
        match (bytesOfHex body).map (fun bs => String.ofList (bs.map Char.ofNat)) with
        | some s => match s.toInt? with
          | some n => { m1 with cmdSent := alSet m1.cmdSent r ((alGet m1.cmdSent r).getD [] ++ [n]) }
          | none => m1
        | none => m1
      | ["drop", r] => { m1 with dropped := m1.dropped ++ [r.toNat?.getD 0] }
      | ["stop"] => { m1 with stopped := true }
      | _ => m1
    -- 2. the agent-side history reported with this step
    let hs := splitList ((fieldOf ws "h").getD "-")
    let r1 := hs.foldl (fun (acc : Mon × Option String) h =>
      match acc.2 with | some e => (acc.1, some e) | none => acc.1.history h) (m2, none)
    let r1 : Mon × Option String := match r1.2, opw with
      | none, ["cmd", _, "map", body] =>
        if settledBefore then
          match (bytesOfHex body).map (fun bs => String.ofList (bs.map Char.ofNat)) with
          | some txt => match takeDropExpected m.curMap txt with
            | some expected =>
              if removedKeys hs == expected then r1 else (r1.1, some "map-take-drop-wrong-keys")
            | none => r1
          | none => r1
        else r1
      | none, [kind, method, n] =>
        if kind == "http" || kind == "httpd" then
          match n.toInt? with
          | some n => (r1.1, r1.1.httpCheck kind method n hs ws)
          | none => (r1.1, some "unparsable-op")
        else r1
      | _, _ => r1
    match r1.2 with
    | some e => (r1.1, some e)
    | none =>
      let m2 := r1.1
      -- 3. the frames read
      let fs := splitList ((fieldOf ws "f").getD "-")
      let r3 := fs.foldl (fun (acc : Mon × Option String) f =>
        match acc.2 with
        | some e => (acc.1, some e)
        | none =>
          if f.endsWith ":end" then (acc.1, none)
          else if f.endsWith "decode-error" then (acc.1, some "frame-decode-error")
          else match parseFrame f with
            | some fr => acc.1.frame fr
            | none => (acc.1, some "unparsable-frame")) (m2, none)
      match r3.2 with
      | some e => (r3.1, some e)
      | none =>
        let m3 := r3.1
        match opw with
        | ["drain"] =>
          (m3, match m3.final with | some e => some e | none => m3.commandsOk)
        | ["stop"] =>
          if !hs.contains "life" then (m3, some "on-stop-not-run") else
          let stillOpen := m3.pairs.any (fun kp => kp.2.isOpen && !(m3.dropped.contains (kp.1 / 10)))
          (m3, if stillOpen then some "link-left-open-at-stop" else none)
        | _ => (m3, none)

end SwimVerif.E2E
