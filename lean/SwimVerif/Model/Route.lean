/-
Model of `swimos_route` (C18): `RoutePattern::{parse, apply, unapply_parts, unapply_route_uri, unapply_str,
are_ambiguous}`, the `RouteUri` parser (nom grammar of `route_uri/parser/mod.rs`, including the fact that
`from_str` does not require the whole input to be consumed), the byte-level behaviour of the `percent-encoding`
crate that the code relies on (`utf8_percent_encode`, `percent_decode_str`, `decode_utf8_lossy`) and
`PlaneBuilder::build` / `Routes::find_route` as pure functions over a list of patterns.

Strings are `List Nat` = their UTF-8 bytes (every byte < 256). The pattern parser is written over bytes: every
character it distinguishes (`/`, `:`, ASCII letters) is ASCII and UTF-8 lead/continuation bytes are >= 128, so on
valid UTF-8 the byte-level automaton takes the same transitions at the same byte offsets as the `char`-level one
(`offset += c.len_utf8()`). The same holds for the nom parser (`satisfy` on a non-ASCII `char` fails exactly where a
byte >= 128 fails here).

Difference of representation (behaviour-preserving, checked by the correspondence): a `Segment` carries its bytes
instead of `(start, end)` offsets into `pattern`; `length = offset - start` is the number of accumulated bytes.
-/
import SwimVerif.Model.Util
import SwimVerif.Generated.RouteTables

namespace SwimVerif.Route

abbrev Bytes := List Nat

/-! ### ASCII classes -/

def isAlpha (b : Nat) : Bool := (65 ≤ b && b ≤ 90) || (97 ≤ b && b ≤ 122)      -- `is_ascii_alphabetic`
def isDigit (b : Nat) : Bool := 48 ≤ b && b ≤ 57
def isAlnum (b : Nat) : Bool := isAlpha b || isDigit b                          -- `is_ascii_alphanumeric`
/-- `char::to_digit(16)` / `is_ascii_hexdigit`. -/
def hexDig (b : Nat) : Option Nat :=
  if 48 ≤ b && b ≤ 57 then some (b - 48)
  else if 65 ≤ b && b ≤ 70 then some (b - 55)
  else if 97 ≤ b && b ≤ 102 then some (b - 87)
  else none
def isHex (b : Nat) : Bool := (hexDig b).isSome

def schemaChar (b : Nat) : Bool := isAlnum b || Generated.schemaCharExtra.contains b     -- `schema_char`
def pathChar (b : Nat) : Bool := isAlnum b || Generated.pathCharExtra.contains b         -- `is_path_char`
def queryChar (b : Nat) : Bool := pathChar b || Generated.queryCharExtra.contains b      -- `is_query_or_fragment_char`

/-! ### percent-encoding crate -/

/-- `AsciiSet::should_percent_encode` for `URL_ENCODE`. -/
def shouldEncode (b : Nat) : Bool := 128 ≤ b || Generated.urlEncodeAscii.contains b

/-- Upper-case hex digit (`percent_encode_byte`'s table is `%{:02X}`). -/
def hexUp (n : Nat) : Nat := if n < 10 then 48 + n else 55 + n

def encByte (b : Nat) : Bytes := if shouldEncode b then [37, hexUp (b / 16), hexUp (b % 16)] else [b]

/-- `utf8_percent_encode(s, URL_ENCODE)` written out. -/
def pctEncode : Bytes → Bytes
  | [] => []
  | b :: rest => encByte b ++ pctEncode rest

/-- `percent_decode_str(s)` collected: `%` followed by two hex digits (either case) is one byte, anything else is
copied. -/
def pctDecode : Bytes → Bytes
  | [] => []
  | b :: tl =>
    match b, tl with
    | 37, h :: l :: rest =>
      match hexDig h, hexDig l with
      | some x, some y => (x * 16 + y) :: pctDecode rest
      | _, _ => 37 :: pctDecode (h :: l :: rest)
    | b, tl => b :: pctDecode tl

/-- `String::from_utf8_lossy` (core `Utf8Chunks`): every maximal invalid prefix of a sequence becomes U+FFFD. -/
def isCont (b : Nat) : Bool := 128 ≤ b && b ≤ 191

def inR (lo hi : Nat) (o : Option Nat) : Bool := match o with | some b => lo ≤ b && b ≤ hi | none => false

def fffd : Bytes := [239, 191, 189]

def lossyFuel : Nat → Bytes → Bytes
  | 0, _ => []
  | _, [] => []
  | fuel + 1, b :: tl =>
    if b < 128 then b :: lossyFuel fuel tl
    else if 194 ≤ b && b ≤ 223 then
      -- width 2
      match tl with
      | c1 :: r1 => if isCont c1 then b :: c1 :: lossyFuel fuel r1 else fffd ++ lossyFuel fuel tl
      | [] => fffd
    else if 224 ≤ b && b ≤ 239 then
      -- width 3: the second byte is range-checked against the first
      let ok2 := fun (c : Nat) =>
        (b = 224 && 160 ≤ c && c ≤ 191) || (225 ≤ b && b ≤ 236 && isCont c) ||
        (b = 237 && 128 ≤ c && c ≤ 159) || (238 ≤ b && isCont c)
      match tl with
      | c1 :: r1 =>
        if ok2 c1 then
          match r1 with
          | c2 :: r2 => if isCont c2 then b :: c1 :: c2 :: lossyFuel fuel r2 else fffd ++ lossyFuel fuel r1
          | [] => fffd
        else fffd ++ lossyFuel fuel tl
      | [] => fffd
    else if 240 ≤ b && b ≤ 244 then
      let ok2 := fun (c : Nat) =>
        (b = 240 && 144 ≤ c && c ≤ 191) || (241 ≤ b && b ≤ 243 && isCont c) || (b = 244 && 128 ≤ c && c ≤ 143)
      match tl with
      | c1 :: r1 =>
        if ok2 c1 then
          match r1 with
          | c2 :: r2 =>
            if isCont c2 then
              match r2 with
              | c3 :: r3 =>
                if isCont c3 then b :: c1 :: c2 :: c3 :: lossyFuel fuel r3 else fffd ++ lossyFuel fuel r2
              | [] => fffd
            else fffd ++ lossyFuel fuel r1
          | [] => fffd
        else fffd ++ lossyFuel fuel tl
      | [] => fffd
    else fffd ++ lossyFuel fuel tl   -- stray continuation byte, 0xC0/0xC1, 0xF5..0xFF

def lossy (bs : Bytes) : Bytes := lossyFuel (bs.length + 1) bs

/-- The byte strings that are Rust `str`s: `from_utf8_lossy` returns them unchanged. -/
def isStr (bs : Bytes) : Bool := lossy bs == bs

/-- `percent_decode_str(s).decode_utf8_lossy().to_string()`. -/
def decodeLossy (bs : Bytes) : Bytes := lossy (pctDecode bs)

/-! ### `RoutePattern::parse` -/

structure Segment where
  start : Nat
  str : Bytes
  parameter : Bool
  deriving Repr, DecidableEq

inductive PState
  | start
  | schemeOrLiteral (start : Nat) (acc : Bytes)
  | segmentStart
  | afterScheme
  | literal (start : Nat) (acc : Bytes)
  | parameter (start : Nat) (acc : Bytes)     -- `acc` = the bytes after the `:`
  | failed (off : Nat)
  deriving Repr

structure PAcc where
  st : PState := .start
  scheme : Option Bytes := none       -- `scheme = Some(offset)`: `pattern[0..offset]`
  absolute : Bool := false
  segments : List Segment := []
  deriving Repr

/-- `ParseState::transition`; `c` is the byte at `offset`. -/
def transition (a : PAcc) (c : Nat) (offset : Nat) : PAcc :=
  match a.st with
  | .start =>
    if c = 47 then { a with absolute := true, st := .segmentStart }
    else if c = 58 then { a with absolute := false, st := .parameter offset [] }
    else if isAlpha c then { a with st := .schemeOrLiteral offset [c] }
    else { a with absolute := false, st := .literal offset [c] }
  | .segmentStart =>
    if c = 58 then { a with st := .parameter offset [] }
    else if c = 47 then { a with st := .failed offset }
    else { a with st := .literal offset [c] }
  | .schemeOrLiteral start acc =>
    if c = 58 then { a with scheme := some acc, st := .afterScheme }
    else if c = 47 then
      if 0 < acc.length then
        { a with absolute := false, segments := a.segments ++ [⟨start, acc, false⟩], st := .segmentStart }
      else { a with absolute := false, st := .failed offset }
    else { a with st := .schemeOrLiteral start (acc ++ [c]) }
  | .afterScheme =>
    if c = 47 then { a with absolute := true, st := .segmentStart }
    else if c = 58 then { a with absolute := false, st := .parameter offset [] }
    else { a with absolute := false, st := .literal offset [c] }
  | .literal start acc =>
    if c = 47 then
      if 0 < acc.length then { a with segments := a.segments ++ [⟨start, acc, false⟩], st := .segmentStart }
      else { a with st := .failed offset }
    else { a with st := .literal start (acc ++ [c]) }
  | .parameter start acc =>
    if c = 47 then
      if 0 < acc.length then { a with segments := a.segments ++ [⟨start + 1, acc, true⟩], st := .segmentStart }
      else { a with st := .failed offset }
    else if c = 58 then { a with st := .failed offset }
    else { a with st := .parameter start (acc ++ [c]) }
  | .failed _ => { a with st := .failed offset }

/-- The `for c in it` loop with `state.check()?` after every transition. -/
def parseLoop (a : PAcc) (offset : Nat) : Bytes → Except Nat (PAcc × Nat)
  | [] => .ok (a, offset)
  | c :: rest =>
    let a1 := transition a c offset
    match a1.st with
    | .failed off => .error off
    | _ => parseLoop a1 (offset + 1) rest

/-- `ParseState::end`. -/
def parseEnd (a : PAcc) (offset : Nat) : Except Nat (List Segment) :=
  match a.st with
  | .start => .error offset
  | .segmentStart => .error offset
  | .literal start acc =>
    if 0 < acc.length then .ok (a.segments ++ [⟨start, acc, false⟩]) else .error offset
  | .schemeOrLiteral start acc =>
    if 0 < acc.length then .ok (a.segments ++ [⟨start, acc, false⟩]) else .error offset
  | .parameter start acc =>
    if 0 < acc.length then .ok (a.segments ++ [⟨start + 1, acc, true⟩]) else .error offset
  | .afterScheme => .ok a.segments
  | .failed _ => .ok a.segments

/-- The duplicate-name check (`names: HashSet<Cow<str>>` of the percent-decoded names, the keys `unapply` uses). -/
def dupCheck (seen : List Bytes) : List Segment → Except Nat Unit
  | [] => .ok ()
  | s :: rest =>
    if s.parameter then
      if seen.contains (decodeLossy s.str) then .error s.start else dupCheck (decodeLossy s.str :: seen) rest
    else dupCheck seen rest

inductive Seg
  | lit (s : Bytes)
  | param (name : Bytes)
  deriving Repr, DecidableEq

structure Pat where
  scheme : Option Bytes
  absolute : Bool
  segs : List Seg
  deriving Repr, DecidableEq

def Segment.toSeg (s : Segment) : Seg := if s.parameter then .param s.str else .lit s.str

/-- `RoutePattern::parse` (result: the pattern or `ParseError(offset)`). -/
def parsePattern (s : Bytes) : Except Nat Pat :=
  match parseLoop {} 0 s with
  | .error off => .error off
  | .ok (a, offset) =>
    match parseEnd a offset with
    | .error off => .error off
    | .ok segments =>
      match dupCheck [] segments with
      | .error off => .error off
      | .ok () => .ok { scheme := a.scheme, absolute := a.absolute, segs := segments.map Segment.toSeg }

def Seg.name? : Seg → Option Bytes
  | .param n => some n
  | .lit _ => none

def Seg.lit? : Seg → Option Bytes
  | .lit l => some l
  | .param _ => none

def Pat.params (p : Pat) : List Bytes := p.segs.filterMap Seg.name?

def Pat.lits (p : Pat) : List Bytes := p.segs.filterMap Seg.lit?

/-! ### `HashMap<String, String>` as an association list -/

abbrev KV := List (Bytes × Bytes)

def kvInsert (k v : Bytes) : KV → KV
  | [] => [(k, v)]
  | (k', v') :: rest => if k' = k then (k, v) :: rest else (k', v') :: kvInsert k v rest

def kvGet (k : Bytes) : KV → Option Bytes
  | [] => none
  | (k', v') :: rest => if k' = k then some v' else kvGet k rest

/-! ### `RoutePattern::apply` -/

/-- Body of the `for segment in segments` loop: returns what is pushed for the segment, or the missing name. -/
def applySeg (m : KV) : Seg → Except Bytes Bytes
  | .lit s => .ok s
  | .param n =>
    match kvGet n m with
    | some v => if v.isEmpty then .error n else .ok (pctEncode v)
    | none => .error n

/-- `route` after the loop and the `missing` vector; `first` = no segment has been written yet. -/
def applySegs (m : KV) (absolute : Bool) : Bool → List Seg → Bytes × List Bytes
  | _, [] => ([], [])
  | first, s :: rest =>
    let sep : Bytes := if !first || absolute then [47] else []
    let r := applySegs m absolute false rest
    match applySeg m s with
    | .ok bs => (sep ++ bs ++ r.1, r.2)
    | .error n => (sep ++ r.1, n :: r.2)

def schemePrefix : Option Bytes → Bytes
  | some s => s ++ [58]
  | none => []

/-- `RoutePattern::apply`: `Ok(route)` or `Err(ApplyError { missing })`. -/
def Pat.apply (p : Pat) (m : KV) : Except (List Bytes) Bytes :=
  let r := applySegs m p.absolute true p.segs
  if r.2.isEmpty then .ok (schemePrefix p.scheme ++ r.1) else .error r.2

/-! ### `RouteUri` (nom parser) -/

structure Uri where
  scheme : Option Bytes
  path : Bytes
  query : Option Bytes
  fragment : Option Bytes       -- `&representation[offset..]`: everything after `#`, whatever it is
  deriving Repr, DecidableEq

/-- `many0_count(satisfy(schema_char))`: returns the rest. -/
def eatSchema : Bytes → Bytes
  | [] => []
  | b :: tl => if schemaChar b then eatSchema tl else b :: tl

/-- `many0_count(path_char)` where `path_char = satisfy(is_path_char) | '%' hex hex`: returns the rest. -/
def eatPath : Bytes → Bytes
  | [] => []
  | b :: tl =>
    if pathChar b then eatPath tl
    else
      match b, tl with
      | 37, h :: l :: rest => if isHex h && isHex l then eatPath rest else 37 :: h :: l :: rest
      | b, tl => b :: tl

/-- `many0_count(query_or_fragment_char)`. -/
def eatQuery : Bytes → Bytes
  | [] => []
  | b :: tl =>
    if queryChar b then eatQuery tl
    else
      match b, tl with
      | 37, h :: l :: rest => if isHex h && isHex l then eatQuery rest else 37 :: h :: l :: rest
      | b, tl => b :: tl

/-- `many0_count(preceded(char('/'), path_segment))`. -/
def eatMoreSegs : Nat → Bytes → Bytes
  | 0, bs => bs
  | fuel + 1, bs =>
    match bs with
    | 47 :: tl => eatMoreSegs fuel (eatPath tl)
    | _ => bs

/-- `path_segments`: `many1_count(path_char)` then the further segments; `none` = parse error. -/
def eatPathSegments (bs : Bytes) : Option Bytes :=
  let r := eatPath bs
  if r.length < bs.length then some (eatMoreSegs r.length r) else none

/-- `path = alt(('/' path_segments), path_segments)`. -/
def eatPathAll (bs : Bytes) : Option Bytes :=
  match bs with
  | 47 :: tl =>
    match eatPathSegments tl with
    | some r => some r
    | none => eatPathSegments bs
  | _ => eatPathSegments bs

/-- `opt(terminated(scheme, char(':')))`: the scheme and the rest after the colon. -/
def eatScheme (bs : Bytes) : Option (Bytes × Bytes) :=
  match bs with
  | b :: tl =>
    if isAlpha b then
      let r := eatSchema tl
      match r with
      | 58 :: after => some (bs.take (bs.length - r.length), after)
      | _ => none
    else none
  | [] => none

/-- `RouteUri::from_str`. The remainder after the fragment is ignored by the code (`finish()` without
`all_consuming`), except that `fragment()` returns everything from its offset to the end. -/
def parseUri (s : Bytes) : Option Uri :=
  let sch := eatScheme s
  let s1 := match sch with | some (_, after) => after | none => s
  match eatPathAll s1 with
  | none => none
  | some r =>
    let path := s1.take (s1.length - r.length)
    let q : Option Bytes × Bytes := match r with
      | 63 :: tl => let r2 := eatQuery tl; (some (tl.take (tl.length - r2.length)), r2)
      | _ => (none, r)
    let f : Option Bytes := match q.2 with
      | 35 :: tl => some tl
      | _ => none
    some { scheme := sch.map (·.1), path := path, query := q.1, fragment := f }

/-! ### `RoutePattern::unapply_*` -/

/-- `str::split('/')` (always at least one item). -/
def splitSlash : Bytes → List Bytes
  | [] => [[]]
  | b :: tl =>
    match splitSlash tl with
    | cur :: more => if b = 47 then [] :: cur :: more else (b :: cur) :: more
    | [] => [[b]]   -- unreachable

/-- `unapply_parts`: the loop over `(parts.next(), segments.next())`. -/
def unapplyParts : List Seg → List Bytes → KV → Option KV
  | [], [], acc => some acc
  | [], _ :: _, _ => none
  | _ :: _, [], _ => none
  | .param n :: ss, part :: ps, acc =>
    let collected := decodeLossy part
    if collected.isEmpty then none else unapplyParts ss ps (kvInsert (decodeLossy n) collected acc)
  | .lit l :: ss, part :: ps, acc =>
    if pctDecode part = pctDecode l then unapplyParts ss ps acc else none

def schemeClash : Option Bytes → Option Bytes → Bool
  | some a, some b => a != b
  | _, _ => false

/-- `unapply_route_uri` on the URI's `(scheme(), path())`. -/
def Pat.unapplyUri (p : Pat) (scheme : Option Bytes) (path : Bytes) : Option KV :=
  if schemeClash p.scheme scheme then none
  else
    let parts := splitSlash path
    if p.absolute then
      match parts with
      | first :: rest => if first.isEmpty then unapplyParts p.segs rest [] else none
      | [] => none
    else unapplyParts p.segs parts []

/-- `unapply_str`. -/
def Pat.unapplyStr (p : Pat) (route : Bytes) : Option KV :=
  match parseUri route with
  | some u => p.unapplyUri u.scheme u.path
  | none => none

/-! ### `RoutePattern::are_ambiguous`, `PlaneBuilder::build`, `Routes::find_route` -/

/-- Literal segments are compared percent-decoded, as `unapply_parts` does. -/
def ambSegs : List Seg → List Seg → Bool
  | [], [] => true
  | .lit a :: ls, .lit b :: rs => if pctDecode a = pctDecode b then ambSegs ls rs else false
  | _ :: ls, _ :: rs => ambSegs ls rs
  | _, _ => false      -- lengths differ

def areAmbiguous (l r : Pat) : Bool := ambSegs l.segs r.segs

/-- `PlaneBuilder::build` accepts iff no pair `i < j` is ambiguous. -/
def buildOk : List Pat → Bool
  | [] => true
  | p :: rest => rest.all (fun q => !areAmbiguous p q) && buildOk rest

/-- `Routes::find_route`: index of the first pattern that matches. -/
def findRoute (ps : List Pat) (scheme : Option Bytes) (path : Bytes) : Option (Nat × KV) :=
  match ps with
  | [] => none
  | p :: rest =>
    match p.unapplyUri scheme path with
    | some kv => some (0, kv)
    | none => (findRoute rest scheme path).map fun r => (r.1 + 1, r.2)

end SwimVerif.Route
