/-
Models of the two persistence stores behind `swimos_api::persistence::{ServerPersistence, PlanePersistence,
NodePersistence, RangeConsumer}` (C13), branch by branch:

* `InMem`  — `swimos_server_app::in_memory_store` (`Ids`, `NodeState.values/maps`, the `Idle`/`InUse` hand-over of a
  node's state between agent instances through a oneshot channel, `Drop for InMemoryNodePersistence`,
  `Drop for PendingNodeState` — the code after the FC13a fix);
* `Rocks`  — `swimos_rocks_store` on top of RocksDB seen as three ordered byte-key maps (column families `default`
  = lane names + counter, `value_lanes`, `map_lanes`): `KeyStore::{initialise_with, id_for}`,
  `SwimNodeStore::lane_id_of` (`format!("{}/{}", node_uri, lane)`), `StoreWrapper`'s `NodePersistence`,
  `SwimPlaneStore::{delete_map, ranged_snapshot_consumer}`, `PrefixStrippedRangeConsumer`,
  `RocksEngine::get_prefix_range_consumer` (`seek` + `prefix_same_as_start`, 8-byte fixed prefix extractor).
  Ids are stored as varints in the code; the model keeps the number (the encoding is not observable).

Both are driven by the same op alphabet (handles live in numbered slots) and judged by the same observable-level
monitor `Mon` (the property: a mapping (agent URI, item name) ↦ value | map; ids stable and collision free).
-/
import SwimVerif.Model.StoreKey

namespace SwimVerif.Store
open SwimVerif.Generated.Store

/-! ## Ops and outputs -/

/-- Operations of `NodePersistence` on one open node store. -/
inductive DOp
  | idFor (name : Bytes)
  | get (id : Nat)
  | put (id : Nat) (v : Bytes)
  | del (id : Nat)
  | upd (id : Nat) (k v : Bytes)
  | rem (id : Nat) (k : Bytes)
  | clr (id : Nat)
  | read (id : Nat)
  deriving Repr, DecidableEq

inductive Op
  | opn (slot plane : Nat) (uri : Bytes)   -- `open_plane(plane).node_store(uri)`, future polled once
  | poll (slot : Nat)                      -- poll a pending `node_store` future again
  | drp (slot : Nat)                       -- drop the node store (or the pending future)
  | data (slot : Nat) (d : DOp)
  | reopen                                 -- RocksDB: drop everything, open the database directory again
  deriving Repr, DecidableEq

inductive Out
  | ok | ready | pending | badOp
  | errInvalidOp | errInit | errInvalidKey
  | id (n : Nat)
  | some (v : Bytes)
  | none
  | entries (l : List (Bytes × Bytes))
  deriving Repr, DecidableEq

def slotLimit : Nat := 8
def planeLimit : Nat := 2
def u64Limit : Nat := u64

/-! ## In-memory store -/

namespace InMem

/-- `NodeState` (`ids: Mutex<Ids>`, `values`, `maps`). -/
structure NodeState where
  ids : List (Bytes × Nat) := []      -- `Ids.id_map`
  counter : Nat := 0                  -- `Ids.counter`
  values : List (Nat × Bytes) := []   -- `HashMap<u64, Vec<u8>>`
  maps : List (Nat × BMap) := []      -- `HashMap<u64, BTreeMap<Vec<u8>, Vec<u8>>>`
  deriving Repr, DecidableEq

def hasKey {κ α : Type} [DecidableEq κ] (l : List (κ × α)) (k : κ) : Bool := (aget l k).isSome

/-- The `NodePersistence` impl of `InMemoryNodePersistence`. -/
def nodeStep (s : NodeState) : DOp → NodeState × Out
  | .idFor name =>
    match aget s.ids name with
    | .some id => (s, .id id)
    | .none => ({ s with ids := aset s.ids name s.counter, counter := s.counter + 1 }, .id s.counter)
  | .get id =>
    match aget s.values id with
    | .some v => (s, .some v)
    | .none => if hasKey s.maps id then (s, .errInvalidOp) else (s, .none)
  | .put id v =>
    if hasKey s.values id then ({ s with values := aset s.values id v }, .ok)
    else if hasKey s.maps id then (s, .errInvalidOp)
    else ({ s with values := aset s.values id v }, .ok)
  | .del id =>
    if hasKey s.values id then ({ s with values := adel s.values id }, .ok)
    else if hasKey s.maps id then (s, .errInvalidOp)
    else (s, .ok)
  | .upd id k v =>
    match aget s.maps id with
    | .some m => ({ s with maps := aset s.maps id (bput m k v) }, .ok)
    | .none =>
      if hasKey s.values id then (s, .errInvalidOp)
      else ({ s with maps := aset s.maps id [(k, v)] }, .ok)
  | .rem id k =>
    match aget s.maps id with
    | .some m => ({ s with maps := aset s.maps id (adel m k) }, .ok)
    | .none => if hasKey s.values id then (s, .errInvalidOp) else (s, .ok)
  | .clr id =>
    if hasKey s.maps id then ({ s with maps := adel s.maps id }, .ok)
    else if hasKey s.values id then (s, .errInvalidOp)
    else (s, .ok)
  | .read id =>
    match aget s.maps id with
    | .some m => (s, .entries m)
    | .none => if hasKey s.values id then (s, .errInvalidOp) else (s, .entries [])

/-- `NodeEntry`. `inUse (some c)`: the sender of oneshot channel `c` is stored in the plane. -/
inductive Entry
  | idle (st : NodeState)
  | inUse (w : Option Nat)
  deriving Repr, DecidableEq

/-- What a harness slot holds: an `InMemoryNodePersistence`, or the pending future of the `InUse` branch
(which owns the receiver of channel `c`). -/
inductive Slot
  | live (p : Nat) (uri : Bytes) (st : NodeState)
  | waiting (p : Nat) (uri : Bytes) (c : Nat)
  deriving Repr, DecidableEq

/-- A oneshot channel whose receiver is alive (a channel whose receiver was dropped is removed). -/
inductive Chan
  | empty                  -- nothing sent, sender alive
  | full (st : NodeState)  -- the state was sent and not yet received
  | closed                 -- sender dropped without sending
  deriving Repr, DecidableEq

structure St where
  nodes : List ((Nat × Bytes) × Entry) := []   -- `PlaneState.nodes` of every plane, keyed by (plane, uri)
  slots : List (Nat × Slot) := []
  chans : List (Nat × Chan) := []
  nextChan : Nat := 0
  deriving Repr

def init : St := {}

/-- Dropping the sender stored in an `InUse(Some(tx))` entry that is being replaced. -/
def dropSender (chans : List (Nat × Chan)) : Option Nat → List (Nat × Chan)
  | .none => chans
  | .some c =>
    match aget chans c with
    | .some .empty => aset chans c .closed
    | _ => chans

/-- `InMemoryPlanePersistence::node_store`, the returned future polled once. -/
def openNode (s : St) (slot p : Nat) (uri : Bytes) : St × Out :=
  match aget s.nodes (p, uri) with
  | .some (.idle st) =>
    ({ s with nodes := aset s.nodes (p, uri) (.inUse .none), slots := aset s.slots slot (.live p uri st) }, .ready)
  | .some (.inUse w) =>
    ({ s with nodes := aset s.nodes (p, uri) (.inUse (.some s.nextChan)),
              chans := aset (dropSender s.chans w) s.nextChan .empty,
              slots := aset s.slots slot (.waiting p uri s.nextChan),
              nextChan := s.nextChan + 1 }, .pending)
  | .none =>
    ({ s with nodes := aset s.nodes (p, uri) (.inUse .none), slots := aset s.slots slot (.live p uri {}) }, .ready)

/-- Polling the pending future: `rx.await`. -/
def pollSlot (s : St) (slot p : Nat) (uri : Bytes) (c : Nat) : St × Out :=
  match aget s.chans c with
  | .some (.full st) => ({ s with chans := adel s.chans c, slots := aset s.slots slot (.live p uri st) }, .ready)
  | .some .closed => ({ s with chans := adel s.chans c, slots := adel s.slots slot }, .errInit)
  | _ => (s, .pending)

/-- `Drop for InMemoryNodePersistence`. -/
def dropLive (s : St) (slot p : Nat) (uri : Bytes) (st : NodeState) : St :=
  match aget s.nodes (p, uri) with
  | .some (.inUse (.some c)) =>
    match aget s.chans c with
    | .some _ =>      -- receiver alive: `tx.send(state)` succeeds
      { s with chans := aset s.chans c (.full st), nodes := aset s.nodes (p, uri) (.inUse .none),
               slots := adel s.slots slot }
    | .none =>        -- receiver dropped: `Err(state)`
      { s with nodes := aset s.nodes (p, uri) (.idle st), slots := adel s.slots slot }
  | _ => { s with nodes := aset s.nodes (p, uri) (.idle st), slots := adel s.slots slot }

def step (s : St) : Op → St × Out
  | .opn slot p uri => if (aget s.slots slot).isSome then (s, .badOp) else openNode s slot p uri
  | .poll slot =>
    match aget s.slots slot with
    | .some (.waiting p uri c) => pollSlot s slot p uri c
    | _ => (s, .badOp)
  | .drp slot =>
    match aget s.slots slot with
    | .some (.live p uri st) => (dropLive s slot p uri st, .ok)
    | .some (.waiting p uri c) =>
      -- `Drop for PendingNodeState`: the receiver is closed; a state that was already handed over is returned
      -- to the plane by dropping a node store built from it
      match aget s.chans c with
      | .some (.full st) => (dropLive { s with chans := adel s.chans c } slot p uri st, .ok)
      | _ => ({ s with chans := adel s.chans c, slots := adel s.slots slot }, .ok)
    | .none => (s, .badOp)
  | .data slot d =>
    match aget s.slots slot with
    | .some (.live p uri st) =>
      let r := nodeStep st d
      ({ s with slots := aset s.slots slot (.live p uri r.1) }, r.2)
    | _ => (s, .badOp)
  | .reopen => (s, .badOp)

def run (s : St) (ops : List Op) : St := ops.foldl (fun s o => (step s o).1) s

end InMem

/-! ## RocksDB store -/

namespace Rocks

/-- One plane database: the three column families and the `KeyStore` counter of the open handle. -/
structure Plane where
  lanes : List (Bytes × Nat) := []   -- `default` CF: `lane/<node_uri>/<lane>` ↦ id
  counter : Option Nat := .none      -- `default` CF: the `counter` entry (merge operator: add)
  vals : BMap := []                  -- `value_lanes` CF
  maps : BMap := []                  -- `map_lanes` CF
  count : Option Nat := .none        -- `KeyStore.count` while the plane is open
  deriving Repr, DecidableEq

/-- `format_key(format!("{}/{}", node_uri, lane))`. -/
def laneKey (uri name : Bytes) : Bytes := lanePrefix ++ 47 :: (uri ++ 47 :: name)

/-- `KeyStore::initialise_with` (on `open_plane`), if not yet open. -/
def openPlane (pl : Plane) : Plane :=
  match pl.count with
  | .some _ => pl
  | .none => { pl with count := .some (pl.counter.getD counterInitial) }

/-- `PrefixStrippedRangeConsumer` over the raw iterator. -/
def stripAll (l : BMap) : Out :=
  if l.all (fun e => decide (mapKeyPrefixSize ≤ e.1.length)) then
    .entries (l.map (fun e => (e.1.drop mapKeyPrefixSize, e.2)))
  else .errInvalidKey

/-- `NodePersistence for StoreWrapper<SwimNodeStore<SwimPlaneStore<RocksEngine>>>`. -/
def planeStep (pl : Plane) (uri : Bytes) : DOp → Plane × Out
  | .idFor name =>
    match aget pl.lanes (laneKey uri name) with
    | .some id => (pl, .id id)
    | .none =>
      let id := pl.count.getD 0 + 1
      ({ pl with count := .some (pl.count.getD 0 + counterStep),
                 counter := .some (pl.counter.getD counterInitial + counterStep),
                 lanes := aset pl.lanes (laneKey uri name) id }, .id id)
  | .get id =>
    match aget pl.vals (StoreKey.ser (.value id)) with
    | .some v => (pl, .some v)
    | .none => (pl, .none)
  | .put id v => ({ pl with vals := bput pl.vals (StoreKey.ser (.value id)) v }, .ok)
  | .del id => ({ pl with vals := adel pl.vals (StoreKey.ser (.value id)) }, .ok)
  | .upd id k v => ({ pl with maps := bput pl.maps (StoreKey.ser (.map id (.some k))) v }, .ok)
  | .rem id k => ({ pl with maps := adel pl.maps (StoreKey.ser (.map id (.some k))) }, .ok)
  | .clr id => ({ pl with maps := bdelRange pl.maps (StoreKey.ser (.map id .none)) (mapUbound id) }, .ok)
  | .read id => (pl, stripAll (bseekPrefix pl.maps prefixExtractorWidth (StoreKey.ser (.map id .none))))

structure St where
  p0 : Plane := {}
  p1 : Plane := {}
  slots : List (Nat × (Nat × Bytes)) := []
  deriving Repr

def init : St := {}

def getPlane (s : St) (p : Nat) : Plane := if p = 0 then s.p0 else s.p1
def setPlane (s : St) (p : Nat) (pl : Plane) : St := if p = 0 then { s with p0 := pl } else { s with p1 := pl }

def step (s : St) : Op → St × Out
  | .opn slot p uri =>
    if (aget s.slots slot).isSome then (s, .badOp)
    else ({ setPlane s p (openPlane (getPlane s p)) with slots := aset s.slots slot (p, uri) }, .ready)
  | .poll _ => (s, .badOp)
  | .drp slot =>
    match aget s.slots slot with
    | .some _ => ({ s with slots := adel s.slots slot }, .ok)
    | .none => (s, .badOp)
  | .data slot d =>
    match aget s.slots slot with
    | .some (p, uri) =>
      let r := planeStep (getPlane s p) uri d
      (setPlane s p r.1, r.2)
    | .none => (s, .badOp)
  | .reopen =>
    ({ p0 := { s.p0 with count := .none }, p1 := { s.p1 with count := .none }, slots := [] }, .ok)

def run (s : St) (ops : List Op) : St := ops.foldl (fun s o => (step s o).1) s

end Rocks

/-! ## Line protocol -/

def isAscii (bs : Bytes) : Bool := bs.all (fun b => decide (b < 128))

def parseSlot (w : String) : Option Nat :=
  match w.toNat? with
  | .some n => if n < slotLimit then .some n else .none
  | .none => .none

def parseId (w : String) : Option Nat :=
  match w.toNat? with
  | .some n => if n < u64Limit then .some n else .none
  | .none => .none

def parseName (w : String) : Option Bytes :=
  match bytesOfHex w with
  | .some bs => if isAscii bs then .some bs else .none
  | .none => .none

def parseOp (line : String) : Option Op :=
  match words line with
  | ["open", s, p, uri] => do
    let s ← parseSlot s
    let p ← p.toNat?
    let uri ← parseName uri
    if p < planeLimit then pure (.opn s p uri) else .none
  | ["poll", s] => do let s ← parseSlot s; pure (.poll s)
  | ["drop", s] => do let s ← parseSlot s; pure (.drp s)
  | ["reopen"] => pure .reopen
  | ["id", s, name] => do let s ← parseSlot s; let n ← parseName name; pure (.data s (.idFor n))
  | ["get", s, id] => do let s ← parseSlot s; let id ← parseId id; pure (.data s (.get id))
  | ["put", s, id, v] => do
    let s ← parseSlot s; let id ← parseId id; let v ← bytesOfHex v; pure (.data s (.put id v))
  | ["del", s, id] => do let s ← parseSlot s; let id ← parseId id; pure (.data s (.del id))
  | ["upd", s, id, k, v] => do
    let s ← parseSlot s; let id ← parseId id; let k ← bytesOfHex k; let v ← bytesOfHex v
    pure (.data s (.upd id k v))
  | ["rem", s, id, k] => do
    let s ← parseSlot s; let id ← parseId id; let k ← bytesOfHex k; pure (.data s (.rem id k))
  | ["clr", s, id] => do let s ← parseSlot s; let id ← parseId id; pure (.data s (.clr id))
  | ["read", s, id] => do let s ← parseSlot s; let id ← parseId id; pure (.data s (.read id))
  | _ => .none

def renderEntries (l : List (Bytes × Bytes)) : String :=
  if l.isEmpty then "map ." else
  "map " ++ ",".intercalate (l.map fun e => hexOfBytes e.1 ++ "=" ++ hexOfBytes e.2)

def Out.render : Out → String
  | .ok => "ok" | .ready => "ready" | .pending => "pending" | .badOp => "bad-op"
  | .errInvalidOp => "err invalid-op" | .errInit => "err init" | .errInvalidKey => "err invalid-key"
  | .id n => s!"ok {n}"
  | .some v => "some " ++ hexOfBytes v
  | .none => "none"
  | .entries l => renderEntries l

def parseEntry (w : String) : Option (Bytes × Bytes) :=
  match w.splitOn "=" with
  | [k, v] => do let k ← bytesOfHex k; let v ← bytesOfHex v; pure (k, v)
  | _ => .none

def parseEntries : List String → Option (List (Bytes × Bytes))
  | [] => .some []
  | w :: ws => do let e ← parseEntry w; let r ← parseEntries ws; pure (e :: r)

def parseOut (out : String) : Option Out :=
  match words out with
  | ["ok"] => .some .ok
  | ["ready"] => .some .ready
  | ["pending"] => .some .pending
  | ["bad-op"] => .some .badOp
  | ["err", "invalid-op"] => .some .errInvalidOp
  | ["err", "init"] => .some .errInit
  | ["err", "invalid-key"] => .some .errInvalidKey
  | ["ok", n] => n.toNat?.map .id
  | ["some", v] => (bytesOfHex v).map .some
  | ["none"] => .some .none
  | ["map", "."] => .some (.entries [])
  | ["map", es] => (parseEntries (es.splitOn ",")).map .entries
  | _ => .none

def InMem.line (s : InMem.St) (line : String) : InMem.St × String :=
  match parseOp line with
  | .some op => let r := InMem.step s op; (r.1, r.2.render)
  | .none => (s, "bad-op")

def Rocks.line (s : Rocks.St) (line : String) : Rocks.St × String :=
  match parseOp line with
  | .some op => let r := Rocks.step s op; (r.1, r.2.render)
  | .none => (s, "bad-op")

/-! ## Observable-level monitor: the property, decided on an implementation trace alone

Spec: per plane (RocksDB) / per (plane, agent URI) (in-memory: ids are per node) an id-indexed family of items, each a
value slot and a map slot; names map to ids injectively and for ever.  `err invalid-op` (the in-memory store's kind
check) is accepted exactly when the item holds the other kind, and then must have no effect. -/

structure Item where
  val : Option Bytes := .none
  map : Option BMap := .none       -- `none`: no map; kept sorted with unique keys
  deriving Repr, DecidableEq

inductive MSlot
  | live (p : Nat) (uri : Bytes)
  | waiting (p : Nat) (uri : Bytes)      -- pending open; an earlier instance still holds the state
  | granted (p : Nat) (uri : Bytes)      -- pending open; the earlier instance is gone: the next poll must be ready
  | superseded (p : Nat) (uri : Bytes)   -- pending open overtaken by a later open of the same URI
  deriving Repr, DecidableEq

def MSlot.key : MSlot → Nat × Bytes
  | .live p u | .waiting p u | .granted p u | .superseded p u => (p, u)

structure Mon where
  rocks : Bool := false
  slots : List (Nat × MSlot) := []
  names : List ((Nat × Bytes × Bytes) × Nat) := []    -- (plane, uri, item name) ↦ id
  items : List ((Nat × Bytes × Nat) × Item) := []     -- (plane, scope, id) ↦ contents
  lost : List (Nat × Bytes) := []                     -- URIs whose hand-over was cancelled after the state was sent
  deriving Repr

def Mon.scope (m : Mon) (uri : Bytes) : Bytes := if m.rocks then [] else uri

def canonEntries (l : List (Bytes × Bytes)) : BMap := l.foldl (fun m e => bput m e.1 e.2) []

/-- Does some slot satisfy `f`? returns its number. -/
def findSlot (slots : List (Nat × MSlot)) (f : MSlot → Bool) : Option Nat :=
  match slots.find? (fun e => f e.2) with
  | .some e => .some e.1
  | .none => .none

def isHolder (k : Nat × Bytes) : MSlot → Bool
  | .live p u => decide ((p, u) = k)
  | .granted p u => decide ((p, u) = k)
  | _ => false

def isWaiting (k : Nat × Bytes) : MSlot → Bool
  | .waiting p u => decide ((p, u) = k)
  | _ => false

/-- Another name with the same id in the same id scope. -/
def collides (m : Mon) (p : Nat) (uri name : Bytes) (id : Nat) : Option (Bytes × Bytes) :=
  match m.names.find? (fun e => e.1.1 == p && e.2 == id && (m.rocks || e.1.2.1 == uri)
                                && !(e.1.2.1 == uri && e.1.2.2 == name)) with
  | .some e => .some (e.1.2.1, e.1.2.2)
  | .none => .none

def Mon.dataStep (m : Mon) (p : Nat) (uri : Bytes) (d : DOp) (out : Out) : Mon × Option String :=
  let sc := m.scope uri
  match d with
  | .idFor name =>
    match out with
    | .id n =>
      match aget m.names (p, uri, name) with
      | .some n0 => (m, if n = n0 then .none else .some "id-changed")
      | .none =>
        let m1 := { m with names := aset m.names (p, uri, name) n }
        match collides m p uri name n with
        | .some (u2, n2) =>
          -- F10 class: the two (uri, name) pairs have the same `uri/name` concatenation
          (m1, .some (if m.rocks && (u2 ++ 47 :: n2) == (uri ++ 47 :: name) then "id-collision-name-concat"
                      else "id-collision"))
        | .none => (m1, .none)
    | _ => (m, .some "unexpected-result")
  | .get id =>
    let it := (aget m.items (p, sc, id)).getD {}
    match out with
    | .some v => (m, if it.val = .some v then .none else .some "get-wrong-value")
    | .none => (m, if it.val = .none then .none else .some "get-lost-value")
    | .errInvalidOp => (m, if !m.rocks && it.map.isSome then .none else .some "unexpected-error")
    | _ => (m, .some "unexpected-result")
  | .put id v =>
    let it := (aget m.items (p, sc, id)).getD {}
    match out with
    | .ok => ({ m with items := aset m.items (p, sc, id) { it with val := .some v } }, .none)
    | .errInvalidOp => (m, if !m.rocks && it.map.isSome then .none else .some "unexpected-error")
    | _ => (m, .some "unexpected-result")
  | .del id =>
    let it := (aget m.items (p, sc, id)).getD {}
    match out with
    | .ok => ({ m with items := aset m.items (p, sc, id) { it with val := .none } }, .none)
    | .errInvalidOp => (m, if !m.rocks && it.map.isSome then .none else .some "unexpected-error")
    | _ => (m, .some "unexpected-result")
  | .upd id k v =>
    let it := (aget m.items (p, sc, id)).getD {}
    match out with
    | .ok => ({ m with items := aset m.items (p, sc, id) { it with map := .some (bput (it.map.getD []) k v) } }, .none)
    | .errInvalidOp => (m, if !m.rocks && it.val.isSome then .none else .some "unexpected-error")
    | _ => (m, .some "unexpected-result")
  | .rem id k =>
    let it := (aget m.items (p, sc, id)).getD {}
    match out with
    | .ok => ({ m with items := aset m.items (p, sc, id) { it with map := it.map.map (fun mp => adel mp k) } }, .none)
    | .errInvalidOp => (m, if !m.rocks && it.val.isSome then .none else .some "unexpected-error")
    | _ => (m, .some "unexpected-result")
  | .clr id =>
    let it := (aget m.items (p, sc, id)).getD {}
    match out with
    | .ok => ({ m with items := aset m.items (p, sc, id) { it with map := .none } }, .none)
    | .errInvalidOp => (m, if !m.rocks && it.val.isSome then .none else .some "unexpected-error")
    | _ => (m, .some "unexpected-result")
  | .read id =>
    let it := (aget m.items (p, sc, id)).getD {}
    match out with
    | .entries l =>
      let want := it.map.getD []
      (m, if canonEntries l = want && l.length == want.length then .none else .some "read-map-wrong-entries")
    | .errInvalidOp => (m, if !m.rocks && it.val.isSome then .none else .some "unexpected-error")
    | _ => (m, .some "unexpected-result")

def Mon.opStep (m : Mon) (op : Op) (out : Out) : Mon × Option String :=
  match op with
  | .opn slot p uri =>
    if (aget m.slots slot).isSome then (m, if out = .badOp then .none else .some "unexpected-result") else
    if m.rocks then
      ({ m with slots := aset m.slots slot (.live p uri) }, if out = .ready then .none else .some "unexpected-result")
    else
      match findSlot m.slots (isHolder (p, uri)) with
      | .none =>
        -- nobody holds the state: the open must complete at once
        if out = .ready then ({ m with slots := aset m.slots slot (.live p uri) }, .none)
        else if out = .pending && m.lost.contains (p, uri) then (m, .some "handover-state-lost-after-cancelled-open")
        else (m, .some "open-blocked-with-no-holder")
      | .some _ =>
        if out = .pending then
          let slots1 := match findSlot m.slots (isWaiting (p, uri)) with
            | .some w => aset m.slots w (.superseded p uri)
            | .none => m.slots
          ({ m with slots := aset slots1 slot (.waiting p uri) }, .none)
        else (m, .some "second-instance-opened-while-state-held")
  | .poll slot =>
    match aget m.slots slot with
    | .some (.waiting _ _) => (m, if out = .pending then .none else .some "poll-ready-while-state-held")
    | .some (.granted p uri) =>
      if out = .ready then ({ m with slots := aset m.slots slot (.live p uri) }, .none)
      else if m.lost.contains (p, uri) then (m, .some "handover-state-lost-after-cancelled-open")
      else (m, .some "handover-not-delivered")
    | .some (.superseded _ _) =>
      if out = .errInit then ({ m with slots := adel m.slots slot }, .none) else (m, .some "unexpected-result")
    | _ => (m, if out = .badOp then .none else .some "unexpected-result")
  | .drp slot =>
    match aget m.slots slot with
    | .none => (m, if out = .badOp then .none else .some "unexpected-result")
    | .some sl =>
      if out = .ok then
        let slots1 := adel m.slots slot
        match sl with
        | .live p uri =>
          -- the state passes to the pending open, if there is one
          match findSlot slots1 (isWaiting (p, uri)) with
          | .some w => ({ m with slots := aset slots1 w (.granted p uri) }, .none)
          | .none => ({ m with slots := slots1 }, .none)
        | .granted p uri =>
          -- a cancelled open that already owned the state: the state must return to the plane
          let m1 := { m with lost := (p, uri) :: m.lost }
          match findSlot slots1 (isWaiting (p, uri)) with
          | .some w => ({ m1 with slots := aset slots1 w (.granted p uri) }, .none)
          | .none => ({ m1 with slots := slots1 }, .none)
        | _ => ({ m with slots := slots1 }, .none)
      else (m, .some "unexpected-result")
  | .data slot d =>
    match aget m.slots slot with
    | .some (.live p uri) => m.dataStep p uri d out
    | _ => (m, if out = .badOp then .none else .some "unexpected-result")
  | .reopen =>
    if m.rocks then ({ m with slots := [] }, if out = .ok then .none else .some "unexpected-result")
    else (m, if out = .badOp then .none else .some "unexpected-result")

def Mon.step (m : Mon) (line : String) (out : String) : Mon × Option String :=
  match parseOp line with
  | .none => (m, if out = "bad-op" then .none else .some "unparsable-op-not-rejected")
  | .some op =>
    match parseOut out with
    | .none => (m, .some "unparsable-output")
    | .some o => m.opStep op o

end SwimVerif.Store
