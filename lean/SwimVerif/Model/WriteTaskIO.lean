/-
Line protocol and observable-level monitor for the write-task model (`Model/WriteTask.lean`).

ops:   new <agg> | lane <name> <rep> | attach <r> | link <r> <name> | unlink <r> <name> | unknown <r> <name>
       ev <laneId> <r|*> <resp> | done <r> ok|fail | fail <laneId> | prune <r> | quiesce | stop | snap
resp:  val:<hex> sup:<hex> upd:<k>:<hex> rem:<k> clr synv syns synm
out:   f=<frames> s=<remotes scheduled> c=<closed> [snap=…]      (`-` for empty lists)
frame: <laneName|_>:linked | :synced | :unl:<none|closed|nf> | :ev:<hex> | :ev:upd:<k>:<hex> | :ev:rem:<k> | :ev:clr
`quiesce` completes every in-flight write until nothing is in flight; `stop` = `unlink_all` then the same drain
(the shutdown epilogue); their frames are grouped per remote `r<id>[…]`, runs of `unl:none` sorted by lane name
(the order of `remove_all_links` is a hash-map order).
Lane kind by convention: name % 3 = 0 value, 1 supply, 2 map.
-/
import SwimVerif.Model.WriteTask

namespace SwimVerif.WT

/-! ### Rendering -/

def UnlinkMsg.render : UnlinkMsg → String
  | .none => "none" | .closed => "closed" | .notFound => "nf"

def MapOp.render : MapOp → String
  | .upd k v => s!"upd:{k}:{hexOfBytes v}"
  | .rem k => s!"rem:{k}"
  | .clear => "clr"

def Body.render : Body → String
  | .raw b => hexOfBytes b
  | .map op => op.render
  | .empty => "-"

def Note.render : Note → String
  | .linked => "linked"
  | .synced => "synced"
  | .unlinked m => s!"unl:{m.render}"
  | .event b => s!"ev:{b.render}"

def renderLane : Option Nat → String
  | some n => toString n
  | none => "_"

def renderFrame (f : Option Nat × Note) : String := s!"{renderLane f.1}:{f.2.render}"

def renderList (xs : List String) : String := if xs.isEmpty then "-" else ",".intercalate xs

def insertSorted (x : Nat) : List Nat → List Nat
  | [] => [x]
  | y :: ys => if x ≤ y then x :: y :: ys else y :: insertSorted x ys

def sortNat (xs : List Nat) : List Nat := xs.foldr insertSorted []

def Reason.render : Reason → String
  | .duplicate => "dup" | .channelClosed => "closed" | .timedOut => "timeout" | .stopped => "stopped"

def Counters.render (c : Counters) : String := s!"{c.links}/{c.events}"

def insertSortedBy {α : Type} (key : α → Nat) (x : α) : List α → List α
  | [] => [x]
  | y :: ys => if key x ≤ key y then x :: y :: ys else y :: insertSortedBy key x ys

def sortBy {α : Type} (key : α → Nat) (xs : List α) : List α := xs.foldr (insertSortedBy key) []

def renderSnap (s : Counters × List (Nat × Counters)) : String :=
  let lanes := (sortBy (fun (p : Nat × Counters) => p.1) s.2).map fun p => s!"l{p.1}={p.2.render}"
  " ".intercalate ([s!"agg={s.1.render}"] ++ lanes)

def Out.render (o : Out) : String :=
  let base := s!"f={renderList (o.frames.map renderFrame)} s={renderList ((sortNat o.sched).map toString)} c={renderList (o.closed.map fun p => s!"{p.1}:{p.2.render}")}"
  match o.snap with
  | some s => base ++ " snap " ++ renderSnap s
  | none => base

/-! ### Drain (quiesce / stop epilogue) -/

def isUnlNone (f : Option Nat × Note) : Bool :=
  match f.2 with
  | .unlinked .none => true
  | _ => false

def laneKey (f : Option Nat × Note) : Nat := match f.1 with | some n => n + 1 | none => 0

/-- Sort maximal runs of consecutive `unl:none` frames by lane name. -/
def canonRuns (fs : List (Option Nat × Note)) : List (Option Nat × Note) :=
  let r := fs.foldl (fun (acc : List (Option Nat × Note) × List (Option Nat × Note)) f =>
    if isUnlNone f then (acc.1, acc.2 ++ [f]) else (acc.1 ++ sortBy laneKey acc.2 ++ [f], [])) ([], [])
  r.1 ++ sortBy laneKey r.2

/-- Complete writes of remote `r` until none is in flight (fuel bounds the loop). -/
def drainRemote (s : St) (r : Nat) : Nat → St × List (Option Nat × Note)
  | 0 => (s, [])
  | fuel + 1 =>
    match s.remote? r with
    | none => (s, [])
    | some rem =>
      match rem.inflight with
      | none => (s, [])
      | some _ =>
        let x := step s (.done r true)
        let y := drainRemote x.1 r fuel
        (y.1, x.2.frames ++ y.2)

def pendingSize (u : Uplinks) : Nat :=
  u.specialQueue.length + u.writeQueue.length
    + (u.supply.foldl (fun n p => n + p.2.bp.length) 0) + (u.map.foldl (fun n p => n + p.2.bp.length) 0) + 2

def drainAll (s : St) : St × List (Nat × List (Option Nat × Note)) :=
  let ids := sortNat (s.remotes.map (·.1))
  ids.foldl (fun (acc : St × List (Nat × List (Option Nat × Note))) r =>
    match acc.1.remote? r with
    | none => acc
    | some rem =>
      let x := drainRemote acc.1 r (2 * pendingSize rem.up + 4)
      (x.1, acc.2 ++ [(r, canonRuns x.2)])) (s, [])

def renderDrain (d : List (Nat × List (Option Nat × Note))) : String :=
  let parts := (d.filter (fun p => !p.2.isEmpty)).map fun p => s!"r{p.1}[{",".intercalate (p.2.map renderFrame)}]"
  if parts.isEmpty then "-" else " ".intercalate parts

/-! ### Parsing -/

def parseResp (s : String) : Option Resp :=
  match s.splitOn ":" with
  | ["val", h] => (bytesOfHex h).map .value
  | ["sup", h] => (bytesOfHex h).map .supply
  | ["upd", k, h] => match k.toNat?, bytesOfHex h with
    | some k, some v => some (.map (.upd k v))
    | _, _ => none
  | ["rem", k] => k.toNat?.map fun k => .map (.rem k)
  | ["clr"] => some (.map .clear)
  | ["synv"] => some (.synced .value)
  | ["syns"] => some (.synced .supply)
  | ["synm"] => some (.synced .map)
  | _ => none

def parseEv (line : String) : Option Ev :=
  match words line with
  | ["lane", n, r] => match n.toNat?, r.toNat? with
    | some n, some r => some (.lane n (r != 0))
    | _, _ => none
  | ["attach", r] => r.toNat?.map .attach
  | ["link", r, n] => match r.toNat?, n.toNat? with
    | some r, some n => some (.link r n)
    | _, _ => none
  | ["unlink", r, n] => match r.toNat?, n.toNat? with
    | some r, some n => some (.unlink r n)
    | _, _ => none
  | ["unknown", r, n] => match r.toNat?, n.toNat? with
    | some r, some n => some (.unknown r n)
    | _, _ => none
  | ["ev", l, t, resp] => match l.toNat?, parseResp resp with
    | some l, some resp =>
      if t = "*" then some (.event l none resp) else t.toNat?.map fun t => .event l (some t) resp
    | _, _ => none
  | ["done", r, "ok"] => r.toNat?.map fun r => .done r true
  | ["done", r, "fail"] => r.toNat?.map fun r => .done r false
  | ["fail", l] => l.toNat?.map .laneFailed
  | ["prune", r] => r.toNat?.map .prune
  | ["stop"] => some .stop
  | ["snap"] => some .snapshot
  | _ => none

/-- Model step on a text line. -/
def stepLine (s : St) (line : String) : St × String :=
  match words line with
  | ["new", a] => ({ links := { hasAgg := a != "0" } }, "ok")
  | ["quiesce"] => let d := drainAll s; (d.1, s!"d={renderDrain d.2}")
  | ["stop"] =>
    let x := step s .stop
    let d := drainAll x.1
    (d.1, s!"d={renderDrain d.2}")
  | _ => match parseEv line with
    | some e => let x := step s e; (x.1, x.2.render)
    | none => (s, "bad-op")

/-! ### Monitor (observable level): C04 link language / no fabrication, C20 counts, C14 supply, C01 value, C02 map -/

structure Pair where
  isOpen : Bool := false        -- per the frames seen so far
  pendingSynced : Nat := 0      -- sync answers pushed for this pair and not yet seen as `synced`
  owed : List Body := []        -- every body pushed for this pair, in order
  next : Nat := 0               -- index in `owed` after the last one delivered
  linkBase : Nat := 0           -- `owed.length` at the latest moment the pair became linked (op level)
  replica : List (Nat × Bytes) := []   -- map lanes: the remote's replica built from the delivered frames
  lastDelivered : Option Body := none
  deriving Inhabited

structure Mon where
  hasAgg : Bool := false
  reg : List Nat := []                  -- lane names by id
  reps : List Nat := []                 -- lane ids with a reporter
  failed : List Nat := []               -- failed lane ids
  attached : List Nat := []
  linked : List (Nat × Nat) := []       -- (remote, lane id) per the requests (the reference link set)
  pairs : List (Nat × Pair) := []       -- key = remote * 100000 + lane id
  evAgg : Nat := 0                      -- events sent to links since the last snapshot (reference)
  evLane : List (Nat × Nat) := []
  deriving Inhabited

def pkey (r lane : Nat) : Nat := r * 100000 + lane

def Mon.pair (m : Mon) (r lane : Nat) : Pair := (alGet m.pairs (pkey r lane)).getD {}
def Mon.setPair (m : Mon) (r lane : Nat) (p : Pair) : Mon := { m with pairs := alSet m.pairs (pkey r lane) p }

def Mon.isLinked (m : Mon) (r lane : Nat) : Bool := m.linked.contains (r, lane)

def Mon.addLink (m : Mon) (r lane : Nat) : Mon :=
  if m.isLinked r lane then m
  else
    let p := m.pair r lane
    { (m.setPair r lane { p with linkBase := p.owed.length }) with linked := m.linked ++ [(r, lane)] }

def respBody : Resp → Option Body
  | .value b => some (.raw b)
  | .supply b => some (.raw b)
  | .map op => some (.map op)
  | .synced _ => none

/-- Reference bookkeeping for a response pushed for `(r, lane)`. -/
def Mon.owe (m : Mon) (r lane : Nat) (resp : Resp) : Mon :=
  let p := m.pair r lane
  match respBody resp with
  | some b => m.setPair r lane { p with owed := p.owed ++ [b] }
  | none => m.setPair r lane { p with pendingSynced := p.pendingSynced + 1 }

def findFrom (owed : List Body) (b : Body) (start : Nat) : Option Nat :=
  let rec go : List Body → Nat → Option Nat
    | [], _ => none
    | x :: xs, i => if i ≥ start && x == b then some i else go xs (i + 1)
  go owed 0

def applyMap (rep : List (Nat × Bytes)) : MapOp → List (Nat × Bytes)
  | .upd k v => alSet rep k v
  | .rem k => alErase rep k
  | .clear => []

def foldOwed (owed : List Body) : List (Nat × Bytes) :=
  owed.foldl (fun rep b => match b with | .map op => applyMap rep op | _ => rep) []

def sameMap (a b : List (Nat × Bytes)) : Bool :=
  a.length == b.length && a.all (fun p => alGet b p.1 == some p.2)

def kindOfName (name : Nat) : Kind := if name % 3 = 0 then .value else if name % 3 = 1 then .supply else .map

def parseMapBody (ws : List String) : Option Body :=
  match ws with
  | ["upd", k, h] => match k.toNat?, bytesOfHex h with
    | some k, some v => some (.map (.upd k v))
    | _, _ => none
  | ["rem", k] => k.toNat?.map fun k => .map (.rem k)
  | ["clr"] => some (.map .clear)
  | [h] => (bytesOfHex h).map .raw
  | _ => none

def parseFrame (s : String) : Option (Option Nat × Note) :=
  match s.splitOn ":" with
  | lane :: rest =>
    let ln : Option (Option Nat) := if lane = "_" then some none else lane.toNat?.map some
    match ln, rest with
    | some ln, ["linked"] => some (ln, .linked)
    | some ln, ["synced"] => some (ln, .synced)
    | some ln, ["unl", "none"] => some (ln, .unlinked .none)
    | some ln, ["unl", "closed"] => some (ln, .unlinked .closed)
    | some ln, ["unl", "nf"] => some (ln, .unlinked .notFound)
    | some ln, "ev" :: body => (parseMapBody body).map fun b => (ln, .event b)
    | _, _ => none
  | [] => none

/-- One delivered frame for remote `r`. -/
def Mon.frame (m : Mon) (r : Nat) (f : Option Nat × Note) : Mon × Option String :=
  match f.2 with
  | .unlinked .notFound =>
    match f.1 with
    | some name => if m.reg.contains name then (m, some "lane-not-found-for-existing-lane") else (m, none)
    | none => (m, some "lane-not-found-without-name")
  | note =>
    match f.1 with
    | none => (m, some "frame-with-empty-lane-name")
    | some name =>
      let id := m.reg.idxOf name
      if id ≥ m.reg.length then (m, some "frame-for-unregistered-lane") else
      let p := m.pair r id
      match note with
      | .linked => (m.setPair r id { p with isOpen := true }, none)
      | .unlinked _ =>
        if p.isOpen then (m.setPair r id { p with isOpen := false }, none)
        else (m, some "unlinked-without-open-link")
      | .synced =>
        if !p.isOpen then (m, some "synced-outside-link")
        else if p.pendingSynced = 0 then (m, some "synced-not-requested")
        else (m.setPair r id { p with pendingSynced := p.pendingSynced - 1 }, none)
      | .event b =>
        if !p.isOpen then (m, some "event-outside-link") else
        match findFrom p.owed b 0 with
        | none => (m, some "fabricated-event-body")
        | some _ =>
          match kindOfName name with
          | .value =>
            match findFrom p.owed b p.next with
            | none => (m, some "value-event-stale-or-reordered")
            | some j => (m.setPair r id { p with next := j + 1, lastDelivered := some b }, none)
          | .supply =>
            match findFrom p.owed b p.next with
            | none => (m, some "supply-item-duplicated-or-reordered")
            | some j =>
              if j ≥ p.linkBase && j ≠ max p.next p.linkBase then (m, some "supply-item-skipped")
              else (m.setPair r id { p with next := j + 1, lastDelivered := some b }, none)
          | .map =>
            match b with
            | .map op => (m.setPair r id { p with replica := applyMap p.replica op, lastDelivered := some b }, none)
            | _ => (m, some "map-lane-event-not-a-map-operation")

def Mon.frames (m : Mon) (r : Nat) (fs : List (Option Nat × Note)) : Mon × Option String :=
  fs.foldl (fun (acc : Mon × Option String) f =>
    match acc.2 with
    | some e => (acc.1, some e)
    | none => acc.1.frame r f) (m, none)

/-- Checks at quiescence (nothing in flight, nothing queued) for every pair linked per the requests. -/
def Mon.quiescent (m : Mon) : Option String :=
  m.linked.foldl (fun (acc : Option String) (rl : Nat × Nat) =>
    match acc with
    | some e => some e
    | none =>
      if !m.attached.contains rl.1 || m.failed.contains rl.2 then none else
      let p := m.pair rl.1 rl.2
      let name := m.reg.getD rl.2 0
      if !p.isOpen then some "linked-remote-never-told-linked" else
      if p.owed.length ≤ p.linkBase then none else   -- nothing pushed since it was linked
      match kindOfName name with
      | .value => if p.lastDelivered == p.owed.getLast? then none else some "value-stale-at-quiescence"
      | .supply => if p.next = p.owed.length then none else some "supply-item-lost"
      | .map =>
        -- the replica must agree with the lane on every key touched since the link
        if p.linkBase = 0 then
          (if sameMap p.replica (foldOwed p.owed) then none else some "map-replica-diverged")
        else none) none

def parseCounters (s : String) : Option Counters :=
  match s.splitOn "/" with
  | [a, b] => match a.toNat?, b.toNat? with
    | some a, some b => some ⟨a, b⟩
    | _, _ => none
  | _ => none

def fieldOf (ws : List String) (k : String) : Option String :=
  (ws.find? (·.startsWith (k ++ "="))).map fun w => (w.drop (k.length + 1)).toString

/-- Frames of a plain output `f=a,b,c`. -/
def parseFrames (s : String) : Option (List (Option Nat × Note)) :=
  if s = "-" then some [] else (s.splitOn ",").mapM parseFrame

def Mon.removeRemoteLinks (m : Mon) (r : Nat) : Mon :=
  { m with linked := m.linked.filter (fun p => p.1 != r), attached := m.attached.filter (· != r) }

def Mon.checkSnap (m : Mon) (ws : List String) : Option String :=
  match fieldOf ws "agg" with
  | none => some "snapshot-unparsable"
  | some a =>
    match parseCounters a with
    | none => some "snapshot-unparsable"
    | some agg =>
      let live := m.linked.filter (fun p => !m.failed.contains p.2)
      if m.hasAgg && agg.links ≠ m.linked.length then some "aggregate-link-count-wrong"
      else if m.hasAgg && m.reps.length = m.reg.length && agg.events ≠ m.evAgg then some "aggregate-event-count-wrong"
      else
        m.reps.foldl (fun (acc : Option String) id =>
          match acc with
          | some e => some e
          | none =>
            if m.failed.contains id then
              -- a failed lane has no links: if its reporter still answers, it must say so
              match (fieldOf ws s!"l{id}").bind parseCounters with
              | some c => if c.links ≠ 0 then some "lane-link-count-wrong" else none
              | none => none
            else
            match (fieldOf ws s!"l{id}").bind parseCounters with
            | none => some "lane-snapshot-missing"
            | some c =>
              if c.links ≠ (live.filter (fun p => p.2 = id)).length then some "lane-link-count-wrong"
              else if m.hasAgg && c.events ≠ (alGet m.evLane id).getD 0 then some "lane-event-count-wrong"
              else none) none

def splitDrain (s : String) : List (Nat × String) :=
  -- "r1[a,b] r2[c]" → [(1,"a,b"), (2,"c")]
  ((s.splitOn " ").filterMap fun part =>
    match part.splitOn "[" with
    | [hd, tl] => match (hd.drop 1).toString.toNat? with
      | some r => some (r, (tl.dropEnd 1).toString)
      | none => none
    | _ => none)

def Mon.step (m : Mon) (line : String) (out : String) : Mon × Option String :=
  let ws := words out
  match words line with
  | ["new", a] => ({ hasAgg := a != "0" }, none)
  | ["quiesce"] | ["stop"] =>
    let isStop := (words line) = ["stop"]
    match fieldOf ws "d" with
    | none => (m, some "unparsable")
    | some _ =>
      let body := (out.drop 2).toString
      let groups := if body = "-" then [] else splitDrain body
      let r := groups.foldl (fun (acc : Mon × Option String) g =>
        match acc.2 with
        | some e => (acc.1, some e)
        | none => match parseFrames g.2 with
          | none => (acc.1, some "unparsable-frame")
          | some fs => acc.1.frames g.1 fs) (m, none)
      match r.2 with
      | some e => (r.1, some e)
      | none =>
        if isStop then
          -- every link open at the frame level must have been closed
          let stillOpen := r.1.pairs.any (fun p => p.2.isOpen && r.1.attached.contains (p.1 / 100000))
          ({ r.1 with linked := [] }, if stillOpen then some "link-left-open-at-stop" else none)
        else (r.1, r.1.quiescent)
  | _ =>
    match parseEv line with
    | none => (m, some "unparsable")
    | some ev =>
      -- frames delivered by this step
      let frames := (fieldOf ws "f").bind parseFrames
      match frames with
      | none => (m, some "unparsable-frames")
      | some fs =>
        let target : Nat := match ev with | .done r _ => r | _ => 0
        let r0 := m.frames target fs
        match r0.2 with
        | some e => (r0.1, some e)
        | none =>
          -- remotes whose completion promise resolved in this step are gone (with all their links)
          let closedIds : List Nat := match fieldOf ws "c" with
            | some c => if c = "-" then [] else (c.splitOn ",").filterMap fun x => ((x.splitOn ":").headD "").toNat?
            | none => []
          let prunedLinked : Bool := match ev with
            | .prune r => closedIds.contains r && r0.1.linked.any (·.1 = r)
            | _ => false
          if prunedLinked then (r0.1, some "linked-remote-pruned") else
          let m := closedIds.foldl (fun acc r => acc.removeRemoteLinks r) r0.1
          match ev with
          | .lane name rep =>
            ({ m with reg := m.reg ++ [name], reps := if rep then m.reps ++ [m.reg.length] else m.reps }, none)
          | .attach r => ({ m with attached := if m.attached.contains r then m.attached else m.attached ++ [r] }, none)
          | .link r name =>
            let id := m.reg.idxOf name
            if id < m.reg.length && m.attached.contains r then (m.addLink r id, none) else (m, none)
          | .unlink r name =>
            let id := m.reg.idxOf name
            if id < m.reg.length then ({ m with linked := m.linked.filter (· != (r, id)) }, none) else (m, none)
          | .unknown _ _ => (m, none)
          | .event lane target resp =>
            if lane ≥ m.reg.length then (m, some "malformed-op") else
            -- a failed lane produces nothing more (its channel is gone); such events are not accounted
            if m.failed.contains lane then (m, none) else
            let hasRep := m.reps.contains lane
            match target with
            | some r =>
              -- a targeted response links implicitly (only an attached remote can be linked)
              if !m.attached.contains r then (m, none) else
              let m1 := (m.addLink r lane).owe r lane resp
              let m2 := if m.hasAgg && (hasRep || m1.linked.any (·.2 = lane)) then { m1 with evAgg := m1.evAgg + 1 } else m1
              (if m.hasAgg && hasRep then { m2 with evLane := alSet m2.evLane lane ((alGet m2.evLane lane).getD 0 + 1) } else m2, none)
            | none =>
              let targets := (m.linked.filter (·.2 = lane)).map (·.1)
              let m1 := targets.foldl (fun acc r => acc.owe r lane resp) m
              let n := targets.length
              let m2 := if m.hasAgg then { m1 with evAgg := m1.evAgg + n } else m1
              (if m.hasAgg && hasRep then { m2 with evLane := alSet m2.evLane lane ((alGet m2.evLane lane).getD 0 + n) } else m2, none)
          | .done _ _ => (m, none)
          | .laneFailed lane =>
            if lane ≥ m.reg.length then (m, some "malformed-op") else
            ({ m with failed := m.failed ++ [lane], linked := m.linked.filter (·.2 != lane) }, none)
          | .prune _ => (m, none)
          | .stop => (m, none)
          | .snapshot =>
            ({ m with evAgg := 0, evLane := [] }, m.checkSnap ws)

end SwimVerif.WT
