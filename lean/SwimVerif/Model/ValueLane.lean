/-
Agent side of a value lane (C01, C03): `ValueStore` (`content`, `dirty`) and `ValueLane` (`sync_queue`,
`write_to_buffer`: sync requests first — current value as a sync event followed by `synced` — otherwise the pending
event, consuming the dirty flag exactly when the event is encoded). Values are numbers; the initial value is `0`.
-/
import SwimVerif.Model.Util

namespace SwimVerif.VL

inductive Frame
  | event (v : Nat)
  | syncEvent (r : Nat) (v : Nat)
  | synced (r : Nat)
  deriving DecidableEq, Repr

inductive WriteResult | done | dataStillAvailable | noData
  deriving DecidableEq, Repr

structure St where
  content : Nat := 0
  dirty : Bool := false
  syncQueue : List Nat := []
  -- ghost
  history : List Nat := []        -- every value set, in order
  written : List Nat := []        -- every value written out (events and sync events), in order
  lastEvent : Option Nat := none  -- the value of the last *event* frame
  deriving Repr

inductive Op
  | set (v : Nat)     -- `ValueLane::set` / `ValueStore::set`
  | sync (r : Nat)    -- `ValueLane::sync`
  | write             -- `LaneItem::write_to_buffer`
  deriving Repr

def step (s : St) : Op → St × List Frame × Option WriteResult
  | .set v => ({ s with content := v, dirty := true, history := s.history ++ [v] }, [], none)
  | .sync r => ({ s with syncQueue := s.syncQueue ++ [r] }, [], none)
  | .write =>
    match s.syncQueue with
    | r :: rest =>
      ({ s with syncQueue := rest, written := s.written ++ [s.content] },
       [.syncEvent r s.content, .synced r],
       some (if s.dirty || !rest.isEmpty then .dataStillAvailable else .done))
    | [] =>
      if s.dirty then
        ({ s with dirty := false, written := s.written ++ [s.content], lastEvent := some s.content },
         [.event s.content], some .done)
      else (s, [], some .noData)

def run (s : St) (ops : List Op) : St := ops.foldl (fun s op => (step s op).1) s

/-! line protocol: `new` | `set <v>` | `sync <r>` | `write` ; output `-` or `<result> <frames>` -/

def Frame.render : Frame → String
  | .event v => s!"ev:{v}"
  | .syncEvent r v => s!"sync:{r}:{v}"
  | .synced r => s!"synced:{r}"

def WriteResult.render : WriteResult → String
  | .done => "done" | .dataStillAvailable => "more" | .noData => "nodata"

def stepLine (s : St) (line : String) : St × String :=
  match words line with
  | ["new"] => ({}, "ok")
  | ["set", v] => match v.toNat? with
    | some v => ((step s (.set v)).1, "ok")
    | none => (s, "bad-op")
  | ["sync", r] => match r.toNat? with
    | some r => ((step s (.sync r)).1, "ok")
    | none => (s, "bad-op")
  | ["write"] =>
    let x := step s .write
    let fs := if x.2.1.isEmpty then "-" else ",".intercalate (x.2.1.map Frame.render)
    (x.1, s!"{(x.2.2.map WriteResult.render).getD "-"} {fs}")
  | _ => (s, "bad-op")

/-- Monitor: every value written is the value current at that moment (reference `cur`); a sync answer is
`sync r v, synced r` for the oldest pending request; `nodata` only when nothing is owed; `done` only when nothing
more is owed. -/
structure Mon where
  cur : Nat := 0
  owedEvent : Bool := false
  syncs : List Nat := []
  deriving Repr

def Mon.step (m : Mon) (line : String) (out : String) : Mon × Option String :=
  match words line with
  | ["new"] => ({}, none)
  | ["set", v] => ({ m with cur := v.toNat?.getD 0, owedEvent := true }, none)
  | ["sync", r] => ({ m with syncs := m.syncs ++ [r.toNat?.getD 0] }, none)
  | ["write"] =>
    match words out with
    | [res, fs] =>
      match m.syncs with
      | r :: rest =>
        if fs ≠ s!"sync:{r}:{m.cur},synced:{r}" then (m, some "sync-answer-wrong")
        else
          let m' := { m with syncs := rest }
          let more := m.owedEvent || !rest.isEmpty
          if more && res ≠ "more" then (m', some "write-result-loses-pending-work")
          else if !more && res ≠ "done" then (m', some "write-result-wrong")
          else (m', none)
      | [] =>
        if m.owedEvent then
          if fs ≠ s!"ev:{m.cur}" then (m, some "event-not-current-value")
          else if res ≠ "done" then (m, some "write-result-wrong")
          else ({ m with owedEvent := false }, none)
        else if fs ≠ "-" || res ≠ "nodata" then (m, some "wrote-without-change") else (m, none)
    | _ => (m, some "unparsable")
  | _ => (m, some "unparsable")

end SwimVerif.VL
