/-
C10 — generic part: byte helpers, resumable frame decoders and the chunk-feeding loop.

A `tokio_util::codec::Decoder` is a state machine that is handed the accumulated input buffer
(`&mut BytesMut`) and either consumes a frame (`Ok(Some(item))`), asks for more bytes (`Ok(None)`), fails
(`Err`) or — in the code as it is — panics. `FramedRead` appends what it read to the buffer and calls `decode`
until it answers `Ok(None)`.

* `Parser α`  : a decoder without state of its own (`WithLengthBytesCodec`, `RawMapOperationDecoder`, …):
                buffer ↦ (buffer', outcome).
* `Dec α`     : decoder with explicit state; `step` is ONE call of `decode(&mut self, &mut src)`;
                `view s` are the bytes of the current frame that have already been absorbed into the state
                (so `view s ++ buf` is "the unconsumed input" whatever the cut positions were).
* `feed`      : append a chunk, call `step` until it stops answering `item` (what `FramedRead` does per read).

Bytes are `Nat`s (< 256 on every input the driver parses); integers are big-endian (`put_u64`/`get_u64`).
`usize` additions that overflow are `panic` (overflow checks are on in the profile the harness builds).
-/
import SwimVerif.Model.Util

namespace SwimVerif.Frames

/-! ### bytes -/

/-- Big-endian encoding of `n` in `k` bytes (`put_u64` = `be 8`, `put_u128` = `be 16`, `put_u16` = `be 2`). -/
def be : Nat → Nat → List Nat
  | 0, _ => []
  | k + 1, n => (n / 256 ^ k % 256) :: be k n

/-- Big-endian value of a byte list (`get_u64` = `rd (buf.take 8)`). -/
def rd : List Nat → Nat
  | [] => 0
  | b :: bs => b * 256 ^ bs.length + rd bs

/-- `usize::MAX + 1` (64-bit target). -/
notation "M64" => (18446744073709551616 : Nat)

/-- First byte of a non-empty buffer (`src.as_ref()[0]`, `get_u8` on a copy); only used after a length check. -/
def hd : List Nat → Nat
  | [] => 0
  | b :: _ => b

@[simp] theorem hd_cons (b : Nat) (l : List Nat) : hd (b :: l) = b := rfl

/-! ### decoders -/

/-- Outcome of one `decode` call. -/
inductive Out (α : Type)
  | more            -- `Ok(None)`
  | item (a : α)    -- `Ok(Some(a))`
  | err             -- `Err(_)`
  | panic           -- the call panicked (arithmetic overflow, `split_to` out of bounds, capacity overflow)
  | abort           -- the process aborted (allocation of an absurd `reserve` failed)
  deriving Repr, DecidableEq

def Out.map {α β : Type} (f : α → β) : Out α → Out β
  | .more => .more | .item a => .item (f a) | .err => .err | .panic => .panic | .abort => .abort

/-- A decoder whose only state is the buffer. -/
abbrev Parser (α : Type) := List Nat → List Nat × Out α

structure Dec (α : Type) where
  σ : Type
  init : σ
  /-- one call of `decode`: (state, buffer) ↦ (state', buffer', outcome) -/
  step : σ → List Nat → σ × List Nat × Out α
  /-- the bytes of the current frame already absorbed into the state -/
  view : σ → List Nat

/-- A stateless parser as a decoder. -/
def Dec.ofParser {α : Type} (p : Parser α) : Dec α where
  σ := Unit
  init := ()
  step := fun _ buf => ((), (p buf).1, (p buf).2)
  view := fun _ => []

/-- How a read (one `feed`) ended. -/
inductive Status | more | err | panic | abort | hang
  deriving Repr, DecidableEq

structure FeedRes (α : Type) (σ : Type) where
  s : σ
  buf : List Nat
  items : List α
  status : Status

/-- Call `step` until it stops producing items (at most `fuel` calls; running out is a `hang`). -/
def loop {α : Type} (D : Dec α) : Nat → D.σ → List Nat → List α → FeedRes α D.σ
  | 0, s, buf, acc => ⟨s, buf, acc, .hang⟩
  | fuel + 1, s, buf, acc =>
    match (D.step s buf).2.2 with
    | .item a => loop D fuel (D.step s buf).1 (D.step s buf).2.1 (acc ++ [a])
    | .more => ⟨(D.step s buf).1, (D.step s buf).2.1, acc, .more⟩
    | .err => ⟨(D.step s buf).1, (D.step s buf).2.1, acc, .err⟩
    | .panic => ⟨(D.step s buf).1, (D.step s buf).2.1, acc, .panic⟩
    | .abort => ⟨(D.step s buf).1, (D.step s buf).2.1, acc, .abort⟩

/-- One read of `chunk` bytes: append to the buffer, decode as many frames as are complete.
Every item of a well-behaved decoder consumes at least one byte, so `length + 1` calls suffice. -/
def feed {α : Type} (D : Dec α) (s : D.σ) (buf chunk : List Nat) : FeedRes α D.σ :=
  loop D ((D.view s ++ (buf ++ chunk)).length + 1) s (buf ++ chunk) []

/-- Feed a list of chunks from a given configuration; collects the items, stops at the first read that does
not end in `more`. -/
def feedAll {α : Type} (D : Dec α) : D.σ → List Nat → List (List Nat) → List α → FeedRes α D.σ
  | s, buf, [], acc => ⟨s, buf, acc, .more⟩
  | s, buf, c :: cs, acc =>
    if (feed D s buf c).status = .more then
      feedAll D (feed D s buf c).s (feed D s buf c).buf cs (acc ++ (feed D s buf c).items)
    else ⟨(feed D s buf c).s, (feed D s buf c).buf, acc ++ (feed D s buf c).items, (feed D s buf c).status⟩

/-- Everything from a fresh decoder. -/
def run {α : Type} (D : Dec α) (chunks : List (List Nat)) : FeedRes α D.σ :=
  feedAll D D.init [] chunks []

def encodeAll {α : Type} (enc : α → List Nat) (ms : List α) : List Nat := (ms.map enc).flatten

end SwimVerif.Frames
