/-
Model of the layout that `#[derive(Form)]` (swimos_form_derive) gives a Rust type in the generic model `Value`
(C16): a *schema* datatype `Ty` (primitive kinds, `Option`, `Vec`, derived structs with every field kind
`header_body | header | attr | slot | body | skip`, tuple structs, `newtype`, enums), the write side
`toValue` (= `StructuralWritable::write_with` interpreted by `ValueInterpreter`) and the read side `fromValue`
(= the recogniser state machines of `structural/read/recognizer` fed by `RecognizerBridge` from a `Value`).

Every type is interpreted as a `Codec` (the six entry points the Rust traits give a type):
  enc      `write_with(ValueInterpreter)`
  dec      `make_recognizer()`       on the bridge events of a value
  decAttr  `make_attr_recognizer()`  on the bridge events of an attribute value, then `EndAttribute`
  decBody  `make_body_recognizer()`  on the events of a delegated body (remaining attributes + items)
  omits    `omit_as_field`
  absent   `on_absent()`
  dflt     `Default::default()` (only for the types a `#[form(skip)]` field may have in the model)
Names in comments are the Rust names.
-/
import SwimVerif.Model.Util
import SwimVerif.Generated.FormConsts

namespace SwimVerif.Form

/-- Integer kinds of `Value` / of Rust fields. -/
inductive NumKind | i32 | i64 | u32 | u64
  deriving DecidableEq, Repr

def NumKind.lo : NumKind → Int
  | .i32 => -2147483648 | .i64 => -9223372036854775808 | .u32 => 0 | .u64 => 0
def NumKind.hi : NumKind → Int
  | .i32 => 2147483647 | .i64 => 9223372036854775807 | .u32 => 4294967295 | .u64 => 18446744073709551615

/-- `i32::try_from(n)` etc. of `primitive::*Recognizer` succeed. -/
def NumKind.inRange (k : NumKind) (n : Int) : Bool := decide (k.lo ≤ n) && decide (n ≤ k.hi)

/-- `swimos_model::Value` (the kinds the model covers). An item is `(none, v)` for `Item::ValueItem(v)` and
`(some k, v)` for `Item::Slot(k, v)`. -/
inductive Val where
  | extant
  | num (k : NumKind) (n : Int)
  | bool (b : Bool)
  | text (s : String)
  | record (attrs : List (String × Val)) (items : List (Option Val × Val))

abbrev Attr := String × Val
abbrev Item := Option Val × Val

def Val.isExtant : Val → Bool
  | .extant => true
  | _ => false

/-- A value of a battery type, untyped: struct fields in declaration order (skipped ones included). -/
inductive Inst where
  | int (n : Int)
  | bool (b : Bool)
  | text (s : String)
  | unit
  | none
  | some (x : Inst)
  | list (xs : List Inst)
  | struct (xs : List Inst)
  | variant (k : Nat) (xs : List Inst)

inductive FKind | header | headerBody | attr | slot | body | skip
  deriving DecidableEq, Repr

/-- The decoders take the *mode* of the recogniser: `false` = freshly made, `true` = used before and `reset()`
(the element recogniser of a collection from the second element on, and everything below it). The two differ
because `VecRecognizer::reset` does not restore the initial stage of an attribute-body instance (C16-F16). -/
structure Codec where
  enc : Inst → Val
  dec : Bool → Val → Option Inst
  decAttr : Bool → Val → Option Inst
  decBody : Bool → List Attr → List Item → Option Inst
  omits : Inst → Bool
  absent : Option Inst
  dflt : Option Inst

/-! ### Primitive types (`simple_readable!`: `Rec`, `SimpleAttrBody<Rec>`, `SimpleRecBody<Rec>`) -/

/-- `SimpleRecBody`: `StartBody`, exactly one value item, `EndRecord`; no attribute may precede. -/
def simpleBody (dec : Val → Option Inst) (attrs : List Attr) (items : List Item) : Option Inst :=
  match attrs, items with
  | [], [(none, v)] => dec v
  | _, _ => none

def intDec (k : NumKind) : Val → Option Inst
  | .num _ n => if k.inRange n then some (.int n) else none
  | _ => none

def intCodec (k : NumKind) : Codec where
  enc := fun x => match x with
    | .int n => .num k n
    | _ => .extant
  dec := fun _ => intDec k
  decAttr := fun _ => intDec k
  decBody := fun _ => simpleBody (intDec k)
  omits := fun _ => false
  absent := none
  dflt := some (.int 0)

def boolDec : Val → Option Inst
  | .bool b => some (.bool b)
  | _ => none

def boolCodec : Codec where
  enc := fun x => match x with
    | .bool b => .bool b
    | _ => .extant
  dec := fun _ => boolDec
  decAttr := fun _ => boolDec
  decBody := fun _ => simpleBody (boolDec)
  omits := fun _ => false
  absent := none
  dflt := some (.bool false)

def textDec : Val → Option Inst
  | .text s => some (.text s)
  | _ => none

def textCodec : Codec where
  enc := fun x => match x with
    | .text s => .text s
    | _ => .extant
  dec := fun _ => textDec
  decAttr := fun _ => textDec
  decBody := fun _ => simpleBody (textDec)
  omits := fun _ => false
  absent := none
  dflt := some (.text "")

def unitDec : Val → Option Inst
  | .extant => some .unit
  | _ => none

def unitCodec : Codec where
  enc := fun _ => .extant
  dec := fun _ => unitDec
  decAttr := fun _ => unitDec
  decBody := fun _ => simpleBody (unitDec)
  omits := fun _ => false
  absent := none
  dflt := some .unit

/-! ### `Option<T>` -/

/-- `OptionRecognizer`: an `Extant` event is first offered to the inner recogniser; if that fails the result is
`None`. -/
def optDec (r : Bool) (c : Codec) (v : Val) : Option Inst :=
  match v with
  | .extant => match c.dec r .extant with
    | some x => some (.some x)
    | none => some .none
  | v => (c.dec r v).map .some

/-- `FirstOf<EmptyAttrRecognizer, Mapped<T::AttrRec>>`: the empty recogniser is tried first. -/
def optDecAttr (r : Bool) (c : Codec) (v : Val) : Option Inst :=
  match v with
  | .extant => some .none
  | v => (c.decAttr r v).map .some

/-- `FirstOf<EmptyBodyRecognizer, Mapped<T::BodyRec>>`: a body without attributes that is empty, or holds the
single item `Extant` (how a delegated `None` is written; accepted since the repair of C16-F1), is `None`. -/
def optDecBody (r : Bool) (c : Codec) (attrs : List Attr) (items : List Item) : Option Inst :=
  match attrs, items with
  | [], [] => some .none
  | [], [(none, .extant)] =>
    if Generated.emptyBodyAcceptsExtant then some .none else (c.decBody r attrs items).map .some
  | _, _ => (c.decBody r attrs items).map .some

def optCodec (c : Codec) : Codec where
  enc := fun x => match x with
    | .some y => c.enc y
    | _ => .extant
  dec := fun r => optDec r c
  decAttr := fun r => optDecAttr r c
  decBody := fun r => optDecBody r c
  omits := fun x => match x with
    | .none => true
    | _ => false
  absent := some .none
  dflt := some .none

/-! ### `Vec<T>` -/

/-- The items of a `VecRecognizer` body read by one decoder `d`: value items only (a `Slot` event is never
accepted by an element recogniser). -/
def listItems (d : Val → Option Inst) : List Item → Option (List Inst)
  | [] => some []
  | (none, v) :: rest => match d v with
    | some x => match listItems d rest with
      | some xs => some (x :: xs)
      | none => none
    | none => none
  | (some _, _) :: _ => none

/-- The first element is read by the element recogniser in the mode of the vector, every later one after
`rec.reset()`. -/
def listItemsFrom (r : Bool) (c : Codec) : List Item → Option (List Inst)
  | [] => some []
  | (none, v) :: rest => match c.dec r v with
    | some x => match listItems (c.dec true) rest with
      | some xs => some (x :: xs)
      | none => none
    | none => none
  | (some _, _) :: _ => none

/-- `VecRecognizer::new(false, ..)`: `StartBody` must be the first event, so there are no attributes. -/
def listDec (r : Bool) (c : Codec) : Val → Option Inst
  | .record [] items => (listItemsFrom r c items).map .list
  | _ => none

/-- `FirstOf<VecRecognizer(is_attr_body), SimpleAttrBody<VecRecognizer>>`: the flattened reading (the whole
attribute value is the single element) wins when both succeed. `VecRecognizer::reset` returns to
`BodyStage::Init` even for the attribute-body instance, so a reused recogniser has lost that alternative
(`Generated.vecResetKeepsAttrMode = false`, finding C16-F16). -/
def listDecAttr (r : Bool) (c : Codec) (v : Val) : Option Inst :=
  if r && !Generated.vecResetKeepsAttrMode then listDec r c v else
  match c.dec r v with
  | some x => some (.list [x])
  | none => listDec r c v

def listDecBody (r : Bool) (c : Codec) (attrs : List Attr) (items : List Item) : Option Inst :=
  match attrs with
  | [] => (listItemsFrom r c items).map .list
  | _ :: _ => none

def listCodec (c : Codec) : Codec where
  enc := fun x => match x with
    | .list xs => .record [] (xs.map fun y => (none, c.enc y))
    | _ => .extant
  dec := fun r => listDec r c
  decAttr := fun r => listDecAttr r c
  decBody := fun r => listDecBody r c
  omits := fun _ => false
  absent := none
  dflt := some (.list [])

/-! ### Derived structs -/

/-- One field of a derived struct with its position (`FieldModel.ordinal`), resolved name, whether it is labelled
(`TaggedFieldModel::is_labelled`), its placement directive and the codec of its type. -/
structure FieldC where
  idx : Nat
  name : String
  labelled : Bool
  kind : FKind
  c : Codec

/-! `SegregatedFields` (the fold of `SegregatedFields::add` over the fields, written declaratively): -/

def isKind (k : FKind) (f : FieldC) : Bool := f.kind == k
def notBody (f : FieldC) : Bool := !(f.kind == .body)
def hasBody (fs : List FieldC) : Bool := fs.any (isKind .body)
/-- `HeaderFields.tag_body`: the first `header_body` field. -/
def segHb (fs : List FieldC) : Option FieldC := fs.find? (isKind .headerBody)
/-- `HeaderFields.attributes`. -/
def segAs (fs : List FieldC) : List FieldC := fs.filter (isKind .attr)
/-- `BodyFields::ReplacedBody`. -/
def segBody (fs : List FieldC) : Option FieldC := fs.find? (isKind .body)
/-- `BodyFields::StdBody`. -/
def segSlots (fs : List FieldC) : List FieldC := if hasBody fs then [] else fs.filter (isKind .slot)
def preBody (fs : List FieldC) : List FieldC := fs.takeWhile notBody
def postBody (fs : List FieldC) : List FieldC := (fs.dropWhile notBody).drop 1
def headerOrSlot (f : FieldC) : Bool := f.kind == .header || f.kind == .slot
/-- `HeaderFields.header_fields`: explicit header fields; when a field replaces the body the slots seen before it
are appended at that point and every later header or slot field is pushed in order. -/
def segHs (fs : List FieldC) : List FieldC :=
  if hasBody fs then
    (preBody fs).filter (isKind .header) ++ (preBody fs).filter (isKind .slot) ++ (postBody fs).filter headerOrSlot
  else fs.filter (isKind .header)

/-- `FieldsModel.body_kind == Labelled` (`assess_kind`): the body is written as slots. -/
def bodyLabelled (fs : List FieldC) : Bool :=
  !(segSlots fs).isEmpty && (segSlots fs).all (·.labelled)

/-- The slots written for a group of (field, value) pairs: `write_slot` unless `omit_as_field`. -/
def writeSlots : List (FieldC × Inst) → List Item
  | [] => []
  | (f, x) :: rest =>
    if f.c.omits x then writeSlots rest else (some (.text f.name), f.c.enc x) :: writeSlots rest

def writeValues (ps : List (FieldC × Inst)) : List Item := ps.map fun p => (none, p.1.c.enc p.2)

def writeAttrs (ps : List (FieldC × Inst)) : List Attr := ps.map fun p => (p.1.name, p.1.c.enc p.2)

/-- The value of field `f` in the instance (fields are stored in declaration order). -/
def fieldVal (xs : List Inst) (f : FieldC) : Inst := xs.getD f.idx .unit

def withVals (xs : List Inst) (fs : List FieldC) : List (FieldC × Inst) := fs.map fun f => (f, fieldVal xs f)

/-- The value of the tag attribute: `write_extant_attr`, the `header_body` field alone, or the header record
(`make_header`: `SimpleHeader` / `HeaderWithBody`, the body first and always written). -/
def headerVal (fs : List FieldC) (xs : List Inst) : Val :=
  match segHb fs, segHs fs with
  | none, [] => .extant
  | some f, [] => f.c.enc (fieldVal xs f)
  | none, hs => .record [] (writeSlots (withVals xs hs))
  | some f, hs => .record [] ((none, f.c.enc (fieldVal xs f)) :: writeSlots (withVals xs hs))

/-- `ValueInterpreter::with_delegate_body`. -/
def delegateBody (attrs : List Attr) (b : Val) : Val :=
  match b with
  | .record more items => .record (attrs ++ more) items
  | b => .record attrs [(none, b)]

/-- `WriteWithFn`: the tag attribute, the attribute fields, then the body. -/
def structEnc (tag : String) (fs : List FieldC) (xs : List Inst) : Val :=
  let attrs := (tag, headerVal fs xs) :: writeAttrs (withVals xs (segAs fs))
  match segBody fs with
  | some f => delegateBody attrs (f.c.enc (fieldVal xs f))
  | none =>
    if bodyLabelled fs then .record attrs (writeSlots (withVals xs (segSlots fs)))
    else .record attrs (writeValues (withVals xs (segSlots fs)))

abbrev Acc := List (Nat × Inst)

def Acc.has (acc : Acc) (i : Nat) : Bool := acc.any fun p => p.1 == i

def findField (tbl : List FieldC) (name : String) : Option FieldC := tbl.find? fun f => f.name == name

/-- Slots read by name (`LabelledStructState::BodyBetween/BodyExpectingSlot/BodyItem`,
`HeaderState::BetweenSlots/ExpectingSlot/SlotItem`): the key must be a text naming a field of the table that has
not been seen (`progress` bit set / `DuplicateField`), the value is read by the field's `make_recognizer()`. -/
def readSlots (r : Bool) (tbl : List FieldC) (acc : Acc) : List Item → Option Acc
  | [] => some acc
  | (some (.text name), v) :: rest =>
    match findField tbl name with
    | some f =>
      if acc.has f.idx then none else
      match f.c.dec r v with
      | some x => readSlots r tbl (acc ++ [(f.idx, x)]) rest
      | none => none
    | none => none
  | _ :: _ => none

/-- Items read by position (`OrdinalStructState::BodyBetween/BodyItem`): value items only, at most one per field
(`select_feed` answers `InconsistentState` beyond the last field). -/
def readOrdinal (r : Bool) : List FieldC → Acc → List Item → Option Acc
  | _, acc, [] => some acc
  | f :: fs, acc, (none, v) :: rest =>
    match f.c.dec r v with
    | some x => readOrdinal r fs (acc ++ [(f.idx, x)]) rest
    | none => none
  | _, _, _ :: _ => none

/-- Attributes after the tag (`AttrBetween/AttrItem`): while the name is that of an attribute field, it must be
new and is read by the field's `make_attr_recognizer()`. Returns what is left at the first other name (an error for
a standard body: `UnexpectedField`; the start of the delegated part for `DelegateStructRecognizer`). -/
def readAttrs (r : Bool) (tbl : List FieldC) (acc : Acc) : List Attr → Option (Acc × List Attr)
  | [] => some (acc, [])
  | (name, v) :: rest =>
    match findField tbl name with
    | some f =>
      if acc.has f.idx then none else
      match f.c.decAttr r v with
      | some x => readAttrs r tbl (acc ++ [(f.idx, x)]) rest
      | none => none
    | none => some (acc, (name, v) :: rest)

/-- `HeaderRecognizer` with `flattened = false`: the header is an attribute-less record, the `header_body` value
(if the type has one) is its first item, then slots in any order. -/
def headerNested (r : Bool) (hb : Option FieldC) (hs : List FieldC) (tv : Val) : Option Acc :=
  match tv with
  | .record [] items =>
    match hb with
    | none => readSlots r hs [] items
    | some f =>
      match items with
      | [] => some []
      | (none, v) :: rest =>
        match f.c.dec r v with
        | some x => readSlots r hs [(f.idx, x)] rest
        | none => none
      | (some _, _) :: _ => none
  | _ => none

/-- `HeaderRecognizer` with `flattened = true` on bridge events: the whole attribute value is offered to the
`header_body` field; without such a field the first event would have to be a slot key followed by `Slot`, which the
bridge never produces for a single value. -/
def headerFlat (r : Bool) (hb : Option FieldC) (tv : Val) : Option Acc :=
  match hb with
  | some f => match f.c.dec r tv with
    | some x => some [(f.idx, x)]
    | none => none
  | none => none

/-- The tag attribute's value (`Header` / `NoHeader` states). `header_recognizer` is
`FirstOf(flattened, not flattened)`: both can only complete at `EndAttribute`, the first one wins. -/
def readHeader (r : Bool) (fs : List FieldC) (tv : Val) : Option Acc :=
  match segHb fs, segHs fs with
  | none, [] => if tv.isExtant then some [] else none
  | some f, [] => match f.c.decAttr r tv with
    | some x => some [(f.idx, x)]
    | none => none
  | hb, hs => match headerFlat r hb tv with
    | some acc => some acc
    | none => headerNested r hb hs tv

/-- `on_done`: every field in declaration order; a skipped field is `Default::default()`, a field that was not
read is `on_absent()` (else `MissingFields`). -/
def assemble (acc : Acc) : List FieldC → Option (List Inst)
  | [] => some []
  | f :: fs =>
    let v : Option Inst :=
      if f.kind == .skip then f.c.dflt else
      match acc.lookup f.idx with
      | some x => some x
      | none => f.c.absent
    match v, assemble acc fs with
    | some x, some xs => some (x :: xs)
    | _, _ => none

/-- The part of the struct recognisers after the tag name has been accepted
(`Labelled/Ordinal/DelegateStructRecognizer`). -/
def structDecAfterTag (r : Bool) (fs : List FieldC) (tv : Val) (attrs : List Attr) (items : List Item) : Option Inst :=
  match readHeader r fs tv with
  | none => none
  | some acc0 =>
    match readAttrs r (segAs fs) acc0 attrs with
    | none => none
    | some (acc1, rest) =>
      let acc2 : Option Acc :=
        match segBody fs with
        | some f => match f.c.decBody r rest items with
          | some x => some (acc1 ++ [(f.idx, x)])
          | none => none
        | none =>
          match rest with
          | _ :: _ => none
          | [] => if bodyLabelled fs then readSlots r (segSlots fs) acc1 items else readOrdinal r (segSlots fs) acc1 items
      match acc2 with
      | none => none
      | some acc => (assemble acc fs).map .struct

def structDec (r : Bool) (tag : String) (fs : List FieldC) (v : Val) : Option Inst :=
  match v with
  | .record ((t, tv) :: attrs) items => if t == tag then structDecAfterTag r fs tv attrs items else none
  | _ => none

def structCodec (tag : String) (fs : List FieldC) : Codec where
  enc := fun x => match x with
    | .struct xs => structEnc tag fs xs
    | _ => .extant
  dec := fun r => structDec r tag fs
  decAttr := fun r => structDec r tag fs          -- `SimpleAttrBody<Rec>`
  decBody := fun r attrs items => structDec r tag fs (.record attrs items)   -- `BodyRec = Rec`
  omits := fun _ => false
  absent := none
  dflt := none

/-! ### `#[form(newtype)]`: everything is delegated to the single field that is not skipped
(`LabelledNewtypeRecognizer` / `OrdinalNewtypeRecognizer`: always that field's `make_recognizer()`). -/

def newtypeField (fs : List FieldC) : Option FieldC := fs.find? fun f => !(f.kind == .skip)

def newtypeDec (r : Bool) (fs : List FieldC) (v : Val) : Option Inst :=
  match newtypeField fs with
  | some f => match f.c.dec r v with
    | some x => (assemble [(f.idx, x)] fs).map .struct
    | none => none
  | none => none

def newtypeCodec (fs : List FieldC) : Codec where
  enc := fun x => match x, newtypeField fs with
    | .struct xs, some f => f.c.enc (fieldVal xs f)
    | _, _ => .extant
  dec := fun r => newtypeDec r fs
  decAttr := fun r => newtypeDec r fs
  decBody := fun r attrs items => newtypeDec r fs (.record attrs items)
  omits := fun _ => false
  absent := none
  dflt := none

/-! ### Enums (`TaggedEnumRecognizer`): the tag attribute's name selects the variant. The recogniser of the selected
variant is built anew on every read (`reset` drops it), so below an enum everything is fresh again. -/

def findVariant : List (String × List FieldC) → String → Nat → Option (Nat × List FieldC)
  | [], _, _ => none
  | (t, fs) :: rest, name, k => if t == name then some (k, fs) else findVariant rest name (k + 1)

def enumDec (vs : List (String × List FieldC)) (v : Val) : Option Inst :=
  match v with
  | .record ((t, tv) :: attrs) items =>
    match findVariant vs t 0 with
    | some (k, fs) => match structDecAfterTag false fs tv attrs items with
      | some (.struct xs) => some (.variant k xs)
      | _ => none
    | none => none
  | _ => none

def enumCodec (vs : List (String × List FieldC)) : Codec where
  enc := fun x => match x with
    | .variant k xs => match vs[k]? with
      | some (tag, fs) => structEnc tag fs xs
      | none => .extant
    | _ => .extant
  dec := fun _ => enumDec vs
  decAttr := fun _ => enumDec vs
  decBody := fun _ attrs items => enumDec vs (.record attrs items)
  omits := fun _ => false
  absent := none
  dflt := none

/-! ### Schemas -/

mutual
/-- The shape of a type implementing `Form`. -/
inductive Ty where
  | int (k : NumKind)
  | bool
  | text
  | unit
  | opt (t : Ty)
  | list (t : Ty)
  /-- derived struct (named fields, tuple or unit) with its resolved tag -/
  | struct (tag : String) (fs : Fields)
  /-- `#[form(newtype)]` struct -/
  | newtype (fs : Fields)
  | enum (vs : Variants)
/-- Fields in declaration order: resolved name (empty for an unnamed tuple field), labelled?, kind, type. -/
inductive Fields where
  | nil
  | cons (name : String) (labelled : Bool) (kind : FKind) (ty : Ty) (rest : Fields)
inductive Variants where
  | nil
  | cons (tag : String) (fs : Fields) (rest : Variants)
end

mutual
def codecOf : Ty → Codec
  | .int k => intCodec k
  | .bool => boolCodec
  | .text => textCodec
  | .unit => unitCodec
  | .opt t => optCodec (codecOf t)
  | .list t => listCodec (codecOf t)
  | .struct tag fs => structCodec tag (fieldCs fs 0)
  | .newtype fs => newtypeCodec (fieldCs fs 0)
  | .enum vs => enumCodec (variantCs vs)
def fieldCs : Fields → Nat → List FieldC
  | .nil, _ => []
  | .cons name labelled kind ty rest, i => ⟨i, name, labelled, kind, codecOf ty⟩ :: fieldCs rest (i + 1)
def variantCs : Variants → List (String × List FieldC)
  | .nil => []
  | .cons tag fs rest => (tag, fieldCs fs 0) :: variantCs rest
end

/-- `Form::as_value`. -/
def toValue (t : Ty) (x : Inst) : Val := (codecOf t).enc x
/-- `Form::try_from_value`. -/
def fromValue (t : Ty) (v : Val) : Option Inst := (codecOf t).dec false v
/-- The same read by a recogniser that has been used before and `reset()`. -/
def fromValueReused (t : Ty) (v : Val) : Option Inst := (codecOf t).dec true v

end SwimVerif.Form
