/-
UTF-8 on byte lists, written out structurally (no `String.fromUTF8?`), so that the byte-level decoder model
(`Model/ReconInc.lean`: `readUtf8`) can be reasoned about.

`decode` accepts exactly what Rust's `std::str::from_utf8` accepts (Unicode Table 3-7, "well-formed UTF-8 byte
sequences"): lead bytes `00..7F`, `C2..DF`, `E0..EF`, `F0..F4`; continuation bytes `80..BF`, except the second byte
after `E0` (`A0..BF`: no overlong 3-byte forms), `ED` (`80..9F`: no surrogates), `F0` (`90..BF`: no overlong 4-byte
forms), `F4` (`80..8F`: nothing above U+10FFFF).  `C0`, `C1`, `F5..FF` never start a sequence.
Compared with the real decoder on every byte cut of every corpus line by `./check C09` (`chunksm`).
-/

namespace SwimVerif.Utf8

/-- The UTF-8 encoding of one scalar value (`char::encode_utf8`). -/
def encChar (c : Char) : List Nat :=
  if c.toNat < 0x80 then [c.toNat]
  else if c.toNat < 0x800 then [0xC0 + c.toNat / 64, 0x80 + c.toNat % 64]
  else if c.toNat < 0x10000 then [0xE0 + c.toNat / 4096, 0x80 + c.toNat / 64 % 64, 0x80 + c.toNat % 64]
  else [0xF0 + c.toNat / 262144, 0x80 + c.toNat / 4096 % 64, 0x80 + c.toNat / 64 % 64, 0x80 + c.toNat % 64]

/-- `str::as_bytes`. -/
def encode : List Char → List Nat
  | [] => []
  | c :: cs => encChar c ++ encode cs

/-- A continuation byte `80..BF`. -/
def isCont (b : Nat) : Bool := 0x80 ≤ b && b ≤ 0xBF

/-- The second byte of a 3-byte sequence with lead byte `a` (`E0..EF`). -/
def second3 (a b : Nat) : Bool :=
  if a = 0xE0 then 0xA0 ≤ b && b ≤ 0xBF
  else if a = 0xED then 0x80 ≤ b && b ≤ 0x9F
  else isCont b

/-- The second byte of a 4-byte sequence with lead byte `a` (`F0..F4`). -/
def second4 (a b : Nat) : Bool :=
  if a = 0xF0 then 0x90 ≤ b && b ≤ 0xBF
  else if a = 0xF4 then 0x80 ≤ b && b ≤ 0x8F
  else isCont b

/-- One well-formed sequence off the front: the scalar value and the remaining bytes. -/
def decStep : List Nat → Option (Nat × List Nat)
  | [] => none
  | a :: rest =>
    if a < 0x80 then some (a, rest)
    else if a < 0xC2 then none
    else if a < 0xE0 then
      (match rest with
       | b :: r => if isCont b then some ((a - 0xC0) * 64 + (b - 0x80), r) else none
       | [] => none)
    else if a < 0xF0 then
      (match rest with
       | b :: c :: r =>
         if second3 a b && isCont c then some ((a - 0xE0) * 4096 + (b - 0x80) * 64 + (c - 0x80), r) else none
       | _ => none)
    else if a < 0xF5 then
      (match rest with
       | b :: c :: d :: r =>
         if second4 a b && isCont c && isCont d then
           some ((a - 0xF0) * 262144 + (b - 0x80) * 4096 + (c - 0x80) * 64 + (d - 0x80), r)
         else none
       | _ => none)
    else none

/-- `std::str::from_utf8` (then `chars()`): `none` = not well-formed UTF-8.  (The length test always succeeds — a
sequence has at least one byte — and serves the termination argument only.) -/
def decode (bs : List Nat) : Option (List Char) :=
  match bs with
  | [] => some []
  | a :: rest =>
    match decStep (a :: rest) with
    | none => none
    | some (v, r) =>
      if r.length < (a :: rest).length then (decode r).map (fun cs => Char.ofNat v :: cs) else none
termination_by bs.length

/-! ### The same function without the length test at every step (compiled code only)

`decode` as written walks the rest of the list at every character (`r.length < …`, there for the termination
argument): quadratic, ten seconds on a 64 KiB text.  `decodeFast` runs on fuel computed once; the two are PROVED
equal and `@[csimp]` makes compiled code (the driver) use the fast one.  Theorems keep talking about `decode`. -/

private theorem decStep_lt' {bs : List Nat} {v : Nat} {r : List Nat} (h : decStep bs = some (v, r)) :
    r.length < bs.length := by
  rw [decStep.eq_def] at h
  split at h
  · simp only [reduceCtorEq] at h
  · repeat' split at h
    all_goals simp only [Option.some.injEq, Prod.mk.injEq, reduceCtorEq] at h
    all_goals (obtain ⟨-, rfl⟩ := h; simp only [List.length_cons]; omega)

def decodeF : Nat → List Nat → Option (List Char)
  | _, [] => some []
  | 0, _ :: _ => none
  | f + 1, a :: rest =>
    match decStep (a :: rest) with
    | none => none
    | some (v, r) => (decodeF f r).map (fun cs => Char.ofNat v :: cs)

def decodeFast (bs : List Nat) : Option (List Char) := decodeF bs.length bs

theorem decodeF_eq (f : Nat) (bs : List Nat) (h : bs.length ≤ f) : decodeF f bs = decode bs := by
  induction f generalizing bs with
  | zero =>
    cases bs with
    | nil => rw [decode]; rfl
    | cons a rest => simp at h
  | succ f ih =>
    cases bs with
    | nil => rw [decode]; rfl
    | cons a rest =>
      rw [decode]
      cases hs : decStep (a :: rest) with
      | none => simp only [decodeF, hs]
      | some p =>
        obtain ⟨v, r⟩ := p
        have hlt := decStep_lt' hs
        have hr : r.length ≤ f := by simp only [List.length_cons] at hlt h; omega
        simp only [decodeF, hs, hlt, ↓reduceIte, ih r hr]

@[csimp] theorem decode_eq_decodeFast : @decode = @decodeFast := by
  funext bs
  exact (decodeF_eq bs.length bs (Nat.le_refl _)).symm

end SwimVerif.Utf8
