/-
C10 — line protocol of the codec machine and the observable-level monitor.

Lines (one case = one decoder instance):
  codec <name>        ;; ok
  reset               ;; ok                    fresh decoder and buffer (the encoded frames are kept)
  expect-resync <i> <what> ;; ok                    declares: the streams fed from now on are the encoded stream with bytes
                                               changed only inside frame <i>, every length field intact
  end                 ;; ok                    end of one decoder run of such a stream (the monitor takes stock)
  enc <msg>           ;; frame <hex>           the real `Encoder` output for <msg> (model: `enc`)
  feed <hex>          ;; <status> [<msg> …]    append the bytes, call `decode` until it stops answering
                                               `Ok(Some(_))`; status ∈ more | err | panic | abort | hang | dead;
                                               the messages are those decoded by this read, in order
After `panic`/`abort` the decoder is dead (`dead` for every later feed). After `err` feeding goes on with the
decoder and buffer as the failed call left them.

Message text (no blanks; bytes in hex, `-` = empty, `~` = `None`):
  b:<hex>                                        WithLengthBytes / DownlinkOperation body
  upd:<k>:<v> rem:<k> clr take:<n> drop:<n>      map operation / message
  cmd(<m>) sync:<id> initdone                    LaneRequest / StoreInitMessage
  ev(<m>) inited sev:<id>(<m>) synced:<id>       LaneResponse / StoreInitialized / StoreResponse
  link|sync|unlink:<origin>:<node>:<lane>  cmd:<origin>:<node>:<lane>:<body>          RequestMessage
  linked|synced:<o>:<n>:<l>  unlinked:<o>:<n>:<l>:<body|~>  event:<o>:<n>:<l>:<body>  ResponseMessage
  reg:<host|~>:<node>:<lane>:<id>  adr:<host|~>:<node>:<lane>:<ow>:<body>  rgd:<id>:<ow>:<body>   CommandMessage
-/
import SwimVerif.Model.FrameCodecs

namespace SwimVerif.Frames
open SwimVerif.Generated.Wire

/-! ### text helpers -/

def splitColon (s : String) : List String := s.splitOn ":"

def hexOpt (s : String) : Option (Option Bytes) :=
  if s == "~" then some none else (bytesOfHex s).map some

def renderOpt : Option Bytes → String
  | none => "~"
  | some b => hexOfBytes b

/-- `pre(inner)` ↦ inner -/
def unwrap (pre : String) (s : String) : Option String :=
  let cs := s.toList
  let p := (pre ++ "(").toList
  if p.isPrefixOf cs && cs.getLast? == some ')' then
    some (String.ofList ((cs.drop p.length).dropLast))
  else none

def boolOf (s : String) : Option Bool := if s == "1" then some true else if s == "0" then some false else none

/-! ### message text per codec -/

def renderB (b : Bytes) : String := "b:" ++ hexOfBytes b
def parseB (s : String) : Option Bytes :=
  match splitColon s with
  | ["b", h] => bytesOfHex h
  | _ => none

def renderMapOp : MapOp → String
  | .update k v => s!"upd:{hexOfBytes k}:{hexOfBytes v}"
  | .remove k => s!"rem:{hexOfBytes k}"
  | .clear => "clr"

def parseMapOp (s : String) : Option MapOp :=
  match splitColon s with
  | ["upd", k, v] => do let k ← bytesOfHex k; let v ← bytesOfHex v; pure (.update k v)
  | ["rem", k] => (bytesOfHex k).map .remove
  | ["clr"] => some .clear
  | _ => none

def renderMapMsg : MapMsg → String
  | .op o => renderMapOp o
  | .take n => s!"take:{n}"
  | .drop n => s!"drop:{n}"

def parseMapMsg (s : String) : Option MapMsg :=
  match splitColon s with
  | ["take", n] => n.toNat?.map .take
  | ["drop", n] => n.toNat?.map .drop
  | _ => (parseMapOp s).map .op

variable {β : Type}

def renderLaneReq (r : β → String) : LaneRequest β → String
  | .command b => s!"cmd({r b})"
  | .sync id => s!"sync:{hexOfBytes id}"
  | .initComplete => "initdone"

def parseLaneReq (p : String → Option β) (s : String) : Option (LaneRequest β) :=
  if s == "initdone" then some .initComplete else
  match unwrap "cmd" s with
  | some inner => (p inner).map .command
  | none => match splitColon s with
    | ["sync", id] => (bytesOfHex id).map .sync
    | _ => none

def renderLaneResp (r : β → String) : LaneResponse β → String
  | .event b => s!"ev({r b})"
  | .initialized => "inited"
  | .syncEvent id b => s!"sev:{hexOfBytes id}({r b})"
  | .synced id => s!"synced:{hexOfBytes id}"

def parseLaneResp (p : String → Option β) (s : String) : Option (LaneResponse β) :=
  if s == "inited" then some .initialized else
  match unwrap "ev" s with
  | some inner => (p inner).map .event
  | none =>
    if s.startsWith "sev:" then
      -- sev:<32 hex digits>(<inner>)
      let cs := s.toList.drop 4
      let idh := String.ofList (cs.takeWhile (· ≠ '('))
      match bytesOfHex idh, unwrap ("sev:" ++ idh) s with
      | some id, some inner => (p inner).map (.syncEvent id)
      | _, _ => none
    else match splitColon s with
      | ["synced", id] => (bytesOfHex id).map .synced
      | _ => none

def renderStoreInit (r : β → String) : StoreInit β → String
  | .command b => s!"cmd({r b})"
  | .initComplete => "initdone"

def parseStoreInit (p : String → Option β) (s : String) : Option (StoreInit β) :=
  if s == "initdone" then some .initComplete else (unwrap "cmd" s).bind fun inner => (p inner).map .command

def renderStoreResp (r : β → String) (b : β) : String := s!"ev({r b})"
def parseStoreResp (p : String → Option β) (s : String) : Option β := (unwrap "ev" s).bind p

def renderReqMsg (m : ReqMsg) : String :=
  let a := s!"{hexOfBytes m.origin}:{hexOfBytes m.node}:{hexOfBytes m.lane}"
  match m.env with
  | .link => "link:" ++ a
  | .sync => "sync:" ++ a
  | .unlink => "unlink:" ++ a
  | .command b => "cmd:" ++ a ++ ":" ++ hexOfBytes b

def parseReqMsg (s : String) : Option ReqMsg :=
  match splitColon s with
  | [k, o, n, l] => do
    let o ← bytesOfHex o; let n ← bytesOfHex n; let l ← bytesOfHex l
    if k == "link" then pure ⟨o, n, l, .link⟩ else if k == "sync" then pure ⟨o, n, l, .sync⟩
    else if k == "unlink" then pure ⟨o, n, l, .unlink⟩ else none
  | ["cmd", o, n, l, b] => do
    let o ← bytesOfHex o; let n ← bytesOfHex n; let l ← bytesOfHex l; let b ← bytesOfHex b
    pure ⟨o, n, l, .command b⟩
  | _ => none

def renderRespMsg (m : RespMsg) : String :=
  let a := s!"{hexOfBytes m.origin}:{hexOfBytes m.node}:{hexOfBytes m.lane}"
  match m.env with
  | .linked => "linked:" ++ a
  | .synced => "synced:" ++ a
  | .unlinked b => "unlinked:" ++ a ++ ":" ++ renderOpt b
  | .event b => "event:" ++ a ++ ":" ++ hexOfBytes b

def parseRespMsg (s : String) : Option RespMsg :=
  match splitColon s with
  | [k, o, n, l] => do
    let o ← bytesOfHex o; let n ← bytesOfHex n; let l ← bytesOfHex l
    if k == "linked" then pure ⟨o, n, l, .linked⟩ else if k == "synced" then pure ⟨o, n, l, .synced⟩ else none
  | [k, o, n, l, b] => do
    let o ← bytesOfHex o; let n ← bytesOfHex n; let l ← bytesOfHex l
    if k == "unlinked" then do let b ← hexOpt b; pure ⟨o, n, l, .unlinked b⟩
    else if k == "event" then do let b ← bytesOfHex b; pure ⟨o, n, l, .event b⟩
    else none
  | _ => none

def renderCmd : CmdMsg → String
  | .register a id => s!"reg:{renderOpt a.host}:{hexOfBytes a.node}:{hexOfBytes a.lane}:{id}"
  | .addressed a b ow => s!"adr:{renderOpt a.host}:{hexOfBytes a.node}:{hexOfBytes a.lane}:{boolBit ow}:{hexOfBytes b}"
  | .registered t b ow => s!"rgd:{t}:{boolBit ow}:{hexOfBytes b}"

def parseCmd (s : String) : Option CmdMsg :=
  match splitColon s with
  | ["reg", h, n, l, id] => do
    let h ← hexOpt h; let n ← bytesOfHex n; let l ← bytesOfHex l; let id ← id.toNat?
    pure (.register ⟨h, n, l⟩ id)
  | ["adr", h, n, l, ow, b] => do
    let h ← hexOpt h; let n ← bytesOfHex n; let l ← bytesOfHex l; let ow ← boolOf ow; let b ← bytesOfHex b
    pure (.addressed ⟨h, n, l⟩ b ow)
  | ["rgd", t, ow, b] => do
    let t ← t.toNat?; let ow ← boolOf ow; let b ← bytesOfHex b
    pure (.registered t b ow)
  | _ => none

/-! ### the codec table -/

structure Codec where
  α : Type
  dec : Dec α
  enc : α → Bytes
  parse : String → Option α
  render : α → String

def codecNames : List String :=
  ["wlb", "mapop", "mapmsg", "lanereq-v", "lanereq-m", "laneresp-v", "laneresp-m", "storeinit-v", "storeinit-m",
   "storeinitd", "storeresp-v", "storeresp-m", "dlop", "rawreq", "rawresp", "rawcmd"]

def codecOf : Nat → Codec
  | 0 => ⟨Bytes, .ofParser wlb, encWlb, parseB, renderB⟩
  | 1 => ⟨MapOp, .ofParser rawMapOp, encMapOp, parseMapOp, renderMapOp⟩
  | 2 => ⟨MapMsg, .ofParser rawMapMsg, encMapMsg, parseMapMsg, renderMapMsg⟩
  | 3 => ⟨LaneRequest Bytes, laneRequest wlb, encLaneReq encWlb, parseLaneReq parseB, renderLaneReq renderB⟩
  | 4 => ⟨LaneRequest MapMsg, laneRequest rawMapMsg, encLaneReq encMapMsg, parseLaneReq parseMapMsg,
          renderLaneReq renderMapMsg⟩
  | 5 => ⟨LaneResponse Bytes, laneResponse wlb, encLaneResp encWlb, parseLaneResp parseB, renderLaneResp renderB⟩
  | 6 => ⟨LaneResponse MapOp, laneResponse rawMapOp, encLaneResp encMapOp, parseLaneResp parseMapOp,
          renderLaneResp renderMapOp⟩
  | 7 => ⟨StoreInit Bytes, storeInit wlb, encStoreInit encWlb, parseStoreInit parseB, renderStoreInit renderB⟩
  | 8 => ⟨StoreInit MapMsg, storeInit rawMapMsg, encStoreInit encMapMsg, parseStoreInit parseMapMsg,
          renderStoreInit renderMapMsg⟩
  | 9 => ⟨Unit, .ofParser storeInitialized, encStoreInitialized,
          fun s => if s == "inited" then some () else none, fun _ => "inited"⟩
  | 10 => ⟨Bytes, storeResponse wlb, encStoreResp encWlb, parseStoreResp parseB, renderStoreResp renderB⟩
  | 11 => ⟨MapOp, storeResponse rawMapOp, encStoreResp encMapOp, parseStoreResp parseMapOp,
           renderStoreResp renderMapOp⟩
  | 12 => ⟨Bytes, .ofParser downlinkOp, encWlb, parseB, renderB⟩
  | 13 => ⟨ReqMsg, .ofParser rawRequest, encReqMsg, parseReqMsg, renderReqMsg⟩
  | 14 => ⟨RespMsg, .ofParser rawResponse, encRespMsg, parseRespMsg, renderRespMsg⟩
  | _ => ⟨CmdMsg, rawCommand, encCmd, parseCmd, renderCmd⟩

structure Live where
  i : Nat
  s : (codecOf i).dec.σ
  buf : Bytes
  dead : Bool

def Status.render : Status → String
  | .more => "more" | .err => "err" | .panic => "panic" | .abort => "abort" | .hang => "hang"

def Live.feed (l : Live) (chunk : Bytes) : Live × String :=
  if l.dead then (l, "dead") else
  let r := Frames.feed (codecOf l.i).dec l.s l.buf chunk
  let dead := r.status == .panic || r.status == .abort || r.status == .hang
  (⟨l.i, r.s, r.buf, dead⟩,
    -- what was decoded by the read that killed the process is lost with it
    if r.status == .abort then "abort" else " ".intercalate (r.status.render :: r.items.map (codecOf l.i).render))

def machineStep (st : Option Live) (line : String) : Option Live × String :=
  match words line with
  | ["codec", name] =>
    match codecNames.idxOf? name with
    | some i => (some ⟨i, (codecOf i).dec.init, [], false⟩, "ok")
    | none => (none, "bad-op")
  | ["reset"] =>
    match st with
    | some l => (some ⟨l.i, (codecOf l.i).dec.init, [], false⟩, "ok")
    | none => (st, "bad-op")
  | ["expect-resync", _, _] => (st, if st.isSome then "ok" else "bad-op")
  | ["end"] => (st, if st.isSome then "ok" else "bad-op")
  | ["enc", msg] =>
    match st with
    | some l => match (codecOf l.i).parse msg with
      | some m => (st, "frame " ++ hexOfBytes ((codecOf l.i).enc m))
      | none => (st, "bad-op")
    | none => (st, "bad-op")
  | ["feed", h] =>
    match st, bytesOfHex h with
    | some l, some chunk => let r := l.feed chunk; (some r.1, r.2)
    | _, _ => (st, "bad-op")
  | _ => (st, "bad-op")

/-! ### monitor: decides the property on an implementation trace alone -/

structure Mon where
  codec : String := ""
  msgs : List String := []          -- what was given to the encoder, in order
  frames : List Bytes := []         -- what the encoder produced for each
  fed : Bytes := []
  decoded : List String := []
  errSeen : Bool := false           -- an `Err` was returned earlier in this case
  errs : Nat := 0                   -- number of `Err`s since the last reset
  resync : Option Nat := none       -- `expect-resync i what`: only the body text of frame `i` is corrupted
  what : String := ""               -- which text: key / value / rkey / body
  deriving Repr

def isPrefixB : Bytes → Bytes → Bool
  | [], _ => true
  | _ :: _, [] => false
  | a :: as, b :: bs => a == b && isPrefixB as bs

/-- Index of the first position where `fed` leaves `stream` (`fed` is not a prefix of `stream`). -/
def divergeAt : Bytes → Bytes → Nat
  | a :: as, b :: bs => if a == b then divergeAt as bs + 1 else 0
  | _, _ => 0

/-- Number of leading frames that end at or before byte offset `n`, and the start offset of the next one. -/
def framesWithin (n : Nat) : List Bytes → Nat → Nat × Nat
  | [], start => (0, start)
  | f :: fs, start =>
    if start + f.length ≤ n then
      let r := framesWithin n fs (start + f.length)
      (r.1 + 1, r.2)
    else (0, start)

/-- Kind of a message text: up to the first `:` or `(`. -/
def kindOf (m : String) : String := String.ofList (m.toList.takeWhile fun c => c ≠ ':' && c ≠ '(')

/-- Base name of a codec (`lanereq-v` ↦ `lanereq`); typed and raw variants share the wire format. -/
def family (codec : String) : String := (codec.splitOn "-").headD codec

/-- Offset of the tag inside a frame and the set of bytes that are valid there, per codec family. For the
routed messages the tag is the top three bits of byte 24. `none`: no tag rule for this codec. -/
def tagRule (codec : String) : Option (Nat × (Nat → Bool)) :=
  match family codec with
  | "lanereq" => some (0, fun b => b == laneCommand || b == laneSync || b == laneInitDone)
  | "laneresp" => some (0, fun b => b == laneEvent || b == laneInitialized || b == laneSync || b == laneSyncComplete)
  | "storeinit" => some (0, fun b => b == laneCommand || b == laneInitDone)
  | "storeinitd" => some (0, fun b => b == laneInitialized)
  | "storeresp" => some (0, fun b => b == laneEvent)
  | "mapop" => some (8, fun b => b == mapUpdate || b == mapRemove || b == mapClear)
  | "mapmsg" => some (8, fun b => b == mapUpdate || b == mapRemove || b == mapClear || b == mapTake || b == mapDrop)
  | "dlnot" => some (0, fun b => b == dlLinked || b == dlSynced || b == dlEvent || b == dlUnlinked)
  | "rawreq" => some (24, fun b => let t := b / 32; t == msgLink || t == msgSync || t == msgUnlink || t == msgCommand)
  | "reqmsg" => some (24, fun b => let t := b / 32; t == msgLink || t == msgSync || t == msgUnlink || t == msgCommand)
  | "respmsg" => some (24, fun b => let t := b / 32; t == msgLinked || t == msgSynced || t == msgUnlinked || t == msgEvent)
  | "rawresp" => some (24, fun b => let t := b / 32; t == msgLinked || t == msgSynced || t == msgUnlinked || t == msgEvent)
  | _ => none

/-- Routed messages: the frame kinds that carry no body (their length field must be zero). -/
def bodyless (codec kind : String) : Bool :=
  -- (the typed `RequestMessageDecoder` ignores the length of a body-less kind and reads no body: lenient, but
  -- the next frame is still found where the sender put it, so only the raw decoders are held to this)
  family codec == "rawreq" && (kind == "link" || kind == "sync" || kind == "unlink")
  || (family codec == "rawresp" || family codec == "respmsg") && (kind == "linked" || kind == "synced")

def listEqS : List String → List String → Bool
  | [], [] => true
  | a :: as, b :: bs => a == b && listEqS as bs
  | _, _ => false

def firstMismatch : List String → List String → Nat
  | a :: as, b :: bs => if a == b then firstMismatch as bs + 1 else 0
  | _, _ => 0

def Mon.step (m : Mon) (line : String) (out : String) : Mon × Option String :=
  match words line with
  | ["codec", name] => ({ codec := name }, if out == "ok" then none else some "codec-not-supported-by-harness")
  | ["reset"] =>
    ({ m with fed := [], decoded := [], errSeen := false, errs := 0 }, if out == "ok" then none else some "unparsable")
  | ["expect-resync", i, what] =>
    match i.toNat? with
    | some i => ({ m with resync := some i, what := what }, if out == "ok" then none else some "unparsable")
    | none => (m, some "unparsable")
  | ["end"] =>
    -- body corruption with intact framing: the damaged frame gives exactly one outcome (an error, or a message if
    -- its text still parses), every other frame is decoded exactly as encoded, nothing is lost or invented
    match m.resync with
    | none => (m, none)
    | some i =>
      let stream := m.frames.flatten
      let startI := ((m.frames.take i).map List.length).sum
      let endI := startI + (m.frames.getD i []).length
      let kind := kindOf (m.msgs.getD i "?") ++ ":" ++ m.what
      if m.fed.length != stream.length || !(isPrefixB (m.fed.take startI) stream)
          || m.fed.drop endI != stream.drop endI then (m, some s!"harness-resync-stream-malformed:{m.codec}")
      else if listEqS m.decoded (m.msgs.take i ++ m.msgs.drop (i + 1)) then
        (if m.errs == 1 then (m, none)
         else if m.errs == 0 then (m, some s!"resync-damaged-frame-vanished:{m.codec}:{kind}")
         else (m, some s!"resync-extra-errors:{m.codec}:{kind}"))
      else if m.decoded.length == m.msgs.length && listEqS (m.decoded.take i) (m.msgs.take i)
          && listEqS (m.decoded.drop (i + 1)) (m.msgs.drop (i + 1)) then
        (if m.errs == 0 then (m, none) else (m, some s!"resync-extra-errors:{m.codec}:{kind}"))
      else if listEqS (m.decoded.take i) (m.msgs.take i) then
        (m, some s!"resync-later-frames-lost:{m.codec}:{kind}")
      else (m, some s!"resync-earlier-frames-wrong:{m.codec}:{kind}")
  | ["enc", msg] =>
    match (match words out with | ["frame", h] => bytesOfHex h | _ => none) with
    | some bs =>
      if bs.isEmpty then (m, some s!"empty-frame:{m.codec}")
      else ({ m with msgs := m.msgs ++ [msg], frames := m.frames ++ [bs] }, none)
    | none => (m, some s!"encoder-failed:{m.codec}:{kindOf msg}")
  | ["feed", h] =>
    match bytesOfHex h with
    | none => (m, some "unparsable")
    | some chunk =>
      let ws := words out
      let status := ws.headD "?"
      let items := ws.drop 1
      if status == "dead" then (m, none) else
      let fed := m.fed ++ chunk
      let decoded := m.decoded ++ items
      let m' := { m with fed := fed, decoded := decoded, errSeen := m.errSeen || status == "err",
                         errs := m.errs + (if status == "err" then 1 else 0) }
      let stream := m.frames.flatten
      if isPrefixB fed stream then
        -- valid stream so far: exactly the completely received frames must have been delivered, unchanged
        let n := (framesWithin fed.length m.frames 0).1
        let expected := m.msgs.take n
        let kind := kindOf (m.msgs.getD (min decoded.length n) "end")
        if status != "more" then (m', some s!"{status}-on-valid:{m.codec}:{kind}")
        else if listEqS decoded expected then (m', none)
        else if listEqS decoded (expected.take decoded.length) then (m', some s!"missing:{m.codec}:{kind}")
        else if decoded.length > n && listEqS (decoded.take n) expected then (m', some s!"spurious:{m.codec}")
        else (m', some s!"wrong:{m.codec}:{kindOf (m.msgs.getD (firstMismatch decoded m.msgs) "?")}")
      else
        -- corrupted stream: never a panic / abort / hang; untouched leading frames still decode faithfully;
        -- a frame whose tag was made invalid must not come out as a message
        let d := divergeAt fed stream
        let fw := framesWithin d m.frames 0
        let nBefore := fw.1
        let fstart := fw.2
        if status == "panic" || status == "abort" || status == "hang" then
          (m', some s!"{status}-on-corrupt:{m.codec}")
        else if !(listEqS (decoded.take nBefore) ((m.msgs.take nBefore).take decoded.length)) then
          (m', some s!"wrong-before-corruption:{m.codec}")
        else
          let kind := kindOf (m.msgs.getD nBefore "end")
          match tagRule m.codec with
          | some (off, valid) =>
            if d == fstart + off && d < stream.length && !(valid (fed.getD d 0)) && !m.errSeen && decoded.length > nBefore then
              (m', some s!"invalid-tag-decoded:{m.codec}")
            else if bodyless m.codec kind && fstart + 24 ≤ d && d < fstart + 32
                && (fed.getD (fstart + 24) 0) / 32 == (stream.getD (fstart + 24) 0) / 32
                && fstart + 32 ≤ fed.length && !m.errSeen && decoded.length > nBefore then
              (m', some s!"length-on-bodyless-frame-accepted:{m.codec}:{kind}")
            else (m', none)
          | none => (m', none)
  | _ => (m, some "unparsable")

end SwimVerif.Frames
