/-
C10 — the codecs, branch by branch as in the sources (names of the Rust items in the comments):
  swimos_utilities/swimos_encoding/src/codec.rs      WithLengthBytesCodec
  api/swimos_agent_protocol/src/map/mod.rs           RawMapOperation{En,De}coder, Message{En,De}coder (TAKE/DROP)
  api/swimos_agent_protocol/src/lane/mod.rs          LaneRequest{En,De}coder, LaneResponse{En,De}coder
  api/swimos_agent_protocol/src/store/mod.rs         StoreInitMessage*, StoreInitializedCodec, StoreResponse*
  api/swimos_agent_protocol/src/downlink/mod.rs      DownlinkOperationDecoder
  runtime/swimos_messages/src/protocol/mod.rs        RawRequestMessage*, RawResponseMessage*
  api/swimos_agent_protocol/src/command/mod.rs       CommandEncoder / CommandDecoder over WithLengthBytesCodec
Tags and sizes are `Generated.Wire.*` (re-read from the sources on every run).
A `usize` addition that overflows is `panic`; a `reserve` of an absurd size is `abort` / `panic` (see `reserveOut`).
-/
import SwimVerif.Model.Frames
import SwimVerif.Generated.WireConsts

namespace SwimVerif.Frames
open SwimVerif.Generated.Wire

abbrev Bytes := List Nat

/-! ### `WithLengthBytesCodec` -/

/-- `Encoder<B: AsRef<[u8]>>`: `put_u64(len); put(bytes)`. -/
def encWlb (b : Bytes) : Bytes := be 8 b.length ++ b

/-- `Decoder::decode`. -/
def wlb : Parser Bytes := fun buf =>
  if buf.length < wlbLenSize then (buf, .more)                                   -- `remaining() < LEN_SIZE`
  else if M64 ≤ wlbLenSize + rd (buf.take 8) then (buf, .panic)                  -- `LEN_SIZE + len` overflows
  else if wlbLenSize + rd (buf.take 8) ≤ buf.length then
    ((buf.drop 8).drop (rd (buf.take 8)), .item ((buf.drop 8).take (rd (buf.take 8))))
  else (buf, .more)

/-! ### map operations and messages (raw) -/

inductive MapOp
  | update (k v : Bytes) | remove (k : Bytes) | clear
  deriving Repr, DecidableEq

/-- `MapMessage` = the three operations (`From<MapOperation>`) plus `Take(n)` / `Drop(n)`. -/
inductive MapMsg
  | op (o : MapOp) | take (n : Nat) | drop (n : Nat)
  deriving Repr, DecidableEq

/-- `RawMapOperationEncoder`. -/
def encMapOp : MapOp → Bytes
  | .update k v => be 8 (k.length + v.length + mapLenSize + mapTagSize) ++ (mapUpdate :: (be 8 k.length ++ (k ++ v)))
  | .remove k => be 8 (k.length + mapTagSize) ++ (mapRemove :: k)
  | .clear => be 8 mapTagSize ++ [mapClear]

/-- `MessageEncoder<RawMapOperationEncoder>`. -/
def encMapMsg : MapMsg → Bytes
  | .op o => encMapOp o
  | .take n => be 8 (mapTagSize + mapLenSize) ++ (mapTake :: be 8 n)
  | .drop n => be 8 (mapTagSize + mapLenSize) ++ (mapDrop :: be 8 n)

/-- `UPDATE` arm after the frame has been split off (`frame` = `total` bytes, `rest` = what follows). -/
def rawMapOpUpdateFrame (total : Nat) (frame rest : Bytes) : Bytes × Out MapOp :=
  -- `frame.advance(TAG_SIZE); let key_len = frame.get_u64()`
  if M64 ≤ rd ((frame.drop 1).take 8) + mapLenSize + mapTagSize then (rest, .panic)     -- map/mod.rs:162
  else if total < rd ((frame.drop 1).take 8) + mapLenSize + mapTagSize then (rest, .err)
  else (rest, .item (.update ((frame.drop 9).take (rd ((frame.drop 1).take 8)))
                             ((frame.drop 9).drop (rd ((frame.drop 1).take 8)))))

def rawMapOpUpdate (buf : Bytes) (total : Nat) : Bytes × Out MapOp :=
  if total < mapLenSize + mapTagSize then (buf, .err)
  else if M64 ≤ mapLenSize + total then (buf, .panic)                                   -- map/mod.rs:153
  else if buf.length < mapLenSize + total then (buf, .more)
  else rawMapOpUpdateFrame total ((buf.drop 8).take total) ((buf.drop 8).drop total)

def rawMapOpRemove (buf : Bytes) (total : Nat) : Bytes × Out MapOp :=
  if total < mapTagSize then (buf, .err)
  else if M64 ≤ mapLenSize + total then (buf, .panic)                                   -- map/mod.rs:178
  else if buf.length < mapLenSize + total then (buf, .more)
  else ((buf.drop 8).drop total, .item (.remove (((buf.drop 8).take total).drop 1)))

/-- `RawMapOperationDecoder::decode`. -/
def rawMapOp : Parser MapOp := fun buf =>
  if buf.length < mapLenSize + mapTagSize then (buf, .more)
  else if hd (buf.drop 8) = mapUpdate then rawMapOpUpdate buf (rd (buf.take 8))
  else if hd (buf.drop 8) = mapRemove then rawMapOpRemove buf (rd (buf.take 8))
  else if hd (buf.drop 8) = mapClear then
    (if rd (buf.take 8) = mapTagSize then (buf.drop 9, .item .clear) else (buf, .err))
  else (buf, .err)

/-- `MessageDecoder<RawMapOperationDecoder>::decode`. -/
def rawMapMsg : Parser MapMsg := fun buf =>
  if buf.length < mapTagSize + mapLenSize then (buf, .more)
  else if hd (buf.drop 8) = mapTake ∨ hd (buf.drop 8) = mapDrop then
    (if rd (buf.take 8) = mapTagSize + mapLenSize then
      (if buf.length < mapTagSize + 2 * mapLenSize then (buf, .more)
       else if hd (buf.drop 8) = mapTake then (buf.drop 17, .item (.take (rd ((buf.drop 9).take 8))))
       else (buf.drop 17, .item (.drop (rd ((buf.drop 9).take 8)))))
     else (buf, .err))
  else ((rawMapOp buf).1, (rawMapOp buf).2.map .op)

/-! ### lane requests / responses over an inner body codec -/

inductive LaneRequest (β : Type)
  | command (b : β) | sync (id : Bytes) | initComplete
  deriving Repr, DecidableEq

inductive LaneResponse (β : Type)
  | event (b : β) | initialized | syncEvent (id : Bytes) (b : β) | synced (id : Bytes)
  deriving Repr, DecidableEq

variable {β : Type}

/-- `LaneRequestEncoder<Inner>` (ids are the 16 big-endian bytes of the `Uuid`). -/
def encLaneReq (enc : β → Bytes) : LaneRequest β → Bytes
  | .command b => laneCommand :: enc b
  | .sync id => laneSync :: id
  | .initComplete => [laneInitDone]

/-- `LaneResponseEncoder<Inner>`. -/
def encLaneResp (enc : β → Bytes) : LaneResponse β → Bytes
  | .event b => laneEvent :: enc b
  | .initialized => [laneInitialized]
  | .syncEvent id b => laneSync :: (id ++ enc b)
  | .synced id => laneSyncComplete :: id

inductive ReqSt | header | body
  deriving Repr, DecidableEq

/-- `LaneRequestDecoderState::ReadingBody` arm. -/
def laneReqBody (p : Parser β) (buf : Bytes) : ReqSt × Bytes × Out (LaneRequest β) :=
  match (p buf).2 with
  | .item x => (.header, (p buf).1, .item (.command x))
  | .more => (.body, (p buf).1, .more)
  | .err => (.header, (p buf).1, .err)
  | .panic => (.body, (p buf).1, .panic)
  | .abort => (.body, (p buf).1, .abort)

/-- `LaneRequestDecoder<D>::decode`. -/
def laneReqStep (p : Parser β) : ReqSt → Bytes → ReqSt × Bytes × Out (LaneRequest β)
  | .body, buf => laneReqBody p buf
  | .header, buf =>
    if buf.length < tagLen then (.header, buf, .more)
    else if hd buf = laneCommand then laneReqBody p (buf.drop 1)
    else if hd buf = laneSync then
      (if buf.length < tagLen + idLen then (.header, buf, .more)
       else (.header, buf.drop 17, .item (.sync ((buf.drop 1).take 16))))
    else if hd buf = laneInitDone then (.header, buf.drop 1, .item .initComplete)
    else (.header, buf.drop 1, .err)                      -- unknown tag: `advance(TAG_LEN)`, `Err`

def laneRequest (p : Parser β) : Dec (LaneRequest β) where
  σ := ReqSt
  init := .header
  step := laneReqStep p
  view := fun s => match s with | .header => [] | .body => [laneCommand]

inductive RespSt | header | std | sync (id : Bytes)
  deriving Repr, DecidableEq

/-- `Std` / `Sync(id)` arms: the state goes back to `Header` unless the inner decoder answered `Ok(None)`. -/
def laneRespBody (p : Parser β) (st : RespSt) (wrap : β → LaneResponse β) (buf : Bytes) :
    RespSt × Bytes × Out (LaneResponse β) :=
  match (p buf).2 with
  | .item x => (.header, (p buf).1, .item (wrap x))
  | .more => (st, (p buf).1, .more)
  | .err => (.header, (p buf).1, .err)
  | .panic => (st, (p buf).1, .panic)
  | .abort => (st, (p buf).1, .abort)

/-- `LaneResponseDecoder<Inner>::decode`. -/
def laneRespStep (p : Parser β) : RespSt → Bytes → RespSt × Bytes × Out (LaneResponse β)
  | .std, buf => laneRespBody p .std .event buf
  | .sync id, buf => laneRespBody p (.sync id) (.syncEvent id) buf
  | .header, buf =>
    if buf.length < tagLen then (.header, buf, .more)
    else if hd buf = laneEvent then laneRespBody p .std .event (buf.drop 1)
    else if hd buf = laneInitialized then (.header, buf.drop 1, .item .initialized)
    else if hd buf = laneSync then
      (if (buf.drop 1).length < idLen then (.header, buf, .more)
       else laneRespBody p (.sync ((buf.drop 1).take 16)) (.syncEvent ((buf.drop 1).take 16)) (buf.drop 17))
    else if hd buf = laneSyncComplete then
      (if (buf.drop 1).length < idLen then (.header, buf, .more)
       else (.header, buf.drop 17, .item (.synced ((buf.drop 1).take 16))))
    else (.header, buf, .err)                              -- unknown tag: nothing is consumed

def laneResponse (p : Parser β) : Dec (LaneResponse β) where
  σ := RespSt
  init := .header
  step := laneRespStep p
  view := fun s => match s with | .header => [] | .std => [laneEvent] | .sync id => laneSync :: id

/-! ### admissible messages (sizes the encoders can write: every length fits the arithmetic of the decoder) -/

/-- Generous size bound: anything below 2^60 bytes. -/
notation "SZ" => (1152921504606846976 : Nat)

def okBytes (b : Bytes) : Prop := b.length < SZ

def okMapOp : MapOp → Prop
  | .update k v => k.length < SZ ∧ v.length < SZ
  | .remove k => k.length < SZ
  | .clear => True

def okMapMsg : MapMsg → Prop
  | .op o => okMapOp o
  | .take n => n < M64
  | .drop n => n < M64

def okLaneReq (ok : β → Prop) : LaneRequest β → Prop
  | .command b => ok b
  | .sync id => id.length = 16
  | .initComplete => True

def okLaneResp (ok : β → Prop) : LaneResponse β → Prop
  | .event b => ok b
  | .initialized => True
  | .syncEvent id b => id.length = 16 ∧ ok b
  | .synced id => id.length = 16

def wfResp : RespSt → Prop
  | .sync id => id.length = 16
  | _ => True

end SwimVerif.Frames
