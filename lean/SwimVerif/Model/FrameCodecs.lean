/-
C10 — the codecs, branch by branch as in the sources (names of the Rust items in the comments):
  swimos_utilities/swimos_encoding/src/codec.rs      WithLengthBytesCodec
  api/swimos_agent_protocol/src/map/mod.rs           RawMapOperation{En,De}coder, Message{En,De}coder (TAKE/DROP)
  api/swimos_agent_protocol/src/lane/mod.rs          LaneRequest{En,De}coder, LaneResponse{En,De}coder
  api/swimos_agent_protocol/src/store/mod.rs         StoreInitMessage*, StoreInitializedCodec, StoreResponse*
  api/swimos_agent_protocol/src/downlink/mod.rs      DownlinkOperationDecoder
  runtime/swimos_messages/src/protocol/mod.rs        RawRequestMessage*, RawResponseMessage*
  api/swimos_agent_protocol/src/command/mod.rs       CommandEncoder / CommandDecoder over WithLengthBytesCodec
Tags and sizes are `Generated.Wire.*` (re-read from the sources on every run).
Lengths read from the wire are added with `checked_add` (an overflow is an `Err`, fix cd6bc7e) and capacity is
reserved ahead of the data only up to `MAX_RESERVE` (fix 442681d), so no modelled branch panics or aborts; the
outcomes `panic` / `abort` stay in `Out` because the harness still observes them (and the monitor rejects them).
-/
import SwimVerif.Model.Frames
import SwimVerif.Generated.WireConsts

namespace SwimVerif.Frames
open SwimVerif.Generated.Wire

abbrev Bytes := List Nat

/-! ### `WithLengthBytesCodec` -/

/-- `Encoder<B: AsRef<[u8]>>`: `put_u64(len); put(bytes)`. -/
def encWlb (b : Bytes) : Bytes := be 8 b.length ++ b

/-- `Decoder::decode`. -/
def wlb : Parser Bytes := fun buf =>
  if buf.length < wlbLenSize then (buf, .more)                                   -- `remaining() < LEN_SIZE`
  else if M64 ≤ wlbLenSize + rd (buf.take 8) then (buf, .err)                    -- `len.checked_add(LEN_SIZE)` = None
  else if wlbLenSize + rd (buf.take 8) ≤ buf.length then
    ((buf.drop 8).drop (rd (buf.take 8)), .item ((buf.drop 8).take (rd (buf.take 8))))
  else (buf, .more)

/-! ### map operations and messages (raw) -/

inductive MapOp
  | update (k v : Bytes) | remove (k : Bytes) | clear
  deriving Repr, DecidableEq

/-- `MapMessage` = the three operations (`From<MapOperation>`) plus `Take(n)` / `Drop(n)`. -/
inductive MapMsg
  | op (o : MapOp) | take (n : Nat) | drop (n : Nat)
  deriving Repr, DecidableEq

/-- `RawMapOperationEncoder`. -/
def encMapOp : MapOp → Bytes
  | .update k v => be 8 (k.length + v.length + mapLenSize + mapTagSize) ++ (mapUpdate :: (be 8 k.length ++ (k ++ v)))
  | .remove k => be 8 (k.length + mapTagSize) ++ (mapRemove :: k)
  | .clear => be 8 mapTagSize ++ [mapClear]

/-- `MessageEncoder<RawMapOperationEncoder>`. -/
def encMapMsg : MapMsg → Bytes
  | .op o => encMapOp o
  | .take n => be 8 (mapTagSize + mapLenSize) ++ (mapTake :: be 8 n)
  | .drop n => be 8 (mapTagSize + mapLenSize) ++ (mapDrop :: be 8 n)

/-- `UPDATE` arm after the frame has been split off (`frame` = `total` bytes, `rest` = what follows). -/
def rawMapOpUpdateFrame (total : Nat) (frame rest : Bytes) : Bytes × Out MapOp :=
  -- `frame.advance(TAG_SIZE); let key_len = frame.get_u64()`
  if total - mapLenSize - mapTagSize < rd ((frame.drop 1).take 8) then (rest, .err)     -- `key_len > total_len - 9`
  else (rest, .item (.update ((frame.drop 9).take (rd ((frame.drop 1).take 8)))
                             ((frame.drop 9).drop (rd ((frame.drop 1).take 8)))))

def rawMapOpUpdate (buf : Bytes) (total : Nat) : Bytes × Out MapOp :=
  if total < mapLenSize + mapTagSize then (buf, .err)
  else if M64 ≤ mapLenSize + total then (buf, .err)                                     -- `checked_add` = None
  else if buf.length < mapLenSize + total then (buf, .more)
  else rawMapOpUpdateFrame total ((buf.drop 8).take total) ((buf.drop 8).drop total)

def rawMapOpRemove (buf : Bytes) (total : Nat) : Bytes × Out MapOp :=
  if total < mapTagSize then (buf, .err)
  else if M64 ≤ mapLenSize + total then (buf, .err)                                     -- `checked_add` = None
  else if buf.length < mapLenSize + total then (buf, .more)
  else ((buf.drop 8).drop total, .item (.remove (((buf.drop 8).take total).drop 1)))

/-- `RawMapOperationDecoder::decode`. -/
def rawMapOp : Parser MapOp := fun buf =>
  if buf.length < mapLenSize + mapTagSize then (buf, .more)
  else if hd (buf.drop 8) = mapUpdate then rawMapOpUpdate buf (rd (buf.take 8))
  else if hd (buf.drop 8) = mapRemove then rawMapOpRemove buf (rd (buf.take 8))
  else if hd (buf.drop 8) = mapClear then
    (if rd (buf.take 8) = mapTagSize then (buf.drop 9, .item .clear) else (buf, .err))
  else (buf, .err)

/-- `MessageDecoder<RawMapOperationDecoder>::decode`. -/
def rawMapMsg : Parser MapMsg := fun buf =>
  if buf.length < mapTagSize + mapLenSize then (buf, .more)
  else if hd (buf.drop 8) = mapTake ∨ hd (buf.drop 8) = mapDrop then
    (if rd (buf.take 8) = mapTagSize + mapLenSize then
      (if buf.length < mapTagSize + 2 * mapLenSize then (buf, .more)
       else if hd (buf.drop 8) = mapTake then (buf.drop 17, .item (.take (rd ((buf.drop 9).take 8))))
       else (buf.drop 17, .item (.drop (rd ((buf.drop 9).take 8)))))
     else (buf, .err))
  else ((rawMapOp buf).1, (rawMapOp buf).2.map .op)

/-! ### lane requests / responses over an inner body codec -/

inductive LaneRequest (β : Type)
  | command (b : β) | sync (id : Bytes) | initComplete
  deriving Repr, DecidableEq

inductive LaneResponse (β : Type)
  | event (b : β) | initialized | syncEvent (id : Bytes) (b : β) | synced (id : Bytes)
  deriving Repr, DecidableEq

variable {β : Type}

/-- `LaneRequestEncoder<Inner>` (ids are the 16 big-endian bytes of the `Uuid`). -/
def encLaneReq (enc : β → Bytes) : LaneRequest β → Bytes
  | .command b => laneCommand :: enc b
  | .sync id => laneSync :: id
  | .initComplete => [laneInitDone]

/-- `LaneResponseEncoder<Inner>`. -/
def encLaneResp (enc : β → Bytes) : LaneResponse β → Bytes
  | .event b => laneEvent :: enc b
  | .initialized => [laneInitialized]
  | .syncEvent id b => laneSync :: (id ++ enc b)
  | .synced id => laneSyncComplete :: id

inductive ReqSt | header | body
  deriving Repr, DecidableEq

/-- `LaneRequestDecoderState::ReadingBody` arm. -/
def laneReqBody (p : Parser β) (buf : Bytes) : ReqSt × Bytes × Out (LaneRequest β) :=
  match (p buf).2 with
  | .item x => (.header, (p buf).1, .item (.command x))
  | .more => (.body, (p buf).1, .more)
  | .err => (.header, (p buf).1, .err)
  | .panic => (.body, (p buf).1, .panic)
  | .abort => (.body, (p buf).1, .abort)

/-- `LaneRequestDecoder<D>::decode`. -/
def laneReqStep (p : Parser β) : ReqSt → Bytes → ReqSt × Bytes × Out (LaneRequest β)
  | .body, buf => laneReqBody p buf
  | .header, buf =>
    if buf.length < tagLen then (.header, buf, .more)
    else if hd buf = laneCommand then laneReqBody p (buf.drop 1)
    else if hd buf = laneSync then
      (if buf.length < tagLen + idLen then (.header, buf, .more)
       else (.header, buf.drop 17, .item (.sync ((buf.drop 1).take 16))))
    else if hd buf = laneInitDone then (.header, buf.drop 1, .item .initComplete)
    else (.header, buf.drop 1, .err)                      -- unknown tag: `advance(TAG_LEN)`, `Err`

def laneRequest (p : Parser β) : Dec (LaneRequest β) where
  σ := ReqSt
  init := .header
  step := laneReqStep p
  view := fun s => match s with | .header => [] | .body => [laneCommand]

inductive RespSt | header | std | sync (id : Bytes)
  deriving Repr, DecidableEq

/-- `Std` / `Sync(id)` arms: the state goes back to `Header` unless the inner decoder answered `Ok(None)`. -/
def laneRespBody (p : Parser β) (st : RespSt) (wrap : β → LaneResponse β) (buf : Bytes) :
    RespSt × Bytes × Out (LaneResponse β) :=
  match (p buf).2 with
  | .item x => (.header, (p buf).1, .item (wrap x))
  | .more => (st, (p buf).1, .more)
  | .err => (.header, (p buf).1, .err)
  | .panic => (st, (p buf).1, .panic)
  | .abort => (st, (p buf).1, .abort)

/-- `LaneResponseDecoder<Inner>::decode`. -/
def laneRespStep (p : Parser β) : RespSt → Bytes → RespSt × Bytes × Out (LaneResponse β)
  | .std, buf => laneRespBody p .std .event buf
  | .sync id, buf => laneRespBody p (.sync id) (.syncEvent id) buf
  | .header, buf =>
    if buf.length < tagLen then (.header, buf, .more)
    else if hd buf = laneEvent then laneRespBody p .std .event (buf.drop 1)
    else if hd buf = laneInitialized then (.header, buf.drop 1, .item .initialized)
    else if hd buf = laneSync then
      (if (buf.drop 1).length < idLen then (.header, buf, .more)
       else laneRespBody p (.sync ((buf.drop 1).take 16)) (.syncEvent ((buf.drop 1).take 16)) (buf.drop 17))
    else if hd buf = laneSyncComplete then
      (if (buf.drop 1).length < idLen then (.header, buf, .more)
       else (.header, buf.drop 17, .item (.synced ((buf.drop 1).take 16))))
    else (.header, buf, .err)                              -- unknown tag: nothing is consumed

def laneResponse (p : Parser β) : Dec (LaneResponse β) where
  σ := RespSt
  init := .header
  step := laneRespStep p
  view := fun s => match s with | .header => [] | .std => [laneEvent] | .sync id => laneSync :: id

/-! ### admissible messages (sizes the encoders can write: every length fits the arithmetic of the decoder) -/

/-- Generous size bound: anything below 2^60 bytes. -/
notation "SZ" => (1152921504606846976 : Nat)

def okBytes (b : Bytes) : Prop := b.length < SZ

def okMapOp : MapOp → Prop
  | .update k v => k.length < SZ ∧ v.length < SZ
  | .remove k => k.length < SZ
  | .clear => True

def okMapMsg : MapMsg → Prop
  | .op o => okMapOp o
  | .take n => n < M64
  | .drop n => n < M64

def okLaneReq (ok : β → Prop) : LaneRequest β → Prop
  | .command b => ok b
  | .sync id => id.length = 16
  | .initComplete => True

def okLaneResp (ok : β → Prop) : LaneResponse β → Prop
  | .event b => ok b
  | .initialized => True
  | .syncEvent id b => id.length = 16 ∧ ok b
  | .synced id => id.length = 16

def wfResp : RespSt → Prop
  | .sync id => id.length = 16
  | _ => True

/-! ### store protocol (`store/mod.rs`) -/

inductive StoreInit (β : Type)
  | command (b : β) | initComplete
  deriving Repr, DecidableEq

def encStoreInit (enc : β → Bytes) : StoreInit β → Bytes
  | .command b => laneCommand :: enc b
  | .initComplete => [laneInitDone]

def storeInitBody (p : Parser β) (buf : Bytes) : ReqSt × Bytes × Out (StoreInit β) :=
  match (p buf).2 with
  | .item x => (.header, (p buf).1, .item (.command x))
  | .more => (.body, (p buf).1, .more)
  | .err => (.header, (p buf).1, .err)
  | .panic => (.body, (p buf).1, .panic)
  | .abort => (.body, (p buf).1, .abort)

/-- `StoreInitMessageDecoder<D>::decode`. -/
def storeInitStep (p : Parser β) : ReqSt → Bytes → ReqSt × Bytes × Out (StoreInit β)
  | .body, buf => storeInitBody p buf
  | .header, buf =>
    if buf.length < tagLen then (.header, buf, .more)
    else if hd buf = laneCommand then storeInitBody p (buf.drop 1)
    else if hd buf = laneInitDone then (.header, buf.drop 1, .item .initComplete)
    else (.header, buf.drop 1, .err)

def storeInit (p : Parser β) : Dec (StoreInit β) where
  σ := ReqSt
  init := .header
  step := storeInitStep p
  view := fun s => match s with | .header => [] | .body => [laneCommand]

def okStoreInit (ok : β → Prop) : StoreInit β → Prop
  | .command b => ok b
  | .initComplete => True

/-- `StoreInitializedCodec` (the tag is consumed before it is compared). -/
def storeInitialized : Parser Unit := fun buf =>
  if buf.length < tagLen then (buf, .more)
  else if hd buf = laneInitialized then (buf.drop 1, .item ())
  else (buf.drop 1, .err)

def encStoreInitialized (_ : Unit) : Bytes := [laneInitialized]

/-- `StoreResponse { message }`. -/
def encStoreResp (enc : β → Bytes) (b : β) : Bytes := laneEvent :: enc b

def storeRespBody (p : Parser β) (buf : Bytes) : ReqSt × Bytes × Out β :=
  match (p buf).2 with
  | .item x => (.header, (p buf).1, .item x)
  | .more => (.body, (p buf).1, .more)
  | .err => (.header, (p buf).1, .err)
  | .panic => (.body, (p buf).1, .panic)
  | .abort => (.body, (p buf).1, .abort)

/-- `StoreResponseDecoder<Inner>::decode`; note the header guard `remaining() <= TAG_LEN`. -/
def storeRespStep (p : Parser β) : ReqSt → Bytes → ReqSt × Bytes × Out β
  | .body, buf => storeRespBody p buf
  | .header, buf =>
    if buf.length ≤ tagLen then (.header, buf, .more)
    else if hd buf = laneEvent then storeRespBody p (buf.drop 1)
    else (.header, buf.drop 1, .err)

def storeResponse (p : Parser β) : Dec β where
  σ := ReqSt
  init := .header
  step := storeRespStep p
  view := fun s => match s with | .header => [] | .body => [laneEvent]

/-! ### `DownlinkOperationDecoder` (`downlink/mod.rs`) -/

def downlinkOp : Parser Bytes := fun buf =>
  if lenSize ≤ buf.length then
    (if M64 ≤ rd (buf.take 8) + lenSize then (buf, .err)                          -- `len.checked_add(LEN_SIZE)` = None
     else if rd (buf.take 8) + lenSize ≤ buf.length then
       ((buf.drop 8).drop (rd (buf.take 8)), .item ((buf.drop 8).take (rd (buf.take 8))))
     else (buf, .more))                                           -- `src.reserve(required.min(MAX_RESERVE))`
  else (buf, .more)

/-! ### UTF-8 validity (`std::str::from_utf8`) -/

def isCont (b : Nat) : Bool := 128 ≤ b && b ≤ 191

def utf8Valid : List Nat → Bool
  | [] => true
  | b0 :: rest =>
    if b0 < 128 then utf8Valid rest
    else if 194 ≤ b0 && b0 ≤ 223 then
      match rest with
      | b1 :: r => isCont b1 && utf8Valid r
      | _ => false
    else if 224 ≤ b0 && b0 ≤ 239 then
      match rest with
      | b1 :: b2 :: r =>
        (if b0 = 224 then 160 ≤ b1 && b1 ≤ 191 else if b0 = 237 then 128 ≤ b1 && b1 ≤ 159 else isCont b1)
          && isCont b2 && utf8Valid r
      | _ => false
    else if 240 ≤ b0 && b0 ≤ 244 then
      match rest with
      | b1 :: b2 :: b3 :: r =>
        (if b0 = 240 then 144 ≤ b1 && b1 ≤ 191 else if b0 = 244 then 128 ≤ b1 && b1 ≤ 143 else isCont b1)
          && isCont b2 && isCont b3 && utf8Valid r
      | _ => false
    else false

/-! ### routed request / response messages (`swimos_messages::protocol`, raw bodies) -/

inductive Operation | link | sync | unlink | command (body : Bytes)
  deriving Repr, DecidableEq

inductive Notification | linked | synced | unlinked (body : Option Bytes) | event (body : Bytes)
  deriving Repr, DecidableEq

structure ReqMsg where
  origin : Bytes          -- 16 bytes
  node : Bytes
  lane : Bytes
  env : Operation
  deriving Repr, DecidableEq

structure RespMsg where
  origin : Bytes
  node : Bytes
  lane : Bytes
  env : Notification
  deriving Repr, DecidableEq

notation "OPSH" => (2305843009213693952 : Nat)   -- 2^61 = 1 << OP_SHIFT

def msgHeader (origin node lane : Bytes) (tag len : Nat) : Bytes :=
  origin ++ (be 4 node.length ++ (be 4 lane.length ++ (be 8 (len + tag * OPSH) ++ (node ++ lane))))

/-- `RawRequestMessageEncoder`. -/
def encReqMsg (m : ReqMsg) : Bytes :=
  match m.env with
  | .link => msgHeader m.origin m.node m.lane msgLink 0
  | .sync => msgHeader m.origin m.node m.lane msgSync 0
  | .unlink => msgHeader m.origin m.node m.lane msgUnlink 0
  | .command b => msgHeader m.origin m.node m.lane msgCommand b.length ++ b

/-- `RawResponseMessageEncoder`. -/
def encRespMsg (m : RespMsg) : Bytes :=
  match m.env with
  | .linked => msgHeader m.origin m.node m.lane msgLinked 0
  | .synced => msgHeader m.origin m.node m.lane msgSynced 0
  | .unlinked none => msgHeader m.origin m.node m.lane msgUnlinked 0
  | .unlinked (some b) => msgHeader m.origin m.node m.lane msgUnlinked b.length ++ b
  | .event b => msgHeader m.origin m.node m.lane msgEvent b.length ++ b

/-- Common part of the two raw decoders once `required` bytes are there: header, node, lane. `k` gets
(origin, node, lane, what follows the lane). -/
def msgAfterHeader {α : Type} (buf : Bytes) (nodeLen laneLen : Nat)
    (k : Bytes → Bytes → Bytes → Bytes → Bytes × Out α) : Bytes × Out α :=
  if utf8Valid ((buf.drop 32).take nodeLen) then
    (if utf8Valid (((buf.drop 32).drop nodeLen).take laneLen) then
      k (buf.take 16) ((buf.drop 32).take nodeLen) (((buf.drop 32).drop nodeLen).take laneLen)
        (((buf.drop 32).drop nodeLen).drop laneLen)
     else ((((buf.drop 32).drop nodeLen).drop laneLen), .err))
  else (((buf.drop 32).drop nodeLen), .err)

/-- `RawRequestMessageDecoder::decode` (after 5a0b541): the whole frame is consumed whatever the kind; one arm
per kind, the body-less kinds require an empty body, anything else is `InvalidData`. -/
def rawRequest : Parser ReqMsg := fun buf =>
  if buf.length < headerInitLen then (buf, .more)
  else if buf.length < headerInitLen + rd ((buf.drop 16).take 4) + rd ((buf.drop 20).take 4)
      + rd ((buf.drop 24).take 8) % OPSH then (buf, .more)               -- `src.reserve(required.min(MAX_RESERVE))`
  else msgAfterHeader buf (rd ((buf.drop 16).take 4)) (rd ((buf.drop 20).take 4)) fun origin node lane rest =>
    if rd ((buf.drop 24).take 8) / OPSH = msgLink ∧ rd ((buf.drop 24).take 8) % OPSH = 0 then
      (rest, .item ⟨origin, node, lane, .link⟩)
    else if rd ((buf.drop 24).take 8) / OPSH = msgSync ∧ rd ((buf.drop 24).take 8) % OPSH = 0 then
      (rest, .item ⟨origin, node, lane, .sync⟩)
    else if rd ((buf.drop 24).take 8) / OPSH = msgUnlink ∧ rd ((buf.drop 24).take 8) % OPSH = 0 then
      (rest, .item ⟨origin, node, lane, .unlink⟩)
    else if rd ((buf.drop 24).take 8) / OPSH = msgCommand then
      (rest.drop (rd ((buf.drop 24).take 8) % OPSH),
        .item ⟨origin, node, lane, .command (rest.take (rd ((buf.drop 24).take 8) % OPSH))⟩)
    else (rest.drop (rd ((buf.drop 24).take 8) % OPSH), .err)

/-- `RawResponseMessageDecoder::decode` (after 5a0b541). -/
def rawResponse : Parser RespMsg := fun buf =>
  if buf.length < headerInitLen then (buf, .more)
  else if buf.length < headerInitLen + rd ((buf.drop 16).take 4) + rd ((buf.drop 20).take 4)
      + rd ((buf.drop 24).take 8) % OPSH then (buf, .more)  -- `reserve((required - remaining).min(MAX_RESERVE))`
  else msgAfterHeader buf (rd ((buf.drop 16).take 4)) (rd ((buf.drop 20).take 4)) fun origin node lane rest =>
    if rd ((buf.drop 24).take 8) / OPSH = msgLinked ∧ rd ((buf.drop 24).take 8) % OPSH = 0 then
      (rest, .item ⟨origin, node, lane, .linked⟩)
    else if rd ((buf.drop 24).take 8) / OPSH = msgSynced ∧ rd ((buf.drop 24).take 8) % OPSH = 0 then
      (rest, .item ⟨origin, node, lane, .synced⟩)
    else if rd ((buf.drop 24).take 8) / OPSH = msgUnlinked then
      (if rd ((buf.drop 24).take 8) % OPSH = 0 then (rest, .item ⟨origin, node, lane, .unlinked none⟩)
       else (rest.drop (rd ((buf.drop 24).take 8) % OPSH),
             .item ⟨origin, node, lane, .unlinked (some (rest.take (rd ((buf.drop 24).take 8) % OPSH)))⟩))
    else if rd ((buf.drop 24).take 8) / OPSH = msgEvent then
      (rest.drop (rd ((buf.drop 24).take 8) % OPSH),
        .item ⟨origin, node, lane, .event (rest.take (rd ((buf.drop 24).take 8) % OPSH))⟩)
    else (rest.drop (rd ((buf.drop 24).take 8) % OPSH), .err)

/-! ### ad hoc command messages (`command/mod.rs`, `CommandDecoder<S, WithLengthBytesCodec>`) -/

structure Addr where
  host : Option Bytes
  node : Bytes
  lane : Bytes
  deriving Repr, DecidableEq

inductive CmdMsg
  | register (a : Addr) (id : Nat)
  | addressed (a : Addr) (body : Bytes) (ow : Bool)
  | registered (target : Nat) (body : Bytes) (ow : Bool)
  deriving Repr, DecidableEq

/-- `put_address`. -/
def encAddr (a : Addr) : Bytes :=
  match a.host with
  | some h => be 8 h.length ++ (be 8 a.node.length ++ (be 8 a.lane.length ++ (h ++ (a.node ++ a.lane))))
  | none => be 8 a.node.length ++ (be 8 a.lane.length ++ (a.node ++ a.lane))

def hostFlag (a : Addr) : Nat := match a.host with | some _ => cmdHasHost | none => 0
def owFlag (ow : Bool) : Nat := if ow then cmdOverwrite else 0

/-- `CommandEncoder<WithLengthBytesCodec>`. -/
def encCmd : CmdMsg → Bytes
  | .register a id => (cmdRegistration + hostFlag a) :: (encAddr a ++ be 2 id)
  | .addressed a body ow => (owFlag ow + hostFlag a) :: (encAddr a ++ encWlb body)
  | .registered target body ow => (cmdRegistered + owFlag ow) :: (be 2 target ++ encWlb body)

/-- `flags.contains(bit)` for a single-bit constant. -/
def hasFlag (flags bit : Nat) : Bool := flags / bit % 2 = 1

inductive CmdSt
  | init
  | readingRegistration (flags : Nat)
  | readingRegisteredHeader (flags : Nat)
  | readingAddressedHeader (flags : Nat)
  | readingAddressedBody (a : Addr) (ow : Bool)
  | readingRegisteredBody (id : Nat) (ow : Bool)
  deriving Repr, DecidableEq

/-- `try_extract_utf8` ×(host,) node, lane after the length words have been skipped; `k` continues with the
address and what follows; an invalid string is an `Err` with everything up to and including it consumed
(the state was already reset to `Init` by `mem::take`). -/
def cmdStrings {α : Type} (hasHost : Bool) (hostLen nodeLen laneLen : Nat) (b : Bytes)
    (k : Addr → Bytes → CmdSt × Bytes × Out α) : CmdSt × Bytes × Out α :=
  if hasHost && !utf8Valid (b.take hostLen) then (.init, b.drop hostLen, .err)
  else if !utf8Valid ((b.drop hostLen).take nodeLen) then (.init, (b.drop hostLen).drop nodeLen, .err)
  else if !utf8Valid (((b.drop hostLen).drop nodeLen).take laneLen) then
    (.init, ((b.drop hostLen).drop nodeLen).drop laneLen, .err)
  else k ⟨if hasHost then some (b.take hostLen) else none, (b.drop hostLen).take nodeLen,
          ((b.drop hostLen).drop nodeLen).take laneLen⟩ (((b.drop hostLen).drop nodeLen).drop laneLen)

def cmdBody (st : CmdSt) (wrap : Bytes → CmdMsg) (buf : Bytes) : CmdSt × Bytes × Out CmdMsg :=
  match (wlb buf).2 with
  | .item x => (.init, (wlb buf).1, .item (wrap x))
  | .more => (st, (wlb buf).1, .more)
  | .err => (.init, (wlb buf).1, .err)
  | .panic => (.init, (wlb buf).1, .panic)
  | .abort => (.init, (wlb buf).1, .abort)

/-- `ReadingAddressedHeader(flags)` arm (then the body in the same call). -/
def cmdAddressedHeader (flags : Nat) (buf : Bytes) : CmdSt × Bytes × Out CmdMsg :=
  if buf.length < cmdMinRequired then (.readingAddressedHeader flags, buf, .more)
  else if hasFlag flags cmdHasHost && buf.length < cmdMaxRequired then (.readingAddressedHeader flags, buf, .more)
  else
    let hl := if hasFlag flags cmdHasHost then rd (buf.take 8) else 0
    let b := if hasFlag flags cmdHasHost then buf.drop 8 else buf
    let nl := rd (b.take 8)
    let ll := rd ((b.drop 8).take 8)
    if M64 ≤ hl + nl ∨ M64 ≤ hl + nl + ll then (.init, buf, .err)              -- `total_len(&[..])?` overflows
    else if (b.drop 16).length < hl + nl + ll then (.readingAddressedHeader flags, buf, .more)
    else cmdStrings (hasFlag flags cmdHasHost) hl nl ll (b.drop 16) fun a rest =>
      cmdBody (.readingAddressedBody a (hasFlag flags cmdOverwrite))
        (fun body => .addressed a body (hasFlag flags cmdOverwrite)) rest

/-- `ReadingRegistration(flags)` arm (after 5ec6b4e an incomplete header keeps the state). -/
def cmdRegistrationArm (flags : Nat) (buf : Bytes) : CmdSt × Bytes × Out CmdMsg :=
  if buf.length < (if hasFlag flags cmdHasHost then cmdMaxRequired else cmdMinRequired) then
    (.readingRegistration flags, buf, .more)
  else
    let hl := if hasFlag flags cmdHasHost then rd (buf.take 8) else 0
    let b := if hasFlag flags cmdHasHost then buf.drop 8 else buf
    let nl := rd (b.take 8)
    let ll := rd ((b.drop 8).take 8)
    if M64 ≤ hl + nl ∨ M64 ≤ hl + nl + ll ∨ M64 ≤ hl + nl + ll + cmdIdLen then (.init, buf, .err)
    else if (b.drop 16).length < hl + nl + ll + cmdIdLen then (.readingRegistration flags, buf, .more)
    else cmdStrings (hasFlag flags cmdHasHost) hl nl ll (b.drop 16) fun a rest =>
      (.init, rest.drop 2, .item (.register a (rd (rest.take 2))))

def cmdRegisteredHeader (flags : Nat) (buf : Bytes) : CmdSt × Bytes × Out CmdMsg :=
  if buf.length < cmdIdLen then (.readingRegisteredHeader flags, buf, .more)
  else cmdBody (.readingRegisteredBody (rd (buf.take 2)) (hasFlag flags cmdOverwrite))
    (fun body => .registered (rd (buf.take 2)) body (hasFlag flags cmdOverwrite)) (buf.drop 2)

/-- `CommandDecoder<S, WithLengthBytesCodec>::decode`. -/
def cmdStep : CmdSt → Bytes → CmdSt × Bytes × Out CmdMsg
  | .init, buf =>
    if buf.length < cmdFlagsLen then (.init, buf, .more)
    else
      let flags := hd buf % 16                                                   -- `from_bits_truncate`
      if hasFlag flags cmdRegistration then cmdRegistrationArm flags (buf.drop 1)
      else if hasFlag flags cmdRegistered then cmdRegisteredHeader flags (buf.drop 1)
      else cmdAddressedHeader flags (buf.drop 1)
  | .readingRegistration flags, buf => cmdRegistrationArm flags buf
  | .readingRegisteredHeader flags, buf => cmdRegisteredHeader flags buf
  | .readingAddressedHeader flags, buf => cmdAddressedHeader flags buf
  | .readingAddressedBody a ow, buf => cmdBody (.readingAddressedBody a ow) (fun body => .addressed a body ow) buf
  | .readingRegisteredBody id ow, buf =>
    cmdBody (.readingRegisteredBody id ow) (fun body => .registered id body ow) buf

def rawCommand : Dec CmdMsg where
  σ := CmdSt
  init := .init
  step := cmdStep
  view := fun s => match s with
    | .init => []
    | .readingRegistration f => [f]
    | .readingRegisteredHeader f => [f]
    | .readingAddressedHeader f => [f]
    | .readingAddressedBody a ow => (owFlag ow + hostFlag a) :: encAddr a
    | .readingRegisteredBody id ow => (cmdRegistered + owFlag ow) :: be 2 id

end SwimVerif.Frames
