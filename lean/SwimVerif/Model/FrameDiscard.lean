/-
C10 — the length-delimited Recon body decoder `WithLenRecognizerDecoder` (api/formats/swimos_recon/src/encoding.rs)
with the inner `RecognizerDecoder` left completely abstract: whatever the Recon parser answers on the slices it is
shown (nothing yet / a value / an error, having consumed any number of the bytes it was shown), the wrapper must
leave the buffer exactly at the end of the announced body when it reports the frame's outcome.

States as in the source: `ReadingHeader`, `ReadingBody { remaining }`, `AfterBody { remaining, value }`,
`Discarding { remaining, error }`. `consume_bounded(remaining, src, inner)` shows the inner decoder the first
`min remaining src.len()` bytes (with `decode_eof` when they are all there) and removes what it consumed.
The same discard discipline is used by `MapOperationDecoder`, `DownlinkNotificationDecoder`, `RequestMessageDecoder`.
-/
import SwimVerif.Model.Frames

namespace SwimVerif.Frames.Discard

inductive Inner (β : Type) | none | some (v : β) | err
  deriving Repr

/-- The inner decoder, as a black box: call number, the slice it is shown, whether this is `decode_eof`
↦ (bytes it claims to have consumed, its answer). It may depend on everything it has seen (the call number stands
for its hidden state); a claim larger than the slice is clamped (`BytesMut::advance` could not do more). -/
abbrev Oracle (β : Type) := Nat → List Nat → Bool → Nat × Inner β

inductive St (β : Type)
  | header
  | body (remaining : Nat)
  | after (remaining : Nat) (v : β)
  | discarding (remaining : Nat)
  deriving Repr

structure Cfg (β : Type) where
  st : St β
  calls : Nat          -- how often the inner decoder has been called
  buf : List Nat

variable {β : Type}

/-- `AfterBody` arm. -/
def stepAfter (calls r : Nat) (v : β) (buf : List Nat) : Cfg β × Out β :=
  if r ≤ buf.length then (⟨.header, calls, buf.drop r⟩, .item v)
  else (⟨.after (r - buf.length) v, calls, []⟩, .more)

/-- `Discarding` arm. -/
def stepDiscard (calls r : Nat) (buf : List Nat) : Cfg β × Out β :=
  if r ≤ buf.length then (⟨.header, calls, buf.drop r⟩, .err)
  else (⟨.discarding (r - buf.length), calls, []⟩, .more)

/-- `ReadingBody` arm (and whatever arm the loop reaches next in the same call). -/
def stepBody (o : Oracle β) (calls r : Nat) (buf : List Nat) : Cfg β × Out β :=
  let slice := buf.take (min r buf.length)
  let ans := o calls slice (decide (r ≤ buf.length))
  let c := min ans.1 slice.length
  let r' := r - c
  let buf' := buf.drop c
  match ans.2 with
  | .some v => stepAfter (calls + 1) r' v buf'
  | .none => (⟨.body r', calls + 1, buf'⟩, .more)
  | .err =>
    -- `let rem = src.remaining(); if rem >= *remaining { advance; ReadingHeader; Err } else { clear; Discarding {
    --  remaining: *remaining - rem } }` and the loop goes on into `Discarding` with an empty buffer
    if r' ≤ buf'.length then (⟨.header, calls + 1, buf'.drop r'⟩, .err)
    else stepDiscard (calls + 1) (r' - buf'.length) []

/-- One call of `WithLenRecognizerDecoder::decode`. -/
def step (o : Oracle β) (c : Cfg β) : Cfg β × Out β :=
  match c.st with
  | .header =>
    if c.buf.length < 8 then (c, .more)
    else stepBody o c.calls (rd (c.buf.take 8)) (c.buf.drop 8)
  | .body r => stepBody o c.calls r c.buf
  | .after r v => stepAfter c.calls r v c.buf
  | .discarding r => stepDiscard c.calls r c.buf

/-- Feed chunk after chunk, one `decode` call per read, until the frame's outcome (a value or an error) is
reported: that outcome, the buffer at that moment, and the chunks not yet read. -/
def drive (o : Oracle β) : Cfg β → List (List Nat) → Option (Out β × List Nat × List (List Nat))
  | _, [] => none
  | c, ch :: rest =>
    match step o { c with buf := c.buf ++ ch } with
    | (c', .more) => drive o c' rest
    | (c', out) => some (out, c'.buf, rest)

end SwimVerif.Frames.Discard
