/-
C11 (routing part): `swimos_remote::task::{IncomingTask, OutgoingTask, registration_task, interpret_envelope,
connect_agent_route, send_response}` at the granularity of one socket-level operation run to quiescence.

State mirrored from the code:
  `subs`   = `IncomingTask.client_subscriptions : HashMap<Text, HashMap<Text, SmallVec<ResponseWriter>>>`
             (a writer is named by the id of the downlink it belongs to; order = registration order),
  `routes` = `IncomingTask.agent_routes : HashMap<Text, RequestWriter>` (a writer is named by the index of the agent
             channel the resolver handed out).
Environment (ghost, never read by the routing decisions except through "the send failed"):
  `dls`, `agents` = the far ends held by the harness, with `alive = false` once dropped (a write to a byte channel
  whose reader is gone fails with `BrokenPipe`), `resolvable` = the nodes the `FindNode` resolver answers for.
The text frames are read with the reader of `Model/Envelope.lean` and written with its writer.
-/
import SwimVerif.Model.Envelope
import SwimVerif.Model.WsFrames

namespace SwimVerif.Routing
open SwimVerif.Envelope

/-! ### finite maps with decidable keys (`HashMap`): first entry read, first entry replaced or appended, every
entry with the key erased — the basic laws hold without a `Nodup` side condition -/

def kGet {κ α : Type} [DecidableEq κ] : List (κ × α) → κ → Option α
  | [], _ => none
  | (k', v) :: rest, k => if k' = k then some v else kGet rest k

def kSet {κ α : Type} [DecidableEq κ] : List (κ × α) → κ → α → List (κ × α)
  | [], k, v => [(k, v)]
  | (k', v') :: rest, k, v => if k' = k then (k, v) :: rest else (k', v') :: kSet rest k v

def kErase {κ α : Type} [DecidableEq κ] : List (κ × α) → κ → List (κ × α)
  | [], _ => []
  | (k', v') :: rest, k => if k' = k then kErase rest k else (k', v') :: kErase rest k

structure Dl where
  id : Nat
  node : Str
  lane : Str
  alive : Bool
  deriving DecidableEq, Repr

structure Ag where
  node : Str
  alive : Bool
  deriving DecidableEq, Repr

/-- a send-only client (`AttachClient::OneWay`, attached on behalf of an agent that sends commands) -/
structure Ow where
  id : Nat
  node : Str
  lane : Str
  alive : Bool
  deriving DecidableEq, Repr

abbrev Subs := List (Str × List (Str × List Nat))

structure St where
  resolvable : List Str := []
  subs : Subs := []
  routes : List (Str × Nat) := []
  dls : List Dl := []
  agents : List Ag := []
  ows : List Ow := []
  asm : WsFrames.Asm := {}          -- the read buffer of `text_frame_stream`
  running : Bool := true
  counter : Nat := 0
  deriving Repr

def init : St := {}

/-- A source of outgoing messages / a receiver of incoming ones. -/
inductive Src | agent (i : Nat) | dl (id : Nat) | ow (id : Nat)
  deriving DecidableEq, Repr

/-- `OutgoingKind`: which `MultiReader` of `OutgoingTask` a registered byte channel is read by, hence with which
decoder: `Client` → `clients` (`RawRequestMessageDecoder`, frames become `@link/@sync/@unlink/@command`),
`Server` → `agents` (`RawResponseMessageDecoder`, frames become `@linked/@synced/@unlinked/@event`). -/
inductive OutKind | client | server
  deriving DecidableEq, Repr

/-- the kind each sort of source is registered with: `registration_task` registers the channel of a downlink
(`AttachDownlink`) and of a send-only client (`OneWay`) as `Client`; `connect_agent_route` registers an agent's
channel as `Server` -/
def regKind : Src → OutKind
  | .agent _ => .server
  | .dl _ => .client
  | .ow _ => .client

/-- What the environment observes in one operation. -/
inductive Ev
  | find (node : Str) (lane : Str) (res : Option Nat)      -- `FindNode` and how the resolver answered
  | toAgent (i : Nat) (m : Msg)                            -- a request handed to agent channel `i`
  | agentEnd (i : Nat)                                      -- agent channel `i` was closed by the task
  | toDl (id : Nat) (kind : Kind) (node lane : Str) (body : Option Str)   -- a notification handed to a downlink
  | dlEnd (id : Nat)
  | peer (frame : Str)                                      -- a text frame written to the socket
  | peerFrom (s : Src) (frame : Str)                        -- same, in a burst (attributed to its source)
  | peerClose (code : String)
  | peerGone
  | task (how : String)                                     -- the task finished: `done` / `panic`
  deriving DecidableEq, Repr

inductive Op
  | agents (nodes : List Str)
  | attach (id : Nat) (node lane : Str)
  | attachOne (id : Nat) (node lane : Str)
  | input (frame : Str)
  | frames (fs : List WsFrames.Frame)     -- raw web-socket frames from the peer (fragments, control frames, …)
  | send (s : Src) (m : Msg)
  | burst (srcs : List Src)
  | detach (s : Src)
  | stop
  deriving Repr

/-! ### `client_subscriptions` -/

/-- `client_subscriptions.get(node).and_then(|m| m.get(lane))` -/
def subsGet (s : Subs) (node lane : Str) : Option (List Nat) :=
  match kGet s node with
  | some m => kGet m lane
  | none => none

/-- `client_subscriptions.entry(node).or_default().entry(lane).or_default().push(w)` -/
def subsPush (s : Subs) (node lane : Str) (id : Nat) : Subs :=
  kSet s node (kSet ((kGet s node).getD []) lane (((kGet ((kGet s node).getD []) lane).getD []) ++ [id]))

/-- the bookkeeping after `send_response`: keep the writers that did not fail; drop an emptied lane entry and an
emptied node entry -/
def subsRetain (s : Subs) (node lane : Str) (keep : List Nat) : Subs :=
  match kGet s node with
  | none => s
  | some m =>
    if keep.isEmpty then
      (if (kErase m lane).isEmpty then kErase s node else kSet s node (kErase m lane))
    else kSet s node (kSet m lane keep)

/-! ### liveness of the far ends -/

def dlAlive (st : St) (id : Nat) : Bool := st.dls.any fun d => d.id == id && d.alive
def agAlive (st : St) (i : Nat) : Bool := match st.agents[i]? with | some a => a.alive | none => false

def owAlive (st : St) (id : Nat) : Bool := st.ows.any fun o => o.id == id && o.alive
def killOw (os : List Ow) (id : Nat) : List Ow := os.map fun o => if o.id = id then { o with alive := false } else o
def killDl (ds : List Dl) (id : Nat) : List Dl := ds.map fun d => if d.id = id then { d with alive := false } else d
def killAg : List Ag → Nat → List Ag
  | [], _ => []
  | a :: as, 0 => { a with alive := false } :: as
  | a :: as, i + 1 => a :: killAg as i

/-- every far end that is still open sees its channel end when the task goes away -/
def endEvents (st : St) : List Ev :=
  ((st.agents.zipIdx).filterMap fun p => if p.1.alive then some (Ev.agentEnd p.2) else none) ++
  (st.dls.filterMap fun d => if d.alive then some (Ev.dlEnd d.id) else none)

/-! ### `interpret_envelope` -/

def isRequest : Kind → Bool
  | .link | .sync | .unlink | .command => true
  | _ => false

/-- body of the `ResponseMessage` built by `interpret_envelope` and seen by the downlink after
`RawResponseMessageEncoder`/`Decoder`: `Event` keeps the text; `Linked`/`Synced` have none; for `Unlinked` the code
keeps the body only **if it is empty** (`if body.is_empty() { Some(*body) } else { None }`) and an empty body is
decoded as absent, so nothing ever arrives. -/
def deliveredBody (k : Kind) (body : Str) : Option Str :=
  match k with
  | .event => some body
  | .unlinked =>
    -- `unlinkedBodyDropped`: `if body.is_empty() { Some(*body) } else { None }`; `Some("")` is absent on the wire
    if Generated.Env.unlinkedBodyDropped then none else (if body.isEmpty then none else some body)
  | _ => none

/-- what the property asks for: the body that was on the wire (absent when empty for `Unlinked`) -/
def expectedBody (k : Kind) (body : Str) : Option Str :=
  match k with
  | .event => some body
  | .unlinked => if body.isEmpty then none else some body
  | _ => none

/-- body of the `RequestMessage` (only `Command` has one) -/
def requestBody (k : Kind) (body : Str) : Str := if k = .command then body else []

/-! ### one incoming text frame (`IncomingEvent::Message(Ok(frame))`) -/

def stopAll (st : St) (extra : List Ev) : St × List Ev :=
  ({ st with running := false, subs := [], routes := [],
             dls := st.dls.map (fun d => { d with alive := false }),
             agents := st.agents.map (fun a => { a with alive := false }),
             ows := st.ows.map (fun o => { o with alive := false }) },
   endEvents st ++ extra)

/-- request for an agent: `agent_routes.get_mut(node)` → `writer.send`, else `connect_agent_route` -/
def routeRequest (st : St) (k : Kind) (node lane body : Str) : St × List Ev :=
  let m : Msg := ⟨k, node, lane, requestBody k body⟩
  match kGet st.routes node with
  | some i =>
    if agAlive st i then (st, [.toAgent i m])
    else
      -- the send failed: `agent_routes.remove(node)`, then resolve again
      if st.resolvable.contains node then
        ({ st with routes := kSet (kErase st.routes node) node st.agents.length,
                   agents := st.agents ++ [⟨node, true⟩] },
         [.find node lane (some st.agents.length), .toAgent st.agents.length m])
      else
        ({ st with routes := kErase st.routes node },
         [.find node lane none] ++ (if k = .command then [] else [.peer (encodeNoSuchAgent node (some lane))]))
  | none =>
    if st.resolvable.contains node then
      ({ st with routes := kSet st.routes node st.agents.length, agents := st.agents ++ [⟨node, true⟩] },
       [.find node lane (some st.agents.length), .toAgent st.agents.length m])
    else
      (st, [.find node lane none] ++ (if k = .command then [] else [.peer (encodeNoSuchAgent node (some lane))]))

/-- notification for downlinks: `client_subscriptions[node][lane]` → `send_response` to every writer -/
def routeResponse (st : St) (k : Kind) (node lane body : Str) : St × List Ev :=
  match subsGet st.subs node lane with
  | none => (st, [])
  | some ids =>
    let ok := ids.filter (dlAlive st)
    ({ st with subs := subsRetain st.subs node lane ok },
     ok.map fun id => Ev.toDl id k node lane (deliveredBody k body))

def stepInput (st : St) (frame : Str) : St × List Ev :=
  match peel frame with
  | .unsup => (st, [])
  | .err => stopAll st [.peerClose "protocol", .task "done"]
  | .panic _ => stopAll st [.peerGone, .task "panic"]
  | .auth => (st, [])
  | .deauth => (st, [])
  | .env k node lane body =>
    if isRequest k then routeRequest st k node lane body else routeResponse st k node lane body

/-- `BytesStr::try_from`: the reassembled payload as text -/
def utf8 (bytes : List Nat) : Option Str :=
  (String.fromUTF8? (ByteArray.mk (bytes.map UInt8.ofNat).toArray)).map String.toList

/-- one raw frame from the peer through `text_frame_stream` into the incoming task -/
def stepFrame (st : St) (f : WsFrames.Frame) : St × List Ev :=
  if st.running then
    match (WsFrames.step st.asm f).2 with
    | .none => ({ st with asm := (WsFrames.step st.asm f).1 }, [])
    | .text bytes =>
      match utf8 bytes with
      | some s => stepInput { st with asm := (WsFrames.step st.asm f).1 } s
      | none => stopAll st [.peerClose "protocol", .task "done"]        -- `InputError::BadUtf8`
    | .binary => stopAll st [.peerClose "protocol", .task "done"]       -- `InputError::BinaryFrame`
    | .protoErr => stopAll st [.peerClose "protocol", .task "done"]     -- `InputError::WsError`
    | .closed => stopAll st [.peerClose "normal", .task "done"]         -- `InputError::Closed` (close echoed)
  else (st, [])

def stepFrames : St → List WsFrames.Frame → St × List Ev
  | st, [] => (st, [])
  | st, f :: fs => ((stepFrames (stepFrame st f).1 fs).1, (stepFrame st f).2 ++ (stepFrames (stepFrame st f).1 fs).2)

/-! ### the other operations -/

def srcAlive (st : St) : Src → Bool
  | .agent i => agAlive st i
  | .dl id => dlAlive st id
  | .ow id => owAlive st id

/-- the reader a channel is registered with decodes request frames (`Client`) or notification frames (`Server`);
a frame of the other sort is a decode error and is dropped by `OutgoingTask::run` ("Connection from … failed") -/
def readerAccepts : OutKind → Msg → Bool
  | .client, m => isRequest m.kind
  | .server, m => !isRequest m.kind

def burstMsg (st : St) (s : Src) (k : Nat) : Option Msg :=
  match s with
  | .dl id => (st.dls.find? fun d => d.id == id).map fun d => ⟨.command, d.node, d.lane, ('m' :: (toString k).toList)⟩
  | .agent i => (st.agents[i]?).map fun a => ⟨.event, a.node, ['l'], ('m' :: (toString k).toList)⟩
  | .ow id => (st.ows.find? fun o => o.id == id).map fun o => ⟨.command, o.node, o.lane, ('m' :: (toString k).toList)⟩

def burstEvents (st : St) : List Src → Nat → List Ev
  | [], _ => []
  | s :: rest, k =>
    (match srcAlive st s, burstMsg st s k with
     | true, some m => if readerAccepts (regKind s) m then [Ev.peerFrom s (encode m)] else []
     | _, _ => []) ++ burstEvents st rest (k + 1)

def step (st : St) (op : Op) : St × List Ev :=
  match op with
  | .agents nodes => ({ st with resolvable := nodes }, [])
  | .attach id node lane =>
    if st.running then
      ({ st with subs := subsPush st.subs node lane id, dls := st.dls ++ [⟨id, node, lane, true⟩] }, [])
    else (st, [])
  | .attachOne id node lane =>
    -- `AttachClient::OneWay`: only the outgoing half is registered (`RegisterOutgoing { kind: Client, .. }`)
    if st.running then ({ st with ows := st.ows ++ [⟨id, node, lane, true⟩] }, []) else (st, [])
  | .input frame => if st.running then stepInput st frame else (st, [])
  | .frames fs => stepFrames st fs
  | .send s m =>
    if st.running && srcAlive st s && readerAccepts (regKind s) m then (st, [.peer (encode m)]) else (st, [])
  | .burst srcs =>
    ({ st with counter := st.counter + srcs.length },
     if st.running then burstEvents st srcs st.counter else [])
  | .detach (.dl id) => ({ st with dls := killDl st.dls id }, [])
  | .detach (.agent i) => ({ st with agents := killAg st.agents i }, [])
  | .detach (.ow id) => ({ st with ows := killOw st.ows id }, [])
  | .stop => if st.running then stopAll st [.peerClose "goingaway", .task "done"] else (st, [])

def run (st : St) (ops : List Op) : St := ops.foldl (fun s op => (step s op).1) st

/-! ### line protocol -/

def Src.render : Src → String
  | .agent i => s!"a{i}"
  | .dl id => s!"d{id}"
  | .ow id => s!"o{id}"

def Src.parse (w : String) : Option Src :=
  match w.toList with
  | 'a' :: r => (String.ofList r).toNat?.map .agent
  | 'd' :: r => (String.ofList r).toNat?.map .dl
  | 'o' :: r => (String.ofList r).toNat?.map .ow
  | _ => none

def optBody (b : Option Str) : String := match b with | some s => hexOfStr s | none => "none"

def Ev.render : Ev → String
  | .find n l r => s!"f:{hexOfStr n},{hexOfStr l}:{match r with | some i => s!"a{i}" | none => "none"}"
  | .toAgent i m => s!"a{i}:{m.kind.name},{hexOfStr m.node},{hexOfStr m.lane},{if m.kind = .command then hexOfStr m.body else "none"}"
  | .agentEnd i => s!"a{i}:end"
  | .toDl id k n l b => s!"d{id}:{k.name},{hexOfStr n},{hexOfStr l},{optBody b}"
  | .dlEnd id => s!"d{id}:end"
  | .peer f => s!"p:{hexOfStr f}"
  | .peerFrom s f => s!"p[{s.render}]:{hexOfStr f}"
  | .peerClose c => s!"p:close:{c}"
  | .peerGone => "p:gone"
  | .task h => s!"t:{h}"

/-- canonical order of an operation's events: finds, agents by index, downlinks by id, peer frames (in a burst:
grouped by source, agents first), task -/
def Ev.rank : Ev → Nat × Nat × Nat
  | .find _ _ _ => (0, 0, 0)
  | .toAgent i _ => (1, i, 0)
  | .agentEnd i => (1, i, 0)
  | .toDl id _ _ _ _ => (2, id, 0)
  | .dlEnd id => (2, id, 0)
  | .peer _ => (3, 0, 0)
  | .peerFrom (.agent i) _ => (3, 0, i)
  | .peerFrom (.dl id) _ => (3, 1, id)
  | .peerFrom (.ow id) _ => (3, 2, id)
  | .peerClose _ => (3, 3, 0)
  | .peerGone => (3, 3, 0)
  | .task _ => (4, 0, 0)

def rankLe (a b : Nat × Nat × Nat) : Bool :=
  a.1 < b.1 || (a.1 == b.1 && (a.2.1 < b.2.1 || (a.2.1 == b.2.1 && a.2.2 ≤ b.2.2)))

def insertEv (e : Ev) : List Ev → List Ev
  | [] => [e]
  | x :: xs => if rankLe x.rank e.rank then x :: insertEv e xs else e :: x :: xs

/-- stable sort by rank -/
def canon (es : List Ev) : List Ev := es.foldl (fun acc e => insertEv e acc) []

def renderEvents (es : List Ev) : String :=
  if es.isEmpty then "-" else "evs " ++ " ".intercalate ((canon es).map Ev.render)

def parseSrcs : List String → Option (List Src)
  | [] => some []
  | w :: ws => do let s ← Src.parse w; let r ← parseSrcs ws; pure (s :: r)

def parseStrs : List String → Option (List Str)
  | [] => some []
  | w :: ws => do let s ← strOfHex w; let r ← parseStrs ws; pure (s :: r)

def parseOp (line : String) : Option Op :=
  match words line with
  | "agents" :: ns => (parseStrs ns).map .agents
  | ["attach", id, n, l] => do
    let id ← id.toNat?; let n ← strOfHex n; let l ← strOfHex l
    pure (.attach id n l)
  | ["attach1", id, n, l] => do
    let id ← id.toNat?; let n ← strOfHex n; let l ← strOfHex l
    pure (.attachOne id n l)
  | ["in", f] => (strOfHex f).map .input
  | ["infrag", f, plan] => do
    let bytes ← bytesOfHex f; let ts ← WsFrames.parsePlan plan
    pure (.frames (WsFrames.planFrames true bytes ts))
  | ["inbin", f] => (bytesOfHex f).map fun b => .frames [.binary b]
  | ["inclose"] => some (.frames [.close])
  | ["send", s, k, n, l, b] => do
    let s ← Src.parse s; let k ← Kind.parse k; let n ← strOfHex n; let l ← strOfHex l; let b ← optHex b
    pure (.send s ⟨k, n, l, b.getD []⟩)
  | "burst" :: ss => (parseSrcs ss).map .burst
  | ["detach", s] => (Src.parse s).map .detach
  | ["stop"] => some .stop
  | _ => none

/-- a message can be sent by a source of the matching sort only (agents notify, downlinks request) -/
def sendable (s : Src) (m : Msg) : Bool :=
  match s with
  | .agent _ => !isRequest m.kind
  | .dl _ => isRequest m.kind
  | .ow _ => isRequest m.kind

def stepLine (st : St) (line : String) : St × String :=
  match parseOp line with
  | none => (st, "bad-op")
  | some (.agents ns) => ((step st (.agents ns)).1, "ok")
  | some (.attach id n l) =>
    if st.running then ((step st (.attach id n l)).1, "ok") else (st, "closed")
  | some (.attachOne id n l) =>
    if st.running then ((step st (.attachOne id n l)).1, "ok") else (st, "closed")
  | some (.send s m) =>
    if sendable s m then ((step st (.send s m)).1, renderEvents (step st (.send s m)).2) else (st, "-")
  | some (.input f) =>
    if st.running && peel f = .unsup then (st, "unsup")
    else ((step st (.input f)).1, renderEvents (step st (.input f)).2)
  | some op => ((step st op).1, renderEvents (step st op).2)

end SwimVerif.Routing
