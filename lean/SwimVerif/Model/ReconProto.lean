/-
C09 line protocol and observable-level monitor over `Model/Recon.lean`.

Value encoding `<venc>` (no spaces, `,`-separated prefix tokens; see `harness/core/src/bin/sv-c09.rs`):
  X | Ia:<i32> | Ib:<i64> | Ic:<u32> | Id:<u64> | Ie:<bigint> | If:<biguint> | F<+|-><digits>e<exp> | FN | F+I | F-I
  | B0 | B1 | T<hex utf8> | D<hex> | R:<nattrs>:<nitems> then per attr `A<hex name>,<value>`, per item `V,<value>` / `S,<key>,<value>`.
Results: `ok:<venc>` | `err` | `panic` (| `none` | `hang` from the harness only).
-/
import SwimVerif.Model.Recon
import SwimVerif.Model.Utf8

namespace SwimVerif.Recon

/-! ## bytes, text -/

/-- `std::str::from_utf8` on a byte list (each element `< 256`): the hand-written structural decoder of `Model/Utf8.lean`
(until `w-C09b`: core's `String.fromUTF8?`; the two are compared with the real decoder on every byte cut by `chunksm`). -/
def charsOfBytes (bs : List Nat) : Option (List Char) := SwimVerif.Utf8.decode bs

/-- `str::as_bytes`: the hand-written encoder of `Model/Utf8.lean`. -/
def bytesOfChars (cs : List Char) : List Nat := SwimVerif.Utf8.encode cs

def charsOfHex (h : String) : Option (List Char) := (bytesOfHex h).bind charsOfBytes

def hexOfChars (cs : List Char) : String := hexOfBytes (bytesOfChars cs)

/-! ## value encoding -/

def IntKind.tag : IntKind → String
  | .i32 => "a" | .i64 => "b" | .u32 => "c" | .u64 => "d" | .big => "e" | .ubig => "f"

def IntKind.ofTag : String → Option IntKind
  | "a" => some .i32 | "b" => some .i64 | "c" => some .u32 | "d" => some .u64 | "e" => some .big | "f" => some .ubig
  | _ => none

def Flt.enc : Flt → String
  | .nan => "FN"
  | .inf false => "F+I"
  | .inf true => "F-I"
  | .fin neg m e => "F" ++ (if neg then "-" else "+") ++ toString m ++ "e" ++ toString e

mutual
def Value.enc : Value → List String
  | .extant => ["X"]
  | .int k n => ["I" ++ k.tag ++ ":" ++ toString n]
  | .float f => [f.enc]
  | .bool b => [if b then "B1" else "B0"]
  | .text s => ["T" ++ hexOfChars s]
  | .data bs => ["D" ++ hexOfBytes bs]
  | .record a i => ("R:" ++ toString a.length ++ ":" ++ toString i.length) :: (a.enc ++ i.enc)
def Attrs.enc : Attrs → List String
  | .nil => []
  | .cons n v r => ("A" ++ hexOfChars n) :: (v.enc ++ r.enc)
def Items.enc : Items → List String
  | .nil => []
  | .val v r => "V" :: (v.enc ++ r.enc)
  | .slot k v r => "S" :: (k.enc ++ v.enc ++ r.enc)
end

def venc (v : Value) : String := ",".intercalate v.enc

def fltDec (t : String) : Option Flt :=
  if t == "FN" then some .nan
  else if t == "F+I" then some (.inf false)
  else if t == "F-I" then some (.inf true)
  else
    match t.toList with
    | 'F' :: s :: rest =>
      match (String.ofList rest).splitOn "e" with
      | [m, e] =>
        match m.toNat?, e.toInt? with
        | some m, some e => some (.fin (s == '-') m e)
        | _, _ => none
      | _ => none
    | _ => none

mutual
def vdecV : Nat → List String → Option (Value × List String)
  | 0, _ => none
  | _, [] => none
  | fuel + 1, t :: ts =>
    match t.toList with
    | ['X'] => some (.extant, ts)
    | 'I' :: k :: ':' :: n =>
      match IntKind.ofTag (String.singleton k), (String.ofList n).toInt? with
      | some k, some n => some (.int k n, ts)
      | _, _ => none
    | 'F' :: _ => (fltDec t).map fun f => (.float f, ts)
    | ['B', b] => some (.bool (b == '1'), ts)
    | 'T' :: h => (charsOfHex (String.ofList h)).map fun s => (.text s, ts)
    | 'D' :: h => (bytesOfHex (String.ofList h)).map fun bs => (.data bs, ts)
    | 'R' :: ':' :: rest =>
      match (String.ofList rest).splitOn ":" with
      | [na, ni] =>
        match na.toNat?, ni.toNat? with
        | some na, some ni =>
          match vdecA fuel na ts with
          | some (a, ts') =>
            match vdecI fuel ni ts' with
            | some (i, ts'') => some (.record a i, ts'')
            | none => none
          | none => none
        | _, _ => none
      | _ => none
    | _ => none
def vdecA : Nat → Nat → List String → Option (Attrs × List String)
  | 0, _, _ => none
  | _, 0, ts => some (.nil, ts)
  | _, _ + 1, [] => none
  | fuel + 1, n + 1, t :: ts =>
    match t.toList with
    | 'A' :: h =>
      match charsOfHex (String.ofList h) with
      | some name =>
        match vdecV fuel ts with
        | some (v, ts') =>
          match vdecA fuel n ts' with
          | some (r, ts'') => some (.cons name v r, ts'')
          | none => none
        | none => none
      | none => none
    | _ => none
def vdecI : Nat → Nat → List String → Option (Items × List String)
  | 0, _, _ => none
  | _, 0, ts => some (.nil, ts)
  | _, _ + 1, [] => none
  | fuel + 1, n + 1, t :: ts =>
    if t == "V" then
      match vdecV fuel ts with
      | some (v, ts') =>
        match vdecI fuel n ts' with
        | some (r, ts'') => some (.val v r, ts'')
        | none => none
      | none => none
    else if t == "S" then
      match vdecV fuel ts with
      | some (k, ts') =>
        match vdecV fuel ts' with
        | some (v, ts'') =>
          match vdecI fuel n ts'' with
          | some (r, ts3) => some (.slot k v r, ts3)
          | none => none
        | none => none
      | none => none
    else none
end

def vdec (s : String) : Option Value :=
  let ts := s.splitOn ","
  match vdecV (ts.length + 1) ts with
  | some (v, []) => some v
  | _ => none

def Res.enc : Res Value → String
  | .ok v => "ok:" ++ venc v
  | .err => "err"
  | .panic => "panic"

def styleOf (s : String) : Option Style :=
  if s == "S" then some .std else if s == "C" then some .compact else if s == "P" then some .pretty else none

/-! ## model side of the line protocol -/

def cycleOut (st : Style) (v : Value) : String :=
  match parse (print st v) with
  | .ok v1 =>
    let s1 := "ok:" ++ venc v1
    let s2 := (parse (print st v1)).enc
    (if s1 == s2 then "stable " else "changed ") ++ s1 ++ " " ++ s2
  | .err => "unparsed err -"
  | .panic => "panicked panic -"

def parseOut (r : Res Value) : String :=
  match r with
  | .ok v => "ok ok:" ++ venc v
  | .err => "err err"
  | .panic => "panic panic"

def apiLine (line : String) : String :=
  match words line with
  | ["print", s, e] =>
    match styleOf s, vdec e with
    | some st, some v => "text " ++ hexOfChars (print st v)
    | _, _ => "bad-op"
  | ["cycle", s, e] =>
    match styleOf s, vdec e with
    | some st, some v => cycleOut st v
    | _, _ => "bad-op"
  | ["parse", h] =>
    match charsOfHex h with
    | some cs => parseOut (parse cs)
    | none => "err err"
  | "chunk" :: _ => "skipped"
  | "seq" :: _ => "skipped"
  | "typed" :: _ => "skipped"
  | _ => "bad-op"

/-! ## monitor -/

/-- Equality of `swimos_model::Value` (`PartialEq`): integer kinds are ignored, `NaN == NaN`, `0.0 == -0.0`. -/
def fltCanon : Flt → Flt
  | .fin _ 0 _ => .fin false 0 0
  | f => f

mutual
def Value.canon : Value → Value
  | .int _ n => .int .big n
  | .float f => .float (fltCanon f)
  | .record a i => .record a.canon i.canon
  | v => v
def Attrs.canon : Attrs → Attrs
  | .nil => .nil
  | .cons n v r => .cons n v.canon r.canon
def Items.canon : Items → Items
  | .nil => .nil
  | .val v r => .val v.canon r.canon
  | .slot k v r => .slot k.canon v.canon r.canon
end

def veq (a b : Value) : Bool := venc a.canon == venc b.canon

/-- The tokenizer reads the name back as one identifier (so writing it raw is harmless). -/
def isIdentLex (s : List Char) : Bool := lexIdent s == some (s, [])

def Flt.isFinite : Flt → Bool
  | .fin _ _ _ => true
  | _ => false

/-- Shape classes of values (anywhere inside `v`) that decide which known defect a failed round trip belongs to. -/
structure Shape where
  badAttrName : Bool := false      -- an attribute name the tokenizer does not read back as one identifier (F7)
  soleItemNotPrim : Bool := false  -- attributes + exactly one value item that is a record or `Extant`
  attrBodySoleSlot : Bool := false -- an attribute whose value is a record with attributes and exactly one slot
  bareAttrKey : Bool := false      -- a slot key that is a record with attributes and no items
  soleExtant : Bool := false       -- a record whose only item is the value `Extant` (the parser never produces one)
  nonFinite : Bool := false        -- a NaN / infinite float

def Shape.or (a b : Shape) : Shape :=
  { badAttrName := a.badAttrName || b.badAttrName, soleItemNotPrim := a.soleItemNotPrim || b.soleItemNotPrim,
    attrBodySoleSlot := a.attrBodySoleSlot || b.attrBodySoleSlot, bareAttrKey := a.bareAttrKey || b.bareAttrKey,
    soleExtant := a.soleExtant || b.soleExtant, nonFinite := a.nonFinite || b.nonFinite }

def isBareAttrRecord : Value → Bool
  | .record (.cons _ _ _) .nil => true
  | _ => false

mutual
def Value.shape : Value → Shape
  | .float f => { nonFinite := !f.isFinite }
  | .record a i =>
    let here : Shape :=
      match a, i with
      | .cons _ _ _, .val w .nil => { soleItemNotPrim := !w.isPrim, soleExtant := (match w with | .extant => true | _ => false) }
      | .nil, .val .extant .nil => { soleExtant := true }
      | _, _ => {}
    (here.or a.shape).or i.shape
  | _ => {}
def Attrs.shape : Attrs → Shape
  | .nil => {}
  | .cons n v r =>
    let here : Shape :=
      { badAttrName := !isIdentLex n,
        attrBodySoleSlot := (match v with | .record (.cons _ _ _) (.slot _ _ .nil) => true | _ => false) }
    (here.or v.shape).or r.shape
def Items.shape : Items → Shape
  | .nil => {}
  | .val v r => v.shape.or r.shape
  | .slot k v r => (({ bareAttrKey := isBareAttrRecord k } : Shape).or k.shape).or (v.shape.or r.shape)
end

def Shape.cls (s : Shape) : String :=
  if s.badAttrName && Generated.Recon.attrNamesRaw then "attr-name-not-identifier"
  else if s.soleItemNotPrim then "sole-item-record-or-extant"
  else if s.attrBodySoleSlot then "attr-body-sole-slot"
  else if s.bareAttrKey then "bare-attr-slot-key"
  else "unclassified"

/-- `\u`+ four hex digits denoting a surrogate somewhere in the text (the F16 witness class). -/
def hasSurrogateEscape : List Char → Bool
  | '\\' :: 'u' :: r =>
    let r' := r.dropWhile (· = 'u')
    match r' with
    | a :: b :: _ :: _ :: _ =>
      ((a = 'd' || a = 'D') && (match hexVal? b with | some x => 8 ≤ x | none => false)) || hasSurrogateEscape r
    | _ => hasSurrogateEscape r
  | _ :: r => hasSurrogateEscape r
  | [] => false

/-- The same scan on raw bytes (the body of a `chunk` op need not be valid UTF-8; the pattern is ASCII). -/
def hasSurrogateEscapeBytes (bs : List Nat) : Bool :=
  hasSurrogateEscape (bs.map fun b => if b < 128 then Char.ofNat b else '?')

def panicReason (text : Option (List Char)) : String :=
  match text with
  | some cs => if hasSurrogateEscape cs then "panic-surrogate-escape" else "panic"
  | none => "panic"

def resDec (s : String) : Option (Res Value) :=
  if s == "err" then some .err
  else if s == "panic" then some .panic
  else if s.startsWith "ok:" then (vdec (s.drop 3).toString).map .ok
  else none

/-- First character of the document after leading white space. -/
def firstChar (cs : List Char) : Option Char := (skipMulti cs).head?

def field (out : String) (k : String) : Option String :=
  (words out).findSome? fun w => if w.startsWith (k ++ "=") then some (w.drop (k.length + 1)).toString else none

/-- `none` (bare decoder at EOF: no frame) is treated as an error. -/
def noneIsErr (s : String) : String := if s == "none" then "err" else s

/-- Does the word carry the token `t` as a result (`t`, `k=t`, `cutN:t`, or an element of a `|` list)? -/
def hasTok (t : String) (w : String) : Bool :=
  (w.splitOn "|").any fun x => x == t || x.endsWith ("=" ++ t) || x.endsWith (":" ++ t)

/-- A result list of a `seq` line (`-` = empty). -/
def seqList (s : String) : List String := if s == "-" then [] else s.splitOn "|"

/-- `same` stands for the uncut list; `cutK:<list>` carries its own. -/
def seqCutList (c whole : String) : String :=
  if c == "same" then whole else ":".intercalate ((c.splitOn ":").drop 1)

/-- Several documents through ONE decoder: every document that is UTF-8 must come out as the one-shot parser says
(`none` = no frame at the end of the input counts as an error), whatever stood before it and however the sequence was
cut.  A wrong answer behind an erroneous document is the decoder's state leaking from one document into the next. -/
def seqVerdictOne (valid : List Bool) (ones : List String) (l : List String) : Option String :=
  if l.length != ones.length then
    -- results missing (or too many): the stream stalled or lost its framing.  Behind a document that is not UTF-8 this
    -- is the leaked state again (an empty frame met by a stale parser answers `None` and the decoder waits for input)
    some (if (valid.take (l.length + 1)).any (!·) then "decoder-state-leaked-after-bad-utf8" else "decoder-frame-count")
  else
  let rec go (i : Nat) (vs : List Bool) (os ls : List String) (badUtf8 err : Bool) : Option String :=
    match vs, os, ls with
    | v :: vs', o :: os', r :: ls' =>
      if v && noneIsErr r != o then
        some (if badUtf8 then "decoder-state-leaked-after-bad-utf8"
          else if err then "decoder-state-leaked-after-error"
          else if i = 0 then "decoder-vs-oneshot" else "decoder-state-leaked")
      else go (i + 1) vs' os' ls' (badUtf8 || !v) (err || o == "err")
    | _, _, _ => none
  go 0 valid ones l false false

def seqVerdict (valid : List Bool) (ones : List String) (ls : List String) : Option String :=
  ls.findSome? fun l => seqVerdictOne valid ones (seqList l)

structure Mon where
  dummy : Unit := ()

/-- The property on one observed line.  `cycle`: the first parse must succeed; if the value is one the parser can
produce (no record whose only item is `Extant`) with finite floats it must be recovered (`Value::eq`); a second
cycle must not change anything.  `chunk`: every cut gives what the uncut decoder gives, which is what the one-shot
parser gives.  Nowhere `panic` or `hang`. -/
def Mon.step (m : Mon) (op out : String) : Mon × Option String :=
  let ws := words op
  let text : Option (List Char) :=
    match ws with
    | ["parse", h] => charsOfHex h
    | ["chunk", h, _] => charsOfHex h
    | _ => none
  if (words out).any (hasTok "hang") then (m, some "hang")
  else if (words out).any (hasTok "panic") then
    (m, some (match ws with
      | ["cycle", s, e] =>
        panicReason (match styleOf s, vdec e with | some st, some v => some (print st v) | _, _ => none)
      | ["chunk", h, _] =>
        (match bytesOfHex h with
         | some bs => if hasSurrogateEscapeBytes bs then "panic-surrogate-escape" else "panic"
         | none => "panic")
      | _ => panicReason text))
  else if out == "skipped" then (m, none)
  else
  match ws with
  | ["cycle", _, e] =>
    match vdec e, words out with
    | some v, [_, r1, r2] =>
      let sh := v.shape
      if sh.nonFinite then (m, none) else
      match resDec r1 with
      | some (.ok v1) =>
        if !sh.soleExtant && !veq v1 v then (m, some ("roundtrip-" ++ sh.cls))
        else if r2 != r1 then (m, some ("fixpoint-" ++ sh.cls))
        else (m, none)
      | some .err => (m, some ("unparseable-" ++ sh.cls))
      | _ => (m, some "malformed-output")
    | _, _ => (m, some "malformed-line")
  | ["chunk", _, _] =>
    match field out "one", field out "wl", field out "wlc", field out "raw", field out "rawc" with
    | some one, some wl, some wlc, some raw, some rawc =>
      match text with
      | none => (m, none)   -- not UTF-8: only "no panic, no hang"
      | some cs =>
        let bare := match firstChar cs with
          | some c => !(c = '"' || c = '@' || c = '{')
          | none => false
        if wlc != "same" || rawc != "same" then
          (m, some (if bare then "chunked-toplevel-bare-token" else "chunked-differs"))
        else if wl != one then (m, some "decoder-vs-oneshot")
        else if noneIsErr raw != wl then (m, some "bare-vs-lendelim")
        else (m, none)
    | _, _, _, _, _ => (m, some "malformed-line")
  | ["seq", hs, _] =>
    match field out "one", field out "wl", field out "wlc", field out "raw", field out "rawc" with
    | some one, some wl, some wlc, some raw, some rawc =>
      let valid : List Bool := (hs.splitOn ".").map fun h => ((bytesOfHex h).bind charsOfBytes).isSome
      let ones := one.splitOn "|"
      (m, seqVerdict valid ones [wl, raw, seqCutList wlc wl, seqCutList rawc raw])
    | _, _, _, _, _ => (m, some "malformed-line")
  | "typed" :: _ =>
    if (words out).all (· == "same") then (m, none) else (m, some "typed-roundtrip")
  | _ => (m, none)

end SwimVerif.Recon
