/-
The link registry (`Links`, `links.rs`) with its reporters as a system of its own: any sequence of the
operations the write task performs on it (C20).
-/
import SwimVerif.Model.WriteTask

namespace SwimVerif.WT

inductive LOp
  | register (id : Nat)            -- `register_reporter`
  | insert (id r : Nat)
  | remove (id r : Nat)
  | removeRemote (r : Nat)
  | removeLane (id : Nat)          -- iterator fully consumed
  | removeAll                      -- iterator fully consumed
  | countSingle (id : Nat)
  | countBroadcast (id : Nat)
  | snapshot                       -- reader side: consumes the event counters
  deriving Repr

def Links.snapshot (l : Links) : Links :=
  { l with agg := { l.agg with events := 0 },
           lane := l.lane.map (fun (p : Nat × Counters) => (p.1, { p.2 with events := 0 })) }

def lstep (l : Links) : LOp → Links
  | .register id => l.registerReporter id
  | .insert id r => l.insert id r
  | .remove id r => (l.remove id r).1
  | .removeRemote r => l.removeRemote r
  | .removeLane id => (l.removeLane id).1
  | .removeAll => l.removeAllLinks.1
  | .countSingle id => l.countSingle id
  | .countBroadcast id => l.countBroadcast id
  | .snapshot => l.snapshot

def lrun (l : Links) (ops : List LOp) : Links := ops.foldl lstep l

/-- The actual number of links of the agent. -/
def sumLinks (f : List (Nat × LaneLinks)) : Nat := (f.map (fun p => p.2.remotes.length)).sum

/-- The actual number of remotes linked to lane `id`. -/
def Links.actual (l : Links) (id : Nat) : Nat := (l.linkedFrom id).length

end SwimVerif.WT
