/-
Agent side of a command lane together with the part of the agent task's main loop that serves it (C14):

* `CommandLane` (`server/swimos_agent/src/lanes/command/mod.rs`): `prev_command`, `dirty`; `command` (what `DoCommand`
  does) stores the value and sets `dirty`; `write_to_buffer` echoes `prev_command` once per dirty flag
  (`Done`) and is `NoData` otherwise; `with_prev` (read by `CommandBranch::item_event` to build the `on_command` handler).
* `decode_and_command` = `Decode` then `DoCommand`: a body that does not parse fails the handler (`BadCommand`) BEFORE
  the lane is touched — the agent loop logs "rejected" and carries on; no handler runs.
* `run_handler` (`agent_model/mod.rs`): `DoCommand` completes with `Modification::of(lane)` (dirty + trigger), so
  `lifecycle.item_event(lane)` is looked up at once and run depth-first: `on_command(prev_command)`.
  `Supply` completes with `Modification::no_trigger` (dirty only); so does `SupplyLaneSync`. A sync of a command lane
  and a command for a supply lane are `UnitHandler`s: nothing happens.
* the end of every loop iteration, `dirty_items.retain`: an item is written when its `ItemWriter` is at home; the id
  stays in the set while the writer is away or while the item answers `DataStillAvailable`; `WriteComplete` brings
  the writer back.

The user's `on_command` handler is a parameter (`Handler`): for a command `v` it may first command its own lane once
(`selfCmd v`, handled depth-first, that handler issues no further command) and then supply the items `pushes v`.
One `Ev` = one iteration of the agent loop (`read` is the runtime taking a frame from a lane's channel).
-/
import SwimVerif.Model.SupplyLane
import SwimVerif.Model.AssocList

namespace SwimVerif.CL

/-- `CommandLane` -/
structure CmdLane where
  prev : Option Nat := none     -- `prev_command`
  dirty : Bool := false         -- `dirty`
  deriving DecidableEq, Repr

/-- `CommandLane::command` -/
def CmdLane.command (_c : CmdLane) (v : Nat) : CmdLane := { prev := some v, dirty := true }

/-- `LaneItem::write_to_buffer` for a command lane: `some v` = an event `v` was encoded (`Done`), `none` = `NoData` -/
def CmdLane.write (c : CmdLane) : CmdLane × Option Nat :=
  if c.dirty then
    match c.prev with
    | some v => ({ c with dirty := false }, some v)
    | none => (c, none)
  else (c, none)

/-- an ad hoc command a handler sends to a lane of another agent: `SendCommand::new(address, value, overwrite_permitted)` -/
structure AdHoc where
  target : Nat
  value : Nat
  ow : Bool
  deriving DecidableEq, Repr

/-- the user's `on_command` -/
structure Handler where
  pushes : Nat → List Nat
  selfCmd : Nat → Option Nat
  sends : Nat → List AdHoc := fun _ => []   -- ad hoc commands `on_command(v)` sends, after its supplies
  /-- commands `on_command(v)` then sends through `Commander`s (`Commander::send` = overwritable,
  `send_queued` = not). The lifecycle keeps one commander per target; it creates it on first use … -/
  csends : Nat → List AdHoc := fun _ => []
  /-- … and creates it AGAIN (`create_commander` for an address already registered) when this says so -/
  recreate : AdHoc → Bool := fun _ => false

/-- a command body as the lane's decoder sees it -/
inductive Body
  | ok (v : Nat)
  | bad
  deriving DecidableEq, Repr

inductive LaneId | cmd | sup
  deriving DecidableEq, Repr

/-- the `ItemWriter` of a lane and the lane's byte channel, at frame granularity -/
structure Out (φ : Type) where
  home : Bool := true              -- the writer is in `item_writers`
  inflight : Option φ := none      -- the frame of the write in `pending_writes`
  chan : List φ := []              -- written, not yet read by the runtime
  deriving Repr

inductive Entry
  | inv (v : Nat)      -- `on_command(v)` started
  | push (a : Nat)     -- the handler supplied `a`
  deriving DecidableEq, Repr

/-- everything about the command lane in the agent task -/
structure CmdSide where
  lane : CmdLane := {}
  dirty : Bool := false            -- `dirty_items.contains(cmd)`
  out : Out Nat := {}
  -- ghost
  handed : List Nat := []          -- echoes written (started writes), in order
  taken : List Nat := []           -- echoes the runtime has read
  deriving Repr

/-- everything about the supply lane in the agent task -/
structure SupSide where
  lane : Sup.Lane Nat := {}
  dirty : Bool := false            -- `dirty_items.contains(sup)`
  out : Out (Sup.Frame Nat) := {}
  -- ghost
  handed : List (Sup.Frame Nat) := []   -- frames written (started writes), in order
  taken : List (Sup.Frame Nat) := []    -- frames the runtime has read
  requested : List Nat := []            -- sync requests received, in order
  deriving Repr

/-- a record in the ad hoc command channel: `CommandMessage::{Addressed, Register, Registered}` -/
inductive Rec
  | addressed (a : AdHoc)                      -- explicit address with every command
  | register (target : Nat) (id : Nat)         -- `Register { address, id }` (written by `register_commander`)
  | byId (id : Nat) (value : Nat) (ow : Bool)  -- `Registered { target: id, command, overwrite_permitted }`
  deriving DecidableEq, Repr

/-- the agent task's side of ad hoc commands: `command_buffer` (every `send_ad_hoc_command` /
`register_commander` / `send_registered_command` appends an encoded `CommandMessage`), `cmd_writer:
Option<CommandWriter>` (lent to the write in `cmd_send_fut`), the ad hoc byte channel to the runtime at record
granularity; `CommanderIds {next_id, assigned}` (the id allocator behind `create_commander`); the lifecycle's own
table of the commanders it holds. -/
structure AdSide where
  buf : List Rec := []           -- `command_buffer`
  home : Bool := true            -- `cmd_writer.is_some()`
  inflight : List Rec := []      -- `CommandWriter.buffer` of the write in `cmd_send_fut`
  chan : List Rec := []          -- written to the channel, not yet read by the runtime
  nextId : Nat := 0                      -- `CommanderIds.next_id`
  assigned : List (Nat × Nat) := []      -- `CommanderIds.assigned`: address ↦ id
  cache : List (Nat × Nat) := []         -- user state: target ↦ the id inside the `Commander` the lifecycle holds
  -- ghost
  taken : List Rec := []         -- read by the runtime, in order
  issued : List Rec := []        -- every record a handler produced, in order
  intended : List (Bool × AdHoc) := []   -- every command sent (`true` = through a commander), with the target MEANT
  deriving Repr

structure St where
  cmd : CmdSide := {}
  sup : SupSide := {}
  ad : AdSide := {}
  -- ghost
  received : List Body := []       -- every command body read from the command lane's input, in order
  trace : List Entry := []         -- handler invocations and supplied items, in execution order
  deriving Repr

inductive Ev
  | command (l : LaneId) (b : Body)   -- `ValueRequest { request: Command(body) }` for the lane
  | sync (l : LaneId) (r : Nat)       -- `ValueRequest { request: Sync(r) }`
  | writeDone (l : LaneId)            -- `WriteComplete` for the lane's writer
  | read (l : LaneId)                 -- the runtime reads one frame from the lane's channel (not a loop iteration)
  | cmdSendDone                       -- `CommandSendComplete { result: Ok(writer) }`
  | readCmd                           -- the runtime reads one record from the ad hoc channel (not a loop iteration)
  deriving Repr

/-- `Supply` actions of a handler, one after the other: `lane.push(a)`, dirty, no trigger -/
def supplyAll (s : St) : List Nat → St
  | [] => s
  | a :: rest =>
    supplyAll { s with sup := { s.sup with lane := s.sup.lane.push a, dirty := true },
                       trace := s.trace ++ [.push a] } rest

/-- `SendCommand`: `action_context.send_ad_hoc_command` appends an `Addressed` record to `command_buffer` -/
def AdSide.send (a : AdSide) (x : AdHoc) : AdSide :=
  { a with buf := a.buf ++ [.addressed x], issued := a.issued ++ [.addressed x], intended := a.intended ++ [(false, x)] }

/-- `RegisterCommander`: `CommanderIds::get_request` (the id the address already has, else `next_id`, which is then
incremented) and a `Register { address, id }` record — also when the address was registered before -/
def AdSide.register (a : AdSide) (t : Nat) : AdSide × Nat :=
  match alGet a.assigned t with
  | some id => ({ a with buf := a.buf ++ [.register t id], issued := a.issued ++ [.register t id] }, id)
  | none =>
    ({ a with nextId := a.nextId + 1, assigned := alSet a.assigned t a.nextId,
              buf := a.buf ++ [.register t a.nextId], issued := a.issued ++ [.register t a.nextId] }, a.nextId)

/-- `SendCommandById`: a `Registered` record carrying the commander's id -/
def AdSide.sendById (a : AdSide) (id : Nat) (x : AdHoc) : AdSide :=
  { a with buf := a.buf ++ [.byId id x.value x.ow], issued := a.issued ++ [.byId id x.value x.ow],
           intended := a.intended ++ [(true, x)] }

/-- one send through the lifecycle's commander for `x.target` (created now if it holds none, or if `recreate`) -/
def AdSide.csend (a : AdSide) (re : Bool) (x : AdHoc) : AdSide :=
  match (if re then none else alGet a.cache x.target) with
  | some id => a.sendById id x
  | none =>
    let r := a.register x.target
    { r.1 with cache := alSet r.1.cache x.target r.2 }.sendById r.2 x

/-- everything one `on_command(w)` does to the ad hoc side: its `SendCommand`s, then its commander sends -/
def adHandler (h : Handler) (a : AdSide) (w : Nat) : AdSide :=
  (h.csends w).foldl (fun a x => a.csend (h.recreate x) x) ((h.sends w).foldl AdSide.send a)

/-- … and one received command `v`: the nested handler (if `v`'s handler commands its own lane) runs first -/
def Handler.adAfter (h : Handler) (a : AdSide) (v : Nat) : AdSide :=
  adHandler h (match h.selfCmd v with | some u => adHandler h a u | none => a) v

def sendAll (h : Handler) (s : St) (w : Nat) : St := { s with ad := adHandler h s.ad w }

/-- `DoCommand(v)`: `lane.command(v)`, `Modification::of(lane)` = dirty + trigger -/
def setCommand (s : St) (v : Nat) : St :=
  { s with cmd := { s.cmd with lane := s.cmd.lane.command v, dirty := true } }

/-- `DoCommand(v)` followed (depth-first) by the `on_command` handler that `item_event` builds from `prev_command`:
`lane.with_prev(|prev| prev.as_ref().map(|value| lifecycle.on_command(value)))`. The handler first commands its own
lane if `selfCmd` says so (that nested handler issues no further command), then supplies its items. -/
def doCommand (h : Handler) (s : St) (v : Nat) : St :=
  let s1 := setCommand s v
  match s1.cmd.lane.prev with
  | none => s1
  | some w =>
    let s2 := { s1 with trace := s1.trace ++ [.inv w] }
    let s3 :=
      match h.selfCmd w with
      | none => s2
      | some u =>
        let t1 := setCommand s2 u
        match t1.cmd.lane.prev with
        | none => t1
        | some u' => sendAll h (supplyAll { t1 with trace := t1.trace ++ [.inv u'] } (h.pushes u')) u'
    sendAll h (supplyAll s3 (h.pushes w)) w

/-- the event proper (before `dirty_items.retain`) -/
def handleEv (h : Handler) (s : St) : Ev → St
  | .command .cmd b =>
    let s1 := { s with received := s.received ++ [b] }
    match b with
    | .ok v => doCommand h s1 v
    | .bad => s1                       -- `Decode` fails: "Incoming frame was rejected by the item."
  | .command .sup _ => s               -- `UnitHandler`
  | .sync .cmd _ => s                  -- `UnitHandler`
  | .sync .sup r =>
    { s with sup := { s.sup with lane := s.sup.lane.sync r, dirty := true, requested := s.sup.requested ++ [r] } }
  | .writeDone .cmd =>
    match s.cmd.out.inflight with
    | none => s
    | some f => { s with cmd := { s.cmd with out := { home := true, inflight := none, chan := s.cmd.out.chan ++ [f] } } }
  | .writeDone .sup =>
    match s.sup.out.inflight with
    | none => s
    | some f => { s with sup := { s.sup with out := { home := true, inflight := none, chan := s.sup.out.chan ++ [f] } } }
  | .read _ => s
  | .cmdSendDone =>
    -- `cmd_send_fut.set(None)`; if `!command_buffer.is_empty()` start the next write with the same writer,
    -- else `cmd_writer = Some(writer)`
    if s.ad.home then s
    else if s.ad.buf.isEmpty then
      { s with ad := { s.ad with home := true, inflight := [], chan := s.ad.chan ++ s.ad.inflight } }
    else
      { s with ad := { s.ad with inflight := s.ad.buf, buf := [], chan := s.ad.chan ++ s.ad.inflight } }
  | .readCmd => s

/-- `check_cmds` (after every handler that ran to completion): if `command_buffer` is not empty and the writer is at
home, `CommandWriter::write` swaps the buffer out and the write becomes `cmd_send_fut` -/
def checkCmds (s : St) : St :=
  if !s.ad.buf.isEmpty && s.ad.home then
    { s with ad := { s.ad with home := false, inflight := s.ad.buf, buf := [] } }
  else s

/-- is `check_cmds` called at the end of the event? (after a handler that completed: a decoded command, a
`UnitHandler`, a sync handler — not after a rejected frame, not after a bare `WriteComplete` / `CommandSendComplete`) -/
def Ev.runsHandler : Ev → Bool
  | .command .cmd (.ok _) => true
  | .command .cmd .bad => false
  | .command .sup _ => true
  | .sync _ _ => true
  | _ => false

/-- `dirty_items.retain` for the command lane -/
def retainCmd (c : CmdSide) : CmdSide :=
  if c.dirty && c.out.home then
    match c.lane.write with
    | (l', some v) =>
      { c with lane := l', dirty := false, out := { c.out with home := false, inflight := some v },
               handed := c.handed ++ [v] }
    | (l', none) => { c with lane := l', dirty := false }
  else c

/-- `dirty_items.retain` for the supply lane -/
def retainSup (p : SupSide) : SupSide :=
  if p.dirty && p.out.home then
    match p.lane.write with
    | (l', some f, res) =>
      { p with lane := l', dirty := (res == .dataStillAvailable),
               out := { p.out with home := false, inflight := some f }, handed := p.handed ++ [f] }
    | (l', none, res) =>
      -- an empty buffer is "written": the write completes at once and the writer is back before anything else happens
      { p with lane := l', dirty := (res == .dataStillAvailable) }
  else p

def retain (s : St) : St := { s with cmd := retainCmd s.cmd, sup := retainSup s.sup }

def readLane (s : St) : LaneId → St
  | .cmd =>
    match s.cmd.out.chan with
    | [] => s
    | f :: rest => { s with cmd := { s.cmd with out := { s.cmd.out with chan := rest }, taken := s.cmd.taken ++ [f] } }
  | .sup =>
    match s.sup.out.chan with
    | [] => s
    | f :: rest => { s with sup := { s.sup with out := { s.sup.out with chan := rest }, taken := s.sup.taken ++ [f] } }

def readCmd (s : St) : St :=
  match s.ad.chan with
  | [] => s
  | a :: rest => { s with ad := { s.ad with chan := rest, taken := s.ad.taken ++ [a] } }

def step (h : Handler) (s : St) : Ev → St
  | .read l => readLane s l
  | .readCmd => readCmd s
  | e => retain (if e.runsHandler then checkCmds (handleEv h s e) else handleEv h s e)

def run (h : Handler) (s : St) (evs : List Ev) : St := evs.foldl (step h) s

/-! ### Views -/

def invoked : List Entry → List Nat
  | [] => []
  | .inv v :: rest => v :: invoked rest
  | .push _ :: rest => invoked rest

def pushedItems : List Entry → List Nat
  | [] => []
  | .inv _ :: rest => pushedItems rest
  | .push a :: rest => a :: pushedItems rest

def validCmds : List Body → List Nat
  | [] => []
  | .ok v :: rest => v :: validCmds rest
  | .bad :: rest => validCmds rest

/-- the invocations one received command causes: itself, then the command its handler issues (if any) -/
def Handler.expand (h : Handler) (v : Nat) : List Nat :=
  v :: (match h.selfCmd v with | some u => [u] | none => [])

/-- what one `on_command(w)` sends, in order: ad hoc commands, then commands through commanders (tagged `true`) -/
def Handler.sentBy (h : Handler) (w : Nat) : List (Bool × AdHoc) :=
  (h.sends w).map (fun x => (false, x)) ++ (h.csends w).map (fun x => (true, x))

/-- the commands one received command makes the handlers send, with the targets they are meant for, in order -/
def Handler.intendedBy (h : Handler) (v : Nat) : List (Bool × AdHoc) :=
  (match h.selfCmd v with | some u => h.sentBy u | none => []) ++ h.sentBy v

/-! ### the runtime's view of the record stream (`external_links_task`): `CommanderIds::set_id` binds the id to the
endpoint (REPLACING whatever the id was bound to), `endpoint_for(id)` resolves a `Registered` record; a record for an
id that was never registered is dropped with an error -/

/-- `(id ↦ target bindings, commands with the target they are appended for)` after one more record -/
def stepResolve (st : List (Nat × Nat) × List (Bool × AdHoc)) : Rec → List (Nat × Nat) × List (Bool × AdHoc)
  | .addressed x => (st.1, st.2 ++ [(false, x)])
  | .register t id => (alSet st.1 id t, st.2)
  | .byId id v ow =>
    match alGet st.1 id with
    | some t => (st.1, st.2 ++ [(true, { target := t, value := v, ow := ow })])
    | none => st

def resolveRun (rs : List Rec) : List (Nat × Nat) × List (Bool × AdHoc) := rs.foldl stepResolve ([], [])

/-- the items one received command makes the handlers supply, in order -/
def Handler.supplied (h : Handler) (v : Nat) : List Nat :=
  (match h.selfCmd v with | some u => h.pushes u | none => []) ++ h.pushes v

/-! ### Line protocol (rig `sv-cl`: the real `AgentModel` with a command lane and a supply lane, the harness is the
runtime). `new <stall>`: with `stall = 1` the lanes' output channels are smaller than any frame, so a write completes
exactly when the harness reads the frame; with `0` they never fill up.
`cmd <c|s> <body>` | `sync <c|s> <r>` | `read <c|s>`; output `h=<log since the last op> f=<frame read|->`.
`readcmd <n>`: the harness reads up to `n` records from the ad hoc command channel (capacity `new <stall> <cap>`, far
smaller than a burst) with the real `CommandMessageDecoder`; output `h=- f=- a=<record>,…` with records
`<target>:<value>:<ow>` (`Addressed`), `R<target>=<id>` (`Register`), `#<id>:<value>:<ow>` (`Registered`). Reading drains
the channel, so every write in flight completes and the agent starts the next one: the records are the commands
issued, in order, regardless of how they were batched. -/

/-- the lifecycle of the rig: `on_command(v)` commands `v + 1` when `v % 7 = 5`, then supplies `v % 4` items -/
def rigHandler : Handler where
  pushes := fun v => (List.range (v % 4)).map (fun i => v * 10 + i + 1)
  selfCmd := fun v => if v % 7 = 5 then some (v + 1) else none
  -- `(v / 4) % 5` ad hoc commands, a burst of 60 when `v % 11 = 0`; targets `/t0 … /t2`, mixed overwrite flags
  sends := fun v => (List.range (if v % 11 = 0 then 60 else (v / 4) % 5)).map
    (fun i => { target := (v + i) % 3, value := v * 1000 + i, ow := (v + i) % 2 = 0 })
  -- `(v / 3) % 4` commands through commanders, a burst of 40 when `v % 13 = 0`; targets `/t0 … /t3`
  csends := fun v => (List.range (if v % 13 = 0 then 40 else (v / 3) % 4)).map
    (fun i => { target := (v + 2 * i) % 4, value := v * 1000 + 500 + i, ow := (v + i) % 3 = 0 })
  recreate := fun x => x.value % 5 = 0

structure Sys where
  stall : Bool := false
  st : St := {}

def parseLane : String → Option LaneId
  | "c" => some .cmd
  | "s" => some .sup
  | _ => none

def parseBody (b : String) : Body :=
  if b.length ≤ 6 then (match b.toNat? with | some v => .ok v | none => .bad) else .bad

def Entry.render : Entry → String
  | .inv v => s!"cmd:{v}"
  | .push a => s!"sup:{a}"

def AdHoc.render (a : AdHoc) : String := s!"{a.target}:{a.value}:{boolBit a.ow}"

def Rec.render : Rec → String
  | .addressed a => a.render
  | .register t id => s!"R{t}={id}"
  | .byId id v ow => s!"#{id}:{v}:{boolBit ow}"

def renderAds (as : List Rec) : String := if as.isEmpty then "-" else ",".intercalate (as.map Rec.render)

/-- what the monitor expects for an intended command: `a:` = with its address, `c:` = through a commander -/
def renderIntended (p : Bool × AdHoc) : String := (if p.1 then "c:" else "a:") ++ p.2.render

def renderLog (es : List Entry) : String := if es.isEmpty then "-" else ",".intercalate (es.map Entry.render)

/-- with channels that never fill, every write completes as soon as the loop comes round -/
def settle (h : Handler) : Nat → St → St
  | 0, s => s
  | n + 1, s =>
    if s.cmd.out.inflight.isSome || s.sup.out.inflight.isSome then
      settle h n (step h (step h s (.writeDone .cmd)) (.writeDone .sup))
    else s

def Sys.after (y : Sys) (s : St) : St :=
  if y.stall then s else settle rigHandler (s.sup.lane.eventQ.length + s.sup.lane.syncQ.length + 4) s

def stepLine (y : Sys) (line : String) : Sys × String :=
  match words line with
  | "new" :: st :: _ => ({ stall := st = "1", st := {} }, "ok")
  | ["readcmd", n] => match n.toNat? with
    | some n =>
      let s0 := step rigHandler (step rigHandler y.st .cmdSendDone) .cmdSendDone
      let got := s0.ad.chan.take n
      let s := y.after ((List.replicate got.length Ev.readCmd).foldl (step rigHandler) s0)
      ({ y with st := s }, s!"h=- f=- a={renderAds got}")
    | none => (y, "bad-op")
  | ["cmd", l, b] => match parseLane l with
    | some l =>
      let s := y.after (step rigHandler y.st (.command l (parseBody b)))
      ({ y with st := s }, s!"h={renderLog (s.trace.drop y.st.trace.length)} f=-")
    | none => (y, "bad-op")
  | ["sync", l, r] => match parseLane l, r.toNat? with
    | some l, some r =>
      let s := y.after (step rigHandler y.st (.sync l r))
      ({ y with st := s }, s!"h={renderLog (s.trace.drop y.st.trace.length)} f=-")
    | _, _ => (y, "bad-op")
  | ["read", l] => match parseLane l with
    | some .cmd =>
      -- stalled: reading the frame in flight is what completes the write
      let s0 := if y.stall then step rigHandler y.st (.writeDone .cmd) else y.st
      let f := s0.cmd.out.chan.head?
      let s := y.after (step rigHandler s0 (.read .cmd))
      ({ y with st := s }, s!"h=- f={(f.map (fun v => s!"ev:{v}")).getD "-"}")
    | some .sup =>
      let s0 := if y.stall then step rigHandler y.st (.writeDone .sup) else y.st
      let f := s0.sup.out.chan.head?
      let s := y.after (step rigHandler s0 (.read .sup))
      ({ y with st := s }, s!"h=- f={(f.map Sup.Frame.render).getD "-"}")
    | none => (y, "bad-op")
  | _ => (y, "bad-op")

/-! ### Observable-level monitor
Decides on the trace alone (with the rig's lifecycle as the reference for what a handler does):
* the log of an op is exactly the invocations the received command must cause — `cmd:v` once, for a valid body only,
  followed depth-first by the self-command and the supplied items; nothing for a bad body, a sync, or another lane;
* frames read from the supply lane are the supplied items in order, exactly once each, a sync answered by a bare
  `synced` — the monitor keeps what is owed, like `Sup.Mon`, but cannot see the order between an owed sync and owed
  items (decided inside the agent), so it accepts either the oldest owed sync or the oldest owed item;
* a frame read from the command lane is an echo of a command that was handled and not older than the last echo;
* when the harness reads (the agent has settled) and something is owed, a frame must be there — nothing is stranded
  inside the lane (`C14_agent_supply_never_stranded`). -/

structure Mon where
  owedItems : List Nat := []
  owedSync : List Nat := []
  -- invocations since the last echo read, oldest first. Values may repeat, so which invocation an echo belongs to
  -- can be ambiguous: `handled` is the most that can still be un-echoed, `handledMin` the least.
  handled : List Nat := []
  handledMin : List Nat := []
  -- commands sent by handlers (`a:<target>:<value>:<ow>` with an address, `c:…` through a commander, with the
  -- target MEANT) and not yet read from the channel, oldest first
  owedAds : List String := []
  bound : List (Nat × Nat) := []   -- id ↦ target, from the `Register` records read so far (what the runtime will use)
  deriving Repr

def expectedLog (v : Nat) : List Entry :=
  [.inv v] ++ (match rigHandler.selfCmd v with
    | some u => [.inv u] ++ (rigHandler.pushes u).map .push
    | none => []) ++ (rigHandler.pushes v).map .push

/-- drop the prefix of `l` up to and including the FIRST `v`; `none` if `v` is not there -/
def dropThroughFirst (v : Nat) : List Nat → Option (List Nat)
  | [] => none
  | x :: rest => if x = v then some rest else dropThroughFirst v rest

/-- drop the prefix of `l` up to and including the LAST `v` (everything if `v` is not there) -/
def dropThroughLast (v : Nat) (l : List Nat) : List Nat :=
  if l.contains v then (l.reverse.takeWhile (fun x => !(x == v))).reverse else []

/-- `c:<t>:<v>:<ow>` ↦ `<v>:<ow>` -/
def afterTarget (k : String) : String := ":".intercalate ((k.splitOn ":").drop 2)

/-- Records read from the ad hoc channel. A `Register` binds an id — never an id already bound to ANOTHER target; a
command (resolved through the bindings if it carries an id, as the runtime will) must be the oldest owed command,
for the target it was meant for. -/
def Mon.seeAds (m : Mon) : List String → Mon × Option String
  | [] => (m, none)
  | x :: rest =>
    if x.startsWith "R" then
      match ((x.drop 1).toString.splitOn "=").map String.toNat? with
      | [some t, some id] =>
        match alGet m.bound id with
        | some t' =>
          if t' = t then Mon.seeAds m rest else (m, some "commander-id-reused-for-other-target")
        | none => Mon.seeAds { m with bound := alSet m.bound id t } rest
      | _ => (m, some "unparsable")
    else
      let key : Option String :=
        if x.startsWith "#" then
          match (x.drop 1).toString.splitOn ":" with
          | id :: vs => match id.toNat? with
            | some id => (alGet m.bound id).map (fun t => s!"c:{t}:" ++ ":".intercalate vs)
            | none => none
          | [] => none
        else some ("a:" ++ x)
      match key with
      | none => (m, some "commander-command-unregistered-id")
      | some key =>
        match m.owedAds with
        | o :: os =>
          if o = key then Mon.seeAds { m with owedAds := os } rest
          else if key.startsWith "c:" && o.startsWith "c:" && afterTarget o = afterTarget key then
            (m, some "commander-command-misrouted")
          else if os.contains key then (m, some "agent-command-dropped-or-reordered")
          else (m, some "agent-command-duplicated-or-invented")
        | [] => (m, some "agent-command-duplicated-or-invented")

def Mon.step (m : Mon) (line : String) (out : String) : Mon × Option String :=
  match words out with
  | [h, f] =>
    let hv := (h.drop 2).toString
    let fv := (f.drop 2).toString
    match words line with
    | "new" :: _ => ({}, none)
    | ["cmd", l, b] =>
      if fv ≠ "-" then (m, some "unparsable") else
      match l, parseBody b with
      | "c", .ok v =>
        let e := expectedLog v
        if hv = renderLog e then
          ({ m with owedItems := m.owedItems ++ pushedItems e, handled := m.handled ++ invoked e,
                    handledMin := m.handledMin ++ invoked e,
                    owedAds := m.owedAds ++ (rigHandler.intendedBy v).map renderIntended }, none)
        else if hv = "-" then (m, some "command-handler-not-invoked")
        else (m, some "command-handler-invoked-wrongly")
      | _, _ => if hv = "-" then (m, none) else (m, some "command-handler-invoked-without-command")
    | ["sync", l, r] =>
      if hv ≠ "-" then (m, some "command-handler-invoked-without-command")
      else if l = "s" then ({ m with owedSync := m.owedSync ++ [r.toNat?.getD 0] }, none) else (m, none)
    | ["read", "s"] =>
      if hv ≠ "-" then (m, some "command-handler-invoked-without-command")
      else if fv = "-" then
        -- the runtime has settled: whatever is owed must have a write in flight (or be in the channel)
        (if m.owedItems.isEmpty && m.owedSync.isEmpty then (m, none) else (m, some "supply-item-stranded-in-lane"))
      else
        match m.owedSync, m.owedItems with
        | r :: rs, a :: as =>
          if fv = s!"synced:{r}" then ({ m with owedSync := rs }, none)
          else if fv = s!"ev:{a}" then ({ m with owedItems := as }, none)
          else (m, some "supply-item-dropped-duplicated-or-reordered")
        | r :: rs, [] =>
          if fv = s!"synced:{r}" then ({ m with owedSync := rs }, none) else (m, some "supply-frame-from-nothing")
        | [], a :: as =>
          if fv = s!"ev:{a}" then ({ m with owedItems := as }, none)
          else (m, some "supply-item-dropped-duplicated-or-reordered")
        | [], [] => (m, some "supply-frame-from-nothing")
    | ["read", "c"] =>
      if hv ≠ "-" then (m, some "command-handler-invoked-without-command")
      else if fv = "-" then (if m.handledMin.isEmpty then (m, none) else (m, some "command-echo-missing"))
      else
        match (fv.drop 3).toString.toNat? with
        | some v =>
          if (fv.take 3).toString = "ev:" then
            match dropThroughFirst v m.handled with
            | some rest => ({ m with handled := rest, handledMin := dropThroughLast v m.handledMin }, none)
            | none => (m, some "command-echo-of-nothing-handled")
          else (m, some "unparsable")
        | none => (m, some "unparsable")
    | _ => (m, some "unparsable")
  | [h, f, a] =>
    match words line with
    | ["readcmd", n] =>
      if h ≠ "h=-" || f ≠ "f=-" then (m, some "unparsable") else
      let av := (a.drop 2).toString
      let got := if av = "-" then [] else av.splitOn ","
      let r := m.seeAds got
      match r.2 with
      | some e => (r.1, some e)
      | none =>
        -- the agent has settled and the channel has been drained as far as asked: anything still owed must be there
        if got.length < n.toNat?.getD 0 && !r.1.owedAds.isEmpty then (r.1, some "agent-command-not-forwarded")
        else (r.1, none)
    | _ => (m, some "unparsable")
  | _ =>
    match words line with
    | "new" :: _ => ({}, none)
    | _ => (m, some "unparsable")

/-! ### Monitor of the end-to-end rig `sv-adh` (real agent on the real runtime; the harness serves the target channels)
`cmd <v>` | `take <t> <n>` → `got <t>:<value>,…` | `drain` → `all <t>:<value>,…`. What target `t`'s channels have
delivered must be a SUPERSESSION of the commands meant for `t` (ad hoc and through commanders alike): in order, only
overwritable commands missing and only when a later command for `t` exists; after a `drain` nothing is outstanding.
A command meant for another target is `commander-command-misrouted` / `agent-command-misrouted`. -/

structure AdhMon where
  intended : List (Bool × AdHoc) := []
  received : List (Nat × Nat) := []     -- (target, value), in delivery order per target
  deriving Repr

/-- greedy supersession check; `ok n` = `n` trailing commands not yet delivered, `error x` = `x` does not fit -/
def matchSup : List (Bool × AdHoc) → List Nat → Except Nat Nat
  | app, [] => .ok app.length
  | [], x :: _ => .error x
  | a :: rest, x :: xs =>
    if a.2.value = x then matchSup rest xs
    else if a.2.ow && !rest.isEmpty then matchSup rest (x :: xs)
    else .error x

def AdhMon.check (m : AdhMon) (quiescent : Bool) : Option String :=
  let targets := ((m.intended.map (·.2.target)) ++ m.received.map (·.1)).eraseDups
  targets.foldl (fun (acc : Option String) t =>
    match acc with
    | some e => some e
    | none =>
      match matchSup (m.intended.filter (·.2.target = t)) ((m.received.filter (·.1 = t)).map (·.2)) with
      | .ok n => if quiescent && n > 0 then some "agent-command-not-forwarded" else none
      | .error x =>
        match m.intended.find? (fun p => p.2.value = x) with
        | some p =>
          if p.2.target = t then some "agent-command-dropped-duplicated-or-reordered"
          else if p.1 then some "commander-command-misrouted" else some "agent-command-misrouted"
        | none => some "agent-command-duplicated-or-invented") none

def AdhMon.step (m : AdhMon) (line : String) (out : String) : AdhMon × Option String :=
  let ws := match words line with
    | "!cmd" :: rest => "cmd" :: rest
    | ws => ws
  match ws, words out with
  | "new" :: _, _ => ({}, none)
  | ["cmd", b], ["ok"] =>
    match parseBody b with
    | .ok v => ({ m with intended := m.intended ++ rigHandler.intendedBy v }, none)
    | .bad => (m, none)
  | [kind, _, _], [_, items] | [kind], [_, items] =>
    if kind ≠ "take" && kind ≠ "drain" then (m, some "unparsable") else
    let parsed := if items = "-" then some [] else
      (items.splitOn ",").mapM (fun x => match x.splitOn ":" with
        | [t, v] => match t.toNat?, v.toNat? with
          | some t, some v => some (t, v)
          | _, _ => none
        | _ => none)
    match parsed with
    | none => (m, some (if items.contains '!' then "agent-command-on-wrong-channel" else "unparsable"))
    | some got =>
      let m' := { m with received := m.received ++ got }
      (m', m'.check (kind = "drain"))
  | _, _ => (m, some "unparsable")

end SwimVerif.CL
