/-
Reference model of Recon text (C09; reused by C15).  Self-contained: core Lean + the generated tables only.

* `Value` / `Attrs` / `Items` — the Swim data model (`swimos_model::{Value, Attr, Item}`) with integers kept
  together with their Rust *kind* (`IntKind`) and floats as exact decimals (`Flt`).
* `escape` / `unescape`, `isIdentifier`, `stringLiteral` — `swimos_model::literal`, `identifier`, and the
  `unescape` automaton of `recon_parser/tokens.rs`, all over the *Generated* tables.
* `print st i v` — the layout decisions of the three printers (`printer/mod.rs`: `StructurePrinter`,
  `AttributePrinter`, the three `PrintStrategy`s) for a `Value`, branch by branch.
* `parse` — a reference recursive-descent parser (fuel-bounded) for the language the real pushdown automaton
  (`recon_parser/record/mod.rs` + `ValueMaterializer`) accepts on *complete* documents.
* `Mon` — the observable-level monitor of the property on implementation traces; `apiLine` the line protocol.

Characters are Lean `Char`s (= Unicode scalar values = Rust `char`); strings are `List Char` in the model and
UTF-8 hex in the line protocol.
-/
import SwimVerif.Model.Util
import SwimVerif.Generated.ReconTables

namespace SwimVerif.Recon
open SwimVerif.Generated.Recon

/-! ## Values -/

/-- The Rust variant holding an integer: `Int32Value`, `Int64Value`, `UInt32Value`, `UInt64Value`, `BigInt`, `BigUint`. -/
inductive IntKind | i32 | i64 | u32 | u64 | big | ubig
  deriving DecidableEq, Repr

/-- An `f64` as its shortest round-trip decimal `(-1)^neg * digits * 10^exp` (canonical: `digits` not divisible
by ten, or `digits = 0 ∧ exp = 0`), or a non-finite value. -/
inductive Flt
  | fin (neg : Bool) (digits : Nat) (exp : Int)
  | nan
  | inf (neg : Bool)
  deriving DecidableEq, Repr

mutual
/-- `swimos_model::Value`. -/
inductive Value where
  | extant
  | int (k : IntKind) (n : Int)
  | float (f : Flt)
  | bool (b : Bool)
  | text (s : List Char)
  | data (bs : List Nat)
  | record (attrs : Attrs) (items : Items)
  deriving DecidableEq
/-- `Vec<Attr>`: name and value. -/
inductive Attrs where
  | nil
  | cons (name : List Char) (value : Value) (rest : Attrs)
  deriving DecidableEq
/-- `Vec<Item>`: `Item::ValueItem v` or `Item::Slot k v`. -/
inductive Items where
  | nil
  | val (v : Value) (rest : Items)
  | slot (k : Value) (v : Value) (rest : Items)
  deriving DecidableEq
end

instance : Inhabited Value := ⟨.extant⟩

def Attrs.length : Attrs → Nat
  | .nil => 0
  | .cons _ _ r => r.length + 1

def Items.length : Items → Nat
  | .nil => 0
  | .val _ r => r.length + 1
  | .slot _ _ r => r.length + 1

def Attrs.isEmpty : Attrs → Bool
  | .nil => true
  | _ => false

def Attrs.append : Attrs → Attrs → Attrs
  | .nil, b => b
  | .cons n v r, b => .cons n v (r.append b)

def Items.append : Items → Items → Items
  | .nil, b => b
  | .val v r, b => .val v (r.append b)
  | .slot k v r, b => .slot k v (r.append b)

/-- Is the value a primitive other than `Extant`? -/
def Value.isPrim : Value → Bool
  | .extant => false
  | .record _ _ => false
  | _ => true

/-! ### Integer kinds: what the tokenizer + `ValueMaterializer` decide (`try_to_int_literal`, `recognize_item`) -/

def i32Max : Int := 2147483647
def i64Max : Int := 9223372036854775807
def u64Max : Int := 18446744073709551615

/-- Kind given by the parser to the integer literal with value `n` (`-0` is `0`). -/
def classify (n : Int) : IntKind :=
  if 0 ≤ n then
    if n ≤ i32Max then .i32 else if n ≤ i64Max then .i64 else if n ≤ u64Max then .u64 else .ubig
  else
    -- `i64::try_from(magnitude)`: the magnitude must fit `i64`, so `-2^63` itself becomes a `BigInt`
    if -i32Max - 1 ≤ n then .i32 else if -i64Max ≤ n then .i64 else .big

mutual
/-- Re-kind every integer the way the parser does (the only change a print/parse cycle makes to a value in the
well-behaved fragment).  Rust's `Value::eq` ignores integer kinds, so `norm v == v` there. -/
def Value.norm : Value → Value
  | .int _ n => .int (classify n) n
  | .record a i => .record a.norm i.norm
  | v => v
def Attrs.norm : Attrs → Attrs
  | .nil => .nil
  | .cons n v r => .cons n v.norm r.norm
def Items.norm : Items → Items
  | .nil => .nil
  | .val v r => .val v.norm r.norm
  | .slot k v r => .slot k.norm v.norm r.norm
end

/-! ## Characters, identifiers (`swimos_model::identifier`) -/

def inRanges (rs : List (Nat × Nat)) (n : Nat) : Bool := rs.any fun p => p.1 ≤ n && n ≤ p.2

/-- `is_identifier_start`. -/
def isIdentStart (c : Char) : Bool := inRanges identStartRanges c.toNat

/-- `is_identifier_char`. -/
def isIdentChar (c : Char) : Bool := isIdentStart c || inRanges identCharExtra c.toNat

/-- `is_identifier` (the printer's quoting decision). -/
def isIdentifier (s : List Char) : Bool :=
  if reservedWords.contains s then false else
  match s with
  | [] => false
  | c :: r => isIdentStart c && r.all isIdentChar

/-- The tokenizer's `identifier`: longest run of identifier characters after an identifier start. -/
def lexIdent : List Char → Option (List Char × List Char)
  | [] => none
  | c :: r => if isIdentStart c then some (c :: r.takeWhile isIdentChar, r.dropWhile isIdentChar) else none

/-! ## String literals (`swimos_model::literal`, `tokens.rs::unescape`) -/

def hexDigitChar (n : Nat) : Char := Nat.digitChar (n % 16)

def lookupNat (t : List (Nat × Nat)) (k : Nat) : Option Nat :=
  match t with
  | [] => none
  | p :: r => if p.1 = k then some p.2 else lookupNat r k

/-- `escape_text` on one character. -/
def escapeChar (c : Char) : List Char :=
  match lookupNat escapeTable c.toNat with
  | some e => ['\\', Char.ofNat e]
  | none =>
    if c.toNat < escapeCtlBound then
      ['\\', 'u', hexDigitChar (c.toNat / 4096), hexDigitChar (c.toNat / 256), hexDigitChar (c.toNat / 16),
        hexDigitChar c.toNat]
    else [c]

/-- `escape_text`. -/
def escape (s : List Char) : List Char := s.flatMap escapeChar

/-- `needs_escape`. -/
def needsEscape (s : List Char) : Bool :=
  s.any fun c => c.toNat < needsEscapeBound || needsEscapeChars.contains c.toNat

/-- `write_string_literal`: bare if an identifier, else quoted (escaped when needed). -/
def stringLiteral (s : List Char) : List Char :=
  if isIdentifier s then s
  else if needsEscape s then '"' :: (escape s ++ ['"'])
  else '"' :: (s ++ ['"'])

/-- Outcome of a computation of the real code that may fail or panic. -/
inductive Res (α : Type) where
  | ok (a : α)
  | err
  | panic
  deriving Repr, DecidableEq

def Res.map {α β : Type} (f : α → β) : Res α → Res β
  | .ok a => .ok (f a)
  | .err => .err
  | .panic => .panic

/-- States of the `unescape` automaton (`EscapeState`). -/
inductive EscSt
  | none | esc | u0 | u1 (a : Nat) | u2 (a b : Nat) | u3 (a b c : Nat)
  deriving Repr

def hexVal? (c : Char) : Option Nat :=
  if '0' ≤ c ∧ c ≤ '9' then some (c.toNat - 48)
  else if 'a' ≤ c ∧ c ≤ 'f' then some (c.toNat - 87)
  else if 'A' ≤ c ∧ c ≤ 'F' then some (c.toNat - 55)
  else none

/-- Is `n` a UTF-16 surrogate (not a `char`)? `char::try_from(n).unwrap()` panics exactly there for `n < 0x10000`. -/
def isSurrogate (n : Nat) : Bool := 0xD800 ≤ n && n ≤ 0xDFFF

/-- `tokens.rs::unescape` from a given automaton state.  `err` = the `Failed` state was entered (invalid escape,
which includes a `\uXXXX` escape denoting a surrogate — it used to panic, finding F16, fixed).  An escape still open at the end
of the literal is silently dropped, as in the code. -/
def unescFrom : EscSt → List Char → Res (List Char)
  | _, [] => .ok []
  | .none, c :: r => if c = '\\' then unescFrom .esc r else (unescFrom .none r).map (c :: ·)
  | .esc, c :: r =>
    match lookupNat unescapeTable c.toNat with
    | some x => (unescFrom .none r).map (Char.ofNat x :: ·)
    | none => if c = 'u' then unescFrom .u0 r else .err
  | .u0, c :: r =>
    if c = 'u' then unescFrom .u0 r else
    match hexVal? c with
    | some d => unescFrom (.u1 d) r
    | none => .err
  | .u1 a, c :: r =>
    match hexVal? c with
    | some d => unescFrom (.u2 a d) r
    | none => .err
  | .u2 a b, c :: r =>
    match hexVal? c with
    | some d => unescFrom (.u3 a b d) r
    | none => .err
  | .u3 a b c', c :: r =>
    match hexVal? c with
    | some d =>
      if isSurrogate (a * 4096 + b * 256 + c' * 16 + d) then .err
      else (unescFrom .none r).map (Char.ofNat (a * 4096 + b * 256 + c' * 16 + d) :: ·)
    | none => .err

/-- `tokens.rs::unescape` (`resolve_escapes` returns the input itself when it has no backslash, which is the same). -/
def unescape (s : List Char) : Res (List Char) := unescFrom .none s

/-- Body of a string literal after the opening quote, up to the closing quote: a backslash takes the next
character with it (`recognize(many0(alt(satisfy(not \ or "), escape)))`). -/
def scanString : List Char → Option (List Char × List Char)
  | [] => none
  | c :: r =>
    if c = '"' then some ([], r)
    else if c = '\\' then
      match r with
      | [] => none
      | d :: r' => (scanString r').map fun p => (c :: d :: p.1, p.2)
    else (scanString r).map fun p => (c :: p.1, p.2)

/-- `string_literal` applied to input starting at the opening quote. -/
def lexString : List Char → Res (List Char × List Char)
  | '"' :: r =>
    match scanString r with
    | some (body, rest) => (unescape body).map fun s => (s, rest)
    | none => .err
  | _ => .err

/-! ## Numbers (`tokens.rs::numeric_literal`) -/

def isDigit (c : Char) : Bool := c.isDigit
def isBinDigit (c : Char) : Bool := c = '0' || c = '1'
def isHexDigit (c : Char) : Bool := (hexVal? c).isSome

def readRadix (radix : Nat) (ds : List Char) : Nat :=
  ds.foldl (fun acc c => radix * acc + (hexVal? c).getD 0) 0

/-- Value of an integer literal: `try_to_int_literal` followed by `recognize_item`. -/
def intValue (neg : Bool) (mag : Nat) : Value :=
  .int (classify (if neg then -(mag : Int) else mag)) (if neg then -(mag : Int) else mag)

def stripSign (inp : List Char) : Bool × List Char :=
  match inp with
  | '-' :: r => (true, r)
  | _ => (false, inp)

/-- `natural(tag, digits)` (after the optional `-` has been stripped): `0b`/`0x` (any case) and at least one digit. -/
def lexRadixBody (tagc : Char) (tagC : Char) (isD : Char → Bool) (radix : Nat) (neg : Bool) (inp : List Char) :
    Option (Value × List Char) :=
  match inp with
  | '0' :: t :: r =>
    if t = tagc ∨ t = tagC then
      match r.takeWhile isD with
      | [] => none
      | ds => some (intValue neg (readRadix radix ds), r.dropWhile isD)
    else none
  | _ => none

/-- `signed(natural(tag, digits))`. -/
def lexRadix (tagc : Char) (tagC : Char) (isD : Char → Bool) (radix : Nat) (inp : List Char) : Option (Value × List Char) :=
  lexRadixBody tagc tagC isD radix (stripSign inp).1 (stripSign inp).2

/-- Canonical decimal: no trailing zeros in the significand. Fuel = number of digits. -/
def stripZeros : Nat → Nat → Int → Nat × Int
  | 0, m, e => (m, e)
  | fuel + 1, m, e => if m = 0 then (0, 0) else if m % 10 = 0 then stripZeros fuel (m / 10) (e + 1) else (m, e)

def mkFloat (neg : Bool) (intDs fracDs : List Char) (expNeg : Bool) (expDs : List Char) : Value :=
  let m := Nat.ofDigitChars 10 (intDs ++ fracDs) 0
  let e : Int := (if expNeg then -(Nat.ofDigitChars 10 expDs 0 : Int) else (Nat.ofDigitChars 10 expDs 0 : Int)) - fracDs.length
  let p := stripZeros (intDs.length + fracDs.length + 1) m e
  .float (.fin neg p.1 p.2)

/-- An optional `+` or `-` (`recognize_float` accepts both, for the number and for the exponent). -/
def stripPlusMinus (inp : List Char) : Bool × List Char :=
  match inp with
  | '-' :: r => (true, r)
  | '+' :: r => (false, r)
  | _ => (false, inp)

/-- Optional exponent of `recognize_float`: `[eE][+-]?digit+`; an `e` not followed by digits is a hard failure (`cut`). -/
def lexExponent (inp : List Char) : Option (Bool × List Char × List Char) :=
  match inp with
  | c :: r =>
    if c = 'e' ∨ c = 'E' then
      match (stripPlusMinus r).2.takeWhile isDigit with
      | [] => none
      | ds => some ((stripPlusMinus r).1, ds, (stripPlusMinus r).2.dropWhile isDigit)
    else some (false, [], inp)
  | [] => some (false, [], inp)

/-- `recognize_float` after the sign: `(digit+ ('.' digit*)? | '.' digit+) ([eE][+-]?digit+)?`. -/
def lexFloatBody (neg : Bool) (r : List Char) : Option (Value × List Char) :=
  match r.takeWhile isDigit, r.dropWhile isDigit with
  | [], '.' :: r2 =>
    match r2.takeWhile isDigit with
    | [] => none
    | fr =>
      match lexExponent (r2.dropWhile isDigit) with
      | some (en, eds, rest) => some (mkFloat neg [] fr en eds, rest)
      | none => none
  | [], _ => none
  | intDs, '.' :: r2 =>
    match lexExponent (r2.dropWhile isDigit) with
    | some (en, eds, rest) => some (mkFloat neg intDs (r2.takeWhile isDigit) en eds, rest)
    | none => none
  | intDs, r1 =>
    match lexExponent r1 with
    | some (en, eds, rest) => some (mkFloat neg intDs [] en eds, rest)
    | none => none

/-- `nom::number::double` restricted to `recognize_float` (the `nan`/`inf` alternatives are unreachable behind
`identifier`): `[+-]? (digit+ ('.' digit*)? | '.' digit+) ([eE][+-]?digit+)?`, value as an exact decimal. -/
def lexFloat (inp : List Char) : Option (Value × List Char) :=
  lexFloatBody (stripPlusMinus inp).1 (stripPlusMinus inp).2

/-- `decimal_or_float` after the optional `-` has been stripped (`inp` = the whole input, for the float branch). -/
def lexDecimalBody (neg : Bool) (r inp : List Char) : Option (Value × List Char) :=
  match r.takeWhile isDigit with
  | [] => lexFloat inp
  | ds =>
    match r.dropWhile isDigit with
    | c :: rest => if c = '.' ∨ c = 'e' ∨ c = 'E' then lexFloat inp
                   else some (intValue neg (Nat.ofDigitChars 10 ds 0), c :: rest)
    | [] => some (intValue neg (Nat.ofDigitChars 10 ds 0), [])

/-- `decimal_or_float`. -/
def lexDecimal (inp : List Char) : Option (Value × List Char) :=
  lexDecimalBody (stripSign inp).1 (stripSign inp).2 inp

/-- `numeric_literal = alt(binary, hexadecimal, decimal_or_float)`. -/
def lexNumber (inp : List Char) : Option (Value × List Char) :=
  match lexRadix 'b' 'B' isBinDigit 2 inp with
  | some r => some r
  | none =>
    match lexRadix 'x' 'X' isHexDigit 16 inp with
    | some r => some r
    | none => lexDecimal inp

/-! ## Blobs (base64 `STANDARD`) -/

def b64Alphabet : List Char :=
  "ABCDEFGHIJKLMNOPQRSTUVWXYZabcdefghijklmnopqrstuvwxyz0123456789+/".toList

def b64Char (n : Nat) : Char := b64Alphabet.getD n 'A'

def b64Val? (c : Char) : Option Nat :=
  if 'A' ≤ c ∧ c ≤ 'Z' then some (c.toNat - 65)
  else if 'a' ≤ c ∧ c ≤ 'z' then some (c.toNat - 71)
  else if '0' ≤ c ∧ c ≤ '9' then some (c.toNat + 4)
  else if c = '+' then some 62
  else if c = '/' then some 63
  else none

def isB64 (c : Char) : Bool := (b64Val? c).isSome

/-- `base64::STANDARD` encoding (with padding). -/
def b64Encode : List Nat → List Char
  | [] => []
  | [a] => [b64Char (a / 4), b64Char (a % 4 * 16), '=', '=']
  | [a, b] => [b64Char (a / 4), b64Char (a % 4 * 16 + b / 16), b64Char (b % 16 * 4), '=']
  | a :: b :: c :: r =>
    b64Char (a / 4) :: b64Char (a % 4 * 16 + b / 16) :: b64Char (b % 16 * 4 + c / 64) :: b64Char (c % 64) :: b64Encode r

/-- The tokenizer's `base64` followed by `STANDARD.decode`: whole blocks of four digits, then an optional final
padded block (which must be canonical: unused low bits zero).  Returns the bytes and the unconsumed input. -/
def lexB64 : Nat → List Char → Option (List Nat × List Char)
  | 0, _ => none
  | fuel + 1, inp =>
    match inp with
    | a :: b :: c :: d :: r =>
      match b64Val? a, b64Val? b, b64Val? c, b64Val? d with
      | some x, some y, some z, some w =>
        match lexB64 fuel r with
        | some (bs, rest) => some ((x * 4 + y / 16) :: (y % 16 * 16 + z / 4) :: (z % 4 * 64 + w) :: bs, rest)
        | none => none
      | some x, some y, some z, none =>
        if d = '=' then (if z % 4 = 0 then some ([x * 4 + y / 16, y % 16 * 16 + z / 4], r) else none)
        else some ([], inp)
      | some x, some y, none, none =>
        if c = '=' ∧ d = '=' then (if y % 16 = 0 then some ([x * 4 + y / 16], r) else none)
        else some ([], inp)
      | _, _, _, _ => some ([], inp)
    | _ => some ([], inp)

/-- `blob`: `%` then base64. -/
def lexBlob (inp : List Char) : Option (Value × List Char) :=
  match inp with
  | '%' :: r => (lexB64 (r.length + 1) r).map fun p => (.data p.1, p.2)
  | _ => none

/-! ## Printing -/

inductive Style | std | compact | pretty
  deriving DecidableEq, Repr

def natChars (n : Nat) : List Char := Nat.toDigits 10 n

def intChars (n : Int) : List Char :=
  match n with
  | .ofNat m => natChars m
  | .negSucc m => '-' :: natChars (m + 1)

/-- `ryu::Buffer::format` from the shortest decimal. -/
def ryuChars : Flt → List Char
  | .nan => "NaN".toList
  | .inf false => "inf".toList
  | .inf true => "-inf".toList
  | .fin neg m e =>
    let sign := if neg then ['-'] else []
    if m = 0 then sign ++ "0.0".toList else
    let ds := natChars m
    let len : Int := ds.length
    let kk : Int := len + e
    sign ++
    (if 0 ≤ e ∧ kk ≤ 16 then ds ++ List.replicate e.toNat '0' ++ ".0".toList
     else if 0 < kk ∧ kk ≤ 16 then ds.take kk.toNat ++ '.' :: ds.drop kk.toNat
     else if -5 < kk ∧ kk ≤ 0 then '0' :: '.' :: (List.replicate (-kk).toNat '0' ++ ds)
     else if ds.length = 1 then ds ++ 'e' :: intChars (kk - 1)
     else ds.take 1 ++ '.' :: (ds.drop 1 ++ 'e' :: intChars (kk - 1)))

/-- Rust's `{:e}` for `f64` from the shortest decimal (used by `AttributePrinter::write_f64`). -/
def expChars : Flt → List Char
  | .nan => "NaN".toList
  | .inf false => "inf".toList
  | .inf true => "-inf".toList
  | .fin neg m e =>
    let sign := if neg then ['-'] else []
    let ds := natChars m
    let len : Int := ds.length
    sign ++ (if ds.length = 1 then ds ++ 'e' :: intChars (e + len - 1)
             else ds.take 1 ++ '.' :: (ds.drop 1 ++ 'e' :: intChars (e + len - 1)))

def spaces (n : Nat) : List Char := List.replicate n ' '

/-- `PrettyPrint::write_new_line` at indent level `i`. -/
def newLineAt (i : Nat) : List Char := Char.ofNat newLine :: spaces (prettyIndent * i)

/-- `attr_padding` (also `slot_padding`): one space except in the compact style. -/
def pad (st : Style) : List Char := match st with | .compact => [] | _ => [' ']

/-- `start_block(n)` of a printer at indent `i`. -/
def startBlock (st : Style) (i n : Nat) : List Char :=
  if n = 0 then [] else match st with
    | .std => [' '] | .compact => [] | .pretty => newLineAt (i + 1)

/-- `end_block` closing a block opened at indent `i`. -/
def endBlock (st : Style) (i : Nat) : List Char :=
  match st with | .std => [' '] | .compact => [] | .pretty => newLineAt i

/-- `item_padding(in_record)` inside a block opened at indent `i`. -/
def itemPad (st : Style) (i : Nat) (inRecord : Bool) : List Char :=
  match st with
  | .std => [' '] | .compact => []
  | .pretty => if inRecord then newLineAt (i + 1) else [' ']

/-- Indent of the items of a block opened at indent `i` (the strategy is copied into the nested printers). -/
def inner (st : Style) (i n : Nat) : Nat := match st with | .pretty => if n = 0 then i else i + 1 | _ => i

/-- Attribute name as the printers write it: raw (finding F7) or as a string literal once fixed. -/
def attrName (s : List Char) : List Char := if attrNamesRaw then s else stringLiteral s

/-- Exactly one item and it is a value item. -/
def Items.isSoleVal : Items → Bool
  | .val _ .nil => true
  | _ => false

/-- Exactly one item and it is a slot. -/
def Items.isSoleSlot : Items → Bool
  | .slot _ _ .nil => true
  | _ => false

mutual
/-- `StructurePrinter` applied to a value at indent level `i` (`delegated` never arises for `Value`). -/
def printV (st : Style) (i : Nat) : Value → List Char
  | .extant => []
  | .int _ n => intChars n
  | .float f => ryuChars f
  | .bool b => if b then "true".toList else "false".toList
  | .text s => stringLiteral s
  | .data bs => '%' :: b64Encode bs
  | .record attrs items =>
    if attrs.isEmpty then
      -- no attributes: always braces
      '{' :: (startBlock st i items.length ++ printItems st (inner st i items.length) i true true items
        ++ (if items.length = 0 then [] else endBlock st i) ++ ['}'])
    else
      printAttrs st i attrs ++
      (if items.length = 0 then []
       -- exactly one value item: a space and the value, no braces
       else if items.isSoleVal then ' ' :: printItems st i i true false items
       -- anything else (two or more items, or a single slot): padding and braces
       else pad st ++ '{' :: (startBlock st i items.length ++ printItems st (inner st i items.length) i true true items
          ++ endBlock st i ++ ['}']))
/-- `write_attr` for each attribute: `@name` + the attribute printer on the value, `attr_padding` between. -/
def printAttrs (st : Style) (i : Nat) : Attrs → List Char
  | .nil => []
  | .cons n v r =>
    if r.isEmpty then '@' :: (attrName n ++ printA st i v)
    else '@' :: (attrName n ++ printA st i v) ++ pad st ++ printAttrs st i r
/-- `write_value` / `write_slot` over the items; `j` = indent of the nested printers, `i` = indent of the block
(for the separators), `first` = the `first` flag, `br` = `brace_written`. -/
def printItems (st : Style) (j i : Nat) (first br : Bool) : Items → List Char
  | .nil => []
  | .val v r => (if first then [] else ',' :: itemPad st i br) ++ printV st j v ++ printItems st j i false br r
  | .slot k v r => (if first then [] else ',' :: itemPad st i br) ++ printV st j k ++ ':' :: (pad st ++ printV st j v)
      ++ printItems st j i false br r
/-- `AttributePrinter` applied to the attribute's value. -/
def printA (st : Style) (i : Nat) : Value → List Char
  | .extant => []
  | .float f => '(' :: (expChars f ++ [')'])
  | .int _ n => '(' :: (intChars n ++ [')'])
  | .bool b => '(' :: ((if b then "true".toList else "false".toList) ++ [')'])
  | .text s => '(' :: (stringLiteral s ++ [')'])
  | .data bs => '(' :: '%' :: (b64Encode bs ++ [')'])
  | .record attrs items =>
    if attrs.isEmpty then
      (if items.length = 0 then "({})".toList
       -- a single value item without attributes keeps its braces
       else if items.isSoleVal then
         '(' :: '{' :: (startBlock st i 1 ++ printItems st (inner st i 1) i true true items ++ endBlock st i ++ "})".toList)
       -- otherwise no braces: the items are the attribute's body
       else '(' :: (printItems st i i true false items ++ [')']))
    else
      '(' :: (printAttrs st i attrs ++
      (if items.length = 0 then []
       -- one value item: a space, then the item (a sole slot takes the braces, as in `printV`; C09-N2 fixed)
       else if items.isSoleVal then ' ' :: printItems st i i true false items
       else pad st ++ '{' :: (startBlock st i items.length ++ printItems st (inner st i items.length) i true true items
          ++ endBlock st i ++ ['}'])) ++ [')'])
end

/-- `print_recon` / `print_recon_compact` / `print_recon_pretty` on a `Value`. -/
def print (st : Style) (v : Value) : List Char := printV st 0 v

/-! ## Reference parser -/

def isSpace (c : Char) : Bool := c = ' ' || c = '\t'
def isMulti (c : Char) : Bool := c = ' ' || c = '\t' || c = '\r' || c = '\n'
def skipSpaces (inp : List Char) : List Char := inp.dropWhile isSpace
def skipMulti (inp : List Char) : List Char := inp.dropWhile isMulti
def isSep (c : Char) : Bool := separators.contains c.toNat

/-- `line_ending`: `\n` or `\r\n`. -/
def lineEnding? : List Char → Option (List Char)
  | '\n' :: r => some r
  | '\r' :: '\n' :: r => some r
  | _ => none

/-- Kind of item sequence: attribute body `( … )` or record body `{ … }`. -/
inductive Kind | ab | rb
  deriving DecidableEq, Repr

def Kind.close : Kind → Char
  | .ab => ')'
  | .rb => '}'

/-- Body of an attribute from its items (`ValueMaterializer::pop(is_attr_end = true)`). -/
def attrBody : Items → Value
  | .nil => .extant
  | .val v .nil => v
  | its => .record .nil its

/-- A primitive token at the head of the input: string, identifier/boolean, number, blob. `none` = no such token. -/
def lexPrim (inp : List Char) : Option (Res (Value × List Char)) :=
  match inp with
  | [] => none
  | c :: _ =>
    if c = '"' then some ((lexString inp).map fun p => (.text p.1, p.2))
    else if isIdentStart c then
      match lexIdent inp with
      | some (s, r) =>
        some (.ok (if s = "true".toList then .bool true else if s = "false".toList then .bool false else .text s, r))
      | none => none
    else if c = '%' then
      match lexBlob inp with
      | some r => some (.ok r)
      | none => some .err
    else if isDigit c ∨ c = '-' ∨ c = '+' ∨ c = '.' then
      match lexNumber inp with
      | some r => some (.ok r)
      | none => some .err
    else none

/-- Does the input start with something that ends a body-less record in the `AfterAttr` state:
a separator, a closing delimiter, a colon (the record is then a slot key; C09-N3 fixed), a line ending — or the end
of the document? -/
def endsRecord (inp : List Char) : Bool :=
  match inp with
  | [] => true
  | c :: _ => isSep c || c = ')' || c = '}' || c = ':' || (lineEnding? inp).isSome

mutual
/-- A value in item position: primitive, record starting with an attribute, or `{ … }`. -/
def pElem : Nat → List Char → Res (Value × List Char)
  | 0, _ => .err
  | fuel + 1, inp =>
    match inp with
    | '@' :: r => pAttrs fuel .nil r
    | '{' :: r =>
      match pItems fuel .rb false r with
      | .ok (its, rest) => .ok (.record .nil its, rest)
      | .err => .err
      | .panic => .panic
    | _ =>
      match lexPrim inp with
      | some r => r
      | none => .err
/-- After `@`: the attribute name, its optional body, then the `AfterAttr` state. `acc` = attributes so far. -/
def pAttrs : Nat → Attrs → List Char → Res (Value × List Char)
  | 0, _, _ => .err
  | fuel + 1, acc, inp =>
    -- attr_name = alt(string_literal, identifier)
    let name : Res (List Char × List Char × Bool) :=
      match inp with
      | '"' :: _ => (lexString inp).map fun p => (p.1, p.2, true)
      | _ => match lexIdent inp with
        | some (s, r) => .ok (s, r, false)
        | none => .err
    match name with
    | .err => .err
    | .panic => .panic
    | .ok (nm, r, quoted) =>
      match r with
      -- a quoted name at the very end of the document: the final-segment parser only knows identifiers
      | [] => if quoted && !finalAttrNameQuoted then .err else .ok (.record (acc.append (.cons nm .extant .nil)) .nil, [])
      | '(' :: r' =>
        match pItems fuel .ab false r' with
        | .ok (its, rest) => pAfterAttr fuel (acc.append (.cons nm (attrBody its) .nil)) rest
        | .err => .err
        | .panic => .panic
      | _ => pAfterAttr fuel (acc.append (.cons nm .extant .nil)) r
/-- The `AfterAttr` state: what follows the attributes of a record. -/
def pAfterAttr : Nat → Attrs → List Char → Res (Value × List Char)
  | 0, _, _ => .err
  | fuel + 1, acc, inp0 =>
    match skipSpaces inp0 with
    | '@' :: r => pAttrs fuel acc r
    | '{' :: r =>
      match pItems fuel .rb false r with
      | .ok (its, rest) => .ok (.record acc its, rest)
      | .err => .err
      | .panic => .panic
    | inp =>
      match lexPrim inp with
      | some (.ok (v, rest)) => .ok (.record acc (.val v .nil), rest)
      | some .err => .err
      | some .panic => .panic
      | none => if endsRecord inp then .ok (.record acc .nil, inp) else .err
/-- Items in the states `StartOrNl` (`req = false`) and `AfterSep` (`req = true`). -/
def pItems : Nat → Kind → Bool → List Char → Res (Items × List Char)
  | 0, _, _, _ => .err
  | fuel + 1, k, req, inp0 =>
    match skipMulti inp0 with
    | [] => .err
    | c :: r =>
      if c = k.close then .ok (if req then .val .extant .nil else .nil, r)
      else if isSep c then
        match pItems fuel k true r with
        | .ok (its, rest) => .ok (.val .extant its, rest)
        | .err => .err
        | .panic => .panic
      else if c = ':' then pSlot fuel k .extant r
      else
        match pElem fuel (c :: r) with
        | .ok (v, rest) => pAfterValue fuel k v rest
        | .err => .err
        | .panic => .panic
/-- The `AfterValue` state (`v` is the value just read). -/
def pAfterValue : Nat → Kind → Value → List Char → Res (Items × List Char)
  | 0, _, _, _ => .err
  | fuel + 1, k, v, inp0 =>
    match skipSpaces inp0 with
    | [] => .err
    | c :: r =>
      if c = k.close then .ok (.val v .nil, r)
      else if isSep c then
        match pItems fuel k true r with
        | .ok (its, rest) => .ok (.val v its, rest)
        | .err => .err
        | .panic => .panic
      else if c = ':' then pSlot fuel k v r
      else
        match lineEnding? (c :: r) with
        | some r' =>
          match pItems fuel k false r' with
          | .ok (its, rest) => .ok (.val v its, rest)
          | .err => .err
          | .panic => .panic
        | none => .err
/-- The `Slot` state: the value of a slot with key `key`. -/
def pSlot : Nat → Kind → Value → List Char → Res (Items × List Char)
  | 0, _, _, _ => .err
  | fuel + 1, k, key, inp0 =>
    match skipSpaces inp0 with
    | [] => .err
    | c :: r =>
      if c = k.close then .ok (.slot key .extant .nil, r)
      else if isSep c then
        match pItems fuel k true r with
        | .ok (its, rest) => .ok (.slot key .extant its, rest)
        | .err => .err
        | .panic => .panic
      else
        match lineEnding? (c :: r) with
        | some r' =>
          match pItems fuel k false r' with
          | .ok (its, rest) => .ok (.slot key .extant its, rest)
          | .err => .err
          | .panic => .panic
        | none =>
          match pElem fuel (c :: r) with
          | .ok (v, rest) => pAfterSlot fuel k key v rest
          | .err => .err
          | .panic => .panic
/-- The `AfterSlot` state. -/
def pAfterSlot : Nat → Kind → Value → Value → List Char → Res (Items × List Char)
  | 0, _, _, _, _ => .err
  | fuel + 1, k, key, v, inp0 =>
    match skipSpaces inp0 with
    | [] => .err
    | c :: r =>
      if c = k.close then .ok (.slot key v .nil, r)
      else if isSep c then
        match pItems fuel k true r with
        | .ok (its, rest) => .ok (.slot key v its, rest)
        | .err => .err
        | .panic => .panic
      else
        match lineEnding? (c :: r) with
        | some r' =>
          match pItems fuel k false r' with
          | .ok (its, rest) => .ok (.slot key v its, rest)
          | .err => .err
          | .panic => .panic
        | none => .err
end

/-- The document parser with explicit fuel: `parse_recognize::<Value>(text, false)`; whatever follows the first
complete value is ignored, an empty document is `Extant`. -/
def parseFuel (fuel : Nat) (inp : List Char) : Res Value :=
  match skipMulti inp with
  | [] => .ok .extant
  | r => (pElem fuel r).map fun p => p.1

/-- `parse_recognize::<Value>(text, false)`.  The fuel only bounds the nesting of the recursive descent; `12 * length + 6`
is proved sufficient for printer output (`C09_parse_print_compact`). -/
def parse (inp : List Char) : Res Value := parseFuel (12 * inp.length + 6) inp

end SwimVerif.Recon
