/-
C16 — byte-level model of `swimos_msgpack` for the generic `Value` path.

* `mpWrite` = `Value::write_with(MsgPackInterpreter)` (api/formats/swimos_msgpack/src/writer/mod.rs driven by
  `impl StructuralWritable for Value`, api/swimos_form/src/structural/write/mod.rs) with rmp 0.8's minimal encodings
  (`write_sint`, `write_u64`, `write_str_len`, `write_bin_len`, `write_map_len`, `write_array_len`, `write_ext_meta`).
* `mpRead` = `read_from_msg_pack::<Value, _>` (src/reader/mod.rs): `push_value` / `read_record` / `read_record_body` /
  `read_array_body` / `read_map_body` / `read_ext`, composed with `ValueMaterializer`
  (swimos_form/src/structural/read/from_model/mod.rs).  The reader only ever feeds the materializer bracketed event
  sequences (`StartAttribute v EndAttribute`* `StartBody` items `EndRecord`), on which it is the obvious tree builder
  (`pop(true)` of an attribute frame holding exactly one value item is that value), so the composition is written as a
  recursive-descent reader that returns `Value`s.  Every error of the real reader is `none`.
* Floats: the framework's `Value` keeps floats as exact decimals, not bit patterns, so float *tokens* (`0xca`, `0xcb`)
  are outside the model: `mpWrite` of a value containing a float is excluded by `mpOk`, `mpRead` answers `none` on a
  float marker, and the correspondence engine does not compare mutants that contain such a byte.

Core Lean only (the driver links this file).
-/
import SwimVerif.Model.Recon

namespace SwimVerif.MsgPack
open SwimVerif.Recon

/-! ## bytes and numbers -/

/-- `k` little-endian bytes of `n`. -/
def leBytes : Nat → Nat → List Nat
  | 0, _ => []
  | k + 1, n => n % 256 :: leBytes k (n / 256)

def leVal : List Nat → Nat
  | [] => 0
  | b :: r => b + 256 * leVal r

/-- `k` big-endian bytes of `n` (`write_data_u16/u32/u64`). -/
def be (k n : Nat) : List Nat := (leBytes k n).reverse

/-- Big-endian value of a byte string (`get_u16` …, `BigUint::from_bytes_be`). -/
def beVal (bs : List Nat) : Nat := leVal bs.reverse

/-- Number of bytes of `BigUint::to_bytes_be` (1 for zero). -/
def byteLen (m : Nat) : Nat := m.log2 / 8 + 1

/-- `BigUint::to_bytes_be`: minimal big-endian bytes, `[0]` for zero. -/
def natBytes (m : Nat) : List Nat := be (byteLen m) m

def U32 : Nat := 4294967296

/-! ## UTF-8 (`str::as_bytes`, `std::str::from_utf8`) -/

def utf8Char (n : Nat) : List Nat :=
  if n < 128 then [n]
  else if n < 2048 then [192 + n / 64, 128 + n % 64]
  else if n < 65536 then [224 + n / 4096, 128 + n / 64 % 64, 128 + n % 64]
  else [240 + n / 262144, 128 + n / 4096 % 64, 128 + n / 64 % 64, 128 + n % 64]

def utf8Enc : List Char → List Nat
  | [] => []
  | c :: r => utf8Char c.toNat ++ utf8Enc r

def isCont (b : Nat) : Bool := 128 ≤ b && b < 192

/-- Is `n` a Unicode scalar value? -/
def isScalar (n : Nat) : Bool := n < 55296 || (57343 < n && n < 1114112)

/-- Strict decoder: `none` exactly where `from_utf8` fails (overlong forms, surrogates, > U+10FFFF, stray bytes). -/
def utf8Dec : List Nat → Option (List Char)
  | [] => some []
  | b0 :: rest =>
    if b0 < 128 then (utf8Dec rest).map (Char.ofNat b0 :: ·)
    else if b0 < 192 then none
    else if b0 < 224 then
      match rest with
      | b1 :: r =>
        if isCont b1 && 128 ≤ (b0 - 192) * 64 + (b1 - 128)
        then (utf8Dec r).map (Char.ofNat ((b0 - 192) * 64 + (b1 - 128)) :: ·) else none
      | _ => none
    else if b0 < 240 then
      match rest with
      | b1 :: b2 :: r =>
        if isCont b1 && isCont b2 && 2048 ≤ (b0 - 224) * 4096 + (b1 - 128) * 64 + (b2 - 128)
            && isScalar ((b0 - 224) * 4096 + (b1 - 128) * 64 + (b2 - 128))
        then (utf8Dec r).map (Char.ofNat ((b0 - 224) * 4096 + (b1 - 128) * 64 + (b2 - 128)) :: ·) else none
      | _ => none
    else if b0 < 248 then
      match rest with
      | b1 :: b2 :: b3 :: r =>
        if isCont b1 && isCont b2 && isCont b3
            && 65536 ≤ (b0 - 240) * 262144 + (b1 - 128) * 4096 + (b2 - 128) * 64 + (b3 - 128)
            && (b0 - 240) * 262144 + (b1 - 128) * 4096 + (b2 - 128) * 64 + (b3 - 128) < 1114112
        then (utf8Dec r).map
          (Char.ofNat ((b0 - 240) * 262144 + (b1 - 128) * 4096 + (b2 - 128) * 64 + (b3 - 128)) :: ·) else none
      | _ => none
    else none

/-! ## writer -/

/-- `write_sint` for `i32`/`i64`/`u32` and the `u64` path (`write_sint` when it fits `i64`, else `write_u64`): the
narrowest encoding. -/
def wInt (n : Int) : List Nat :=
  if n < 0 then
    if -32 ≤ n then [(256 + n).toNat]
    else if -128 ≤ n then [208, (256 + n).toNat]
    else if -32768 ≤ n then 209 :: be 2 (65536 + n).toNat
    else if -2147483648 ≤ n then 210 :: be 4 (4294967296 + n).toNat
    else 211 :: be 8 (18446744073709551616 + n).toNat
  else
    if n < 128 then [n.toNat]
    else if n < 256 then [204, n.toNat]
    else if n < 65536 then 205 :: be 2 n.toNat
    else if n < 4294967296 then 206 :: be 4 n.toNat
    else 207 :: be 8 n.toNat

/-- `write_str_len` (the length is cast `as u32`). -/
def wStrLen (len : Nat) : List Nat :=
  if len % U32 < 32 then [160 + len % U32]
  else if len % U32 < 256 then [217, len % U32]
  else if len % U32 < 65536 then 218 :: be 2 (len % U32)
  else 219 :: be 4 (len % U32)

/-- `write_bin_len`. -/
def wBinLen (len : Nat) : List Nat :=
  if len % U32 < 256 then [196, len % U32]
  else if len % U32 < 65536 then 197 :: be 2 (len % U32)
  else 198 :: be 4 (len % U32)

/-- `write_map_len`. -/
def wMapLen (len : Nat) : List Nat :=
  if len < 16 then [128 + len] else if len < 65536 then 222 :: be 2 len else 223 :: be 4 len

/-- `write_array_len`. -/
def wArrLen (len : Nat) : List Nat :=
  if len < 16 then [144 + len] else if len < 65536 then 220 :: be 2 len else 221 :: be 4 len

/-- `write_ext_meta len ty`. -/
def wExtMeta (len ty : Nat) : List Nat :=
  if len = 1 then [212, ty] else if len = 2 then [213, ty] else if len = 4 then [214, ty]
  else if len = 8 then [215, ty] else if len = 16 then [216, ty]
  else if len < 256 then [199, len, ty]
  else if len < 65536 then 200 :: (be 2 len ++ [ty])
  else 201 :: (be 4 len ++ [ty])

def wStr (s : List Char) : List Nat := wStrLen (utf8Enc s).length ++ utf8Enc s

/-- `write_big_int`: ext type 0 (`BIG_INT_EXT`), sign byte `0` = minus / `1` = otherwise, magnitude big-endian. -/
def wBigInt (n : Int) : List Nat :=
  wExtMeta (byteLen n.natAbs + 1) 0 ++ ((if n < 0 then 0 else 1) :: natBytes n.natAbs)

/-- `write_big_uint`: ext type 1 (`BIG_UINT_EXT`). -/
def wBigUint (n : Int) : List Nat := wExtMeta (byteLen n.toNat) 1 ++ natBytes n.toNat

/-- `RecordBodyKind::of_iter(..) == Some(MapLike)`: non-empty and slots only. -/
def allSlots : Items → Bool
  | .nil => true
  | .val _ _ => false
  | .slot _ _ r => allSlots r

def isMapBody : Items → Bool
  | .nil => false
  | i => allSlots i

mutual
/-- `Value::write_with(MsgPackInterpreter)`. -/
def wV : Value → List Nat
  | .extant => [192]
  | .int .big n => wBigInt n
  | .int .ubig n => wBigUint n
  | .int _ n => wInt n
  | .float _ => [203]
  | .bool b => [if b then 195 else 194]
  | .text s => wStr s
  | .data bs => wBinLen bs.length ++ bs
  | .record a i =>
    wMapLen a.length ++ wA a ++
      ((if isMapBody i then wMapLen i.length else wArrLen i.length) ++ wI (isMapBody i) i)
/-- `write_attr`: the name as a str, then the value. -/
def wA : Attrs → List Nat
  | .nil => []
  | .cons n v r => wStr n ++ (wV v ++ wA r)
/-- `write_value` / `write_slot`; in an array body (`m = false`) a slot is an array of two. -/
def wI (m : Bool) : Items → List Nat
  | .nil => []
  | .val v r => wV v ++ wI m r
  | .slot k v r => (if m then [] else [146]) ++ (wV k ++ (wV v ++ wI m r))
end

mutual
/-- The writer succeeds: lengths fit `u32` (`TooManyAttrs`, `TooManyItems`, `BigIntTooLarge`, `BigUIntTooLarge`). -/
def wFits : Value → Bool
  | .int .big n => byteLen n.natAbs + 1 < U32
  | .int .ubig n => byteLen n.toNat < U32
  | .record a i => a.length < U32 && i.length < U32 && wFitsA a && wFitsI i
  | _ => true
def wFitsA : Attrs → Bool
  | .nil => true
  | .cons _ v r => wFits v && wFitsA r
def wFitsI : Items → Bool
  | .nil => true
  | .val v r => wFits v && wFitsI r
  | .slot k v r => wFits k && wFits v && wFitsI r
end

/-- The bytes the real writer produces; `none` where it returns an error. -/
def mpWrite (v : Value) : Option (List Nat) := if wFits v then some (wV v) else none

/-! ## reader -/

/-- `Buf::remaining() < k → Incomplete`, else split. -/
def takeN (k : Nat) (bs : List Nat) : Option (List Nat × List Nat) :=
  if bs.length < k then none else some (bs.take k, bs.drop k)

/-- `get_u8/u16/u32/u64`. -/
def rdU (k : Nat) (bs : List Nat) : Option (Nat × List Nat) :=
  match takeN k bs with
  | some (h, r) => some (beVal h, r)
  | none => none

/-- `recognize_item` on `NumericValue::Int` / `UInt`: `Int32Value` if it fits, else `Int64Value`, else `UInt64Value`
(`UInt32Value` is unreachable: every `u32` fits `i64`). -/
def rdKind (n : Int) : IntKind :=
  if -2147483648 ≤ n ∧ n ≤ 2147483647 then .i32 else if n ≤ 9223372036854775807 then .i64 else .u64

def mkInt (n : Int) : Value := .int (rdKind n) n

def rdUInt (k : Nat) (bs : List Nat) : Option (Value × List Nat) :=
  match rdU k bs with
  | some (n, r) => some (mkInt n, r)
  | none => none

/-- `get_i8/i16/i32/i64`: two's complement of `k` bytes. -/
def rdSInt (k : Nat) (bs : List Nat) : Option (Value × List Nat) :=
  match rdU k bs with
  | some (n, r) => some (mkInt (if n < 256 ^ k / 2 then (n : Int) else (n : Int) - (256 ^ k : Nat)), r)
  | none => none

/-- `read_string` / `feed_string`. -/
def rdStrBody (len : Nat) (bs : List Nat) : Option (List Char × List Nat) :=
  match takeN len bs with
  | some (h, r) =>
    match utf8Dec h with
    | some s => some (s, r)
    | none => none
  | none => none

def rdText (len : Nat) (bs : List Nat) : Option (Value × List Nat) :=
  match rdStrBody len bs with
  | some (s, r) => some (.text s, r)
  | none => none

def rdLenText (k : Nat) (bs : List Nat) : Option (Value × List Nat) :=
  match rdU k bs with
  | some (len, r) => rdText len r
  | none => none

def rdBlob (k : Nat) (bs : List Nat) : Option (Value × List Nat) :=
  match rdU k bs with
  | some (len, r) =>
    match takeN len r with
    | some (h, r') => some (.data h, r')
    | none => none
  | none => none

/-- `read_ext` after the size: type byte, then a big integer (sign byte + magnitude) or a big unsigned integer. -/
def rdExtBody (len : Nat) (bs : List Nat) : Option (Value × List Nat) :=
  match bs with
  | [] => none
  | t :: r =>
    if t = 0 then
      if len = 0 then none
      else
        match r with
        | [] => none
        | s :: r' =>
          match takeN (len - 1) r' with
          | some (h, r'') => some (.int .big (if s = 0 then -(beVal h : Int) else (beVal h : Int)), r'')
          | none => none
    else if t = 1 then
      match takeN len r with
      | some (h, r') => some (.int .ubig (beVal h : Int), r')
      | none => none
    else none

def rdLenExt (k : Nat) (bs : List Nat) : Option (Value × List Nat) :=
  match rdU k bs with
  | some (len, r) => rdExtBody len r
  | none => none

/-- `rmp::decode::read_str_len` + `feed_string`: an attribute name. -/
def rdName (bs : List Nat) : Option (List Char × List Nat) :=
  match bs with
  | [] => none
  | m :: r =>
    if 160 ≤ m ∧ m < 192 then rdStrBody (m - 160) r
    else if m = 217 then (match rdU 1 r with | some (len, r') => rdStrBody len r' | none => none)
    else if m = 218 then (match rdU 2 r with | some (len, r') => rdStrBody len r' | none => none)
    else if m = 219 then (match rdU 4 r with | some (len, r') => rdStrBody len r' | none => none)
    else none

/-- The primitive (non-record) markers of `push_value`; `none` also for map/array/reserved/float markers. -/
def rdPrim (m : Nat) (r : List Nat) : Option (Value × List Nat) :=
  if m < 128 then some (mkInt m, r)
  else if m < 160 then none
  else if m < 192 then rdText (m - 160) r
  else if m = 192 then some (.extant, r)
  else if m = 194 then some (.bool false, r)
  else if m = 195 then some (.bool true, r)
  else if m = 196 then rdBlob 1 r
  else if m = 197 then rdBlob 2 r
  else if m = 198 then rdBlob 4 r
  else if m = 199 then rdLenExt 1 r
  else if m = 200 then rdLenExt 2 r
  else if m = 201 then rdLenExt 4 r
  else if m = 204 then rdUInt 1 r
  else if m = 205 then rdUInt 2 r
  else if m = 206 then rdUInt 4 r
  else if m = 207 then rdUInt 8 r
  else if m = 208 then rdSInt 1 r
  else if m = 209 then rdSInt 2 r
  else if m = 210 then rdSInt 4 r
  else if m = 211 then rdSInt 8 r
  else if m = 212 then rdExtBody 1 r
  else if m = 213 then rdExtBody 2 r
  else if m = 214 then rdExtBody 4 r
  else if m = 215 then rdExtBody 8 r
  else if m = 216 then rdExtBody 16 r
  else if m = 217 then rdLenText 1 r
  else if m = 218 then rdLenText 2 r
  else if m = 219 then rdLenText 4 r
  else if 224 ≤ m ∧ m < 256 then some (mkInt ((m : Int) - 256), r)
  else none

/-- Length announced by a map marker (`FixMap`, `Map16`, `Map32`). -/
def rdMapLen (m : Nat) (r : List Nat) : Option (Nat × List Nat) :=
  if 128 ≤ m ∧ m < 144 then some (m - 128, r)
  else if m = 222 then rdU 2 r
  else if m = 223 then rdU 4 r
  else none

/-- Length announced by an array marker (`FixArray`, `Array16`, `Array32`). -/
def rdArrLen (m : Nat) (r : List Nat) : Option (Nat × List Nat) :=
  if 144 ≤ m ∧ m < 160 then some (m - 144, r)
  else if m = 220 then rdU 2 r
  else if m = 221 then rdU 4 r
  else none

def isMapMarker (m : Nat) : Bool := (128 ≤ m && m < 144) || m = 222 || m = 223
def isArrMarker (m : Nat) : Bool := (144 ≤ m && m < 160) || m = 220 || m = 221

mutual
/-- `push_value_dynamic` (and the top level of `read_from_msg_pack`, which accepts the same markers). -/
def rdV : Nat → List Nat → Option (Value × List Nat)
  | 0, _ => none
  | _, [] => none
  | f + 1, m :: r =>
    if isMapMarker m then
      match rdMapLen m r with
      | some (n, r1) =>
        match rdA f n r1 with
        | some (a, r2) =>
          match rdB f r2 with
          | some (i, r3) => some (.record a i, r3)
          | none => none
        | none => none
      | none => none
    else rdPrim m r
/-- the attribute loop of `read_record`. -/
def rdA : Nat → Nat → List Nat → Option (Attrs × List Nat)
  | _, 0, bs => some (.nil, bs)
  | 0, _ + 1, _ => none
  | f + 1, n + 1, bs =>
    match rdName bs with
    | some (name, r1) =>
      match rdV f r1 with
      | some (v, r2) =>
        match rdA f n r2 with
        | some (a, r3) => some (.cons name v a, r3)
        | none => none
      | none => none
    | none => none
/-- `read_record_body`: a map, an array, or a single primitive (a delegated body). -/
def rdB : Nat → List Nat → Option (Items × List Nat)
  | 0, _ => none
  | _, [] => none
  | f + 1, m :: r =>
    if isMapMarker m then
      match rdMapLen m r with
      | some (n, r1) => rdM f n r1
      | none => none
    else if isArrMarker m then
      match rdArrLen m r with
      | some (n, r1) => rdR f n r1
      | none => none
    else
      match rdPrim m r with
      | some (v, r1) => some (.val v .nil, r1)
      | none => none
/-- `read_map_body`. -/
def rdM : Nat → Nat → List Nat → Option (Items × List Nat)
  | _, 0, bs => some (.nil, bs)
  | 0, _ + 1, _ => none
  | f + 1, n + 1, bs =>
    match rdV f bs with
    | some (k, r1) =>
      match rdV f r1 with
      | some (v, r2) =>
        match rdM f n r2 with
        | some (i, r3) => some (.slot k v i, r3)
        | none => none
      | none => none
    | none => none
/-- `read_array_body`: an item that starts with `FixArray(2)` is a slot. -/
def rdR : Nat → Nat → List Nat → Option (Items × List Nat)
  | _, 0, bs => some (.nil, bs)
  | 0, _ + 1, _ => none
  | _ + 1, _ + 1, [] => none
  | f + 1, n + 1, m :: r =>
    if m = 146 then
      match rdV f r with
      | some (k, r1) =>
        match rdV f r1 with
        | some (v, r2) =>
          match rdR f n r2 with
          | some (i, r3) => some (.slot k v i, r3)
          | none => none
        | none => none
      | none => none
    else
      match rdV f (m :: r) with
      | some (v, r1) =>
        match rdR f n r1 with
        | some (i, r2) => some (.val v i, r2)
        | none => none
      | none => none
end

/-- `read_from_msg_pack::<Value, _>`: the value and the unread rest of the buffer.
Fuel: one nesting level (`rdV → rdB → rdR/rdM → rdV`) takes three units of fuel and may consume only two bytes (the
attribute-count header and the body header), so `bs.length + 1` is NOT enough — with it `80 91 80 91 c0`
(`{ { Extant } }`, which the real reader accepts) was rejected; `2 * bs.length + 1` suffices
(`Proofs/MsgPackFuel.lean`: `depthV v + 1 ≤ 2 * (wV v).length`). -/
def mpRead (bs : List Nat) : Option (Value × List Nat) := rdV (2 * bs.length + 1) bs

/-! ## the fragment and the normalisation of the round trip -/

def kindOk : IntKind → Int → Bool
  | .i32, n => -2147483648 ≤ n && n ≤ 2147483647
  | .i64, n => -9223372036854775808 ≤ n && n ≤ 9223372036854775807
  | .u32, n => 0 ≤ n && n ≤ 4294967295
  | .u64, n => 0 ≤ n && n ≤ 18446744073709551615
  | .big, n => byteLen n.natAbs + 1 < U32
  | .ubig, n => 0 ≤ n && byteLen n.toNat < U32

mutual
/-- Values of the Rust type (integers in the range of their kind, bytes are bytes), without floats, whose lengths fit
`u32`. -/
def mpOk : Value → Bool
  | .extant => true
  | .int k n => kindOk k n
  | .float _ => false
  | .bool _ => true
  | .text s => (utf8Enc s).length < U32
  | .data bs => bs.length < U32 && bs.all (· < 256)
  | .record a i => a.length < U32 && i.length < U32 && mpOkA a && mpOkI i
def mpOkA : Attrs → Bool
  | .nil => true
  | .cons n v r => (utf8Enc n).length < U32 && mpOk v && mpOkA r
def mpOkI : Items → Bool
  | .nil => true
  | .val v r => mpOk v && mpOkI r
  | .slot k v r => mpOk k && mpOk v && mpOkI r
end

mutual
/-- What the reader makes of a written value: the four machine integer kinds collapse to the narrowest of
`Int32Value`, `Int64Value`, `UInt64Value` holding the number; everything else is unchanged. -/
def mpNorm : Value → Value
  | .int .big n => .int .big n
  | .int .ubig n => .int .ubig n
  | .int _ n => mkInt n
  | .record a i => .record (mpNormA a) (mpNormI i)
  | v => v
def mpNormA : Attrs → Attrs
  | .nil => .nil
  | .cons n v r => .cons n (mpNorm v) (mpNormA r)
def mpNormI : Items → Items
  | .nil => .nil
  | .val v r => .val (mpNorm v) (mpNormI r)
  | .slot k v r => .slot (mpNorm k) (mpNorm v) (mpNormI r)
end

end SwimVerif.MsgPack
