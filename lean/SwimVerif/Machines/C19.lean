import SwimVerif.Driver
import SwimVerif.Model.ValueOrd

namespace SwimVerif.Machines.C19
open SwimVerif

/-- Stateless model (every op is a pure question about values); the monitor accumulates the answers of a case. -/
def c19 : Machine where
  σ := Unit
  init := ()
  step := fun s line => (s, ValueOrd.apiLine line)
  μ := ValueOrd.Mon
  minit := {}
  mstep := fun m line out => m.step line out

def machines : List (String × Machine) := [("c19", c19)]

end SwimVerif.Machines.C19
