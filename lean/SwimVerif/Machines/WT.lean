import SwimVerif.Driver
import SwimVerif.Model.WriteTaskIO

namespace SwimVerif.Machines.WT
open SwimVerif

/-- The write task of the agent runtime (C01–C04, C14, C20). -/
def wt : Machine where
  σ := WT.St
  init := {}
  step := WT.stepLine
  μ := WT.Mon
  minit := {}
  mstep := fun m line out => m.step line out

def machines : List (String × Machine) := [("wt", wt)]

end SwimVerif.Machines.WT
