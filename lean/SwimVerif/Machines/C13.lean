import SwimVerif.Driver
import SwimVerif.Model.Stores

namespace SwimVerif.Machines.C13
open SwimVerif SwimVerif.Store

/-- In-memory store (`swimos_server_app::in_memory_store`). -/
def c13m : Machine where
  σ := InMem.St
  init := InMem.init
  step := InMem.line
  μ := Mon
  minit := { rocks := false }
  mstep := fun m line out => m.step line out

/-- RocksDB store (`swimos_rocks_store`). -/
def c13r : Machine where
  σ := Rocks.St
  init := Rocks.init
  step := Rocks.line
  μ := Mon
  minit := { rocks := true }
  mstep := fun m line out => m.step line out

def machines : List (String × Machine) := [("c13m", c13m), ("c13r", c13r)]

end SwimVerif.Machines.C13
