import SwimVerif.Driver
import SwimVerif.Model.RouteMon
import SwimVerif.Model.RoutePlane

namespace SwimVerif.Machines.C18
open SwimVerif

/-- Stateless: every op line is a complete call of the public API. -/
def c18 : Machine where
  σ := Unit
  init := ()
  step := fun s line => (s, Route.apiLine line)
  μ := Route.Mon
  minit := {}
  mstep := fun m line out => m.step line out

/-- Plane level (`sv-c18p`): tables of patterns through `PlaneBuilder` / `ServerBuilder` / the server's route table. -/
def c18p : Machine where
  σ := Unit
  init := ()
  step := fun s line => (s, Route.planeLine line)
  μ := Route.PlaneMon
  minit := {}
  mstep := fun m line out => m.step line out

def machines : List (String × Machine) := [("c18", c18), ("c18p", c18p)]

end SwimVerif.Machines.C18
