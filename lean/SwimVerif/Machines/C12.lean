import SwimVerif.Driver
import SwimVerif.Model.ConduitMon

namespace SwimVerif.Machines.C12
open SwimVerif

def c12 : Machine where
  σ := Option Conduit.St
  init := none
  step := fun s line =>
    match words line with
    | ["new", c] => match c.toNat? with
      | some cap => (some (Conduit.init cap), "ok")
      | none => (s, "bad-op")
    | _ => match s, Conduit.parseOp line with
      | some st, some op => let r := Conduit.step st op; (some r.1, r.2.render)
      | _, _ => (s, "bad-op")
  μ := Conduit.Mon
  minit := {}
  mstep := fun m line out =>
    match words line with
    | ["new", c] => ({ cap := c.toNat?.getD 0 }, none)
    | _ =>
      -- the harness re-polls each side with alternating wakers; waking the one of an earlier poll is a lost wake-up
      if (words out).contains "stale" then (m, some "stale-waker-woken") else
      if (words out).contains "readbuf-prefix-damaged" then (m, some "read-overwrote-bytes-already-in-the-buffer") else
      match Conduit.parseOp line, Conduit.parseOut out with
      | some op, some o => m.step op o
      | _, _ => (m, some "unparsable")


/-- Machines contributed by this file: (name on the command line, machine). -/
def machines : List (String × Machine) := [("c12", c12)]

end SwimVerif.Machines.C12
