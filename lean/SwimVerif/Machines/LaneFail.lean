import SwimVerif.Driver
import SwimVerif.Model.LaneFail
-- the oracle lemmas are built (and so re-checked) with the driver on every `./check C04`
import SwimVerif.Proofs.LaneFail

namespace SwimVerif.Machines.LaneFail
open SwimVerif

/-- Lane/store failure rig (`sv-lanefail`): monitor only (the order of frames of different (remote, lane) pairs is
not determined; everything else is, and the monitor embeds the reference behaviour). -/
def lanefail : Machine where
  σ := Unit
  init := ()
  step := fun s _ => (s, "-")
  μ := LaneFail.Mon
  minit := {}
  mstep := fun m line out => m.step line out

def machines : List (String × Machine) := [("lanefail", lanefail)]

end SwimVerif.Machines.LaneFail
