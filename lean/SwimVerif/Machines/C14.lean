import SwimVerif.Driver
import SwimVerif.Model.CommandOutput

namespace SwimVerif.Machines.C14
open SwimVerif

/-- The ad hoc command output (`CommandOutput`). -/
def cmd : Machine where
  σ := Cmd.St
  init := {}
  step := Cmd.stepLine
  μ := Cmd.Mon
  minit := {}
  mstep := fun m line out => m.step line out

def machines : List (String × Machine) := [("cmd", cmd)]

end SwimVerif.Machines.C14
