import SwimVerif.Driver
import SwimVerif.Model.CommandOutput
import SwimVerif.Model.SupplyLane
import SwimVerif.Model.ReadFeed
import SwimVerif.Model.CommandLane

namespace SwimVerif.Machines.C14
open SwimVerif

/-- The ad hoc command output (`CommandOutput`). -/
def cmd : Machine where
  σ := Cmd.St
  init := {}
  step := Cmd.stepLine
  μ := Cmd.Mon
  minit := {}
  mstep := fun m line out => m.step line out

/-- The agent-side supply lane (`SupplyLane`: `push`, `sync`, `write_to_buffer`). -/
def sup : Machine where
  σ := Sup.St Nat
  init := {}
  step := Sup.stepLine
  μ := Sup.Mon
  minit := {}
  mstep := fun m line out => m.step line out

/-- The runtime's read task feeding command envelopes to lane senders (`read_task`, `LaneSender`). -/
def rf : Machine where
  σ := RF.Sys
  init := {}
  step := RF.stepLine
  μ := RF.Mon
  minit := {}
  mstep := fun m line out => m.step line out

/-- The agent task serving a command lane and a supply lane (`CommandLane`, `DoCommand`, `on_command`, `dirty_items`). -/
def cl : Machine where
  σ := CL.Sys
  init := {}
  step := CL.stepLine
  μ := CL.Mon
  minit := {}
  mstep := fun m line out => m.step line out

/-- End-to-end rig for agent-sent commands (real agent on the real runtime): monitor only (the model step echoes). -/
def adh : Machine where
  σ := Unit
  init := ()
  step := fun s _ => (s, "-")
  μ := CL.AdhMon
  minit := {}
  mstep := fun m line out => m.step line out

def machines : List (String × Machine) := [("cmd", cmd), ("sup", sup), ("rf", rf), ("cl", cl), ("adh", adh)]

end SwimVerif.Machines.C14
