import SwimVerif.Driver

namespace SwimVerif.Machines.C12S
open SwimVerif

/-- monitor-only machine for the byte-channel thread-race engine: `race n seed ;; rounds=n lost=k` -/
def c12s : Machine where
  σ := Unit
  init := ()
  step := fun s _ => (s, "unmodelled")
  μ := Unit
  minit := ()
  mstep := fun m line out =>
    match words line with
    | "race" :: _ =>
      match (words out).filter (·.startsWith "lost=") with
      | [l] => if l = "lost=0" then (m, none) else (m, some "lost-wakeup-on-close-under-threads")
      | _ => (m, some "race-unparsable")
    | _ => (m, some "race-unparsable")

def machines : List (String × Machine) := [("c12s", c12s)]

end SwimVerif.Machines.C12S
