import SwimVerif.Driver
import SwimVerif.Model.MapLane
import SwimVerif.Model.EpochQueue

namespace SwimVerif.Machines.C02
open SwimVerif

/-- Agent side of a map lane (event queue, sync snapshots, write order). -/
def mlLine (line : String) : String :=
  -- `new hash` = a HashMap-backed lane: the same observable behaviour (take / drop sort the keys by structure)
  if words line = ["new", "hash"] then "new" else line

def ml : Machine where
  σ := ML.St
  init := {}
  step := fun s line => ML.stepLine s (mlLine line)
  μ := ML.Mon
  minit := {}
  mstep := fun m line out => m.step (mlLine line) out

/-- The coalescing queue with epochs (agent `EventQueue`, runtime `MapOperationQueue`). -/
def eq : Machine where
  σ := EQV.St
  init := {}
  step := EQV.stepLine
  μ := EQV.Mon
  minit := {}
  mstep := fun m line out => m.step line out

def machines : List (String × Machine) := [("ml", ml), ("eq", eq)]

end SwimVerif.Machines.C02
