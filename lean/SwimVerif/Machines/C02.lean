import SwimVerif.Driver
import SwimVerif.Model.MapLane
import SwimVerif.Model.EpochQueue

namespace SwimVerif.Machines.C02
open SwimVerif

/-- Agent side of a map lane (event queue, sync snapshots, write order). -/
def ml : Machine where
  σ := ML.St
  init := {}
  step := ML.stepLine
  μ := ML.Mon
  minit := {}
  mstep := fun m line out => m.step line out

/-- The coalescing queue with epochs (agent `EventQueue`, runtime `MapOperationQueue`). -/
def eq : Machine where
  σ := EQV.St
  init := {}
  step := EQV.stepLine
  μ := EQV.Mon
  minit := {}
  mstep := fun m line out => m.step line out

def machines : List (String × Machine) := [("ml", ml), ("eq", eq)]

end SwimVerif.Machines.C02
