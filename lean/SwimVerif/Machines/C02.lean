import SwimVerif.Driver
import SwimVerif.Model.MapLane

namespace SwimVerif.Machines.C02
open SwimVerif

/-- Agent side of a map lane (event queue, sync snapshots, write order). -/
def ml : Machine where
  σ := ML.St
  init := {}
  step := ML.stepLine
  μ := ML.Mon
  minit := {}
  mstep := fun m line out => m.step line out

def machines : List (String × Machine) := [("ml", ml)]

end SwimVerif.Machines.C02
