import SwimVerif.Driver
import SwimVerif.Model.ValueLane

namespace SwimVerif.Machines.C01
open SwimVerif

/-- Agent side of a value lane. -/
def vl : Machine where
  σ := VL.St
  init := {}
  step := VL.stepLine
  μ := VL.Mon
  minit := {}
  mstep := fun m line out => m.step line out

def machines : List (String × Machine) := [("vl", vl)]

end SwimVerif.Machines.C01
