import SwimVerif.Driver
import SwimVerif.Model.TimeoutCoord

namespace SwimVerif.Machines.C17
open SwimVerif

def c17 : Machine where
  σ := Option Coord.St
  init := none
  step := fun s line =>
    match words line with
    | ["new", n] => match n.toNat? with
      | some n => if 2 ≤ n ∧ n ≤ 8 then (some (Coord.init n), "ok") else (s, "bad-op")
      | none => (s, "bad-op")
    | _ => match s with
      | some st => let r := Coord.apiLine st line; (some r.1, r.2)
      | none => (s, "bad-op")
  μ := Coord.Mon
  minit := {}
  mstep := fun m line out => m.step line out


def machines : List (String × Machine) := [("c17", c17)]

end SwimVerif.Machines.C17
