import SwimVerif.Driver
import SwimVerif.Model.PersistIO

namespace SwimVerif.Machines.C05
open SwimVerif

/-- C05 end-to-end log: the model answers every line (`restore ∘ fold` of the logged store operations), the
monitor decides persist-before-publish, restart = fold and transient defaults on the observed log. -/
def c05 : Machine where
  σ := Persist.IO.LSt
  init := {}
  step := fun s line => s.step line
  μ := Persist.IO.Mon
  minit := {}
  mstep := fun m line out => m.step line out

def machines : List (String × Machine) := [("c05", c05)]

end SwimVerif.Machines.C05
