import SwimVerif.Driver
import SwimVerif.Model.HandlersIO
import SwimVerif.Model.HandlersFlush
import SwimVerif.Model.HandlersMon

namespace SwimVerif.Machines.C06
open SwimVerif

def c06 : Machine where
  σ := Option Handlers.AgentIO
  init := none
  step := fun s line => Handlers.apiLineIO s line
  μ := Handlers.Mon
  minit := {}
  mstep := fun m line out => m.step line out

def machines : List (String × Machine) := [("c06", c06)]

end SwimVerif.Machines.C06
