import SwimVerif.Driver
import SwimVerif.Model.FramesMon

namespace SwimVerif.Machines.C10
open SwimVerif

/-- All modelled codecs behind one machine (`codec <name>` selects). The monitor is codec-generic and is also
used, alone, for the codecs that are driven implementation-against-implementation (typed Recon bodies). -/
def c10 : Machine where
  σ := Option Frames.Live
  init := none
  step := Frames.machineStep
  μ := Frames.Mon
  minit := {}
  mstep := fun m line out => m.step line out

def machines : List (String × Machine) := [("c10", c10)]

end SwimVerif.Machines.C10
