import SwimVerif.Driver
import SwimVerif.Model.InactivityRt
import SwimVerif.Model.CoordThreads
import SwimVerif.Model.InactivityDl
import SwimVerif.Model.PruneRt

namespace SwimVerif.Machines.C17X
open SwimVerif

/-- the agent runtime's inactivity discipline (three tasks + coordinator), differential + monitor -/
def c17rt : Machine where
  σ := Option InactRt.St
  init := none
  step := fun s line => InactRt.apiLine s line
  μ := InactRt.Mon
  minit := {}
  mstep := fun m line out => m.step line out

/-- monitor-only machine for the multi-threaded stress of the real coordinator -/
def c17th : Machine where
  σ := Unit
  init := ()
  step := fun s _ => (s, "unmodelled")
  μ := Unit
  minit := ()
  mstep := fun m line out => (m, CoordThreads.check line out)

/-- the downlink runtime's "no consumers" discipline (two tasks + coordinator), differential + monitor -/
def c17dl : Machine where
  σ := Option InactDl.St
  init := none
  step := fun s line => InactDl.apiLine s line
  μ := InactDl.Mon
  minit := {}
  mstep := fun m line out => m.step line out

/-- the prune glue of the agent runtime's write task (C03: who is still registered, who is answered) -/
def c17pr : Machine where
  σ := Option PruneRt.St
  init := none
  step := fun s line => PruneRt.apiLine s line
  μ := PruneRt.Mon
  minit := {}
  mstep := fun m line out => m.step line out

def machines : List (String × Machine) := [("c17rt", c17rt), ("c17th", c17th), ("c17dl", c17dl), ("c17pr", c17pr)]

end SwimVerif.Machines.C17X
