import SwimVerif.Driver
import SwimVerif.Model.DownlinkMon

namespace SwimVerif.Machines.C08
open SwimVerif

def c08 : Machine where
  σ := Option Dl.Sys
  init := none
  step := Dl.machineStep
  μ := Dl.Mon
  minit := {}
  mstep := fun m line out => m.step line out

def machines : List (String × Machine) := [("c08", c08)]

end SwimVerif.Machines.C08
