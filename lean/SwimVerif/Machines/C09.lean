import SwimVerif.Driver
import SwimVerif.Model.ReconProto

namespace SwimVerif.Machines.C09
open SwimVerif

/-- Stateless: every op line is answered by the model functions (`print`, `parse`); the monitor is `Recon.Mon`. -/
def c09 : Machine where
  σ := Unit
  init := ()
  step := fun s line => (s, Recon.apiLine line)
  μ := Recon.Mon
  minit := {}
  mstep := fun m line out => m.step line out

def machines : List (String × Machine) := [("c09", c09)]

end SwimVerif.Machines.C09
