import SwimVerif.Driver
import SwimVerif.Model.ReconProto
import SwimVerif.Model.ReconIncProto

namespace SwimVerif.Machines.C09
open SwimVerif

/-- Stateless: every op line is answered by the model functions (`print`, `parse`); the monitor is `Recon.Mon`. -/
def c09 : Machine where
  σ := Unit
  init := ()
  step := fun s line => (s, Recon.apiLine line)
  μ := Recon.Mon
  minit := {}
  mstep := fun m line out => m.step line out

/-- As `c09`, and `chunk` ops are answered by the model of the incremental decoders (`Model/ReconInc.lean`). -/
def c09i : Machine where
  σ := Unit
  init := ()
  step := fun s line => (s, ReconInc.apiLine line)
  μ := Recon.Mon
  minit := {}
  mstep := fun m line out => m.step line out

def machines : List (String × Machine) := [("c09", c09), ("c09i", c09i)]

end SwimVerif.Machines.C09
