import SwimVerif.Driver
import SwimVerif.Model.Envelope

namespace SwimVerif.Machines.C11
open SwimVerif

/-- Pure part: writer ∘ reader (`rt`) and reader alone (`peel`); stateless. -/
def c11pure : Machine where
  σ := Unit
  init := ()
  step := fun s line =>
    match Envelope.parseOp line with
    | some op => (s, Envelope.runOp op)
    | none => (s, "bad-op")
  μ := Unit
  minit := ()
  mstep := fun m line out =>
    match Envelope.parseOp line with
    | some op => (m, Envelope.monStep op out)
    | none => (m, some "unparsable")

def machines : List (String × Machine) := [("c11pure", c11pure)]

end SwimVerif.Machines.C11
