import SwimVerif.Driver
import SwimVerif.Model.Envelope
import SwimVerif.Model.Routing
import SwimVerif.Model.RoutingMon
import SwimVerif.Model.MultiReader

namespace SwimVerif.Machines.C11
open SwimVerif

/-- Pure part: writer ∘ reader (`rt`) and reader alone (`peel`); stateless. -/
def c11pure : Machine where
  σ := Unit
  init := ()
  step := fun s line =>
    match Envelope.parseOp line with
    | some op => (s, Envelope.runOp op)
    | none => (s, "bad-op")
  μ := Unit
  minit := ()
  mstep := fun m line out =>
    match Envelope.parseOp line with
    | some op => (m, Envelope.monStep op out)
    | none => (m, some "unparsable")

/-- Routing part: the socket task at operation granularity. -/
def c11route : Machine where
  σ := Routing.St
  init := Routing.init
  step := fun s line => Routing.stepLine s line
  μ := Routing.Mon
  minit := {}
  mstep := fun m line out => m.step line out

/-- Multiplexer part: `MultiReader` polled by hand. -/
def c11mr : Machine where
  σ := MultiReader.St
  init := MultiReader.init
  step := fun s line => MultiReader.stepLine s line
  μ := MultiReader.Mon
  minit := {}
  mstep := fun m line out => m.stepFull line out

/-- Multiplexer, wake-time polls (monitor only): a woken task must find what it was woken for. -/
def c11mrw : Machine where
  σ := Unit
  init := ()
  step := fun s _ => (s, "unmodelled")
  μ := MultiReader.Mon
  minit := {}
  mstep := fun m line out => m.stepWake line out

/-- Multiplexer under real threads (monitor only). -/
def c11mrs : Machine where
  σ := Unit
  init := ()
  step := fun s _ => (s, "unmodelled")
  μ := Unit
  minit := ()
  mstep := fun m _ out => (m, MultiReader.stressVerdict out)

def machines : List (String × Machine) :=
  [("c11pure", c11pure), ("c11route", c11route), ("c11mr", c11mr), ("c11mrw", c11mrw), ("c11mrs", c11mrs)]

end SwimVerif.Machines.C11
