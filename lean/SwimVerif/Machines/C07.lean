import SwimVerif.Driver
import SwimVerif.Model.DownlinkRt

namespace SwimVerif.Machines.C07
open SwimVerif

def c07 : Machine where
  σ := Option DL.Sys
  init := none
  step := DL.machineStep
  μ := DL.Mon
  minit := {}
  mstep := fun m op out => m.step op out

/-- Coverage aid (not used by the check): the write/read task state after each op, as the output. -/
def stateSummary : Option DL.Sys → String
  | none => "none"
  | some s =>
    let m := match s.w.mode with | .linking => "linking" | .idle => "idle" | .writing => "writing" | .stopped => "stopped"
    let d := match s.r.dl with | .init => "init" | .linked => "linked" | .synced => "synced"
    s!"w={m}/f{boolBit s.w.flushed}/n{boolBit s.w.needsSync}/q{min s.w.regQ.length 2}/p{min s.w.producers.length 2}/bv{boolBit s.w.bpVal.isSome}/bm{min s.w.bpMap.length 3}/b{boolBit (decide (0 < s.w.buf))}/c{boolBit s.w.sockClosed}/rc{boolBit s.w.reqClosed} r={d}/t{boolBit s.r.timer}/al{min s.r.aLinked.length 2}/as{min s.r.aSynced.length 2}/rg{min s.r.reg.length 2}/d{min s.r.dead.length 2}/s{boolBit s.r.stopped}"

def c07state : Machine where
  σ := Option DL.Sys
  init := none
  step := fun s line => ((DL.machineStep s line).1, stateSummary (DL.machineStep s line).1)
  μ := Unit
  minit := ()
  mstep := fun m _ _ => (m, none)

def machines : List (String × Machine) := [("c07", c07), ("c07state", c07state)]

end SwimVerif.Machines.C07
