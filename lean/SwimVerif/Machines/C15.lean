import SwimVerif.Driver
import SwimVerif.Model.ReconEqProto

namespace SwimVerif.Machines.C15
open SwimVerif

/-- Stateless model (every op is a pure question about texts); the monitor remembers the `val` answers of a case. -/
def c15 : Machine where
  σ := Unit
  init := ()
  step := fun s line => (s, ReconEq.apiLine line)
  μ := ReconEq.Mon
  minit := {}
  mstep := fun m line out => m.step line out

def machines : List (String × Machine) := [("c15", c15)]

end SwimVerif.Machines.C15
