import SwimVerif.Driver
import SwimVerif.Model.Counters

namespace SwimVerif.Machines.C20S
open SwimVerif

/-- monitor-only machine for the counter stress engine -/
def c20s : Machine where
  σ := Unit
  init := ()
  step := fun s _ => (s, "unmodelled")
  μ := Unit
  minit := ()
  mstep := fun m line out => Ctr.Mon.step m line out

def machines : List (String × Machine) := [("c20s", c20s)]

end SwimVerif.Machines.C20S
