import SwimVerif.Driver
import SwimVerif.Model.MsgPackIO

namespace SwimVerif.Machines.C16mp
open SwimVerif

def c16mp : Machine where
  σ := Unit
  init := ()
  step := fun s line => MsgPack.step s line
  μ := MsgPack.Mon
  minit := {}
  mstep := fun m line out => m.step line out

def machines : List (String × Machine) := [("c16mp", c16mp)]

end SwimVerif.Machines.C16mp
