import SwimVerif.Driver
import SwimVerif.Model.FormMon

namespace SwimVerif.Machines.C16
open SwimVerif

def c16 : Machine where
  σ := Form.St
  init := {}
  step := fun s line => Form.step s line
  μ := Form.Mon
  minit := {}
  mstep := fun m line out => m.step line out

def machines : List (String × Machine) := [("c16", c16)]

end SwimVerif.Machines.C16
