import SwimVerif.Driver
import SwimVerif.Model.E2EMon

namespace SwimVerif.Machines.E2E
open SwimVerif

/-- End-to-end rig: monitor only (the real scheduler's interleaving is not modelled). -/
def e2e : Machine where
  σ := Unit
  init := ()
  step := fun s _ => (s, "-")
  μ := E2E.Mon
  minit := {}
  mstep := fun m line out => m.step line out

def machines : List (String × Machine) := [("e2e", e2e)]

end SwimVerif.Machines.E2E
