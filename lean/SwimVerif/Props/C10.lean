/-
C10 — binary frames decode to what was encoded under any fragmentation.
Property theorems only; the generic theorem is `Frames.feedAll_spec` (Proofs/Frames.lean), the per-codec laws are
in Proofs/FrameCodecs.lean.

Quantifiers: every list of admissible messages `ms` (bodies / keys / values below 2^60 bytes, ids of 16 bytes),
every trailing incomplete frame `p` (strict prefix of the encoding of an admissible message, possibly empty),
every list of chunks whose concatenation is `encodeAll ms ++ p` (= every way of splitting the byte stream
between reads, down to one byte — or zero bytes — per read).
-/
import SwimVerif.Proofs.FrameCodecs

set_option linter.unusedSimpArgs false
namespace SwimVerif.Frames
open SwimVerif.Generated.Wire

/-- What "decodes to exactly what was encoded, however the stream is split, without touching the next frame"
means for a decoder `D` and an encoder `enc`. -/
def SplitInsensitive {α : Type} (D : Dec α) (enc : α → List Nat) (ok : α → Prop) : Prop :=
  ∀ (ms : List α), (∀ m ∈ ms, ok m) → ∀ (p : List Nat), Incomplete enc ok p →
    ∀ (chunks : List (List Nat)), chunks.flatten = encodeAll enc ms ++ p →
      (run D chunks).items = ms ∧ (run D chunks).status = .more ∧
        D.view (run D chunks).s ++ (run D chunks).buf = p

/-- **Generic split-insensitivity**: any lawful decoder is split-insensitive. -/
theorem C10_generic_split_insensitive {α : Type} {D : Dec α} {enc : α → List Nat} {ok : α → Prop}
    {wf : D.σ → Prop} (L : Lawful D enc ok wf) : SplitInsensitive D enc ok := by
  intro ms hok p hp chunks hc
  obtain ⟨s', buf', h1, _, h3⟩ := feedAll_spec L chunks ms hok D.init [] [] p L.wf_init hp
    (by simpa [L.view_init] using hc) (by simpa [L.view_init] using incomplete_prefix hp (a := []) (b := p) rfl)
  unfold run
  rw [h1]
  exact ⟨by simp, rfl, h3⟩

/-- **Round trip** (the one-chunk case): decoding the concatenated encodings gives the messages back and
leaves nothing behind. -/
theorem C10_generic_roundtrip {α : Type} {D : Dec α} {enc : α → List Nat} {ok : α → Prop}
    {wf : D.σ → Prop} (L : Lawful D enc ok wf) (m0 : α) (h0 : ok m0) (ms : List α) (hok : ∀ m ∈ ms, ok m) :
    (run D [encodeAll enc ms]).items = ms ∧ (run D [encodeAll enc ms]).status = .more ∧
      D.view (run D [encodeAll enc ms]).s ++ (run D [encodeAll enc ms]).buf = [] :=
  C10_generic_split_insensitive L ms hok [] ⟨m0, enc m0, h0, L.enc_ne m0 h0, rfl⟩ [encodeAll enc ms] (by simp)

/-! ### T1 instances -/

theorem C10_wlb_split_insensitive : SplitInsensitive (Dec.ofParser wlb) encWlb okBytes :=
  C10_generic_split_insensitive (Lawful.ofParser wlb_lawful)

theorem C10_mapop_split_insensitive : SplitInsensitive (Dec.ofParser rawMapOp) encMapOp okMapOp :=
  C10_generic_split_insensitive (Lawful.ofParser rawMapOp_lawful)

theorem C10_mapmsg_split_insensitive : SplitInsensitive (Dec.ofParser rawMapMsg) encMapMsg okMapMsg :=
  C10_generic_split_insensitive (Lawful.ofParser rawMapMsg_lawful)

/-- `RawValueLaneRequestDecoder` against `RawValueLaneRequestEncoder`. -/
theorem C10_lane_request_value_split_insensitive :
    SplitInsensitive (laneRequest wlb) (encLaneReq encWlb) (okLaneReq okBytes) :=
  C10_generic_split_insensitive (laneRequest_lawful wlb_lawful)

/-- `RawMapLaneRequestDecoder` against `RawMapLaneRequestEncoder`. -/
theorem C10_lane_request_map_split_insensitive :
    SplitInsensitive (laneRequest rawMapMsg) (encLaneReq encMapMsg) (okLaneReq okMapMsg) :=
  C10_generic_split_insensitive (laneRequest_lawful rawMapMsg_lawful)

/-- `RawValueLaneResponseDecoder` against `RawValueLaneResponseEncoder`. -/
theorem C10_lane_response_value_split_insensitive :
    SplitInsensitive (laneResponse wlb) (encLaneResp encWlb) (okLaneResp okBytes) :=
  C10_generic_split_insensitive (laneResponse_lawful wlb_lawful)

/-- `RawMapLaneResponseDecoder` against `RawMapLaneResponseEncoder`. -/
theorem C10_lane_response_map_split_insensitive :
    SplitInsensitive (laneResponse rawMapOp) (encLaneResp encMapOp) (okLaneResp okMapOp) :=
  C10_generic_split_insensitive (laneResponse_lawful rawMapOp_lawful)

theorem C10_wlb_roundtrip (ms : List Bytes) (hok : ∀ m ∈ ms, okBytes m) :
    (run (Dec.ofParser wlb) [encodeAll encWlb ms]).items = ms :=
  (C10_generic_roundtrip (Lawful.ofParser wlb_lawful) [] (by simp [okBytes]) ms hok).1

theorem C10_lane_request_map_roundtrip (ms : List (LaneRequest MapMsg)) (hok : ∀ m ∈ ms, okLaneReq okMapMsg m) :
    (run (laneRequest rawMapMsg) [encodeAll (encLaneReq encMapMsg) ms]).items = ms :=
  (C10_generic_roundtrip (laneRequest_lawful rawMapMsg_lawful) .initComplete trivial ms hok).1

theorem C10_lane_response_map_roundtrip (ms : List (LaneResponse MapOp)) (hok : ∀ m ∈ ms, okLaneResp okMapOp m) :
    (run (laneResponse rawMapOp) [encodeAll (encLaneResp encMapOp) ms]).items = ms :=
  (C10_generic_roundtrip (laneResponse_lawful rawMapOp_lawful) .initialized trivial ms hok).1

/-! ### T2 instances: store protocol, downlink operations -/

/-- `RawValueStoreInitDecoder` / `RawMapStoreInitDecoder`. -/
theorem C10_store_init_value_split_insensitive :
    SplitInsensitive (storeInit wlb) (encStoreInit encWlb) (okStoreInit okBytes) :=
  C10_generic_split_insensitive (storeInit_lawful wlb_lawful)

theorem C10_store_init_map_split_insensitive :
    SplitInsensitive (storeInit rawMapMsg) (encStoreInit encMapMsg) (okStoreInit okMapMsg) :=
  C10_generic_split_insensitive (storeInit_lawful rawMapMsg_lawful)

theorem C10_store_initialized_split_insensitive :
    SplitInsensitive (Dec.ofParser storeInitialized) encStoreInitialized (fun _ => True) :=
  C10_generic_split_insensitive (Lawful.ofParser storeInitialized_lawful)

/-- `RawValueStoreResponseDecoder` / `RawMapStoreResponseDecoder` (with their `remaining() <= TAG_LEN` guard). -/
theorem C10_store_response_value_split_insensitive :
    SplitInsensitive (storeResponse wlb) (encStoreResp encWlb) okBytes :=
  C10_generic_split_insensitive (storeResponse_lawful wlb_lawful)

theorem C10_store_response_map_split_insensitive :
    SplitInsensitive (storeResponse rawMapOp) (encStoreResp encMapOp) okMapOp :=
  C10_generic_split_insensitive (storeResponse_lawful rawMapOp_lawful)

/-- `DownlinkOperationDecoder`, for bodies whose announced size the allocator can still reserve (it
reserves `LEN_SIZE + len` as soon as the length is known). -/
theorem C10_downlink_operation_split_insensitive :
    SplitInsensitive (Dec.ofParser downlinkOp) encWlb okDlBody :=
  C10_generic_split_insensitive (Lawful.ofParser downlinkOp_lawful)

/-- Routed request messages: `RawRequestMessageDecoder` against `RawRequestMessageEncoder`, for 16-byte origins,
valid UTF-8 node / lane names and frames below the size the allocator refuses to reserve up front. -/
theorem C10_raw_request_split_insensitive : SplitInsensitive (Dec.ofParser rawRequest) encReqMsg okReqMsg :=
  C10_generic_split_insensitive (Lawful.ofParser rawRequest_lawful)

/-- Routed response messages: `RawResponseMessageDecoder` against `RawResponseMessageEncoder`; `Unlinked(Some(b""))`
has the wire form of `Unlinked(None)` and is excluded by `okRespMsg`. -/
theorem C10_raw_response_split_insensitive : SplitInsensitive (Dec.ofParser rawResponse) encRespMsg okRespMsg :=
  C10_generic_split_insensitive (Lawful.ofParser rawResponse_lawful)

/-! ### corrupt tags and lengths -/

/-- An unknown lane-request tag is an error (and exactly the tag byte is dropped). -/
theorem C10_lane_request_unknown_tag_is_error {β : Type} (p : Parser β) (t : Nat) (rest : List Nat)
    (h : t ≠ laneCommand ∧ t ≠ laneSync ∧ t ≠ laneInitDone) :
    laneReqStep p .header (t :: rest) = (.header, rest, .err) := by
  simp [laneReqStep, tagLen, h.1, h.2.1, h.2.2]

/-- An unknown lane-response tag is an error (nothing is consumed). -/
theorem C10_lane_response_unknown_tag_is_error {β : Type} (p : Parser β) (t : Nat) (rest : List Nat)
    (h : t ≠ laneEvent ∧ t ≠ laneInitialized ∧ t ≠ laneSync ∧ t ≠ laneSyncComplete) :
    laneRespStep p .header (t :: rest) = (.header, t :: rest, .err) := by
  simp [laneRespStep, tagLen, h.1, h.2.1, h.2.2.1, h.2.2.2]

/-- An unknown map-operation tag is an error. -/
theorem C10_map_operation_unknown_tag_is_error (n t : Nat) (rest : List Nat)
    (h : t ≠ mapUpdate ∧ t ≠ mapRemove ∧ t ≠ mapClear) :
    rawMapOp (be 8 n ++ t :: rest) = (be 8 n ++ t :: rest, .err) := by
  simp [rawMapOp, mapLenSize, mapTagSize, h.1, h.2.1, h.2.2]
  omega

/-- The full no-panic clause: no input makes a decoder panic. **False of the current code** (F4). -/
def C10_corrupt_is_error : Prop :=
  (∀ buf, (wlb buf).2 ≠ .panic) ∧ (∀ buf, (rawMapOp buf).2 ≠ .panic) ∧ (∀ buf, (downlinkOp buf).2 ≠ .panic)

/-- F4 witnesses on the model (each was run against the real decoder, see corpus/C10): a length of
`u64::MAX - 3`, and an `UPDATE` of total length 9 whose key length is `u64::MAX`. -/
theorem C10_corrupt_is_error_fails : ¬ C10_corrupt_is_error := by
  intro h
  exact h.1 [255, 255, 255, 255, 255, 255, 255, 252] (by decide)

theorem C10_map_operation_key_len_panics :
    (rawMapOp ([0, 0, 0, 0, 0, 0, 0, 9, 0] ++ [255, 255, 255, 255, 255, 255, 255, 255])).2 = .panic := by
  decide

/-- What does hold: `WithLengthBytesCodec` panics exactly when `LEN_SIZE + len` overflows, and
`RawMapOperationDecoder` panics only when one of its two additions overflows. -/
theorem C10_wlb_panic_iff_partial (buf : List Nat) :
    (wlb buf).2 = .panic ↔ (8 ≤ buf.length ∧ M64 ≤ 8 + rd (buf.take 8)) := by
  by_cases h1 : buf.length < 8
  · simp [wlb, wlbLenSize, h1]; omega
  · by_cases h2 : M64 ≤ 8 + rd (buf.take 8)
    · simp [wlb, wlbLenSize, h1, h2]; omega
    · by_cases h3 : 8 + rd (buf.take 8) ≤ buf.length
      · simp [wlb, wlbLenSize, h1, h2, h3]
      · simp [wlb, wlbLenSize, h1, h2, h3]

theorem C10_map_operation_panic_only_overflow_partial (buf : List Nat) (h : (rawMapOp buf).2 = .panic) :
    M64 ≤ 8 + rd (buf.take 8) ∨
      M64 ≤ rd ((((buf.drop 8).take (rd (buf.take 8))).drop 1).take 8) + 8 + 1 := by
  by_cases a : M64 ≤ 8 + rd (buf.take 8)
  · left; exact a
  · by_cases b : M64 ≤ rd ((((buf.drop 8).take (rd (buf.take 8))).drop 1).take 8) + 8 + 1
    · right; exact b
    · exfalso
      revert h
      unfold rawMapOp rawMapOpUpdate rawMapOpRemove rawMapOpUpdateFrame
      repeat' split
      all_goals simp_all [mapLenSize, mapTagSize]
      all_goals omega

/-- F17 on the model: a request frame whose 3-bit kind is `UNLINKED` (6) comes out as a command, and a `link`
with a non-zero length leaves its "body" in the buffer. -/
theorem C10_request_unknown_tag_fails :
    (rawRequest (be 16 7 ++ be 4 1 ++ be 4 1 ++ be 8 (3 + 6 * OPSH) ++ [110, 108] ++ [1, 2, 3])).2
      = .item ⟨be 16 7, [110], [108], .command [1, 2, 3]⟩ ∧
    rawRequest (be 16 7 ++ be 4 1 ++ be 4 1 ++ be 8 (2 + 0 * OPSH) ++ [110, 108] ++ [170, 187])
      = ([170, 187], .item ⟨be 16 7, [110], [108], .link⟩) := by
  decide

/-- F101 on the model: a `Register` frame fed in two reads is never delivered (fed in one read it is). -/
theorem C10_command_register_split_fails :
    (run rawCommand [encCmd (.register ⟨none, [110], [108]⟩ 7)]).items = [.register ⟨none, [110], [108]⟩ 7] ∧
    (run rawCommand [[1], (encCmd (.register ⟨none, [110], [108]⟩ 7)).drop 1]).items = [] := by
  decide

/-! ### statements not proved (yet) -/

/-- Ad hoc command messages other than `Register` (for `Register` see `C10_command_register_split_fails`). -/
def C10_command_nonregister_split_insensitive_open : Prop :=
  SplitInsensitive rawCommand encCmd fun m =>
    match m with
    | .register _ _ => False
    | .addressed a b _ => okBytes b ∧ a.node.length < SZ ∧ a.lane.length < SZ ∧ utf8Valid a.node = true ∧
        utf8Valid a.lane = true ∧ (∀ h, a.host = some h → h.length < SZ ∧ utf8Valid h = true)
    | .registered t b _ => okBytes b ∧ t < 65536

/-! ### side conditions on the generated table (re-checked against the sources on every run) -/

/-- Tags that share a decoder are pairwise distinct. -/
theorem C10_tags_distinct :
    [laneCommand, laneSync, laneInitDone].Nodup ∧
    [laneEvent, laneInitialized, laneSync, laneSyncComplete].Nodup ∧
    [mapUpdate, mapRemove, mapClear, mapTake, mapDrop].Nodup ∧
    [dlLinked, dlSynced, dlEvent, dlUnlinked].Nodup ∧
    [msgLink, msgSync, msgUnlink, msgCommand, msgLinked, msgSynced, msgUnlinked, msgEvent].Nodup ∧
    (∀ t ∈ [msgLink, msgSync, msgUnlink, msgCommand, msgLinked, msgSynced, msgUnlinked, msgEvent], t < 8) ∧
    [cmdRegistration, cmdRegistered, cmdHasHost, cmdOverwrite] = [1, 2, 4, 8] := by
  decide

/-- The decoders match exactly the arms the models mirror, and the sizes are the ones the models use. -/
theorem C10_tag_tables :
    laneRequestArms = ["COMMAND", "SYNC", "INIT_DONE"] ∧
    laneResponseArms = ["EVENT", "INITIALIZED", "SYNC", "SYNC_COMPLETE"] ∧
    rawMapOpArms = ["UPDATE", "REMOVE", "CLEAR"] ∧
    mapMessageArms = ["TAKE", "DROP", "_"] ∧
    storeInitArms = ["COMMAND", "INIT_DONE"] ∧
    rawRequestArms = ["LINK", "SYNC", "UNLINK", "_"] ∧
    rawResponseArms = ["LINKED", "SYNCED", "UNLINKED", "_"] ∧
    dlNotificationArms = ["LINKED", "SYNCED", "EVENT", "UNLINKED"] ∧
    [tagLen, idLen, tagSize, lenSize, mapLenSize, mapTagSize, wlbLenSize] = [1, 16, 1, 8, 8, 1, 8] ∧
    [opShift, headerInitLen] = [61, 32] ∧
    [cmdFlagsLen, cmdLenLen, cmdIdLen, cmdMinRequired, cmdMaxRequired] = [1, 8, 2, 16, 24] := by
  decide

/-! ### non-vacuity: admissible messages, incomplete frames and concrete chunked runs -/

example : okLaneReq okMapMsg (.command (.op (.update [1, 2] [3]))) := by
  simp [okLaneReq, okMapMsg, okMapOp]

example : Incomplete (encLaneReq encMapMsg) (okLaneReq okMapMsg) [0, 0, 0] :=
  ⟨.command (.op .clear), [0, 0, 0, 0, 0, 1, 2], trivial, by simp, by decide⟩

/-- three reads, cut inside the length and inside the next frame: both messages, one byte of a `Sync` pending -/
example : (run (laneRequest rawMapMsg) [[0, 0, 0, 0], [0, 0, 0, 0, 1, 2, 4], [1]]).items
      = [.command (.op .clear), .initComplete] ∧
    (run (laneRequest rawMapMsg) [[0, 0, 0, 0], [0, 0, 0, 0, 1, 2, 4], [1]]).buf = [1] := by decide

example : (run (laneResponse wlb) [[1, 9, 9, 9, 9, 9, 9, 9, 9], [9, 9, 9, 9, 9, 9, 9, 9, 0, 0, 0], [0, 0, 0, 0, 1, 7]]).items
    = [.syncEvent [9, 9, 9, 9, 9, 9, 9, 9, 9, 9, 9, 9, 9, 9, 9, 9] [7]] := by decide

example : okReqMsg ⟨be 16 7, [110], [108], .command [1, 2, 3]⟩ :=
  ⟨⟨by decide, by decide, by decide, by decide, by decide⟩, by decide⟩

example : okRespMsg ⟨be 16 7, [195, 169], [108], .unlinked none⟩ :=
  ⟨⟨by decide, by decide, by decide, by decide, by decide⟩, by decide, by decide⟩

example : (run (Dec.ofParser rawResponse)
      [(encRespMsg ⟨be 16 7, [110], [108], .event [5]⟩).take 33, (encRespMsg ⟨be 16 7, [110], [108], .event [5]⟩).drop 33]).items
    = [⟨be 16 7, [110], [108], .event [5]⟩] := by decide

example : okDlBody [1, 2, 3] := by simp [okDlBody]

end SwimVerif.Frames
