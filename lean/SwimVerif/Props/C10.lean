/-
C10 — binary frames decode to what was encoded under any fragmentation.
Property theorems only; the generic theorem is `Frames.feedAll_spec` (Proofs/Frames.lean), the per-codec laws are
in Proofs/FrameCodecs.lean.

Quantifiers: every list of admissible messages `ms` (bodies / keys / values below 2^60 bytes, ids of 16 bytes),
every trailing incomplete frame `p` (strict prefix of the encoding of an admissible message, possibly empty),
every list of chunks whose concatenation is `encodeAll ms ++ p` (= every way of splitting the byte stream
between reads, down to one byte — or zero bytes — per read).
-/
import SwimVerif.Proofs.FrameCodecs

set_option linter.unusedSimpArgs false
namespace SwimVerif.Frames
open SwimVerif.Generated.Wire

/-- What "decodes to exactly what was encoded, however the stream is split, without touching the next frame"
means for a decoder `D` and an encoder `enc`. -/
def SplitInsensitive {α : Type} (D : Dec α) (enc : α → List Nat) (ok : α → Prop) : Prop :=
  ∀ (ms : List α), (∀ m ∈ ms, ok m) → ∀ (p : List Nat), Incomplete enc ok p →
    ∀ (chunks : List (List Nat)), chunks.flatten = encodeAll enc ms ++ p →
      (run D chunks).items = ms ∧ (run D chunks).status = .more ∧
        D.view (run D chunks).s ++ (run D chunks).buf = p

/-- **Generic split-insensitivity**: any lawful decoder is split-insensitive. -/
theorem C10_generic_split_insensitive {α : Type} {D : Dec α} {enc : α → List Nat} {ok : α → Prop}
    {wf : D.σ → Prop} (L : Lawful D enc ok wf) : SplitInsensitive D enc ok := by
  intro ms hok p hp chunks hc
  obtain ⟨s', buf', h1, _, h3⟩ := feedAll_spec L chunks ms hok D.init [] [] p L.wf_init hp
    (by simpa [L.view_init] using hc) (by simpa [L.view_init] using incomplete_prefix hp (a := []) (b := p) rfl)
  unfold run
  rw [h1]
  exact ⟨by simp, rfl, h3⟩

/-- **Round trip** (the one-chunk case): decoding the concatenated encodings gives the messages back and
leaves nothing behind. -/
theorem C10_generic_roundtrip {α : Type} {D : Dec α} {enc : α → List Nat} {ok : α → Prop}
    {wf : D.σ → Prop} (L : Lawful D enc ok wf) (m0 : α) (h0 : ok m0) (ms : List α) (hok : ∀ m ∈ ms, ok m) :
    (run D [encodeAll enc ms]).items = ms ∧ (run D [encodeAll enc ms]).status = .more ∧
      D.view (run D [encodeAll enc ms]).s ++ (run D [encodeAll enc ms]).buf = [] :=
  C10_generic_split_insensitive L ms hok [] ⟨m0, enc m0, h0, L.enc_ne m0 h0, rfl⟩ [encodeAll enc ms] (by simp)

/-! ### T1 instances -/

theorem C10_wlb_split_insensitive : SplitInsensitive (Dec.ofParser wlb) encWlb okBytes :=
  C10_generic_split_insensitive (Lawful.ofParser wlb_lawful)

theorem C10_mapop_split_insensitive : SplitInsensitive (Dec.ofParser rawMapOp) encMapOp okMapOp :=
  C10_generic_split_insensitive (Lawful.ofParser rawMapOp_lawful)

theorem C10_mapmsg_split_insensitive : SplitInsensitive (Dec.ofParser rawMapMsg) encMapMsg okMapMsg :=
  C10_generic_split_insensitive (Lawful.ofParser rawMapMsg_lawful)

/-- `RawValueLaneRequestDecoder` against `RawValueLaneRequestEncoder`. -/
theorem C10_lane_request_value_split_insensitive :
    SplitInsensitive (laneRequest wlb) (encLaneReq encWlb) (okLaneReq okBytes) :=
  C10_generic_split_insensitive (laneRequest_lawful wlb_lawful)

/-- `RawMapLaneRequestDecoder` against `RawMapLaneRequestEncoder`. -/
theorem C10_lane_request_map_split_insensitive :
    SplitInsensitive (laneRequest rawMapMsg) (encLaneReq encMapMsg) (okLaneReq okMapMsg) :=
  C10_generic_split_insensitive (laneRequest_lawful rawMapMsg_lawful)

/-- `RawValueLaneResponseDecoder` against `RawValueLaneResponseEncoder`. -/
theorem C10_lane_response_value_split_insensitive :
    SplitInsensitive (laneResponse wlb) (encLaneResp encWlb) (okLaneResp okBytes) :=
  C10_generic_split_insensitive (laneResponse_lawful wlb_lawful)

/-- `RawMapLaneResponseDecoder` against `RawMapLaneResponseEncoder`. -/
theorem C10_lane_response_map_split_insensitive :
    SplitInsensitive (laneResponse rawMapOp) (encLaneResp encMapOp) (okLaneResp okMapOp) :=
  C10_generic_split_insensitive (laneResponse_lawful rawMapOp_lawful)

theorem C10_wlb_roundtrip (ms : List Bytes) (hok : ∀ m ∈ ms, okBytes m) :
    (run (Dec.ofParser wlb) [encodeAll encWlb ms]).items = ms :=
  (C10_generic_roundtrip (Lawful.ofParser wlb_lawful) [] (by simp [okBytes]) ms hok).1

theorem C10_lane_request_map_roundtrip (ms : List (LaneRequest MapMsg)) (hok : ∀ m ∈ ms, okLaneReq okMapMsg m) :
    (run (laneRequest rawMapMsg) [encodeAll (encLaneReq encMapMsg) ms]).items = ms :=
  (C10_generic_roundtrip (laneRequest_lawful rawMapMsg_lawful) .initComplete trivial ms hok).1

theorem C10_lane_response_map_roundtrip (ms : List (LaneResponse MapOp)) (hok : ∀ m ∈ ms, okLaneResp okMapOp m) :
    (run (laneResponse rawMapOp) [encodeAll (encLaneResp encMapOp) ms]).items = ms :=
  (C10_generic_roundtrip (laneResponse_lawful rawMapOp_lawful) .initialized trivial ms hok).1

/-! ### side conditions on the generated table (re-checked against the sources on every run) -/

/-- Tags that share a decoder are pairwise distinct. -/
theorem C10_tags_distinct :
    [laneCommand, laneSync, laneInitDone].Nodup ∧
    [laneEvent, laneInitialized, laneSync, laneSyncComplete].Nodup ∧
    [mapUpdate, mapRemove, mapClear, mapTake, mapDrop].Nodup ∧
    [dlLinked, dlSynced, dlEvent, dlUnlinked].Nodup ∧
    [msgLink, msgSync, msgUnlink, msgCommand, msgLinked, msgSynced, msgUnlinked, msgEvent].Nodup ∧
    (∀ t ∈ [msgLink, msgSync, msgUnlink, msgCommand, msgLinked, msgSynced, msgUnlinked, msgEvent], t < 8) ∧
    [cmdRegistration, cmdRegistered, cmdHasHost, cmdOverwrite] = [1, 2, 4, 8] := by
  decide

/-- The decoders match exactly the arms the models mirror, and the sizes are the ones the models use. -/
theorem C10_tag_tables :
    laneRequestArms = ["COMMAND", "SYNC", "INIT_DONE"] ∧
    laneResponseArms = ["EVENT", "INITIALIZED", "SYNC", "SYNC_COMPLETE"] ∧
    rawMapOpArms = ["UPDATE", "REMOVE", "CLEAR"] ∧
    mapMessageArms = ["TAKE", "DROP", "_"] ∧
    storeInitArms = ["COMMAND", "INIT_DONE"] ∧
    rawRequestArms = ["LINK", "SYNC", "UNLINK", "_"] ∧
    rawResponseArms = ["LINKED", "SYNCED", "UNLINKED", "_"] ∧
    dlNotificationArms = ["LINKED", "SYNCED", "EVENT", "UNLINKED"] ∧
    [tagLen, idLen, tagSize, lenSize, mapLenSize, mapTagSize, wlbLenSize] = [1, 16, 1, 8, 8, 1, 8] ∧
    [opShift, headerInitLen] = [61, 32] ∧
    [cmdFlagsLen, cmdLenLen, cmdIdLen, cmdMinRequired, cmdMaxRequired] = [1, 8, 2, 16, 24] := by
  decide

end SwimVerif.Frames
