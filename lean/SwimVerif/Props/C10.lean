/-
C10 — binary frames decode to what was encoded under any fragmentation.
Property theorems only; the generic theorem is `Frames.feedAll_spec` (Proofs/Frames.lean), the per-codec laws are
in Proofs/FrameCodecs.lean.

Quantifiers: every list of admissible messages `ms` (bodies / keys / values below 2^60 bytes, ids of 16 bytes),
every trailing incomplete frame `p` (strict prefix of the encoding of an admissible message, possibly empty),
every list of chunks whose concatenation is `encodeAll ms ++ p` (= every way of splitting the byte stream
between reads, down to one byte — or zero bytes — per read).
-/
import SwimVerif.Proofs.FrameCommand
import SwimVerif.Proofs.FrameDiscard

set_option linter.unusedSimpArgs false
namespace SwimVerif.Frames
open SwimVerif.Generated.Wire

/-- What "decodes to exactly what was encoded, however the stream is split, without touching the next frame"
means for a decoder `D` and an encoder `enc`. -/
def SplitInsensitive {α : Type} (D : Dec α) (enc : α → List Nat) (ok : α → Prop) : Prop :=
  ∀ (ms : List α), (∀ m ∈ ms, ok m) → ∀ (p : List Nat), Incomplete enc ok p →
    ∀ (chunks : List (List Nat)), chunks.flatten = encodeAll enc ms ++ p →
      (run D chunks).items = ms ∧ (run D chunks).status = .more ∧
        D.view (run D chunks).s ++ (run D chunks).buf = p

/-- **Generic split-insensitivity**: any lawful decoder is split-insensitive. -/
theorem C10_generic_split_insensitive {α : Type} {D : Dec α} {enc : α → List Nat} {ok : α → Prop}
    {wf : D.σ → Prop} (L : Lawful D enc ok wf) : SplitInsensitive D enc ok := by
  intro ms hok p hp chunks hc
  obtain ⟨s', buf', h1, _, h3⟩ := feedAll_spec L chunks ms hok D.init [] [] p L.wf_init hp
    (by simpa [L.view_init] using hc) (by simpa [L.view_init] using incomplete_prefix hp (a := []) (b := p) rfl)
  unfold run
  rw [h1]
  exact ⟨by simp, rfl, h3⟩

/-- **Round trip** (the one-chunk case): decoding the concatenated encodings gives the messages back and
leaves nothing behind. -/
theorem C10_generic_roundtrip {α : Type} {D : Dec α} {enc : α → List Nat} {ok : α → Prop}
    {wf : D.σ → Prop} (L : Lawful D enc ok wf) (m0 : α) (h0 : ok m0) (ms : List α) (hok : ∀ m ∈ ms, ok m) :
    (run D [encodeAll enc ms]).items = ms ∧ (run D [encodeAll enc ms]).status = .more ∧
      D.view (run D [encodeAll enc ms]).s ++ (run D [encodeAll enc ms]).buf = [] :=
  C10_generic_split_insensitive L ms hok [] ⟨m0, enc m0, h0, L.enc_ne m0 h0, rfl⟩ [encodeAll enc ms] (by simp)

/-! ### T1 instances -/

theorem C10_wlb_split_insensitive : SplitInsensitive (Dec.ofParser wlb) encWlb okBytes :=
  C10_generic_split_insensitive (Lawful.ofParser wlb_lawful)

theorem C10_mapop_split_insensitive : SplitInsensitive (Dec.ofParser rawMapOp) encMapOp okMapOp :=
  C10_generic_split_insensitive (Lawful.ofParser rawMapOp_lawful)

theorem C10_mapmsg_split_insensitive : SplitInsensitive (Dec.ofParser rawMapMsg) encMapMsg okMapMsg :=
  C10_generic_split_insensitive (Lawful.ofParser rawMapMsg_lawful)

/-- `RawValueLaneRequestDecoder` against `RawValueLaneRequestEncoder`. -/
theorem C10_lane_request_value_split_insensitive :
    SplitInsensitive (laneRequest wlb) (encLaneReq encWlb) (okLaneReq okBytes) :=
  C10_generic_split_insensitive (laneRequest_lawful wlb_lawful)

/-- `RawMapLaneRequestDecoder` against `RawMapLaneRequestEncoder`. -/
theorem C10_lane_request_map_split_insensitive :
    SplitInsensitive (laneRequest rawMapMsg) (encLaneReq encMapMsg) (okLaneReq okMapMsg) :=
  C10_generic_split_insensitive (laneRequest_lawful rawMapMsg_lawful)

/-- `RawValueLaneResponseDecoder` against `RawValueLaneResponseEncoder`. -/
theorem C10_lane_response_value_split_insensitive :
    SplitInsensitive (laneResponse wlb) (encLaneResp encWlb) (okLaneResp okBytes) :=
  C10_generic_split_insensitive (laneResponse_lawful wlb_lawful)

/-- `RawMapLaneResponseDecoder` against `RawMapLaneResponseEncoder`. -/
theorem C10_lane_response_map_split_insensitive :
    SplitInsensitive (laneResponse rawMapOp) (encLaneResp encMapOp) (okLaneResp okMapOp) :=
  C10_generic_split_insensitive (laneResponse_lawful rawMapOp_lawful)

theorem C10_wlb_roundtrip (ms : List Bytes) (hok : ∀ m ∈ ms, okBytes m) :
    (run (Dec.ofParser wlb) [encodeAll encWlb ms]).items = ms :=
  (C10_generic_roundtrip (Lawful.ofParser wlb_lawful) [] (by simp [okBytes]) ms hok).1

theorem C10_lane_request_map_roundtrip (ms : List (LaneRequest MapMsg)) (hok : ∀ m ∈ ms, okLaneReq okMapMsg m) :
    (run (laneRequest rawMapMsg) [encodeAll (encLaneReq encMapMsg) ms]).items = ms :=
  (C10_generic_roundtrip (laneRequest_lawful rawMapMsg_lawful) .initComplete trivial ms hok).1

theorem C10_lane_response_map_roundtrip (ms : List (LaneResponse MapOp)) (hok : ∀ m ∈ ms, okLaneResp okMapOp m) :
    (run (laneResponse rawMapOp) [encodeAll (encLaneResp encMapOp) ms]).items = ms :=
  (C10_generic_roundtrip (laneResponse_lawful rawMapOp_lawful) .initialized trivial ms hok).1

/-! ### T2 instances: store protocol, downlink operations -/

/-- `RawValueStoreInitDecoder` / `RawMapStoreInitDecoder`. -/
theorem C10_store_init_value_split_insensitive :
    SplitInsensitive (storeInit wlb) (encStoreInit encWlb) (okStoreInit okBytes) :=
  C10_generic_split_insensitive (storeInit_lawful wlb_lawful)

theorem C10_store_init_map_split_insensitive :
    SplitInsensitive (storeInit rawMapMsg) (encStoreInit encMapMsg) (okStoreInit okMapMsg) :=
  C10_generic_split_insensitive (storeInit_lawful rawMapMsg_lawful)

theorem C10_store_initialized_split_insensitive :
    SplitInsensitive (Dec.ofParser storeInitialized) encStoreInitialized (fun _ => True) :=
  C10_generic_split_insensitive (Lawful.ofParser storeInitialized_lawful)

/-- `RawValueStoreResponseDecoder` / `RawMapStoreResponseDecoder` (with their `remaining() <= TAG_LEN` guard). -/
theorem C10_store_response_value_split_insensitive :
    SplitInsensitive (storeResponse wlb) (encStoreResp encWlb) okBytes :=
  C10_generic_split_insensitive (storeResponse_lawful wlb_lawful)

theorem C10_store_response_map_split_insensitive :
    SplitInsensitive (storeResponse rawMapOp) (encStoreResp encMapOp) okMapOp :=
  C10_generic_split_insensitive (storeResponse_lawful rawMapOp_lawful)

/-- `DownlinkOperationDecoder`. -/
theorem C10_downlink_operation_split_insensitive :
    SplitInsensitive (Dec.ofParser downlinkOp) encWlb okBytes :=
  C10_generic_split_insensitive (Lawful.ofParser downlinkOp_lawful)

/-- Routed request messages: `RawRequestMessageDecoder` against `RawRequestMessageEncoder`, for 16-byte origins,
valid UTF-8 node / lane names and frame sizes that fit the 61-bit length field. -/
theorem C10_raw_request_split_insensitive : SplitInsensitive (Dec.ofParser rawRequest) encReqMsg okReqMsg :=
  C10_generic_split_insensitive (Lawful.ofParser rawRequest_lawful)

/-- Routed response messages: `RawResponseMessageDecoder` against `RawResponseMessageEncoder`; `Unlinked(Some(b""))`
has the wire form of `Unlinked(None)` and is excluded by `okRespMsg`. -/
theorem C10_raw_response_split_insensitive : SplitInsensitive (Dec.ofParser rawResponse) encRespMsg okRespMsg :=
  C10_generic_split_insensitive (Lawful.ofParser rawResponse_lawful)

/-- Ad hoc command messages: `RawCommandMessageDecoder` against `RawCommandMessageEncoder` — `Register` (since
5ec6b4e), `Addressed`, `Registered`, with or without host; ids below 2^16, strings valid UTF-8. -/
theorem C10_command_split_insensitive : SplitInsensitive rawCommand encCmd okCmd :=
  C10_generic_split_insensitive rawCommand_lawful

/-! ### corrupt tags and lengths -/

/-- An unknown lane-request tag is an error (and exactly the tag byte is dropped). -/
theorem C10_lane_request_unknown_tag_is_error {β : Type} (p : Parser β) (t : Nat) (rest : List Nat)
    (h : t ≠ laneCommand ∧ t ≠ laneSync ∧ t ≠ laneInitDone) :
    laneReqStep p .header (t :: rest) = (.header, rest, .err) := by
  simp [laneReqStep, tagLen, h.1, h.2.1, h.2.2]

/-- An unknown lane-response tag is an error (nothing is consumed). -/
theorem C10_lane_response_unknown_tag_is_error {β : Type} (p : Parser β) (t : Nat) (rest : List Nat)
    (h : t ≠ laneEvent ∧ t ≠ laneInitialized ∧ t ≠ laneSync ∧ t ≠ laneSyncComplete) :
    laneRespStep p .header (t :: rest) = (.header, t :: rest, .err) := by
  simp [laneRespStep, tagLen, h.1, h.2.1, h.2.2.1, h.2.2.2]

/-- An unknown map-operation tag is an error. -/
theorem C10_map_operation_unknown_tag_is_error (n t : Nat) (rest : List Nat)
    (h : t ≠ mapUpdate ∧ t ≠ mapRemove ∧ t ≠ mapClear) :
    rawMapOp (be 8 n ++ t :: rest) = (be 8 n ++ t :: rest, .err) := by
  simp [rawMapOp, mapLenSize, mapTagSize, h.1, h.2.1, h.2.2]
  omega

/-- **No corrupt input makes a decoder panic or abort** (was false before cd6bc7e / 442681d: F4, F104): for each
of the 16 modelled decoders, every byte stream, however it is split into reads, ends every read in `more` or `err`
(or, vacuously for these decoders, `hang`) — never `panic`, never `abort`. -/
def C10_corrupt_is_error_stmt : Prop :=
  (∀ c, (run (Dec.ofParser wlb) c).status ≠ .panic ∧ (run (Dec.ofParser wlb) c).status ≠ .abort) ∧
  (∀ c, (run (Dec.ofParser rawMapOp) c).status ≠ .panic ∧ (run (Dec.ofParser rawMapOp) c).status ≠ .abort) ∧
  (∀ c, (run (Dec.ofParser rawMapMsg) c).status ≠ .panic ∧ (run (Dec.ofParser rawMapMsg) c).status ≠ .abort) ∧
  (∀ c, (run (laneRequest wlb) c).status ≠ .panic ∧ (run (laneRequest wlb) c).status ≠ .abort) ∧
  (∀ c, (run (laneRequest rawMapMsg) c).status ≠ .panic ∧ (run (laneRequest rawMapMsg) c).status ≠ .abort) ∧
  (∀ c, (run (laneResponse wlb) c).status ≠ .panic ∧ (run (laneResponse wlb) c).status ≠ .abort) ∧
  (∀ c, (run (laneResponse rawMapOp) c).status ≠ .panic ∧ (run (laneResponse rawMapOp) c).status ≠ .abort) ∧
  (∀ c, (run (storeInit wlb) c).status ≠ .panic ∧ (run (storeInit wlb) c).status ≠ .abort) ∧
  (∀ c, (run (storeInit rawMapMsg) c).status ≠ .panic ∧ (run (storeInit rawMapMsg) c).status ≠ .abort) ∧
  (∀ c, (run (Dec.ofParser storeInitialized) c).status ≠ .panic ∧
    (run (Dec.ofParser storeInitialized) c).status ≠ .abort) ∧
  (∀ c, (run (storeResponse wlb) c).status ≠ .panic ∧ (run (storeResponse wlb) c).status ≠ .abort) ∧
  (∀ c, (run (storeResponse rawMapOp) c).status ≠ .panic ∧ (run (storeResponse rawMapOp) c).status ≠ .abort) ∧
  (∀ c, (run (Dec.ofParser downlinkOp) c).status ≠ .panic ∧ (run (Dec.ofParser downlinkOp) c).status ≠ .abort) ∧
  (∀ c, (run (Dec.ofParser rawRequest) c).status ≠ .panic ∧ (run (Dec.ofParser rawRequest) c).status ≠ .abort) ∧
  (∀ c, (run (Dec.ofParser rawResponse) c).status ≠ .panic ∧ (run (Dec.ofParser rawResponse) c).status ≠ .abort) ∧
  (∀ c, (run rawCommand c).status ≠ .panic ∧ (run rawCommand c).status ≠ .abort)

theorem C10_corrupt_is_error : C10_corrupt_is_error_stmt :=
  ⟨run_safe (Dec.ofParser_safe wlb_safe), run_safe (Dec.ofParser_safe rawMapOp_safe),
   run_safe (Dec.ofParser_safe rawMapMsg_safe), run_safe (laneRequest_safe wlb_safe),
   run_safe (laneRequest_safe rawMapMsg_safe), run_safe (laneResponse_safe wlb_safe),
   run_safe (laneResponse_safe rawMapOp_safe), run_safe (storeInit_safe wlb_safe),
   run_safe (storeInit_safe rawMapMsg_safe), run_safe (Dec.ofParser_safe storeInitialized_safe),
   run_safe (storeResponse_safe wlb_safe), run_safe (storeResponse_safe rawMapOp_safe),
   run_safe (Dec.ofParser_safe downlinkOp_safe), run_safe (Dec.ofParser_safe rawRequest_safe),
   run_safe (Dec.ofParser_safe rawResponse_safe), run_safe rawCommand_safe⟩

/-- The former F4 / F104 witnesses are errors now (resp. a plain wait for the announced bytes). -/
theorem C10_overflowing_lengths_are_errors :
    (wlb [255, 255, 255, 255, 255, 255, 255, 252]).2 = .err ∧
    (rawMapOp ([0, 0, 0, 0, 0, 0, 0, 9, 0] ++ [255, 255, 255, 255, 255, 255, 255, 255])).2 = .err ∧
    (rawMapOp [255, 255, 255, 255, 255, 255, 255, 252, 0, 0, 0, 0, 0, 0, 0, 0, 1]).2 = .err ∧
    (downlinkOp [255, 255, 255, 255, 255, 255, 255, 252]).2 = .err ∧
    (downlinkOp [0, 4, 0, 0, 0, 0, 0, 0]).2 = .more := by
  decide

/-- **Unknown kinds and stray lengths of routed requests are errors** (was F17): on a frame with a well-formed
address, a kind other than link/sync/unlink/command, or a body-less kind with a non-zero length, is `Err`, and the
whole frame (its `len` body bytes included) is consumed. -/
theorem C10_raw_request_bad_kind_is_error (origin node lane rest : Bytes) (tag len : Nat)
    (A : OkAddr origin node lane) (hlen : len < OPSH) (htag : tag < 8) (hr : len ≤ rest.length)
    (hbad : (tag ≠ msgLink ∧ tag ≠ msgSync ∧ tag ≠ msgUnlink ∧ tag ≠ msgCommand) ∨ (tag ≠ msgCommand ∧ len ≠ 0)) :
    rawRequest (origin ++ (be 4 node.length ++ (be 4 lane.length ++ (be 8 (len + tag * OPSH) ++
        (node ++ (lane ++ rest)))))) = (rest.drop len, .err) := by
  rw [rawRequest_frame origin node lane rest tag len A hlen htag hr]
  rcases hbad with ⟨h1, h2, h3, h4⟩ | ⟨h4, h5⟩ <;> simp [*]

theorem C10_raw_response_bad_kind_is_error (origin node lane rest : Bytes) (tag len : Nat)
    (A : OkAddr origin node lane) (hlen : len < OPSH) (htag : tag < 8) (hr : len ≤ rest.length)
    (hbad : (tag ≠ msgLinked ∧ tag ≠ msgSynced ∧ tag ≠ msgUnlinked ∧ tag ≠ msgEvent) ∨
      (tag ≠ msgUnlinked ∧ tag ≠ msgEvent ∧ len ≠ 0)) :
    rawResponse (origin ++ (be 4 node.length ++ (be 4 lane.length ++ (be 8 (len + tag * OPSH) ++
        (node ++ (lane ++ rest)))))) = (rest.drop len, .err) := by
  rw [rawResponse_frame origin node lane rest tag len A hlen htag hr]
  rcases hbad with ⟨h1, h2, h3, h4⟩ | ⟨h3, h4, h5⟩ <;> simp [*]

/-- The former F17 witnesses: kind 6 on a request, a `link` announcing two body bytes. -/
theorem C10_request_unknown_tag_regression :
    rawRequest (be 16 7 ++ be 4 1 ++ be 4 1 ++ be 8 (3 + 6 * OPSH) ++ [110, 108] ++ [1, 2, 3]) = ([], .err) ∧
    rawRequest (be 16 7 ++ be 4 1 ++ be 4 1 ++ be 8 (2 + 0 * OPSH) ++ [110, 108] ++ [170, 187]) = ([], .err) := by
  decide

/-- The former F101 witness: a `Register` frame fed in two reads is delivered (fixed by 5ec6b4e). -/
theorem C10_command_register_split_regression :
    (run rawCommand [[1], (encCmd (.register ⟨none, [110], [108]⟩ 7)).drop 1]).items
      = [.register ⟨none, [110], [108]⟩ 7] := by
  decide

/-! ### a final frame with a zero-length body is decoded (nothing has to follow it) -/

/-- Split-insensitivity with nothing behind the last frame: the last message — whatever it is, in particular one
whose body is empty — is delivered by the read that brings its last byte, and the decoder is left empty. -/
theorem C10_final_frame_decoded {α : Type} {D : Dec α} {enc : α → List Nat} {ok : α → Prop}
    (S : SplitInsensitive D enc ok) (hne : ∀ m, ok m → enc m ≠ []) (ms : List α) (hok : ∀ m ∈ ms, ok m) (e : α)
    (he : ok e) (chunks : List (List Nat)) (hc : chunks.flatten = encodeAll enc (ms ++ [e])) :
    (run D chunks).items = ms ++ [e] ∧ (run D chunks).status = .more ∧
      D.view (run D chunks).s ++ (run D chunks).buf = [] :=
  S (ms ++ [e]) (by intro m hm; rcases List.mem_append.mp hm with h | h; exact hok m h; simp at h; subst h; exact he)
    [] ⟨e, enc e, he, hne e he, rfl⟩ chunks (by simpa using hc)

/-- **Every codec family decodes a final frame whose body / key / value is EMPTY**, under every chunking, after any
admissible messages: bytes body `[]`, map `update [] []` / `remove []`, lane `command` / `event` / `syncEvent` with an
empty body, store init / response, downlink operation, routed `command` / `event` with an empty body, ad hoc
`addressed` / `registered` with an empty body. (The 9-byte "tag + zero length" frame of the seeded mutant r3m1 is
the typed sibling of these; the typed decoders are exercised by the harness with `None` bodies in last position.) -/
theorem C10_empty_final_frame_decoded :
    (∀ ms, (∀ m ∈ ms, okBytes m) → ∀ c, c.flatten = encodeAll encWlb (ms ++ [[]]) →
      (run (Dec.ofParser wlb) c).items = ms ++ [[]]) ∧
    (∀ ms, (∀ m ∈ ms, okMapOp m) → ∀ c, c.flatten = encodeAll encMapOp (ms ++ [.update [] []]) →
      (run (Dec.ofParser rawMapOp) c).items = ms ++ [.update [] []]) ∧
    (∀ ms, (∀ m ∈ ms, okMapMsg m) → ∀ c, c.flatten = encodeAll encMapMsg (ms ++ [.op (.remove [])]) →
      (run (Dec.ofParser rawMapMsg) c).items = ms ++ [.op (.remove [])]) ∧
    (∀ ms, (∀ m ∈ ms, okLaneReq okBytes m) → ∀ c,
      c.flatten = encodeAll (encLaneReq encWlb) (ms ++ [.command []]) →
      (run (laneRequest wlb) c).items = ms ++ [.command []]) ∧
    (∀ ms, (∀ m ∈ ms, okLaneResp okBytes m) → ∀ c,
      c.flatten = encodeAll (encLaneResp encWlb) (ms ++ [.event []]) →
      (run (laneResponse wlb) c).items = ms ++ [.event []]) ∧
    (∀ ms, (∀ m ∈ ms, okLaneResp okMapOp m) → ∀ id, id.length = 16 → ∀ c,
      c.flatten = encodeAll (encLaneResp encMapOp) (ms ++ [.syncEvent id (.update [] [])]) →
      (run (laneResponse rawMapOp) c).items = ms ++ [.syncEvent id (.update [] [])]) ∧
    (∀ ms, (∀ m ∈ ms, okStoreInit okBytes m) → ∀ c,
      c.flatten = encodeAll (encStoreInit encWlb) (ms ++ [.command []]) →
      (run (storeInit wlb) c).items = ms ++ [.command []]) ∧
    (∀ ms, (∀ m ∈ ms, okBytes m) → ∀ c, c.flatten = encodeAll (encStoreResp encWlb) (ms ++ [[]]) →
      (run (storeResponse wlb) c).items = ms ++ [[]]) ∧
    (∀ ms, (∀ m ∈ ms, okBytes m) → ∀ c, c.flatten = encodeAll encWlb (ms ++ [[]]) →
      (run (Dec.ofParser downlinkOp) c).items = ms ++ [[]]) ∧
    (∀ ms, (∀ m ∈ ms, okReqMsg m) → ∀ e, okReqMsg e → e.env = .command [] → ∀ c,
      c.flatten = encodeAll encReqMsg (ms ++ [e]) → (run (Dec.ofParser rawRequest) c).items = ms ++ [e]) ∧
    (∀ ms, (∀ m ∈ ms, okRespMsg m) → ∀ e, okRespMsg e → e.env = .event [] → ∀ c,
      c.flatten = encodeAll encRespMsg (ms ++ [e]) → (run (Dec.ofParser rawResponse) c).items = ms ++ [e]) ∧
    (∀ ms, (∀ m ∈ ms, okCmd m) → ∀ a ow, OkCAddr a → ∀ c,
      c.flatten = encodeAll encCmd (ms ++ [.addressed a [] ow]) →
      (run rawCommand c).items = ms ++ [.addressed a [] ow]) ∧
    (∀ ms, (∀ m ∈ ms, okCmd m) → ∀ t ow, t < 65536 → ∀ c,
      c.flatten = encodeAll encCmd (ms ++ [.registered t [] ow]) →
      (run rawCommand c).items = ms ++ [.registered t [] ow]) := by
  have eb : okBytes [] := by simp [okBytes]
  refine ⟨?_, ?_, ?_, ?_, ?_, ?_, ?_, ?_, ?_, ?_, ?_, ?_, ?_⟩
  · intro ms h c hc
    exact (C10_final_frame_decoded C10_wlb_split_insensitive wlb_lawful.enc_ne ms h [] eb c hc).1
  · intro ms h c hc
    exact (C10_final_frame_decoded C10_mapop_split_insensitive rawMapOp_lawful.enc_ne ms h _
      (by simp [okMapOp]) c hc).1
  · intro ms h c hc
    exact (C10_final_frame_decoded C10_mapmsg_split_insensitive rawMapMsg_lawful.enc_ne ms h _
      (by simp [okMapMsg, okMapOp]) c hc).1
  · intro ms h c hc
    exact (C10_final_frame_decoded C10_lane_request_value_split_insensitive
      (laneRequest_lawful wlb_lawful).enc_ne ms h _ (by simpa [okLaneReq] using eb) c hc).1
  · intro ms h c hc
    exact (C10_final_frame_decoded C10_lane_response_value_split_insensitive
      (laneResponse_lawful wlb_lawful).enc_ne ms h _ (by simpa [okLaneResp] using eb) c hc).1
  · intro ms h id hid c hc
    exact (C10_final_frame_decoded C10_lane_response_map_split_insensitive
      (laneResponse_lawful rawMapOp_lawful).enc_ne ms h _ (by simp [okLaneResp, okMapOp, hid]) c hc).1
  · intro ms h c hc
    exact (C10_final_frame_decoded C10_store_init_value_split_insensitive
      (storeInit_lawful wlb_lawful).enc_ne ms h _ (by simpa [okStoreInit] using eb) c hc).1
  · intro ms h c hc
    exact (C10_final_frame_decoded C10_store_response_value_split_insensitive
      (storeResponse_lawful wlb_lawful).enc_ne ms h [] eb c hc).1
  · intro ms h c hc
    exact (C10_final_frame_decoded C10_downlink_operation_split_insensitive downlinkOp_lawful.enc_ne ms h [] eb c hc).1
  · intro ms h e he _ c hc
    exact (C10_final_frame_decoded C10_raw_request_split_insensitive rawRequest_lawful.enc_ne ms h e he c hc).1
  · intro ms h e he _ c hc
    exact (C10_final_frame_decoded C10_raw_response_split_insensitive rawResponse_lawful.enc_ne ms h e he c hc).1
  · intro ms h a ow A c hc
    exact (C10_final_frame_decoded C10_command_split_insensitive rawCommand_lawful.enc_ne ms h (.addressed a [] ow)
      (show OkCAddr a ∧ okBytes [] from ⟨A, eb⟩) c hc).1
  · intro ms h t ow ht c hc
    exact (C10_final_frame_decoded C10_command_split_insensitive rawCommand_lawful.enc_ne ms h (.registered t [] ow)
      (show t < 65536 ∧ okBytes [] from ⟨ht, eb⟩) c hc).1

/-! ### the length-delimited Recon body decoder resynchronises (typed codecs) -/

/-- **`WithLenRecognizerDecoder` never loses the frame boundary**: whatever the inner Recon decoder answers on the
slices it is shown (any sequence of "nothing yet" / value / error, any consumption), for every body length, every
body, everything that follows (`tail`) and EVERY chunking of `len ++ body ++ tail`: when the frame's outcome (a
value or an error) is reported, the buffer followed by the unread chunks is exactly `tail` — not a byte of the next
frame has been eaten, not a byte of the failed body is left (model: `Model/FrameDiscard.lean`; the discard
arithmetic of the source is pinned by `C10_discard_arms`, the behaviour of the real decoders under body corruption
is checked by the `typed-resync` engine). -/
theorem C10_with_len_recognizer_resyncs {β : Type} (o : Discard.Oracle β) (n : Nat) (body tail : List Nat)
    (hn : n < M64) (hb : body.length = n) (chunks : List (List Nat))
    (hc : chunks.flatten = be 8 n ++ (body ++ tail)) (out : Out β) (buf : List Nat) (rest : List (List Nat))
    (h : Discard.drive o ⟨.header, 0, []⟩ chunks = some (out, buf, rest)) :
    buf ++ rest.flatten = tail :=
  Discard.drive_ok o chunks ⟨.header, 0, []⟩ tail ⟨n, body, hn, hb, by simpa using hc⟩ out buf rest h

/-- …and a failed body IS reported as one error once its announced bytes have arrived (no hang in `Discarding`). -/
theorem C10_with_len_recognizer_discard_reports_error {β : Type} (o : Discard.Oracle β) (calls r : Nat)
    (buf : List Nat) (chunks : List (List Nat)) (hne : chunks ≠ []) (hlen : r ≤ (buf ++ chunks.flatten).length) :
    ∃ b rest, Discard.drive o ⟨.discarding r, calls, buf⟩ chunks = some (.err, b, rest) :=
  Discard.discard_reports o chunks calls r buf hne hlen

/-- The source still computes what the model computes when it starts discarding (`*remaining - rem`). -/
theorem C10_discard_arms : wlrDiscardArms = ["*remaining - rem"] ∧ dlNotDiscardArms = ["*remaining - rem"] := by
  decide

/-! ### side conditions on the generated table (re-checked against the sources on every run) -/

/-- Tags that share a decoder are pairwise distinct. -/
theorem C10_tags_distinct :
    [laneCommand, laneSync, laneInitDone].Nodup ∧
    [laneEvent, laneInitialized, laneSync, laneSyncComplete].Nodup ∧
    [mapUpdate, mapRemove, mapClear, mapTake, mapDrop].Nodup ∧
    [dlLinked, dlSynced, dlEvent, dlUnlinked].Nodup ∧
    [msgLink, msgSync, msgUnlink, msgCommand, msgLinked, msgSynced, msgUnlinked, msgEvent].Nodup ∧
    (∀ t ∈ [msgLink, msgSync, msgUnlink, msgCommand, msgLinked, msgSynced, msgUnlinked, msgEvent], t < 8) ∧
    [cmdRegistration, cmdRegistered, cmdHasHost, cmdOverwrite] = [1, 2, 4, 8] := by
  decide

/-- The decoders match exactly the arms the models mirror, and the sizes are the ones the models use. -/
theorem C10_tag_tables :
    laneRequestArms = ["COMMAND", "SYNC", "INIT_DONE"] ∧
    laneResponseArms = ["EVENT", "INITIALIZED", "SYNC", "SYNC_COMPLETE"] ∧
    rawMapOpArms = ["UPDATE", "REMOVE", "CLEAR"] ∧
    mapMessageArms = ["TAKE", "DROP", "_"] ∧
    storeInitArms = ["COMMAND", "INIT_DONE"] ∧
    rawRequestArms = ["LINK?", "SYNC?", "UNLINK?", "COMMAND", "_"] ∧
    rawResponseArms = ["LINKED?", "SYNCED?", "UNLINKED", "EVENT", "_"] ∧
    dlNotificationArms = ["LINKED", "SYNCED", "EVENT", "UNLINKED"] ∧
    [tagLen, idLen, tagSize, lenSize, mapLenSize, mapTagSize, wlbLenSize] = [1, 16, 1, 8, 8, 1, 8] ∧
    [opShift, headerInitLen] = [61, 32] ∧
    [cmdFlagsLen, cmdLenLen, cmdIdLen, cmdMinRequired, cmdMaxRequired] = [1, 8, 2, 16, 24] := by
  decide

/-! ### non-vacuity: admissible messages, incomplete frames and concrete chunked runs -/

example : okLaneReq okMapMsg (.command (.op (.update [1, 2] [3]))) := by
  simp [okLaneReq, okMapMsg, okMapOp]

example : Incomplete (encLaneReq encMapMsg) (okLaneReq okMapMsg) [0, 0, 0] :=
  ⟨.command (.op .clear), [0, 0, 0, 0, 0, 1, 2], trivial, by simp, by decide⟩

/-- three reads, cut inside the length and inside the next frame: both messages, one byte of a `Sync` pending -/
example : (run (laneRequest rawMapMsg) [[0, 0, 0, 0], [0, 0, 0, 0, 1, 2, 4], [1]]).items
      = [.command (.op .clear), .initComplete] ∧
    (run (laneRequest rawMapMsg) [[0, 0, 0, 0], [0, 0, 0, 0, 1, 2, 4], [1]]).buf = [1] := by decide

example : (run (laneResponse wlb) [[1, 9, 9, 9, 9, 9, 9, 9, 9], [9, 9, 9, 9, 9, 9, 9, 9, 0, 0, 0], [0, 0, 0, 0, 1, 7]]).items
    = [.syncEvent [9, 9, 9, 9, 9, 9, 9, 9, 9, 9, 9, 9, 9, 9, 9, 9] [7]] := by decide

example : okReqMsg ⟨be 16 7, [110], [108], .command [1, 2, 3]⟩ :=
  ⟨⟨by decide, by decide, by decide, by decide, by decide⟩, by decide⟩

example : okRespMsg ⟨be 16 7, [195, 169], [108], .unlinked none⟩ :=
  ⟨⟨by decide, by decide, by decide, by decide, by decide⟩, by decide, by decide⟩

example : (run (Dec.ofParser rawResponse)
      [(encRespMsg ⟨be 16 7, [110], [108], .event [5]⟩).take 33, (encRespMsg ⟨be 16 7, [110], [108], .event [5]⟩).drop 33]).items
    = [⟨be 16 7, [110], [108], .event [5]⟩] := by decide

example : okBytes [1, 2, 3] := by simp [okBytes]

/-- a final lane event with an empty body (tag + zero length = 9 bytes), last byte in its own read; and the typed
sibling: the abstract length-delimited decoder reports a value for a zero-length body as soon as the length is in -/
example : (run (laneResponse wlb) [[3, 0, 0, 0, 0, 0, 0, 0, 1, 7, 3, 0, 0, 0, 0, 0, 0, 0], [0]]).items
    = [.event [7], .event []] := by decide
example : Discard.drive (β := Nat) (fun _ sl eof => (0, if sl.isEmpty && eof then .some 0 else .none))
      ⟨.header, 0, []⟩ [[0, 0, 0, 0, 0, 0, 0], [0]] = some (.item 0, [], []) := by decide

/-- an inner decoder that fails on its first call having consumed one byte, body of 5 bytes cut after 2: the error
comes out with the second read and the buffer is exactly the next frame's first byte -/
example : Discard.drive (β := Nat) (fun _ _ _ => (1, .err)) ⟨.header, 0, []⟩
      [[0, 0, 0, 0, 0, 0, 0, 5, 65, 66], [67, 68, 69, 4]] = some (.err, [4], []) := by decide

example : okCmd (.register ⟨some [104], [110], [108]⟩ 7) :=
  ⟨⟨by decide, by decide, by decide, by decide, by intro h e; cases e; exact ⟨by decide, by decide⟩⟩, by decide⟩

/-- a `Register` with host, fed one byte at a time -/
example : (run rawCommand ((encCmd (.register ⟨some [104], [110], [108]⟩ 7)).map fun b => [b])).items
    = [.register ⟨some [104], [110], [108]⟩ 7] := by decide

end SwimVerif.Frames
