/-
C07 — a shared downlink serves every consumer a complete, ordered session.
Property theorems only; helper lemmas live in `Proofs/DownlinkRead.lean` and `Proofs/DownlinkWrite.lean`.

Quantifiers. Read task: every flavour (`single` = `SINGLE_FRAME_STATE`, `abort` = the bad-frame strategy), every
list of loop events `REv` (consumer attaches with any options, any remote notification incl. uninterpretable
frames, loop exit, a consumer dropping its reader at any point), consumer identifiers pairwise distinct.
Write task: every socket capacity and header size, every list of events `WEv` (registration, command, a command
stream ending, the remote reading any number of bytes, socket closed, request channel closed).
-/
import SwimVerif.Proofs.DownlinkRead
import SwimVerif.Proofs.DownlinkWrite
import SwimVerif.Proofs.DownlinkSys

set_option linter.unusedSimpArgs false
set_option linter.unusedVariables false
namespace SwimVerif.DL

/-- States of the read task reachable from its initial state. -/
def rreach (single abort : Bool) (evs : List REv) : RSt := (rrun (rinit single abort) evs).1

/-! ## T1 — read task: `consumer_session` -/

/-- **Session grammar.** Whatever the remote and the other consumers do, what consumer `c` receives is a word
of `[linked event* [synced event*]] [unlinked eof]` (accepted by the automaton `Phase.next`). -/
theorem C07_consumer_session (single abort : Bool) (evs : List REv) (hfresh : (attachIds evs).Nodup) (c : Nat) :
    (accepts .fresh (logOf c (rrun (rinit single abort) evs).2)).isSome := by
  obtain ⟨p, _, hp, _⟩ := pinv_run c evs (rinit single abort) .fresh false (pinv_init c single abort) (by simp) hfresh
  simp [hp]

/-- The no-consumer timeout is armed (= the next event is handled *inactive*) only when nobody is registered,
awaiting `synced` **or awaiting `linked`** (the last conjunct holds since c2208d5); so no consumer is ever skipped. -/
theorem C07_inactive_only_without_consumers (single abort : Bool) (evs : List REv) :
    (rreach single abort evs).timer = true →
      (rreach single abort evs).reg = [] ∧ (rreach single abort evs).aSynced = [] ∧
      (rreach single abort evs).aLinked = [] :=
  tinv_run evs (tinv_init single abort)

/-- **Every waiting consumer is linked when the link comes up** — whatever the remote sent before (an event or
`synced` ahead of `linked` used to swallow it: C07-F2, fixed by c2208d5). -/
theorem C07_waiting_consumer_linked (single abort : Bool) (evs : List REv) (x : Consumer)
    (hrun : (rreach single abort evs).stopped = false) (hx : x ∈ (rreach single abort evs).aLinked)
    (halive : (rreach single abort evs).alive x = true) :
    (x.id, Note.linked) ∈ (rstep (rreach single abort evs) (.msg .linked)).2 := by
  have ht : (rreach single abort evs).timer = false := by
    cases hb : (rreach single abort evs).timer with
    | false => rfl
    | true =>
      have := (C07_inactive_only_without_consumers single abort evs hb).2.2
      rw [this] at hx; simp at hx
  simp only [rstep, hrun, Bool.false_eq_true, ↓reduceIte, onMsg, onLinked, ht, notesTo, List.mem_flatMap,
    List.mem_filter, List.mem_map, List.mem_singleton]
  exact ⟨x, ⟨hx, halive⟩, .linked, rfl, rfl⟩

/-- **An ignored frame is not forwarded** (ignore strategy; it used to reach every consumer as an empty event:
C07-F3, fixed by 47607a1). -/
theorem C07_ignored_frame_not_forwarded (single : Bool) (evs : List REv) :
    (rstep (rreach single false evs) (.msg .badEvent)).2 = [] := by
  have ha : (rreach single false evs).abort = false := by unfold rreach; rw [abort_run]; rfl
  simp only [rstep, onMsg, ha]
  split <;> simp

/-- **`synced` hands over to the event stream**: when `c` is sent `synced` it is, from then on, registered
(and alive, and the task running). -/
theorem C07_synced_then_registered (single abort : Bool) (evs : List REv) (hfresh : (attachIds evs).Nodup)
    (ev : REv) (c : Nat) (h : Note.synced ∈ logOf c (rstep (rreach single abort evs) ev).2) :
    ∃ x, RegAt c (rstep (rreach single abort evs) ev).1 x ∧ (rstep (rreach single abort evs) ev).1.alive x = true
      ∧ (rstep (rreach single abort evs) ev).1.stopped = false := by
  obtain ⟨p, att, _, hinv⟩ :=
    pinv_run c evs (rinit single abort) .fresh false (pinv_init c single abort) (by simp) hfresh
  exact synced_registers ev hinv h

/-- The part of "every linked consumer that did not ask for a sync receives every event" that holds: a consumer
that was waiting when the remote's `linked` arrived and did not ask for SYNC is registered by that very step
(so `C07_registered_tail_exact` applies to it from then on); for the late joiner see
`C07_linked_nosync_gets_every_event`. -/
theorem C07_nosync_linked_then_registered (single abort : Bool) (evs : List REv) (hfresh : (attachIds evs).Nodup)
    (c : Nat) (h : Note.linked ∈ logOf c (rstep (rreach single abort evs) (.msg .linked)).2) :
    ∃ x, x ∈ (rreach single abort evs).aLinked ∧ x.id = c ∧
      (x.sync = false → RegAt c (rstep (rreach single abort evs) (.msg .linked)).1 x) ∧
      (rstep (rreach single abort evs) (.msg .linked)).1.alive x = true ∧
      (rstep (rreach single abort evs) (.msg .linked)).1.stopped = false := by
  obtain ⟨p, att, _, hinv⟩ :=
    pinv_run c evs (rinit single abort) .fresh false (pinv_init c single abort) (by simp) hfresh
  obtain ⟨x, h1, h2, h3, h4, h5⟩ := linked_registers_nosync hinv h
  exact ⟨x, h2, h3, h1, h4, h5⟩

/-- **Events after `synced` are exactly the remote's events, in order**: from any reachable state in which `c`
is registered, for every continuation in which `c` keeps its reader, `c` receives precisely `expectedTail`:
one `event b` per remote event `b` (an uninterpretable frame closes the link, or — ignore strategy — is
skipped), nothing for anything else, and `unlinked` + end of stream when the link closes. -/
theorem C07_registered_tail_exact (single abort : Bool) (pre post : List REv) (c : Nat) (x : Consumer)
    (hreg : RegAt c (rreach single abort pre) x) (halive : (rreach single abort pre).alive x = true)
    (hrun : (rreach single abort pre).stopped = false)
    (hkeep : ∀ e ∈ post, e ≠ .dropReader c) (hfresh : c ∉ attachIds post) :
    logOf c (rrun (rreach single abort pre) post).2 = expectedTail abort post := by
  have := registered_tail post (rreach single abort pre) x (tinv_run pre (tinv_init single abort)) hrun hreg halive
    hkeep hfresh
  rw [this]
  unfold rreach
  rw [abort_run]; rfl

/-- **Late joiner / sync consistency**: the `Synced` handler sends every live consumer that awaits it the
*latest* body the remote has sent (value flavour, if any event was seen) followed by `synced`. -/
theorem C07_synced_state_is_latest (single abort : Bool) (evs : List REv)
    (hrun : (rreach single abort evs).stopped = false) (hact : (rreach single abort evs).timer = false) :
    (onSynced (rreach single abort evs)).2 =
      notesTo ((rreach single abort evs).aSynced.filter (rreach single abort evs).alive)
        (if single && anyEvent evs false then [.event (lastBody evs (.raw [])), .synced] else [.synced]) := by
  have h := current_run evs (rinit single abort) hrun
  have hs := single_run (rinit single abort) evs
  unfold rreach at hact ⊢
  unfold onSynced
  simp only [hact, Bool.false_eq_true, ↓reduceIte, h.1, h.2, hs]
  rfl

/-! ### The three interpretations the runtime is built with (constants read from `interpretation/mod.rs`,
a missing `SINGLE_FRAME_STATE` meaning the trait default) -/

/-- Value downlinks are single-frame: the state is the last event. -/
theorem C07_value_interpretation_single_frame : Generated.dlValueSingleFrame = true := by decide

/-- Map downlinks — interpreted (`MapInterpretation`) **and passed through (`NoInterpretation`, map-event downlinks
of the server and self-decoding clients)** — are multi-frame: the state is made of all the events. -/
theorem C07_map_interpretations_multi_frame :
    Generated.dlMapSingleFrame = false ∧ Generated.dlRawSingleFrame = false := by decide

/-- **A multi-frame consumer that waits for its sync receives every event** (so that at `synced` it has the
whole state, not just the last frame): flavour `single = false`, consumer awaiting `synced`, reader alive, task
running. Instantiated for both map flavours by `C07_map_interpretations_multi_frame`. -/
theorem C07_multiframe_syncing_consumer_gets_every_event (abort : Bool) (evs : List REv) (x : Consumer) (b : Body)
    (hrun : (rreach false abort evs).stopped = false) (hx : x ∈ (rreach false abort evs).aSynced)
    (halive : (rreach false abort evs).alive x = true) :
    (x.id, Note.event b) ∈ (rstep (rreach false abort evs) (.msg (.event b))).2 := by
  have hsg : (rreach false abort evs).single = false := by unfold rreach; rw [single_run]; rfl
  have ht : (rreach false abort evs).timer = false := by
    cases hb : (rreach false abort evs).timer with
    | false => rfl
    | true =>
      have := (C07_inactive_only_without_consumers false abort evs hb).2.1
      rw [this] at hx; simp at hx
  simp only [rstep, hrun, Bool.false_eq_true, ↓reduceIte, onMsg, dispatch, ht, hsg, List.mem_append]
  right
  simp only [notesTo, List.mem_flatMap, List.mem_filter, List.mem_map, List.mem_singleton]
  exact ⟨x, ⟨hx, halive⟩, .event b, rfl, rfl⟩

/-- … and at `synced` a multi-frame consumer is sent `synced` alone (`sync_only`), never a single "current" frame. -/
theorem C07_multiframe_synced_alone (abort : Bool) (evs : List REv)
    (hrun : (rreach false abort evs).stopped = false) (hact : (rreach false abort evs).timer = false) :
    (onSynced (rreach false abort evs)).2 =
      notesTo ((rreach false abort evs).aSynced.filter (rreach false abort evs).alive) [.synced] := by
  have := C07_synced_state_is_latest false abort evs hrun hact
  simpa using this

/-- **`synced` only if asked** (the full statement; until 7d3b0a2 a consumer that attached late without SYNC was
also sent one: F8). -/
theorem C07_synced_only_if_asked (single abort : Bool) (evs : List REv) (ev : REv) (i : Nat)
    (h : (i, Note.synced) ∈ (rstep (rreach single abort evs) ev).2) :
    ∃ x ∈ (rreach single abort evs).aSynced, x.id = i ∧ x.sync = true := by
  obtain ⟨x, hx, hi⟩ := synced_only_to_awaiting ev h
  exact ⟨x, hx, hi, ainv_run evs (ainv_init single abort) x hx⟩

/-- **Every linked consumer that did not ask for a sync receives every event** — also the one that attached after
the link was up (F8, fixed by 7d3b0a2): if `x` attached without SYNC, kept its reader, has been sent `linked` and
the task is running, the next remote event is delivered to it. -/
theorem C07_linked_nosync_gets_every_event (single abort : Bool) (evs : List REv) (x : Consumer) (b : Body)
    (hfresh : (attachIds evs).Nodup) (hatt : REv.attach x ∈ evs) (hns : x.sync = false)
    (hkeep : REv.dropReader x.id ∉ evs)
    (hl : Note.linked ∈ logOf x.id (rrun (rinit single abort) evs).2) (hrun : (rreach single abort evs).stopped = false) :
    Note.event b ∈ logOf x.id (rstep (rreach single abort evs) (.msg (.event b))).2 := by
  have halive : (rreach single abort evs).alive x = true := by
    cases hb : (rreach single abort evs).alive x with
    | true => rfl
    | false =>
      have hd : x.id ∈ (rreach single abort evs).dead := by simpa [RSt.alive] using hb
      rcases dead_run evs _ _ hd with h | h
      · simp [rinit] at h
      · exact absurd h hkeep
  have hmem : x ∈ (rreach single abort evs).members :=
    members_run x evs (rinit single abort) (Or.inr hatt) hrun halive
  obtain ⟨p, att, hp, hinv⟩ :=
    pinv_run x.id evs (rinit single abort) .fresh false (pinv_init x.id single abort) (by simp) hfresh
  have hinv : PInv x.id (rreach single abort evs) p att := hinv
  have hsel : ∀ l : List Consumer, x ∈ l → x ∈ sel x.id l := fun l h => List.mem_filter.mpr ⟨h, by simp⟩
  rw [mem_members] at hmem
  have hreg : RegAt x.id (rreach single abort evs) x := by
    rcases hinv with ⟨h1, h2, h3, _⟩ | ⟨_, y, h1, h2, h3, h4⟩ | ⟨_, y, h1, h2, h3, _⟩ | ⟨_, y, h1, h2, h3, _⟩
    · rcases hmem with h | h | h
      · have := hsel _ h; rw [h1] at this; simp at this
      · have := hsel _ h; rw [h2] at this; simp at this
      · have := hsel _ h; rw [h3] at this; simp at this
    · -- still awaiting `linked`: then nothing has been received, contradicting `hl`
      subst h4
      have := accepts_fresh_nil hp
      rw [this] at hl; simp at hl
    · -- awaiting `synced`: only consumers that asked for it are
      rcases hmem with h | h | h
      · have := hsel _ h; rw [h1] at this; simp at this
      · have hs := ainv_run evs (ainv_init single abort) x h
        rw [hns] at hs; simp at hs
      · have := hsel _ h; rw [h3] at this; simp at this
    · rcases hmem with h | h | h
      · have := hsel _ h; rw [h1] at this; simp at this
      · have := hsel _ h; rw [h2] at this; simp at this
      · have hx := hsel _ h
        rw [h3] at hx
        have : x = y := by simpa using hx
        subst this
        exact ⟨h1, h2, h3⟩
  have ht : (rreach single abort evs).timer = false := regAt_timer hreg (tinv_run evs (tinv_init single abort))
  have key := dispatch_reg (s := { rreach single abort evs with syncEvent := true, current := b }) (c := x.id) (x := x)
    (by simpa [RegAt] using hreg) (by simpa [RSt.alive] using halive) ht
  have hstep : (rstep (rreach single abort evs) (.msg (.event b))).2
      = (dispatch { rreach single abort evs with syncEvent := true, current := b }).2 := by
    simp only [rstep, onMsg]
    rw [if_neg (by simp [hrun])]
  rw [hstep, key.1]; simp

def f8Trace : List REv :=
  [.attach { id := 0, sync := true, keep := true }, .msg .linked, .msg (.event (.raw [1])), .msg .synced,
   .attach { id := 1, sync := false, keep := true }, .msg (.event (.raw [2])),
   .attach { id := 2, sync := true, keep := false }]

/-! Non-vacuity: the hypotheses above are met by non-trivial reachable states. -/

example : (attachIds f8Trace).Nodup := by decide
example : Note.linked ∈ logOf 0 (rstep (rreach true true (f8Trace.take 1)) (.msg .linked)).2 := by decide
example : RegAt 0 (rreach true true (f8Trace.take 4)) { id := 0, sync := true, keep := true } := by
  unfold RegAt; decide
example : (rreach true true (f8Trace.take 4)).alive { id := 0, sync := true, keep := true } = true := by decide
example : Note.synced ∈ logOf 0 (rstep (rreach true true (f8Trace.take 3)) (.msg .synced)).2 := by decide
example : logOf 0 (rrun (rinit true true) (f8Trace ++ [.msg .synced, .msg (.event (.raw [3])), .msg .unlinked])).2
    = [.linked, .event (.raw [1]), .synced, .event (.raw [2]), .event (.raw [3]), .unlinked, .eof] := by decide
-- the late non-SYNC consumer 1 (the F8 witness): linked, then every event, no `synced`
example : logOf 1 (rrun (rinit true true) (f8Trace ++ [.msg .synced, .msg (.event (.raw [3])), .msg .unlinked])).2
    = [.linked, .event (.raw [2]), .event (.raw [3]), .unlinked, .eof] := by decide
-- the C07-F2 witness: an event ahead of `linked` no longer swallows it
example : logOf 0 (rrun (rinit true true) [.attach { id := 0, sync := true, keep := true }, .msg (.event (.raw [1])),
    .msg .linked, .msg .synced]).2 = [.linked, .event (.raw [1]), .synced] := by decide
-- the C07-F3 witness: an ignored frame is not forwarded
example : logOf 0 (rrun (rinit false false) [.attach { id := 0, sync := false, keep := true }, .msg .linked,
    .msg .badEvent, .msg (.event (.upd 1 [2]))]).2 = [.linked, .event (.upd 1 [2])] := by decide
example : REv.attach { id := 1, sync := false, keep := true } ∈ f8Trace.take 5 ∧
    Note.linked ∈ logOf 1 (rrun (rinit true true) (f8Trace.take 5)).2 := by decide
example : (rreach true true (f8Trace.take 2)).timer = false ∧ (rreach true true (f8Trace.take 2)).stopped = false := by
  decide
example : (rreach false false []).timer = true := by decide


/-! ## T2 — write task: `commands_order`, `only_superseded_dropped` -/

/-- States of the write task reachable from its initial state (socket capacity `cap`, frame header `hdr`). -/
def wreach (cap hdr : Nat) (evs : List WEv) : WSt := wrun (winit cap hdr) evs

/-- **Order, per key and across a clear** (`fl` = map flavour): at every moment, for every key `k`, the commands
relevant to `k` (its updates/removes and every `clear`; for a value lane every command) that are on the wire or
still waiting in the back-pressure buffer form a subsequence of the relevant commands issued — nothing is
reordered, duplicated or invented, nothing crosses a clear — and end with the same command — the newest command
for every key is never the one that is dropped. -/
theorem C07_commands_order (fl : Bool) (cap hdr : Nat) (evs : List WEv) (hfl : ∀ e ∈ evs, evOk fl e = true)
    (k : Option Nat) :
    (projKey k (line (wreach cap hdr evs))).Sublist (projKey k (wreach cap hdr evs).issued) ∧
    (projKey k (line (wreach cap hdr evs))).getLast? = (projKey k (wreach cap hdr evs).issued).getLast? :=
  (winv_wrun evs (winv_init fl cap hdr) hfl).rel k

/-- **Value lane**: the commands written (plus the one waiting, if any) are a subsequence of the commands
issued, ending with the last one issued. -/
theorem C07_commands_order_value (cap hdr : Nat) (evs : List WEv) (hfl : ∀ e ∈ evs, evOk false e = true) :
    (line (wreach cap hdr evs)).Sublist (wreach cap hdr evs).issued ∧
    (line (wreach cap hdr evs)).getLast? = (wreach cap hdr evs).issued.getLast? := by
  have h : WInv false (wreach cap hdr evs) := winv_wrun evs (winv_init false cap hdr) hfl
  have h1 : projKey none (wreach cap hdr evs).issued = (wreach cap hdr evs).issued := projKey_all_val none h.flav
  have h2 : projKey none (line (wreach cap hdr evs)) = line (wreach cap hdr evs) :=
    projKey_all_val none (fun c hc => h.flav c (h.mem c hc))
  have := h.rel none
  rw [h1, h2] at this
  exact this

/-- **No fabrication**: every command on the wire or waiting was issued by a consumer. -/
theorem C07_no_fabricated_command (fl : Bool) (cap hdr : Nat) (evs : List WEv) (hfl : ∀ e ∈ evs, evOk fl e = true) :
    ∀ c ∈ line (wreach cap hdr evs), c ∈ (wreach cap hdr evs).issued :=
  (winv_wrun evs (winv_init fl cap hdr) hfl).mem

/-- Back-pressure relief is used only while a write is pending: an `Idle` task has nothing waiting. -/
theorem C07_idle_nothing_waiting (fl : Bool) (cap hdr : Nat) (evs : List WEv) (hfl : ∀ e ∈ evs, evOk fl e = true)
    (hidle : (wreach cap hdr evs).mode = .idle) :
    line (wreach cap hdr evs) = sentCmds (wreach cap hdr evs) := by
  have h : WInv fl (wreach cap hdr evs) := winv_wrun evs (winv_init fl cap hdr) hfl
  obtain ⟨hv, hm⟩ := h.quiet (Or.inl hidle)
  simp [line, pendingCmds, hv, hm]

/-- **Only superseded commands are dropped**: once the task is `Idle` again, for every key the last relevant
command issued is the last relevant command written; so a command that was not written has a later command on
its key (or a later clear) that was. -/
theorem C07_only_superseded_dropped (fl : Bool) (cap hdr : Nat) (evs : List WEv)
    (hfl : ∀ e ∈ evs, evOk fl e = true) (hidle : (wreach cap hdr evs).mode = .idle) (k : Option Nat) :
    (projKey k (sentCmds (wreach cap hdr evs))).Sublist (projKey k (wreach cap hdr evs).issued) ∧
    (projKey k (sentCmds (wreach cap hdr evs))).getLast? = (projKey k (wreach cap hdr evs).issued).getLast? := by
  have := C07_commands_order fl cap hdr evs hfl k
  rw [C07_idle_nothing_waiting fl cap hdr evs hfl hidle] at this
  exact this

/-- **The lane ends in the same state as if everything had been sent** (map lane): once the task is `Idle`,
applying the commands written leaves every key with the value that applying all the commands issued would. -/
theorem C07_lane_state_is_fold_of_issued (cap hdr : Nat) (evs : List WEv) (hfl : ∀ e ∈ evs, evOk true e = true)
    (hidle : (wreach cap hdr evs).mode = .idle) (k : Nat) :
    lookupKey (foldCmds (sentCmds (wreach cap hdr evs))) k = lookupKey (foldCmds (wreach cap hdr evs).issued) k := by
  have h : WInv true (wreach cap hdr evs) := winv_wrun evs (winv_init true cap hdr) hfl
  have hl := C07_idle_nothing_waiting true cap hdr evs hfl hidle
  apply lookup_of_last_eq
  · intro c hc; exact h.flav c (h.mem c (by rw [hl]; exact hc))
  · exact h.flav
  · exact (C07_only_superseded_dropped true cap hdr evs hfl hidle (some k)).2

/-- The same for a value lane: the last value written is the last value issued. -/
theorem C07_lane_value_is_last_issued (cap hdr : Nat) (evs : List WEv) (hfl : ∀ e ∈ evs, evOk false e = true)
    (hidle : (wreach cap hdr evs).mode = .idle) :
    (sentCmds (wreach cap hdr evs)).getLast? = (wreach cap hdr evs).issued.getLast? := by
  have := (C07_commands_order_value cap hdr evs hfl).2
  rw [C07_idle_nothing_waiting false cap hdr evs hfl hidle] at this
  exact this

/-! ### A consumer that registers with SYNC gets its sync frame

`owed` (ghost) lists the registered consumers that asked for SYNC and for which no sync frame has been encoded since
their registration was taken. -/

/-- Taking a SYNC registration either encodes a sync frame in that very step or records the consumer as owed. -/
theorem C07_sync_registration_sends_or_owes (s s' : WSt) (id : Nat) (rest : List (Nat × Bool))
    (hq : s.regQ = (id, true) :: rest) (hm : wmicro s = some s') (htaken : s'.regQ = rest) :
    s'.sent = s.sent ++ [.sync] ∨ id ∈ s'.owed := by
  have hne : s.regQ ≠ rest := by rw [hq]; exact fun h => absurd (congrArg List.length h) (by simp)
  have hdq := drainBp_regQ s
  unfold wmicro at hm
  repeat' (split at hm)
  all_goals first
    | (cases hm; done)
    | (cases hm; simp_all [encode, stopW]; done)
    | (cases hm; exfalso; simp_all [encode, stopW]; done)
    | (cases hm; exfalso; apply hne; rw [← hdq]; exact htaken)

/-- A sync frame is owed only while the task is `Writing` with `NEEDS_SYNC` set (it is then encoded as soon as
the pending write completes, next theorem) — or the task has stopped — and only to consumers still registered. -/
theorem C07_sync_owed_only_while_writing (cap hdr : Nat) (evs : List WEv) :
    ((wreach cap hdr evs).owed ≠ [] →
      ((wreach cap hdr evs).mode = .writing ∧ (wreach cap hdr evs).needsSync = true) ∨ (wreach cap hdr evs).mode = .stopped)
    ∧ ∀ i ∈ (wreach cap hdr evs).owed, i ∈ (wreach cap hdr evs).producers :=
  oinv_wrun evs (oinv_init cap hdr)

/-- When the pending write completes with `NEEDS_SYNC` set, the next thing encoded is the sync frame. -/
theorem C07_owed_sync_sent_when_write_completes (s : WSt) (hmode : s.mode = .writing) (hn : s.needsSync = true)
    (hb : s.buf = 0) : ∃ s', wmicro s = some s' ∧ s'.sent = s.sent ++ [.sync] ∧ s'.owed = [] ∧ s'.needsSync = false := by
  refine ⟨encode { s with flushed := false, needsSync := false } .sync, ?_, rfl, rfl, rfl⟩
  simp [wmicro, hmode, hn, hb]

/-- **Once the task is `Idle`, every registered consumer that asked for SYNC has had a sync frame encoded after
its registration.** -/
theorem C07_sync_frame_sent_once_idle (cap hdr : Nat) (evs : List WEv) (hidle : (wreach cap hdr evs).mode = .idle) :
    (wreach cap hdr evs).owed = [] := by
  cases h : (wreach cap hdr evs).owed with
  | nil => rfl
  | cons a l =>
    have := (C07_sync_owed_only_while_writing cap hdr evs).1 (by rw [h]; simp)
    rw [hidle] at this; simp at this

/-! Non-vacuity: a 40-byte socket, 41-byte frames; commands 1, 2, 3 while the first is stuck: 2 is dropped. -/

def wTrace : List WEv :=
  [.drain 100, .register 0 true, .drain 100, .drain 100,
   .command 0 (.val [1]), .command 0 (.val [2]), .command 0 (.val [3])]

def drains : List WEv := [.drain 100, .drain 100, .drain 100]

example : ∀ e ∈ wTrace ++ drains, evOk false e = true := by decide
example : (wreach 40 41 wTrace).mode = .writing ∧ (wreach 40 41 wTrace).bpVal = some [3] := by decide
example : (wreach 40 41 (wTrace ++ drains)).mode = .idle := by decide
example : sentCmds (wreach 40 41 (wTrace ++ drains)) = [.val [1], .val [3]]
    ∧ (wreach 40 41 (wTrace ++ drains)).issued = [.val [1], .val [2], .val [3]] := by decide
-- F9 (fixed): an empty body issued last while a write is pending is still the one that is written
example : sentCmds (wreach 40 41 ([.drain 100, .register 0 true, .drain 100, .drain 100, .command 0 (.val [1]),
    .command 0 (.val [2]), .command 0 (.val [])] ++ drains)) = [.val [1], .val []] := by decide

-- consumer 1 registers with SYNC while the flush of a command is pending: owed, then sent
def oTrace : List WEv :=
  [.drain 100, .register 0 true, .drain 100, .drain 100, .command 0 (.val [1, 1, 1, 1, 1, 1, 1, 1]), .register 1 true]

example : (wreach 45 41 oTrace).owed = [1] ∧ (wreach 45 41 oTrace).mode = .writing := by decide
example : (wreach 45 41 (oTrace ++ drains)).owed = [] ∧ (wreach 45 41 (oTrace ++ drains)).mode = .idle ∧
    (wreach 45 41 (oTrace ++ drains)).sent = [.link, .sync, .cmd (.val [1, 1, 1, 1, 1, 1, 1, 1]), .sync] := by decide

def mTrace : List WEv :=
  [.drain 100, .register 0 true, .drain 100, .drain 100, .command 0 (.mp (.upd 1 [1])),
   .command 0 (.mp (.upd 2 [2])), .command 0 (.mp (.upd 1 [3])), .command 0 (.mp (.rem 2)),
   .drain 100, .drain 100, .drain 100, .drain 100, .drain 100]

example : ∀ e ∈ mTrace, evOk true e = true := by decide
-- `upd 2` is superseded in place by `rem 2`; `upd 1 [3]` keeps its place behind it
example : (wreach 40 41 mTrace).mode = .idle ∧
    sentCmds (wreach 40 41 mTrace) = [.mp (.upd 1 [1]), .mp (.rem 2), .mp (.upd 1 [3])] := by decide

/-! ## T3 — the composed runtime `Sys`: read task + write task + attachment task + kill switch

Quantifiers: both flavours, every socket capacity, node/lane length and bad-frame strategy, every list of ops of the
line protocol (`Op`: consumers attaching with any options, remote notifications and end of input, consumer commands,
the remote reading any number of bytes, consumers dropping either half of their channels, the stop trigger, the
socket closing), hence every interleaving of the two tasks' inputs and every moment at which the kill switch fires.
Method: a step of `Sys` projects to a short run of each task model (`sysStep_proj`: the op's own event, then `stop` /
`closeReq` from `couple`), so the task-level invariants and theorems above apply to `(sreach ..).r` and `(sreach ..).w`. -/

/-- States of the runtime reachable from a fresh runtime. -/
def sreach (mapFl : Bool) (cap node lane : Nat) (abort : Bool) (ops : List Op) : Sys :=
  sysRun (sysInit mapFl cap node lane abort) ops

/-- **Projection.** The read-task component of every reachable state of `Sys` is a reachable state of the read-task
model, under loop events with pairwise distinct consumer identifiers; the write-task component is a reachable state
of the write-task model, under inputs of the runtime's flavour. (So every theorem of T1 and T2 holds of them.) -/
theorem C07_sys_projects_to_tasks (mapFl : Bool) (cap node lane : Nat) (abort : Bool) (ops : List Op) :
    (sreach mapFl cap node lane abort ops).r =
      rreach (if mapFl then Generated.dlMapSingleFrame else Generated.dlValueSingleFrame) (if mapFl then abort else true)
        (sysREvs (sysInit mapFl cap node lane abort) ops) ∧
    (attachIds (sysREvs (sysInit mapFl cap node lane abort) ops)).Nodup ∧
    (sreach mapFl cap node lane abort ops).w =
      wreach cap (Generated.dlHeaderInitLen + node + lane) (.drain 0 :: sysWEvs (sysInit mapFl cap node lane abort) ops) ∧
    ((∀ op ∈ ops, opOk mapFl op = true) →
      ∀ e ∈ WEv.drain 0 :: sysWEvs (sysInit mapFl cap node lane abort) ops, evOk mapFl e = true) :=
  ⟨(sysRun_proj _ ops).1, (sysREvs_ids ops _).2, sysRun_w mapFl cap node lane abort ops, sysRun_w_ok mapFl _ ops⟩

/-- **(a) Session grammar in the composed runtime.** For every run of `Sys` and every consumer `c`, what `c` receives
— from the read task, from the kill switch unlinking everybody, or the bare end of its channel when it attached after
the attachment task had gone — is a word of `[linked event* [synced event*]] [unlinked eof] | eof`. -/
theorem C07_sys_consumer_session (mapFl : Bool) (cap node lane : Nat) (abort : Bool) (ops : List Op) (c : Nat) :
    (accepts .fresh (logOf c (sysNotes (sysInit mapFl cap node lane abort) ops))).isSome := by
  obtain ⟨p, hp, _⟩ := sinv_run ops _ .fresh (sinv_init c mapFl cap node lane abort)
  simp [hp]

/-- … `synced` only to a consumer that asked for it (`C07_synced_only_if_asked` lifted). -/
theorem C07_sys_synced_only_if_asked (mapFl : Bool) (cap node lane : Nat) (abort : Bool) (ops : List Op) (op : Op)
    (i : Nat) (h : (i, Note.synced) ∈ stepNotes (sreach mapFl cap node lane abort ops) op) :
    ∃ x ∈ (sreach mapFl cap node lane abort ops).r.aSynced, x.id = i ∧ x.sync = true := by
  obtain ⟨e, he⟩ := step_synced _ op i h
  rw [(C07_sys_projects_to_tasks mapFl cap node lane abort ops).1] at he ⊢
  exact C07_synced_only_if_asked _ _ _ e i he

/-- **(a) Registered-tail exactness in the composed runtime** (`C07_registered_tail_exact` lifted): from any
reachable state of `Sys` in which `c` is registered with the read task, for every continuation `post` in which `c`
keeps its reader, `c` receives exactly `expectedTail` of the loop events the read task sees during `post`
(`sysREvs`: per op its own event — a remote notification, an attach, a dropped reader, end of input — followed by
`stop` when the kill switch fires): one `event b` per remote event `b` in order, nothing else, and `unlinked` + end of
stream when the link closes, the remote input ends, the stop trigger fires or the write task has stopped. -/
theorem C07_sys_registered_tail_exact (mapFl : Bool) (cap node lane : Nat) (abort : Bool) (pre post : List Op)
    (c : Nat) (x : Consumer)
    (hreg : RegAt c (sreach mapFl cap node lane abort pre).r x)
    (halive : (sreach mapFl cap node lane abort pre).r.alive x = true)
    (hrun : (sreach mapFl cap node lane abort pre).r.stopped = false)
    (hkeep : ∀ op ∈ post, op ≠ .dropR c ∧ op ≠ .dropBoth c) :
    logOf c (sysNotes (sreach mapFl cap node lane abort pre) post) =
      expectedTail (if mapFl then abort else true) (sysREvs (sreach mapFl cap node lane abort pre) post) ∧
    logOf c (sysNotes (sysInit mapFl cap node lane abort) (pre ++ post)) =
      logOf c (sysNotes (sysInit mapFl cap node lane abort) pre) ++
        expectedTail (if mapFl then abort else true) (sysREvs (sreach mapFl cap node lane abort pre) post) := by
  have hproj := (C07_sys_projects_to_tasks mapFl cap node lane abort pre).1
  obtain ⟨p, _, hs⟩ := sinv_run (c := c) pre _ .fresh (sinv_init c mapFl cap node lane abort)
  have hcn : c < (sreach mapFl cap node lane abort pre).n := by
    rcases hs with ⟨_, hni, _⟩ | ⟨h, _⟩
    · have := hreg.2.2
      have h3 : sel c (sreach mapFl cap node lane abort pre).r.reg = [] := hni.2.2
      rw [h3] at this; cases this
    · exact h
  obtain ⟨k1, k2, k3⟩ := known_run post (sreach mapFl cap node lane abort pre) hcn
  have ht : TInv (sreach mapFl cap node lane abort pre).r := by
    rw [hproj]; exact tinv_run _ (tinv_init _ _)
  have hab : (sreach mapFl cap node lane abort pre).r.abort = (if mapFl then abort else true) := by
    rw [hproj]; unfold rreach; rw [abort_run]; rfl
  have key : logOf c (sysNotes (sreach mapFl cap node lane abort pre) post) =
      expectedTail (if mapFl then abort else true) (sysREvs (sreach mapFl cap node lane abort pre) post) := by
    rw [k1, registered_tail _ _ x ht hrun hreg halive (k3 hkeep) k2, hab]
  refine ⟨key, ?_⟩
  have happ : ∀ (a b : List Op) (s : Sys), sysNotes s (a ++ b) = sysNotes s a ++ sysNotes (sysRun s a) b := by
    intro a
    induction a with
    | nil => intro b s; rfl
    | cons o os ih => intro b s; simp [sysNotes, sysRun, ih, List.append_assoc]
  rw [happ, logOf_append]
  exact congrArg _ key

/-- **(b) Commands reach the socket in order, nothing invented** (`C07_commands_order`, `C07_no_fabricated_command`
lifted): in every reachable state of `Sys` (commands of the runtime's flavour), for every key `k` the relevant commands
on the wire or waiting in the back-pressure buffer are a subsequence of the relevant commands taken from the
consumers, ending with the same command; and every command taken from a consumer — hence every command on the wire —
is the command of a `cmd` op of some consumer. -/
theorem C07_sys_commands_order (mapFl : Bool) (cap node lane : Nat) (abort : Bool) (ops : List Op)
    (hfl : ∀ op ∈ ops, opOk mapFl op = true) (k : Option Nat) :
    (projKey k (line (sreach mapFl cap node lane abort ops).w)).Sublist
      (projKey k (sreach mapFl cap node lane abort ops).w.issued) ∧
    (projKey k (line (sreach mapFl cap node lane abort ops).w)).getLast? =
      (projKey k (sreach mapFl cap node lane abort ops).w.issued).getLast? ∧
    (∀ x ∈ (sreach mapFl cap node lane abort ops).w.issued, ∃ c, Op.cmd c x ∈ ops) ∧
    (∀ x ∈ line (sreach mapFl cap node lane abort ops).w, ∃ c, Op.cmd c x ∈ ops) := by
  obtain ⟨_, _, hw, hok⟩ := C07_sys_projects_to_tasks mapFl cap node lane abort ops
  have hissued : ∀ x ∈ (sreach mapFl cap node lane abort ops).w.issued, ∃ c, Op.cmd c x ∈ ops := by
    intro x hx
    rw [hw] at hx
    rcases wrun_issued _ _ x hx with h | ⟨id, h⟩
    · simp [winit, encode] at h
    · rcases List.mem_cons.mp h with h | h
      · cases h
      · exact ⟨id, sysWEvs_command ops _ id x h⟩
  have hmem : ∀ x ∈ line (sreach mapFl cap node lane abort ops).w, x ∈ (sreach mapFl cap node lane abort ops).w.issued := by
    rw [hw]; exact C07_no_fabricated_command mapFl cap _ _ (hok hfl)
  have := C07_commands_order mapFl cap (Generated.dlHeaderInitLen + node + lane)
    (.drain 0 :: sysWEvs (sysInit mapFl cap node lane abort) ops) (hok hfl) k
  rw [← hw] at this
  exact ⟨this.1, this.2, hissued, fun x hx => hissued x (hmem x hx)⟩

/-- **(b) Only superseded commands are dropped** (`C07_only_superseded_dropped` lifted): whenever the write task of
`Sys` is `Idle`, for every key the last relevant command taken from the consumers is the last relevant command
written to the socket — a command that was not written has a later one on its key (or a later clear) that was. -/
theorem C07_sys_only_superseded_dropped (mapFl : Bool) (cap node lane : Nat) (abort : Bool) (ops : List Op)
    (hfl : ∀ op ∈ ops, opOk mapFl op = true) (hidle : (sreach mapFl cap node lane abort ops).w.mode = .idle)
    (k : Option Nat) :
    (projKey k (sentCmds (sreach mapFl cap node lane abort ops).w)).Sublist
      (projKey k (sreach mapFl cap node lane abort ops).w.issued) ∧
    (projKey k (sentCmds (sreach mapFl cap node lane abort ops).w)).getLast? =
      (projKey k (sreach mapFl cap node lane abort ops).w.issued).getLast? := by
  obtain ⟨_, _, hw, hok⟩ := C07_sys_projects_to_tasks mapFl cap node lane abort ops
  rw [hw] at hidle ⊢
  exact C07_only_superseded_dropped mapFl cap _ _ (hok hfl) hidle k

/-- **(c) The sync frame is sent** (`C07_sync_frame_sent_once_idle` lifted): whenever the write task of `Sys` is
`Idle`, every registered consumer that asked for SYNC has had a sync frame encoded after its registration was taken;
and a sync frame is owed only while the task is `Writing` with `NEEDS_SYNC` (or has stopped). -/
theorem C07_sys_sync_sent_once_idle (mapFl : Bool) (cap node lane : Nat) (abort : Bool) (ops : List Op) :
    ((sreach mapFl cap node lane abort ops).w.mode = .idle → (sreach mapFl cap node lane abort ops).w.owed = []) ∧
    ((sreach mapFl cap node lane abort ops).w.owed ≠ [] →
      ((sreach mapFl cap node lane abort ops).w.mode = .writing ∧ (sreach mapFl cap node lane abort ops).w.needsSync = true)
        ∨ (sreach mapFl cap node lane abort ops).w.mode = .stopped) := by
  obtain ⟨_, _, hw, _⟩ := C07_sys_projects_to_tasks mapFl cap node lane abort ops
  rw [hw]
  exact ⟨C07_sync_frame_sent_once_idle cap _ _, (C07_sync_owed_only_while_writing cap _ _).1⟩

/-! Non-vacuity: a value downlink over a 64-byte socket; consumer 0 (SYNC) and the late consumer 1 (no SYNC); a
command; the stop trigger. And a 10-byte socket on which the `link` frame is stuck: the stop trigger ends the read
task while the write task is still `linking`, a consumer attaching then only sees its channel end. -/

def sysTrace : List Op :=
  [.attach true true, .drain 100, .remote .linked, .remote (.event (.raw [1])), .remote .synced,
   .attach false true, .cmd 0 (.val [7]), .drain 100, .drain 100, .remote (.event (.raw [2])), .stop]

example : ∀ op ∈ sysTrace, opOk false op = true := by decide
example : RegAt 0 (sreach false 64 1 1 true (sysTrace.take 5)).r { id := 0, sync := true, keep := true } ∧
    (sreach false 64 1 1 true (sysTrace.take 5)).r.alive { id := 0, sync := true, keep := true } = true ∧
    (sreach false 64 1 1 true (sysTrace.take 5)).r.stopped = false := by unfold RegAt; decide
example : ∀ op ∈ sysTrace.drop 5, op ≠ .dropR 0 ∧ op ≠ .dropBoth 0 := by decide
example : logOf 0 (sysNotes (sysInit false 64 1 1 true) sysTrace) =
    [.linked, .event (.raw [1]), .synced, .event (.raw [2]), .unlinked, .eof] := by decide
example : logOf 1 (sysNotes (sysInit false 64 1 1 true) sysTrace) = [.linked, .event (.raw [2]), .unlinked, .eof] := by
  decide
example : sysREvs (sreach false 64 1 1 true (sysTrace.take 5)) (sysTrace.drop 5) =
    [.attach { id := 1, sync := false, keep := true }, .msg (.event (.raw [2])), .stop] := by decide
example : (sreach false 64 1 1 true (sysTrace.take 10)).w.mode = .idle ∧
    (sreach false 64 1 1 true (sysTrace.take 10)).w.sent = [.link, .sync, .cmd (.val [7])] ∧
    (sreach false 64 1 1 true (sysTrace.take 10)).w.issued = [.val [7]] := by decide
example : (i, Note.synced) ∈ stepNotes (sreach false 64 1 1 true (sysTrace.take 4)) (.remote .synced) ↔ i = 0 := by
  have : stepNotes (sreach false 64 1 1 true (sysTrace.take 4)) (.remote .synced) =
      [(0, .event (.raw [1])), (0, .synced)] := by decide
  rw [this]; simp
example : sysNotes (sysInit false 10 1 1 true) [.attach true true, .stop, .attach false false] =
    [(0, .unlinked), (0, .eof), (1, .eof)] ∧
    (sreach false 10 1 1 true [.attach true true, .stop, .attach false false]).w.mode = .linking := by decide

end SwimVerif.DL
