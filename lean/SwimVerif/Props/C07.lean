/-
C07 — a shared downlink serves every consumer a complete, ordered session.
Property theorems only; helper lemmas live in `Proofs/DownlinkRead.lean` and `Proofs/DownlinkWrite.lean`.

Quantifiers. Read task: every flavour (`single` = `SINGLE_FRAME_STATE`, `abort` = the bad-frame strategy), every
list of loop events `REv` (consumer attaches with any options, any remote notification incl. uninterpretable
frames, loop exit, a consumer dropping its reader at any point), consumer identifiers pairwise distinct.
Write task: every socket capacity and header size, every list of events `WEv` (registration, command, a command
stream ending, the remote reading any number of bytes, socket closed, request channel closed).
-/
import SwimVerif.Proofs.DownlinkRead
import SwimVerif.Proofs.DownlinkWrite

set_option linter.unusedSimpArgs false
set_option linter.unusedVariables false
namespace SwimVerif.DL

/-- States of the read task reachable from its initial state. -/
def rreach (single abort : Bool) (evs : List REv) : RSt := (rrun (rinit single abort) evs).1

/-! ## T1 — read task: `consumer_session` -/

/-- **Session grammar.** Whatever the remote and the other consumers do, what consumer `c` receives is a word
of `[linked event* [synced event*]] [unlinked eof]` (accepted by the automaton `Phase.next`). -/
theorem C07_consumer_session (single abort : Bool) (evs : List REv) (hfresh : (attachIds evs).Nodup) (c : Nat) :
    (accepts .fresh (logOf c (rrun (rinit single abort) evs).2)).isSome := by
  obtain ⟨p, _, hp, _⟩ := pinv_run c evs (rinit single abort) .fresh false (pinv_init c single abort) (by simp) hfresh
  simp [hp]

/-- The no-consumer timeout is armed (= the next event is handled *inactive*) only when nobody is registered
or awaiting `synced`; so a registered consumer is never skipped. -/
theorem C07_inactive_only_without_consumers (single abort : Bool) (evs : List REv) :
    (rreach single abort evs).timer = true →
      (rreach single abort evs).reg = [] ∧ (rreach single abort evs).aSynced = [] :=
  tinv_run evs (tinv_init single abort)

/-- **`synced` hands over to the event stream**: when `c` is sent `synced` it is, from then on, registered
(and alive, and the task running). -/
theorem C07_synced_then_registered (single abort : Bool) (evs : List REv) (hfresh : (attachIds evs).Nodup)
    (ev : REv) (c : Nat) (h : Note.synced ∈ logOf c (rstep (rreach single abort evs) ev).2) :
    ∃ x, RegAt c (rstep (rreach single abort evs) ev).1 x ∧ (rstep (rreach single abort evs) ev).1.alive x = true
      ∧ (rstep (rreach single abort evs) ev).1.stopped = false := by
  obtain ⟨p, att, _, hinv⟩ :=
    pinv_run c evs (rinit single abort) .fresh false (pinv_init c single abort) (by simp) hfresh
  exact synced_registers ev hinv h

/-- The part of "every linked consumer that did not ask for a sync receives every event" that holds: a consumer
that was waiting when the remote's `linked` arrived and did not ask for SYNC is registered by that very step
(so `C07_registered_tail_exact` applies to it from then on). The late joiner is finding F8. -/
theorem C07_nosync_linked_then_registered (single abort : Bool) (evs : List REv) (hfresh : (attachIds evs).Nodup)
    (c : Nat) (h : Note.linked ∈ logOf c (rstep (rreach single abort evs) (.msg .linked)).2) :
    ∃ x, x ∈ (rreach single abort evs).aLinked ∧ x.id = c ∧
      (x.sync = false → RegAt c (rstep (rreach single abort evs) (.msg .linked)).1 x) ∧
      (rstep (rreach single abort evs) (.msg .linked)).1.alive x = true ∧
      (rstep (rreach single abort evs) (.msg .linked)).1.stopped = false := by
  obtain ⟨p, att, _, hinv⟩ :=
    pinv_run c evs (rinit single abort) .fresh false (pinv_init c single abort) (by simp) hfresh
  obtain ⟨x, h1, h2, h3, h4, h5⟩ := linked_registers_nosync hinv h
  exact ⟨x, h2, h3, h1, h4, h5⟩

/-- **Events after `synced` are exactly the remote's events, in order**: from any reachable state in which `c`
is registered, for every continuation in which `c` keeps its reader, `c` receives precisely `expectedTail`:
one `event b` per remote event `b` (an uninterpretable frame closes the link, or — ignore strategy — is
forwarded as an empty event), nothing for anything else, and `unlinked` + end of stream when the link closes. -/
theorem C07_registered_tail_exact (single abort : Bool) (pre post : List REv) (c : Nat) (x : Consumer)
    (hreg : RegAt c (rreach single abort pre) x) (halive : (rreach single abort pre).alive x = true)
    (hrun : (rreach single abort pre).stopped = false)
    (hkeep : ∀ e ∈ post, e ≠ .dropReader c) (hfresh : c ∉ attachIds post) :
    logOf c (rrun (rreach single abort pre) post).2 = expectedTail abort post := by
  have := registered_tail post (rreach single abort pre) x (tinv_run pre (tinv_init single abort)) hrun hreg halive
    hkeep hfresh
  rw [this]
  unfold rreach
  rw [abort_run]; rfl

/-- **Late joiner / sync consistency**: the `Synced` handler sends every live consumer that awaits it the
*latest* body the remote has sent (value flavour, if any event was seen) followed by `synced`. -/
theorem C07_synced_state_is_latest (single abort : Bool) (evs : List REv)
    (hrun : (rreach single abort evs).stopped = false) (hact : (rreach single abort evs).timer = false) :
    (onSynced (rreach single abort evs)).2 =
      notesTo ((rreach single abort evs).aSynced.filter (rreach single abort evs).alive)
        (if single && anyEvent evs false then [.event (lastBody evs (.raw [])), .synced] else [.synced]) := by
  have h := current_run evs (rinit single abort) hrun
  have hs := single_run (rinit single abort) evs
  unfold rreach at hact ⊢
  unfold onSynced
  simp only [hact, Bool.false_eq_true, ↓reduceIte, h.1, h.2, hs]
  rfl

/-- `synced` only if asked — the part that holds: `synced` goes only to consumers that asked for it **or
attached after the link was already up** (the second disjunct is finding F8). -/
theorem C07_synced_only_if_asked_partial (single abort : Bool) (evs : List REv) (ev : REv) (i : Nat)
    (h : (i, Note.synced) ∈ (rstep (rreach single abort evs) ev).2) :
    ∃ x ∈ (rreach single abort evs).aSynced, x.id = i ∧ (x.sync = true ∨ x.late = true) := by
  obtain ⟨x, hx, hi⟩ := synced_only_to_awaiting ev h
  exact ⟨x, hx, hi, ainv_run evs (ainv_init single abort) x hx⟩

/-- The full statement ("`synced` only to consumers that asked") is false of the current code (F8). -/
def C07_synced_only_if_asked : Prop :=
  ∀ (single abort : Bool) (evs : List REv) (ev : REv) (i : Nat), (attachIds evs).Nodup →
    (i, Note.synced) ∈ (rstep (rreach single abort evs) ev).2 →
    ∃ x ∈ (rreach single abort evs).aSynced, x.id = i ∧ x.sync = true

def f8Trace : List REv :=
  [.attach { id := 0, sync := true, keep := true }, .msg .linked, .msg (.event (.raw [1])), .msg .synced,
   .attach { id := 1, sync := false, keep := true }, .msg (.event (.raw [2])),
   .attach { id := 2, sync := true, keep := false }]

theorem C07_synced_only_if_asked_fails : ¬ C07_synced_only_if_asked := by
  intro h
  have := h true true f8Trace (.msg .synced) 1 (by decide) (by decide)
  revert this
  decide

/-- "Every linked consumer that did not ask for a sync receives every event" — false of the current code for a
consumer that attaches after `linked` (F8): it is parked in `awaiting_synced`. -/
def C07_linked_nosync_gets_every_event : Prop :=
  ∀ (single abort : Bool) (evs : List REv) (x : Consumer) (b : Body), (attachIds evs).Nodup →
    REv.attach x ∈ evs → x.sync = false → REv.dropReader x.id ∉ evs →
    Note.linked ∈ logOf x.id (rrun (rinit single abort) evs).2 → (rreach single abort evs).stopped = false →
    Note.event b ∈ logOf x.id (rstep (rreach single abort evs) (.msg (.event b))).2

theorem C07_linked_nosync_gets_every_event_fails : ¬ C07_linked_nosync_gets_every_event := by
  intro h
  have := h true true (f8Trace.take 5) { id := 1, sync := false, keep := true } (.raw [2]) (by decide) (by decide)
    rfl (by decide) (by decide) (by decide)
  revert this
  decide

/-! Non-vacuity: the hypotheses above are met by non-trivial reachable states. -/

example : (attachIds f8Trace).Nodup := by decide
example : Note.linked ∈ logOf 0 (rstep (rreach true true (f8Trace.take 1)) (.msg .linked)).2 := by decide
example : RegAt 0 (rreach true true (f8Trace.take 4)) { id := 0, sync := true, keep := true } := by
  unfold RegAt; decide
example : (rreach true true (f8Trace.take 4)).alive { id := 0, sync := true, keep := true } = true := by decide
example : Note.synced ∈ logOf 0 (rstep (rreach true true (f8Trace.take 3)) (.msg .synced)).2 := by decide
example : logOf 0 (rrun (rinit true true) (f8Trace ++ [.msg .synced, .msg (.event (.raw [3])), .msg .unlinked])).2
    = [.linked, .event (.raw [1]), .synced, .event (.raw [2]), .event (.raw [3]), .unlinked, .eof] := by decide
-- the late non-SYNC consumer 1: linked, nothing for event 2, then the state and an unrequested `synced`
example : logOf 1 (rrun (rinit true true) (f8Trace ++ [.msg .synced, .msg (.event (.raw [3])), .msg .unlinked])).2
    = [.linked, .event (.raw [2]), .synced, .event (.raw [3]), .unlinked, .eof] := by decide
example : (rreach true true (f8Trace.take 2)).timer = false ∧ (rreach true true (f8Trace.take 2)).stopped = false := by
  decide
example : (rreach false false []).timer = true := by decide


/-! ## T2 — write task: `commands_order`, `only_superseded_dropped` -/

/-- States of the write task reachable from its initial state (socket capacity `cap`, frame header `hdr`). -/
def wreach (cap hdr : Nat) (evs : List WEv) : WSt := wrun (winit cap hdr) evs

/-- **Order, per key and across a clear** (`fl` = map flavour): at every moment, for every key `k`, the commands
relevant to `k` (its updates/removes and every `clear`; for a value lane every command) that are on the wire or
still waiting in the back-pressure buffer form a subsequence of the relevant commands issued — nothing is
reordered, duplicated or invented, nothing crosses a clear — and end with the same command — the newest command
for every key is never the one that is dropped. -/
theorem C07_commands_order (fl : Bool) (cap hdr : Nat) (evs : List WEv) (hfl : ∀ e ∈ evs, evOk fl e = true)
    (k : Option Nat) :
    (projKey k (line (wreach cap hdr evs))).Sublist (projKey k (wreach cap hdr evs).issued) ∧
    (projKey k (line (wreach cap hdr evs))).getLast? = (projKey k (wreach cap hdr evs).issued).getLast? :=
  (winv_wrun evs (winv_init fl cap hdr) hfl).rel k

/-- **Value lane**: the commands written (plus the one waiting, if any) are a subsequence of the commands
issued, ending with the last one issued. -/
theorem C07_commands_order_value (cap hdr : Nat) (evs : List WEv) (hfl : ∀ e ∈ evs, evOk false e = true) :
    (line (wreach cap hdr evs)).Sublist (wreach cap hdr evs).issued ∧
    (line (wreach cap hdr evs)).getLast? = (wreach cap hdr evs).issued.getLast? := by
  have h : WInv false (wreach cap hdr evs) := winv_wrun evs (winv_init false cap hdr) hfl
  have h1 : projKey none (wreach cap hdr evs).issued = (wreach cap hdr evs).issued := projKey_all_val none h.flav
  have h2 : projKey none (line (wreach cap hdr evs)) = line (wreach cap hdr evs) :=
    projKey_all_val none (fun c hc => h.flav c (h.mem c hc))
  have := h.rel none
  rw [h1, h2] at this
  exact this

/-- **No fabrication**: every command on the wire or waiting was issued by a consumer. -/
theorem C07_no_fabricated_command (fl : Bool) (cap hdr : Nat) (evs : List WEv) (hfl : ∀ e ∈ evs, evOk fl e = true) :
    ∀ c ∈ line (wreach cap hdr evs), c ∈ (wreach cap hdr evs).issued :=
  (winv_wrun evs (winv_init fl cap hdr) hfl).mem

/-- Back-pressure relief is used only while a write is pending: an `Idle` task has nothing waiting. -/
theorem C07_idle_nothing_waiting (fl : Bool) (cap hdr : Nat) (evs : List WEv) (hfl : ∀ e ∈ evs, evOk fl e = true)
    (hidle : (wreach cap hdr evs).mode = .idle) :
    line (wreach cap hdr evs) = sentCmds (wreach cap hdr evs) := by
  have h : WInv fl (wreach cap hdr evs) := winv_wrun evs (winv_init fl cap hdr) hfl
  obtain ⟨hv, hm⟩ := h.quiet (Or.inl hidle)
  simp [line, pendingCmds, hv, hm]

/-- **Only superseded commands are dropped**: once the task is `Idle` again, for every key the last relevant
command issued is the last relevant command written; so a command that was not written has a later command on
its key (or a later clear) that was. -/
theorem C07_only_superseded_dropped (fl : Bool) (cap hdr : Nat) (evs : List WEv)
    (hfl : ∀ e ∈ evs, evOk fl e = true) (hidle : (wreach cap hdr evs).mode = .idle) (k : Option Nat) :
    (projKey k (sentCmds (wreach cap hdr evs))).Sublist (projKey k (wreach cap hdr evs).issued) ∧
    (projKey k (sentCmds (wreach cap hdr evs))).getLast? = (projKey k (wreach cap hdr evs).issued).getLast? := by
  have := C07_commands_order fl cap hdr evs hfl k
  rw [C07_idle_nothing_waiting fl cap hdr evs hfl hidle] at this
  exact this

/-- **The lane ends in the same state as if everything had been sent** (map lane): once the task is `Idle`,
applying the commands written leaves every key with the value that applying all the commands issued would. -/
theorem C07_lane_state_is_fold_of_issued (cap hdr : Nat) (evs : List WEv) (hfl : ∀ e ∈ evs, evOk true e = true)
    (hidle : (wreach cap hdr evs).mode = .idle) (k : Nat) :
    lookupKey (foldCmds (sentCmds (wreach cap hdr evs))) k = lookupKey (foldCmds (wreach cap hdr evs).issued) k := by
  have h : WInv true (wreach cap hdr evs) := winv_wrun evs (winv_init true cap hdr) hfl
  have hl := C07_idle_nothing_waiting true cap hdr evs hfl hidle
  apply lookup_of_last_eq
  · intro c hc; exact h.flav c (h.mem c (by rw [hl]; exact hc))
  · exact h.flav
  · exact (C07_only_superseded_dropped true cap hdr evs hfl hidle (some k)).2

/-- The same for a value lane: the last value written is the last value issued. -/
theorem C07_lane_value_is_last_issued (cap hdr : Nat) (evs : List WEv) (hfl : ∀ e ∈ evs, evOk false e = true)
    (hidle : (wreach cap hdr evs).mode = .idle) :
    (sentCmds (wreach cap hdr evs)).getLast? = (wreach cap hdr evs).issued.getLast? := by
  have := (C07_commands_order_value cap hdr evs hfl).2
  rw [C07_idle_nothing_waiting false cap hdr evs hfl hidle] at this
  exact this

/-! Non-vacuity: a 40-byte socket, 41-byte frames; commands 1, 2, 3 while the first is stuck: 2 is dropped. -/

def wTrace : List WEv :=
  [.drain 100, .register 0 true, .drain 100, .drain 100,
   .command 0 (.val [1]), .command 0 (.val [2]), .command 0 (.val [3])]

def drains : List WEv := [.drain 100, .drain 100, .drain 100]

example : ∀ e ∈ wTrace ++ drains, evOk false e = true := by decide
example : (wreach 40 41 wTrace).mode = .writing ∧ (wreach 40 41 wTrace).bpVal = some [3] := by decide
example : (wreach 40 41 (wTrace ++ drains)).mode = .idle := by decide
example : sentCmds (wreach 40 41 (wTrace ++ drains)) = [.val [1], .val [3]]
    ∧ (wreach 40 41 (wTrace ++ drains)).issued = [.val [1], .val [2], .val [3]] := by decide
-- F9 (fixed): an empty body issued last while a write is pending is still the one that is written
example : sentCmds (wreach 40 41 ([.drain 100, .register 0 true, .drain 100, .drain 100, .command 0 (.val [1]),
    .command 0 (.val [2]), .command 0 (.val [])] ++ drains)) = [.val [1], .val []] := by decide

def mTrace : List WEv :=
  [.drain 100, .register 0 true, .drain 100, .drain 100, .command 0 (.mp (.upd 1 [1])),
   .command 0 (.mp (.upd 2 [2])), .command 0 (.mp (.upd 1 [3])), .command 0 (.mp (.rem 2)),
   .drain 100, .drain 100, .drain 100, .drain 100, .drain 100]

example : ∀ e ∈ mTrace, evOk true e = true := by decide
-- `upd 2` is superseded in place by `rem 2`; `upd 1 [3]` keeps its place behind it
example : (wreach 40 41 mTrace).mode = .idle ∧
    sentCmds (wreach 40 41 mTrace) = [.mp (.upd 1 [1]), .mp (.rem 2), .mp (.upd 1 [3])] := by decide

end SwimVerif.DL
