/-
C06 — event handlers run one at a time, depth-first, in the documented order.

Quantifier: every handler program `h : H` (all terms of the handler language: effect / get / set / copy
(get→and_then→set) / map update, remove, clear, get / followed_by / and_then / Sequentially / Either / Option /
fail / stop / suspend, in every intermediate state of the real combinators), every lifecycle `P : Prog` (cyclic ones
included), every agent state `st` and every recursion bound `d`.

`run (trigD P d)`  = the code: `run_handler`'s loop over `HandlerAction::step` with the recursive call on
                     `TRIGGER_HANDLER` (Model/Handlers.lean);
`eval (refD P d)`  = the documented meaning: a change suspends the handler, the lane's handlers run to completion
                     (value lane: `on_event new` then `on_set prev new`; map lane: `on_update | on_remove | on_clear`),
                     then the handler resumes; a failure ends everything.
-/
import SwimVerif.Proofs.Handlers
import SwimVerif.Proofs.HandlersInv
import SwimVerif.Proofs.AssocList
import SwimVerif.Model.HandlersIO
import SwimVerif.Proofs.HandlersFlush
import SwimVerif.Proofs.HandlersMap

set_option linter.unusedVariables false
namespace SwimVerif.Handlers

/-! ### T1: the small-step machine computes the reference, for every program -/

/-- `run_handler` (small-step, every combinator state, recursion on triggers) = the big-step reference:
same final state, same trace, same outcome — also when the recursion bound is hit, so a non-terminating cascade of
the real code shows as `Err.depth` on both sides and nowhere else. -/
theorem C06_run_eq_reference (P : Prog) (d : Nat) (h : H) (st : St) :
    run (trigD P d) h st = eval (refD P d) h st := by
  rw [trigD_eq_refD]; exact run_eq_eval (refD P d) h st

/-- The loop never runs out of its own fuel: every `Continue` strictly shrinks the handler. -/
theorem C06_step_decreases (h : H) (st : St) (m : Option Mod) (hc : (step st h).2.2 = .cont m) :
    size (step st h).1 < size h := step_size h st m hc

/-- Setting a value lane: exactly one `on_event new` and then one `on_set prev new` run, before anything else, in the
state where the lane already holds `n` and its `previous` slot has been consumed; `prev` is the value the lane held
immediately before the `set` — whatever was in the slot. -/
theorem C06_prev_is_true_previous (P : Prog) (d : Nat) (l : Nat) (n : Int) (st : St) (v : VLane)
    (hl : l < nv) (hv : st.vals[l]? = some v) :
    run (trigD P (d + 1)) (.set l n) st =
      eval (refD P d)
        (.fby (bracket (.enEvent l n) (getH P.onEvent l) (.exEvent l))
              (bracket (.enSet l (some v.content) n) (getH P.onSet l) (.exSet l)))
        ({ st with vals := st.vals.set l { content := n, previous := none } }.addDirty (vid l)) := by
  rw [C06_run_eq_reference]
  have hlt := getElem?_lt _ _ _ hv
  simp only [eval]
  rw [refD_value P d l _ _ hl (by simp only [St.setV, hv, St.addDirty]; exact List.getElem?_set_self hlt)]
  simp only [St.setV, hv, St.addDirty, List.set_set, eval]

/-- Updating a map lane: exactly one `on_update k prev new`, `prev` being the entry held immediately before. -/
theorem C06_update_sees_true_previous (P : Prog) (d : Nat) (m k : Nat) (n : Int) (st : St) (x : MLane)
    (hmn : m < nm) (hm : st.maps[m]? = some x) :
    run (trigD P (d + 1)) (.mupd m k n) st =
      eval (refD P d) (bracket (.enUpd m k (alGet x.content k) n) (getH P.onUpd m) (.exUpd m))
        ({ st with maps := st.maps.set m { content := alSet x.content k n, previous := none } }.addDirty (mid m)) := by
  rw [C06_run_eq_reference]
  have hlt := getElem?_lt _ _ _ hm
  simp only [eval]
  rw [refD_map P d m _ _ _ hmn (by simp only [St.updM, hm, St.addDirty]; exact List.getElem?_set_self hlt) rfl]
  simp only [St.updM, hm, St.addDirty, List.set_set, mapHandler, alGet_alSet_same]

/-- Removing a present key: exactly one `on_remove k prev`. -/
theorem C06_remove_sees_true_previous (P : Prog) (d : Nat) (m k : Nat) (old : Int) (st : St) (x : MLane)
    (hmn : m < nm) (hm : st.maps[m]? = some x) (hk : alGet x.content k = some old) :
    run (trigD P (d + 1)) (.mrem m k) st =
      eval (refD P d) (bracket (.enRem m k old) (getH P.onRem m) (.exRem m))
        ({ st with maps := st.maps.set m { content := alErase x.content k, previous := none } }.addDirty (mid m)) := by
  rw [C06_run_eq_reference]
  have hlt := getElem?_lt _ _ _ hm
  simp only [eval]
  rw [refD_map P d m _ _ _ hmn (by simp only [St.remM, hm, hk, St.addDirty]; exact List.getElem?_set_self hlt) rfl]
  simp only [St.remM, hm, hk, St.addDirty, List.set_set, mapHandler]

/-- Removing an absent key changes nothing and (the slot being empty) triggers nothing. -/
theorem C06_remove_absent_triggers_nothing (P : Prog) (d : Nat) (m k : Nat) (st : St) (x : MLane)
    (hmn : m < nm) (hm : st.maps[m]? = some x) (hk : alGet x.content k = none) (hslot : x.previous = none) :
    run (trigD P d) (.mrem m k) st = (st.addDirty (mid m), .ok) := by
  rw [C06_run_eq_reference]
  simp only [eval]
  have h1 : (st.remM m k).addDirty (mid m) = st.addDirty (mid m) := by simp only [St.remM, hm, hk]
  rw [h1]
  exact refD_map_idle P d m (st.addDirty (mid m)) x hmn (by simpa [St.addDirty] using hm) hslot

/-- Clearing a map lane: exactly one `on_clear before`, with the contents held immediately before. -/
theorem C06_clear_sees_true_previous (P : Prog) (d : Nat) (m : Nat) (st : St) (x : MLane)
    (hmn : m < nm) (hm : st.maps[m]? = some x) :
    run (trigD P (d + 1)) (.mclr m) st =
      eval (refD P d) (bracket (.enClr m x.content) (getH P.onClr m) (.exClr m))
        ({ st with maps := st.maps.set m { content := [], previous := none } }.addDirty (mid m)) := by
  rw [C06_run_eq_reference]
  have hlt := getElem?_lt _ _ _ hm
  simp only [eval]
  rw [refD_map P d m _ _ _ hmn (by simp only [St.clrM, hm, St.addDirty]; exact List.getElem?_set_self hlt) rfl]
  simp only [St.clrM, hm, St.addDirty, List.set_set, mapHandler]

/-! ### depth-first: the interrupted handler resumes only after the consequence has run to completion -/

/-- `a.followed_by(b)` / `a.and_then(|_| b)`: all of `a` — including every handler its changes trigger — runs before
the first step of `b`, and `b` starts in the state they left (it observes their effects). -/
theorem C06_depth_first_then_resume (P : Prog) (d : Nat) (a b : H) (st : St) :
    run (trigD P d) (.fby a b) st = seqThen (run (trigD P d) a st) (run (trigD P d) b) ∧
    run (trigD P d) (.athen a b) st = seqThen (run (trigD P d) a st) (run (trigD P d) b) :=
  ⟨run_fby _ a b st, run_athen _ a b st⟩

/-! ### T2: a failure stops everything -/

/-- When a handler fails, nothing of what follows it is executed: the sequencing combinators return the state and
the error of the failed part unchanged. -/
theorem C06_fail_stops_everything (P : Prog) (d : Nat) (a b t : H) (st st' : St) (e : Err)
    (hf : run (trigD P d) a st = (st', .err e)) :
    run (trigD P d) (.fby a b) st = (st', .err e) ∧
    run (trigD P d) (.athen a b) st = (st', .err e) ∧
    run (trigD P d) (.seqCons a t) st = (st', .err e) ∧
    run (trigD P d) (.seqRun a t) st = (st', .err e) := by
  refine ⟨?_, ?_, ?_, ?_⟩
  · rw [run_fby, hf]; rfl
  · rw [run_athen, hf]; rfl
  · rw [run_seqCons, run_seqRun, hf]; rfl
  · rw [run_seqRun, hf]; rfl

/-- … and a failure inside a triggered lifecycle handler is the failure of the handler that made the change (so of
every handler it had interrupted, by the theorem above): nothing of the interrupted handler runs afterwards. -/
theorem C06_failure_propagates_to_interrupted (P : Prog) (d : Nat) (l : Nat) (n : Int) (st st' : St) (e : Err)
    (hf : trigD P d (vid l) ((st.setV l n).addDirty (vid l)) = (st', .err e)) (rest : H) :
    run (trigD P d) (.fby (.set l n) rest) st = (st', .err e) := by
  have h1 : run (trigD P d) (.set l n) st = (st', .err e) := by
    rw [run_eq_eval]; simp [eval, hf]
  rw [run_fby, h1]; rfl

/-- Failures never resume: the only outcomes are `ok` and the error of the first failing step; the loop's own fuel
is never the reason. -/
theorem C06_no_fuel_error (P : Prog) (d : Nat) (h : H) (st : St) :
    (run (trigD P d) h st).2 ≠ .err .fuel := by
  rw [trigD_eq_refD, run_eq_eval]; exact eval_no_fuel (refD P d) (refD_no_fuel P d) h st

/-! ### T2: termination measure — an acyclic lifecycle never reaches the recursion bound -/

/-- If the handlers of item `i` only modify items with a larger id (rank-decreasing) then, whatever the program and
the state, a recursion bound of `nItems` is never hit: the real recursion is at most `nItems` deep. -/
theorem C06_acyclic_no_depth (P : Prog) (hP : Acyclic P) (h : H) (st : St) (d : Nat) (hd : nItems ≤ d) :
    (run (trigD P d) h st).2 ≠ .err .depth := by
  rw [trigD_eq_refD, run_eq_eval]
  exact eval_no_depth P hP d 0 (by omega) h st (fun j _ => Nat.zero_le j)

/-! ### T2: the `previous` slot never survives the handler it belongs to -/

/-- Every `previous` slot is empty whenever a handler is at rest (before and after any run, successful or failed):
the value a change leaves there is consumed by the handlers of exactly that change — "exactly once per change". -/
theorem C06_slots_consumed (P : Prog) (d : Nat) (h : H) (st : St) (hs : SlotsEmpty st) :
    SlotsEmpty (run (trigD P d) h st).1 := by
  rw [trigD_eq_refD, run_eq_eval]
  exact eval_slots (refD P d) (refD_slots P d) h st hs

/-! ### T2: on_start first, on_stop last (agent main loop) -/

/-- Whatever the lifecycle does, the first thing an agent records is the entry of `on_start`. -/
theorem C06_on_start_first (P : Prog) : (start P).st.trace.getLast? = some (.enTop .start) :=
  start_first P

/-- `on_stop` is entered before anything else the shutdown records, and the agent is not running afterwards (so, by
the next theorem, nothing at all runs after it). -/
theorem C06_on_stop_last (a : Agent) (st : St) :
    (shutdown a st).phase ≠ .running ∧
    ∃ new, (shutdown a st).st.trace = new ++ (.enTop .stop :: st.trace) :=
  shutdown_last a st

/-- Once `on_stop` has run (phase `stopped`/`failed` reached through `shutdown`) the agent executes nothing more: every
further request leaves the agent untouched. -/
theorem C06_nothing_after_stop (a : Agent) (hp : a.phase ≠ .running) (line : String) :
    (apiLine (some a) line).1 = some a ∨ (∃ ps, words line = "agent" :: ps) := by
  exact apiLine_dead a hp line

/-! ### non-vacuity -/

/-- v0's `on_set` sets v1 (:= v0 + 1) whose `on_event` records effect 7; the command sets v0 and then reads v1. -/
def demoProg : Prog :=
  { onStart := .seqNil, onStop := .seqNil,
    onEvent := [.seqNil, .emit (.eff 7), .seqNil], onSet := [.copy 0 1 1, .seqNil, .seqNil],
    onUpd := [.seqNil, .seqNil], onRem := [.seqNil, .seqNil], onClr := [.seqNil, .seqNil] }

example : renderTrace (run (trigD demoProg 8) (.fby (setH 0 5) (.getLog 1)) St.init).1.trace
    = "ws0=5 <E0(5) >E0 <S0(0,5) ws1=6 <E1(6) e7 >E1 <S1(0,6) >S1 >S0 g1:6" := by decide

example : (run (trigD demoProg 8) (.fby (setH 0 5) (.getLog 1)) St.init).2 = .ok := by decide

/-- A failing `on_event` of v1 aborts the whole cascade: v0's `on_set` is never left, the reader never runs. -/
example : renderTrace (run (trigD { demoProg with onEvent := [.seqNil, .fail, .seqNil] } 8)
      (.fby (setH 0 5) (.getLog 1)) St.init).1.trace
    = "ws0=5 <E0(5) >E0 <S0(0,5) ws1=6 <E1(6)" := by decide

/-- A cyclic lifecycle: v0's `on_set` sets v0 again. -/
def cyclicProg : Prog := { demoProg with onSet := [.set 0 1, .seqNil, .seqNil] }

/-- The harness bracket: entry mark, body, exit mark (the exit only when the body succeeded). -/
theorem C06_eval_bracket (trig : Trig) (en ex : Ev) (body : H) (st : St) :
    eval trig (bracket en body ex) st = seqThen (eval trig body (st.log en)) (fun s => (s.log ex, .ok)) := by
  simp only [bracket, eval, seqThen, seqNext]

/-- Reference-level form of `C06_cyclic_reaches_any_bound`. -/
theorem C06_cyclic_eval : ∀ (d : Nat) (st : St) (n : Int) (v : VLane), st.vals[0]? = some v →
    (eval (refD cyclicProg d) (.set 0 n) st).2 = .err .depth := by
  intro d
  induction d with
  | zero =>
    intro st n v hv
    have hlt := getElem?_lt _ _ _ hv
    simp [eval, refD, consequence, St.setV, hv, St.addDirty, vid, nv, List.getElem?_set_self hlt]
  | succ d ih =>
    intro st n v hv
    have hlt := getElem?_lt _ _ _ hv
    have h := C06_prev_is_true_previous cyclicProg d 0 n st v (by decide) hv
    rw [C06_run_eq_reference] at h
    rw [h]
    have hx : ∀ (s : St) (w : VLane), s.vals[0]? = some w →
        (eval (refD cyclicProg d) (bracket (.enSet 0 (some v.content) n) (.set 0 1) (.exSet 0)) s).2 = .err .depth := by
      intro s w hw
      have := ih (s.log (.enSet 0 (some v.content) n)) 1 w (by simpa [St.log] using hw)
      rw [C06_eval_bracket]
      generalize eval (refD cyclicProg d) (.set 0 1) (s.log (.enSet 0 (some v.content) n)) = r at this ⊢
      obtain ⟨s', o⟩ := r
      simp only at this
      subst this
      rfl
    have hE : getH cyclicProg.onEvent 0 = .seqNil := rfl
    have hS : getH cyclicProg.onSet 0 = .set 0 1 := rfl
    rw [hE, hS]
    simp only [eval]
    rw [C06_eval_bracket]
    simp only [eval, seqThen]
    exact hx _ { content := n, previous := none } (by simp [St.addDirty, St.log, List.getElem?_set_self hlt])

/-- For a cyclic lifecycle the recursion bound is reached whatever it is: the only place where the model and the
reference stop short is where the real `run_handler` recursion would not terminate (it has no cycle detection). -/
theorem C06_cyclic_reaches_any_bound (d : Nat) (st : St) (n : Int) (v : VLane) (hv : st.vals[0]? = some v) :
    (run (trigD cyclicProg d) (.set 0 n) st).2 = .err .depth := by
  rw [C06_run_eq_reference]; exact C06_cyclic_eval d st n v hv

/-- A cyclic lifecycle (v0's `on_set` sets v0) is where — and the only way — the bound is reached. -/
example : (run (trigD { demoProg with onSet := [.set 0 1, .seqNil, .seqNil] } 2) (.set 0 5) St.init).2
    = .err .depth := by decide

example : Acyclic demoProg := by decide
example : SlotsEmpty St.init := by
  constructor <;> intro i v hi hv _ <;> simp [St.init, List.getElem?_replicate] at hv <;> (obtain ⟨_, rfl⟩ := hv; rfl)

/-! ### The write flush of the agent task never re-runs the handlers of a value or map lane (exactly once)

`run_agent` ends every iteration of its loop with the flush of `dirty_items`; a write it starts completes later, when
the runtime has read the lane's output (`TaskEvent::WriteComplete`), and **only a write started for a
`WriteResult::RequiresEvent`** makes the loop ask the lifecycle for the item's event handler again. -/

/-- Only the `RequiresEvent` arm of the flush hands `requires_event = true` to `do_write` (closed table regenerated
from `agent_model/mod.rs`), and among the `write_to_buffer`s of `swimos_agent` only the demand-map lane's mentions
`RequiresEvent`. -/
theorem C06_only_requires_event_is_redispatched :
    (∀ r : Option WriteResult, (flushArm r).event = true ↔ r = some .requiresEvent) ∧
    Generated.requiresEventSources = ["lanes/demand_map/mod.rs"] :=
  ⟨flushArm_event, by decide⟩

/-- `write_to_buffer` of a value, map or command lane never answers `RequiresEvent` — in any state of its dirty flag,
sync queue or operation queue — and the modelled results are exactly the ones occurring in the sources. -/
theorem C06_value_and_map_lanes_never_require_event :
    (∀ w : Wr, w.plain = true → w.write.2 ≠ .requiresEvent) ∧
    (∀ d s, (Wr.value d s).write.2.name ∈ Generated.valueLaneWriteResults) ∧
    (∀ q, (Wr.map q).write.2.name ∈ Generated.mapLaneWriteResults) ∧
    (∀ d p, (Wr.command d p).write.2.name ∈ Generated.commandLaneWriteResults) ∧
    (∀ p m, (Wr.demandMap p m).write.2.name ∈ Generated.demandMapLaneWriteResults) := by
  refine ⟨fun w h => (write_plain w h).2, ?_, ?_, ?_, ?_⟩
  · intro d s
    cases s with
    | zero => cases d <;> simp [Wr.write, WriteResult.name, Generated.valueLaneWriteResults]
    | succ s =>
      simp only [Wr.write]; split <;> simp [WriteResult.name, Generated.valueLaneWriteResults]
  · intro q
    cases q with
    | zero => simp [Wr.write, WriteResult.name, Generated.mapLaneWriteResults]
    | succ q => simp only [Wr.write]; split <;> simp [WriteResult.name, Generated.mapLaneWriteResults]
  · intro d p
    cases d <;> cases p <;> simp [Wr.write, WriteResult.name, Generated.commandLaneWriteResults]
  · intro p m
    cases p <;> cases m <;> simp [Wr.write, WriteResult.name, Generated.demandMapLaneWriteResults]

/-- **Exactly once, whatever the runtime reads and whenever.** Take an agent whose items are value, map and command
lanes with no re-dispatching write in flight (`Quiet`; true initially). Then ANY interleaving of flushes (with any
`dirty_items`), write completions (the runtime reading any lane's output at any time) and write-side changes made by
handlers (sets, syncs, map operations: any new state of the dirty flag / sync queue / operation queue) dispatches no
lifecycle event: the agent state seen by handlers and the trace are untouched, for every `dispatch`. So the handlers
of a change run once — when `run_handler` sees the `Modification` — and never again when the change's event is written. -/
theorem C06_flush_triggers_nothing_for_value_and_map_lanes (dispatch : Trig) (io : WSide) (st : St)
    (evs : List IOEv) (hq : io.Quiet) (he : ∀ e ∈ evs, e.plain = true) :
    (io.run dispatch st evs).2 = (st, .ok) ∧ (io.run dispatch st evs).1.Quiet :=
  run_quiet dispatch io st evs hq he

/-- … in particular from the initial write side of the harness agent (3 value lanes, 2 map lanes, 1 command lane). -/
theorem C06_flush_triggers_nothing_from_start (dispatch : Trig) (st : St) (evs : List IOEv)
    (he : ∀ e ∈ evs, e.plain = true) : (WSide.init.run dispatch st evs).2 = (st, .ok) :=
  (run_quiet dispatch WSide.init st evs init_quiet he).1

/-- `item_event` of a value lane ALWAYS builds a handler (`on_event(v)` then `on_set(slot, v)`), also when nothing
changed: a dispatch the flush should not make is not silent — it shows as a second `on_event`/`on_set` with an empty
previous value (what the monitor reports as `spurious-trigger`). -/
theorem C06_value_item_event_is_never_silent (P : Prog) (l : Nat) (st : St) (v : VLane) (hl : l < nv)
    (hv : st.vals[l]? = some v) :
    (consequence P l st).2 =
      some (.ok (.fby (bracket (.enEvent l v.content) (getH P.onEvent l) (.exEvent l))
                      (bracket (.enSet l v.previous v.content) (getH P.onSet l) (.exSet l)))) := by
  simp [consequence, hl, hv]

/-- The legitimate case: a demand-map lane that has written its pending entry and has more keys queued answers
`RequiresEvent`; the item leaves `dirty_items`, and when that write completes exactly the item's lifecycle event is
dispatched (`on_cue_key` of the next key). -/
theorem C06_requires_event_redispatches (dispatch : Trig) (io : WSide) (id : Nat) (st : St)
    (h : io.items[id]? = some { wr := .demandMap true true, away := none }) :
    (io.flushOne id).2 = false ∧ ((io.flushOne id).1.complete dispatch id st).2 = dispatch id st := by
  have hlt := getElem?_lt _ _ _ h
  have hf : io.flushOne id = (io.setItem id { wr := .demandMap false true, away := some true }, false) := by
    simp [WSide.flushOne, h, Wr.write, flushArm, Generated.flushRequiresEventPush, Generated.flushRequiresEventEvent,
      Generated.flushRequiresEventRetain]
  rw [hf]
  refine ⟨rfl, ?_⟩
  simp [WSide.complete, WSide.setItem, List.getElem?_set_self hlt]

/-- `rd` of the executable model (the runtime reads the output of some lanes, `k` rounds): with nothing suspended it
runs no handler — lane contents, slots, trace, phase unchanged — and keeps the write side quiet. -/
theorem C06_reads_run_no_handler (ids : List Nat) (k : Nat) (x : AgentIO) (hq : x.io.Quiet)
    (hs : x.agent.st.susp = []) :
    sameView (x.readRounds ids k).agent x.agent ∧ (x.readRounds ids k).io.Quiet :=
  readRounds_view ids k x hq hs

/-- A sync request runs `ValueLaneSync` / `MapLaneSync`, whose `Modification` is `no_trigger` (flags regenerated from
the sources): `run_handler` marks the item dirty and triggers nothing. -/
theorem C06_sync_triggers_nothing (trig : Trig) (id : Nat) (st : St) :
    afterMod trig (some { item := id, dirty := Generated.valueSyncDirty, trigger := Generated.valueSyncTrigger }) st
      = (st.addDirty id, .ok) ∧
    afterMod trig (some { item := id, dirty := Generated.mapSyncDirty, trigger := Generated.mapSyncTrigger }) st
      = (st.addDirty id, .ok) := by
  simp [afterMod, Generated.valueSyncDirty, Generated.valueSyncTrigger, Generated.mapSyncDirty,
    Generated.mapSyncTrigger]

/-! ### `transform_entry`: the triggered handler and its true previous entry, in all four arms -/

/-- `HandlerContext::transform_entry(lane, k, f)` on a map lane holding `x`:
* `f` returns a value (entry present: replace; entry ABSENT: insert) ⇒ exactly one `on_update k prev new` runs at once,
  `prev` being the entry held immediately before — `none` for an insertion —, in the state where the lane holds the new
  value and the slot is consumed;
* `f` returns `None` for a present entry ⇒ exactly one `on_remove k old`;
* `f` returns `None` for an absent entry ⇒ nothing changes, nothing runs, nothing is marked dirty. -/
theorem C06_transform_entry_sees_true_previous (P : Prog) (d : Nat) (m k : Nat) (f : Xf) (st : St) (x : MLane)
    (hmn : m < nm) (hm : st.maps[m]? = some x) :
    (∀ v2, f.app (alGet x.content k) = some v2 →
      run (trigD P (d + 1)) (.mxf m k f) st =
        eval (refD P d) (bracket (.enUpd m k (alGet x.content k) v2) (getH P.onUpd m) (.exUpd m))
          ({ st with maps := st.maps.set m { content := alSet x.content k v2, previous := none } }.addDirty (mid m))) ∧
    (∀ old, alGet x.content k = some old → f.app (some old) = none →
      run (trigD P (d + 1)) (.mxf m k f) st =
        eval (refD P d) (bracket (.enRem m k old) (getH P.onRem m) (.exRem m))
          ({ st with maps := st.maps.set m { content := alErase x.content k, previous := none } }.addDirty (mid m))) ∧
    (alGet x.content k = none → f.app none = none → run (trigD P d) (.mxf m k f) st = (st, .ok)) := by
  have hr := readM_of st m x hm
  refine ⟨?_, ?_, ?_⟩
  · intro v2 hf
    rw [run_mxf_update _ m k f st v2 (by rw [hr]; exact hf)]
    exact C06_update_sees_true_previous P d m k v2 st x hmn hm
  · intro old hk hf
    rw [run_mxf_remove _ m k f st old (by rw [hr, hk]; exact hf) (by rw [hr]; exact hk)]
    exact C06_remove_sees_true_previous P d m k old st x hmn hm hk
  · intro hk hf
    exact run_mxf_nochange _ m k f st (by rw [hr, hk]; exact hf) (by rw [hr]; exact hk)

/-- All four arms are reachable with the closures of the harness (so none of the cases above is vacuous). -/
theorem C06_transform_entry_arms (d n old : Int) :
    (Xf.inc d).app none = some d ∧ (Xf.inc d).app (some old) = some (old + d) ∧
    Xf.del.app (some old) = none ∧ Xf.del.app none = none ∧
    (Xf.bump d).app (some old) = some (old + d) ∧ (Xf.bump d).app none = none ∧
    (Xf.flip n).app (some old) = none ∧ (Xf.flip n).app none = some n := by
  simp [Xf.app]

/-! ### `@drop(n)` / `@take(n)`: removals one at a time, in ascending key order -/

/-- A take/drop command executed in state `st` on map lane `m`:
* the keys it removes are, in this order, the first `n` (drop) resp. all but the first `n` (take) of the keys of the
  map sorted in ascending key order (numeric: 2 before 10); they are keys of the map;
* `MapLaneRemoveMultiple` with keys `k :: rest` is: the single removal `MapLaneRemove k` **run to completion** — i.e.
  (by `C06_remove_sees_true_previous`) `on_remove k old` and everything it triggers, in the state left by the removals
  before it — and only then the remaining keys `rest`, in order; a failure ends the whole command;
* altogether the command computes the reference `evalRem` over the sorted keys. -/
theorem C06_drop_take_removals_in_key_order (P : Prog) (d : Nat) (m : Nat) (drop : Bool) (n : Nat) (st : St) :
    (dropTakeKeys (st.readM m) drop n).Pairwise (· ≤ ·) ∧
    (∀ k ∈ dropTakeKeys (st.readM m) drop n, k ∈ (st.readM m).map (·.1)) ∧
    dropTakeKeys (st.readM m) true n ++ dropTakeKeys (st.readM m) false n = sortNat ((st.readM m).map (·.1)) ∧
    (∀ k rest s, run (trigD P d) (.remMulti m (k :: rest)) s =
        seqThen (run (trigD P d) (.mrem m k) s) (run (trigD P d) (.remMulti m rest))) ∧
    (∀ s, run (trigD P d) (.remMulti m []) s = (s, .ok)) ∧
    run (trigD P d) (dropTakeH st m drop n) st = evalRem (refD P d) m (dropTakeKeys (st.readM m) drop n) st := by
  refine ⟨dropTakeKeys_sorted _ _ _, dropTakeKeys_mem _ _ _, dropTakeKeys_split _ _, ?_, ?_, ?_⟩
  · intro k rest s
    rw [run_remMulti_cons]
    have : run (trigD P d) (.mrem m k) s = trigD P d (mid m) ((s.remM m k).addDirty (mid m)) := by
      rw [run_eq_eval]; rfl
    rw [this]
  · intro s; exact run_remMulti_nil _ m s
  · rw [C06_run_eq_reference]; rfl

/-- Key order is numeric, not textual: from `{10, 2, 1}` `Drop(2)` removes 1 then 2, `Take(1)` removes 2 then 10. -/
example : dropTakeKeys [(10, 5), (2, 6), (1, 7)] true 2 = [1, 2] ∧ dropTakeKeys [(10, 5), (2, 6), (1, 7)] false 1 = [2, 10] := by
  decide

/-- The handlers of a `Drop(2)` on `{1=7, 2=6, 10=5}`: `on_remove` of key 1 sees key 2 still there, `on_remove` of
key 2 does not see key 1 any more. -/
example :
    let P : Prog := { demoProg with onRem := [.fby (.mgetLog 0 1) (.mgetLog 0 2), .seqNil] }
    let st := ((St.init.updM 0 10 5).updM 0 2 6).updM 0 1 7
    renderTrace (run (trigD P 8) (dropTakeH st 0 true 2) { st with maps := st.maps.map fun x => { x with previous := none } }).1.trace
      = "<R0.1(7) q0.1:- q0.2:6 >R0 <R0.2(6) q0.1:- q0.2:- >R0" := by decide

/-- `transform_entry` on an absent key with an inserting closure runs `on_update k - new`. -/
example : renderTrace (run (trigD { demoProg with onUpd := [.emit (.eff 3), .seqNil] } 8)
      (.fby (.mxf 0 7 (.inc 1)) (.fby (.mxf 0 7 (.inc 1)) (.mwithLog 0 7))) St.init).1.trace
    = "<U0.7(-,1) e3 >U0 <U0.7(1,2) e3 >U0 y0.7:2" := by decide

/-! ### Renamed lanes: the lifecycle is found through the FIELD name, whatever the external name -/

/-- `initialize_agent` keeps two tables: `external_item_ids` (external name → id; requests, writes) and
`lifecycle_item_ids` (id → `ItemSpec::lifecycle_name`, the field name; `run_handler`, `WriteComplete`). For every set
of item specs with distinct ids, external names and field names, a request addressed to the external name of an item
reaches that item, and a change of it is resolved to the lifecycle branch of that same item — renamed or not. -/
theorem C06_renamed_lanes_resolve (specs : List ItemSpec) (hext : (specs.map (·.ext)).Nodup)
    (hid : (specs.map (·.id)).Nodup) (hf : (specs.map (·.field)).Nodup) (s : ItemSpec) (hs : s ∈ specs) :
    resolve specs s.ext = some (s.id, some s.id) := by
  have h1 : lookupStr (externalItemIds specs) s.ext = some s.id :=
    assoc_map_of_mem (fun x : ItemSpec => x.ext) (fun x => x.id) specs hext s hs
  have h2 : lookupId (lifecycleItemIds specs) s.id = some s.field :=
    assoc_map_of_mem (fun x : ItemSpec => x.id) (fun x => x.field) specs hid s hs
  have h3 : lcBranch specs s.field = some s.id :=
    assoc_map_of_mem (fun x : ItemSpec => x.field) (fun x => x.id) specs hf s hs
  simp [resolve, h1, h2, h3]

/-- Nothing is executed for an agent that is not running (the machine's op interpreter, write side included). -/
theorem C06_nothing_after_stop_io (x : AgentIO) (hp : x.agent.phase ≠ .running) (line : String) :
    (apiLineIO (some x) line).1 = some x ∨ (∃ ps, words line = "agent" :: ps) ∨
      (∃ c ps, words line = "agentd" :: c :: ps) := by
  unfold apiLineIO
  split
  · right; left; exact ⟨_, by assumption⟩
  · right; right; exact ⟨_, _, by assumption⟩
  · left; simp [hp]
  · left
    split
    · split
      · simp_all
      · rfl
    · rfl
  · left
    split
    · simp_all
    · rfl
  · left
    split
    · simp_all
    · rfl

/-! ### non-vacuity of the flush statements -/

/-- The harness agent: four of its five lanes are renamed, all resolve. -/
example : agSpecs.map (resolve agSpecs ·.ext) =
    [some (0, some 0), some (1, some 1), some (2, some 2), some (3, some 3), some (4, some 4), some (5, some 5)] := by
  decide

/-- Were `lifecycle_item_ids` built from the external names, the renamed lanes would find no lifecycle branch. -/
example : (agSpecs.map fun s => (lookupId (agSpecs.map fun t => (t.id, t.ext)) s.id).bind (lcBranch agSpecs)) =
    [some 0, none, none, none, none, some 5] := by decide

/-- The interleaving of the slow-reader runs: v0's event is being written, a sync request and a second update queue up
behind it, the runtime reads, the flush finds `DataStillAvailable` (sync answered, update still to write), the runtime
reads again. No dispatch, although `dispatch` here would fail the agent if it were ever called. -/
example : (WSide.init.run (fun _ st => (st, .err .panic)) St.init
      [.touch 0 (.value true 0), .flush [0], .touch 0 (.value false 1), .flush [0], .touch 0 (.value true 1), .flush [0],
       .complete 0, .flush [0], .complete 0, .flush [0], .complete 0]).2.2 = .ok := by decide

example : ((WSide.init.touch (fun _ => .value true 1) 0).flushOne 0).1.items[0]? =
    some { wr := .value true 0, away := some false } := by decide

/-- A demand-map lane does re-dispatch. -/
example : (({ items := [{ wr := .demandMap true true }] } : WSide).run (fun _ st => (st, .err .panic)) St.init
      [.flush [0], .complete 0]).2.2 = .err .panic := by decide

end SwimVerif.Handlers
