/-
C01 — value lanes: subscribers see an ordered, gap-tolerant, never-stale view.
Part 1 (this file): the per-remote uplink queue for a VALUE lane — model `Model/WriteTask.lean`
(`ValueBackpressure` overwrite buffer with its `pending` flag, the value branch of `replace_and_pop`), system
`Model/UplinkSys.lean`. For every registry and every interleaving of pushes (for any lanes), link messages and write
completions in which lane `l` is a value lane that stays linked.
Part 2: the agent side (`ValueStore` dirty flag, `ValueLane::write_to_buffer`) — `Model/ValueLane.lean`.
Part 3: the composition — the lane of part 2 feeding, through its output pipe (arbitrary delay), the uplink queues of
part 1 of any number of remotes, under every interleaving of sets, sync requests, agent writes, pipe transfers,
links and write completions (`Proofs/ValueCompose.lean`; built from the two tied models only).
-/
import SwimVerif.Proofs.ValueSampling
import SwimVerif.Proofs.ValueLane
import SwimVerif.Proofs.ValueComposeFinal

set_option linter.unusedVariables false
namespace SwimVerif.WT

/-- **Ordered, gap-tolerant**: what the remote is sent for the lane (plus what still waits in the overwrite buffer) is
an in-order subsequence of the values the lane pushed: values may be skipped, never invented, duplicated or
reordered. -/
theorem C01_sent_is_ordered_sampling (reg : Registry) (l : Nat) (ops : List UOp)
    (h : ∀ op, op ∈ ops → valueOp l op) :
    (valueView l (urun reg {} ops)).Sublist (pushedBodies l (urun reg {} ops).pushed) :=
  (vinv_run reg l ops {} uinv_init (vinv_init l) h).sub

/-- **Never stale**: the newest value pushed is always the last thing sent-or-pending … -/
theorem C01_newest_value_not_lost (reg : Registry) (l : Nat) (ops : List UOp)
    (h : ∀ op, op ∈ ops → valueOp l op) (hne : pushedBodies l (urun reg {} ops).pushed ≠ []) :
    (valueView l (urun reg {} ops)).getLast? = (pushedBodies l (urun reg {} ops).pushed).getLast? :=
  (vinv_run reg l ops {} uinv_init (vinv_init l) h).last hne

/-- … so once the remote has caught up (no write in flight), the last value it received is the lane's latest. -/
theorem C01_quiescent_fresh (reg : Registry) (l : Nat) (ops : List UOp)
    (h : ∀ op, op ∈ ops → valueOp l op) (hne : pushedBodies l (urun reg {} ops).pushed ≠ [])
    (hidle : (urun reg {} ops).inflight = none) :
    (bodiesFor l (urun reg {} ops).delivered).getLast? = (pushedBodies l (urun reg {} ops).pushed).getLast? := by
  have hu := uinv_run reg uinv_init ops
  have hl := C01_newest_value_not_lost reg l ops h hne
  have hb := bufs_empty_of_home hu (hu.w.mpr hidle) l
  simp only [valueView, sent_eq, hidle, hb.1] at hl
  simpa [writeBodies] using hl

example : bodiesFor 0 (urun [0] {} [.push 0 (.value [1]), .push 0 (.value [2]), .push 0 (.value [3]),
    .done, .done]).delivered = [.raw [1], .raw [3]] := by decide

end SwimVerif.WT

namespace SwimVerif.VL

/-- **The lane only ever publishes values it held**, in order: the bodies a value lane writes (events and sync
answers) are a subsequence-with-repeats of its history, each one the value current at the moment of writing. -/
theorem C01_lane_writes_current_value (ops : List Op) (b : Nat)
    (h : b ∈ (run {} ops).written) : b ∈ (run {} ops).history ∨ b = 0 :=
  written_from_history ops b h

/-- The dirty flag is consumed exactly when the event is encoded, and a set value is never left unwritten:
when the lane is not dirty the last event written carries the current value. -/
theorem C01_lane_clean_means_published (ops : List Op) (hd : (run {} ops).dirty = false)
    (hs : (run {} ops).history ≠ []) : (run {} ops).lastEvent = some (run {} ops).content :=
  clean_means_published ops hd hs

end SwimVerif.VL

namespace SwimVerif.VC
open WT (Registry Body)

/-! ### Part 3: lane + pipe + per-remote uplink queues, every interleaving (`List COp`)

`(cRun reg l {} ops).delivered l r` = the event bodies remote `r` has been sent for the lane; `.held` = the values the
lane held over time (initial value `0`, then every value set); `staysLinked r ops` = no `unlink r` in `ops` (the remote
may link at any point, explicitly or by syncing, or never). -/

/-- **sampled** (ordered, gap-tolerant, never invented), every remote, syncs included: what the remote is delivered is a
monotone index sampling of the values the lane held — each delivered value sits at a position of `held`, and the
positions never go backwards (a position is repeated only by a sync answer re-sending the value an event already
carried). -/
theorem C01_composed_sampled (reg : Registry) (l : Nat) (ops : List COp) (r : Nat) (hno : staysLinked r ops) :
    MonoSample ((cRun reg l {} ops).delivered l r) ((cRun reg l {} ops).held.map body) :=
  cinv_sampled sampRel_mono (cinv_run sampRel_mono reg ops {} (cinv_init sampRel_mono) hno (fun _ _ _ => trivial))

/-- **never stale**, the same with the indices spelled out: there is a position `f k` in `held` for the `k`-th delivered
value, `held[f k]` is that value, and `f` is monotone — a later delivery never carries a value that the lane held
*before* the value of an earlier delivery. Positional, so setting the same value twice does not blur it. -/
theorem C01_composed_never_stale (reg : Registry) (l : Nat) (ops : List COp) (r : Nat) (hno : staysLinked r ops) :
    ∃ f : Nat → Nat,
      (∀ j k, j ≤ k → k < ((cRun reg l {} ops).delivered l r).length → f j ≤ f k) ∧
      ∀ k (hk : k < ((cRun reg l {} ops).delivered l r).length),
        ((cRun reg l {} ops).held.map body)[f k]? = some ((cRun reg l {} ops).delivered l r)[k] :=
  (C01_composed_sampled reg l ops r hno).unpack

/-- The strict form — a plain subsequence, no position used twice — for *every* remote that stays linked … -/
def C01_composed_sampled_strict : Prop :=
  ∀ (reg : Registry) (l : Nat) (ops : List COp) (r : Nat), staysLinked r ops →
    ((cRun reg l {} ops).delivered l r).Sublist ((cRun reg l {} ops).held.map body)

/-- … is false, by design of `sync`: a remote that has received the event for value 5 and then syncs is sent 5 again
(sync answer = the current value), so it sees `[5, 5]` while the lane held `[0, 5]`. -/
theorem C01_composed_sampled_strict_fails : ¬ C01_composed_sampled_strict := by
  intro h
  have := h [7] 0 [.link 1, .done 1, .set 5, .write, .xfer, .done 1, .sync 1, .write, .xfer, .xfer, .done 1, .done 1] 1
    (by decide)
  revert this
  decide

/-- It holds for every remote that never syncs: the events it is delivered are a subsequence of the values *set*
(not even the initial value can appear). -/
theorem C01_composed_sampled_strict_partial (reg : Registry) (l : Nat) (ops : List COp) (r : Nat)
    (hno : staysLinked r ops) (hns : neverSyncs r ops) :
    ((cRun reg l {} ops).delivered l r).Sublist ((cRun reg l {} ops).lane.history.map body) :=
  cinv_sampled sampRel_strict
    (cinv_run sampRel_strict reg ops {} (cinv_init sampRel_strict) hno (sync_ok_of_never hns))

/-- **quiescent ⇒ fresh**: when nothing is owed to the remote any more (lane clean with no sync pending, pipe empty,
no write in flight) the last value it was delivered is the lane's current value — provided it has a reason to have
heard of it: a set happened after it linked, or it asked for a sync. -/
theorem C01_composed_quiescent_fresh (reg : Registry) (l : Nat) (ops : List COp) (r : Nat) (hno : staysLinked r ops)
    (hq : (cRun reg l {} ops).quiescent r) (ho : (cRun reg l {} ops).owed r) :
    ((cRun reg l {} ops).delivered l r).getLast? = some (body (cRun reg l {} ops).lane.content) :=
  cinv_fresh (cinv_run sampRel_mono reg ops {} (cinv_init sampRel_mono) hno (fun _ _ _ => trivial)) hq ho

/-- **the newest value is never lost on the way**, at every moment (not only at quiescence): for a remote that was
linked when the last set happened, the queue "delivered, in flight, in its overwrite buffer, in the pipe, unsent in the
lane" ends with the lane's current value. -/
theorem C01_composed_newest_on_the_way (reg : Registry) (l : Nat) (ops : List COp) (r : Nat) (hno : staysLinked r ops)
    (hl : ((cRun reg l {} ops).rem r).linked = true)
    (hs : ((cRun reg l {} ops).rem r).since < (cRun reg l {} ops).lane.history.length) :
    (WT.valueView l ((cRun reg l {} ops).rem r).sys ++ pipeBodies r (cRun reg l {} ops).pipe ++
      dirtyBody (cRun reg l {} ops).lane).getLast? = some (body (cRun reg l {} ops).lane.content) :=
  cinv_newest (cinv_run sampRel_mono reg ops {} (cinv_init sampRel_mono) hno (fun _ _ _ => trivial)) hl hs

/-! non-vacuity. Remote 1 is slow (its first write completes only at the end), remote 2 is fast: values 1, 2, 3 are set
and written one by one; remote 2 sees all three, remote 1 sees 1 and 3 (2 was overwritten in its buffer); both end
fresh. -/
def exSlow : List COp :=
  [.link 1, .link 2, .done 1, .done 2, .set 1, .write, .xfer, .done 2, .set 2, .write, .xfer, .done 2,
   .set 3, .write, .xfer, .done 1, .done 1, .done 2]

example : staysLinked 1 exSlow ∧ neverSyncs 1 exSlow ∧ staysLinked 2 exSlow ∧ neverSyncs 2 exSlow := by decide
example : (cRun [7] 0 {} exSlow).delivered 0 1 = [body 1, body 3] ∧
    (cRun [7] 0 {} exSlow).delivered 0 2 = [body 1, body 2, body 3] ∧
    (cRun [7] 0 {} exSlow).held = [0, 1, 2, 3] := by decide
example : (cRun [7] 0 {} exSlow).quiescent 1 ∧ (cRun [7] 0 {} exSlow).owed 1 ∧
    (cRun [7] 0 {} exSlow).quiescent 2 ∧ (cRun [7] 0 {} exSlow).owed 2 ∧
    (cRun [7] 0 {} exSlow).lane.content = 3 := by decide
/-- in the middle of that run (value 3 set but not yet written, 1 in flight to remote 1, 2 in its buffer) the hypotheses
of `newest_on_the_way` hold while the remote has not been delivered any value yet -/
example : ((cRun [7] 0 {} (exSlow.take 13)).rem 1).linked = true ∧
    ((cRun [7] 0 {} (exSlow.take 13)).rem 1).since < (cRun [7] 0 {} (exSlow.take 13)).lane.history.length ∧
    (cRun [7] 0 {} (exSlow.take 13)).delivered 0 1 = [] ∧
    WT.valueView 0 ((cRun [7] 0 {} (exSlow.take 13)).rem 1).sys = [body 1, body 2] ∧
    dirtyBody (cRun [7] 0 {} (exSlow.take 13)).lane = [body 3] := by decide

/-- a remote that only syncs (never links explicitly, before any set): it is linked implicitly, receives the initial
value, then follows the sets; the same value set twice is delivered twice, at two different positions -/
def exSync : List COp :=
  [.sync 4, .write, .xfer, .xfer, .done 4, .done 4, .set 7, .write, .xfer, .done 4, .set 7, .write, .xfer, .done 4]

example : staysLinked 4 exSync ∧ (cRun [7] 0 {} exSync).delivered 0 4 = [body 0, body 7, body 7] ∧
    (cRun [7] 0 {} exSync).held = [0, 7, 7] ∧ (cRun [7] 0 {} exSync).quiescent 4 ∧ (cRun [7] 0 {} exSync).owed 4 := by
  decide

/-- frames delayed in the pipe: two sets and writes before the runtime reads anything; a remote that links meanwhile
is still sent those values (they were written before it linked but transferred after), in order; with a slow remote
the same frames coalesce in its buffer -/
example : (cRun [7] 0 {} [.set 1, .write, .set 2, .write, .link 3, .done 3, .set 3, .write, .xfer, .done 3, .xfer,
    .done 3, .xfer, .done 3]).delivered 0 3 = [body 1, body 2, body 3] := by decide
example : (cRun [7] 0 {} [.set 1, .write, .set 2, .write, .link 3, .set 3, .write, .xfer, .xfer, .xfer,
    .done 3, .done 3, .done 3]).delivered 0 3 = [body 3] := by decide

end SwimVerif.VC
