/-
C01 — value lanes: subscribers see an ordered, gap-tolerant, never-stale view.
Part 1 (this file): the per-remote uplink queue for a VALUE lane — model `Model/WriteTask.lean`
(`ValueBackpressure` overwrite buffer with its `pending` flag, the value branch of `replace_and_pop`), system
`Model/UplinkSys.lean`. For every registry and every interleaving of pushes (for any lanes), link messages and write
completions in which lane `l` is a value lane that stays linked.
Part 2: the agent side (`ValueStore` dirty flag, `ValueLane::write_to_buffer`) — `Model/ValueLane.lean`.
-/
import SwimVerif.Proofs.ValueSampling
import SwimVerif.Proofs.ValueLane

set_option linter.unusedVariables false
namespace SwimVerif.WT

/-- **Ordered, gap-tolerant**: what the remote is sent for the lane (plus what still waits in the overwrite buffer) is
an in-order subsequence of the values the lane pushed: values may be skipped, never invented, duplicated or
reordered. -/
theorem C01_sent_is_ordered_sampling (reg : Registry) (l : Nat) (ops : List UOp)
    (h : ∀ op, op ∈ ops → valueOp l op) :
    (valueView l (urun reg {} ops)).Sublist (pushedBodies l (urun reg {} ops).pushed) :=
  (vinv_run reg l ops {} uinv_init (vinv_init l) h).sub

/-- **Never stale**: the newest value pushed is always the last thing sent-or-pending … -/
theorem C01_newest_value_not_lost (reg : Registry) (l : Nat) (ops : List UOp)
    (h : ∀ op, op ∈ ops → valueOp l op) (hne : pushedBodies l (urun reg {} ops).pushed ≠ []) :
    (valueView l (urun reg {} ops)).getLast? = (pushedBodies l (urun reg {} ops).pushed).getLast? :=
  (vinv_run reg l ops {} uinv_init (vinv_init l) h).last hne

/-- … so once the remote has caught up (no write in flight), the last value it received is the lane's latest. -/
theorem C01_quiescent_fresh (reg : Registry) (l : Nat) (ops : List UOp)
    (h : ∀ op, op ∈ ops → valueOp l op) (hne : pushedBodies l (urun reg {} ops).pushed ≠ [])
    (hidle : (urun reg {} ops).inflight = none) :
    (bodiesFor l (urun reg {} ops).delivered).getLast? = (pushedBodies l (urun reg {} ops).pushed).getLast? := by
  have hu := uinv_run reg uinv_init ops
  have hl := C01_newest_value_not_lost reg l ops h hne
  have hb := bufs_empty_of_home hu (hu.w.mpr hidle) l
  simp only [valueView, sent_eq, hidle, hb.1] at hl
  simpa [writeBodies] using hl

example : bodiesFor 0 (urun [0] {} [.push 0 (.value [1]), .push 0 (.value [2]), .push 0 (.value [3]),
    .done, .done]).delivered = [.raw [1], .raw [3]] := by decide

end SwimVerif.WT

namespace SwimVerif.VL

/-- **The lane only ever publishes values it held**, in order: the bodies a value lane writes (events and sync
answers) are a subsequence-with-repeats of its history, each one the value current at the moment of writing. -/
theorem C01_lane_writes_current_value (ops : List Op) (b : Nat)
    (h : b ∈ (run {} ops).written) : b ∈ (run {} ops).history ∨ b = 0 :=
  written_from_history ops b h

/-- The dirty flag is consumed exactly when the event is encoded, and a set value is never left unwritten:
when the lane is not dirty the last event written carries the current value. -/
theorem C01_lane_clean_means_published (ops : List Op) (hd : (run {} ops).dirty = false)
    (hs : (run {} ops).history ≠ []) : (run {} ops).lastEvent = some (run {} ops).content :=
  clean_means_published ops hd hs

end SwimVerif.VL
