/-
C20 — introspection reports the true number of links and counts every message.
Theorems about the model of the link registry `Links` with its `UplinkReporter`s (`Model/WriteTask.lean`,
`Model/LinksSys.lean`), for EVERY sequence of the operations the write task performs on it (insert, remove, remove a
whole remote, remove a whole lane, remove everything, count events, take snapshots, register a lane's reporter) — the
only side condition (`Admissible`) is the one the code guarantees: a reporter is registered for a lane at the moment
the lane is registered, i.e. while nothing is linked to it.
Model = the code after the `fix:` commits (the lane entry with its reporter survives `remove_remote`; responses for
removed remotes are discarded). The composition with the rest of the write task is tied to the real
`WriteTaskState` + real `UplinkReporter`/`UplinkReportReader` by the `wt` engine (snapshots compared, and checked
against a reference link set by the monitor).
-/
import SwimVerif.Proofs.LinksEvents

set_option linter.unusedVariables false
namespace SwimVerif.WT

def lreach (agg : Bool) (ops : List LOp) : Links := lrun { hasAgg := agg } ops

/-- **Reported = actual, per lane**: the uplink count reported for a lane that has a reporter is the number of
remotes linked to that lane. -/
theorem C20_lane_count_is_actual (agg : Bool) (ops : List LOp) (ha : Admissible { hasAgg := agg } ops)
    (id : Nat) (e : LaneLinks) (he : alGet (lreach agg ops).forward id = some e) (hr : e.hasReporter = true) :
    ∃ c, alGet (lreach agg ops).lane id = some c ∧ c.links = (lreach agg ops).actual id := by
  obtain ⟨c, hc, hl⟩ := (linv_run ops _ (linv_init agg) ha).r.lane id e he hr
  refine ⟨c, hc, ?_⟩
  simp only [Links.actual, Links.linkedFrom, he]
  exact hl

/-- **Reported = actual, aggregate**: the agent-level count is the running total, and the running total is the
number of links that actually exist (the sum over the lanes). -/
theorem C20_aggregate_is_actual (agg : Bool) (ops : List LOp) (ha : Admissible { hasAgg := agg } ops) :
    ((lreach agg ops).hasAgg = true → (lreach agg ops).agg.links = sumLinks (lreach agg ops).forward) ∧
    (lreach agg ops).total = sumLinks (lreach agg ops).forward := by
  have h := linv_run ops _ (linv_init agg) ha
  exact ⟨fun hh => (h.r.agg hh).trans h.t.total, h.t.total⟩

/-- Each link is registered (and counted) once: no lane holds the same remote twice, no lane has two entries. -/
theorem C20_links_counted_once (agg : Bool) (ops : List LOp) (ha : Admissible { hasAgg := agg } ops) :
    (keysOf (lreach agg ops).forward).Nodup ∧
    ∀ id e, alGet (lreach agg ops).forward id = some e → e.remotes.Nodup :=
  ⟨(linv_run ops _ (linv_init agg) ha).t.keys, (linv_run ops _ (linv_init agg) ha).t.nodup⟩

/-- **Counters lose nothing**: everything the snapshots of the aggregate reader returned plus what is still in the
counter equals everything that was counted (for any interleaving of counting and snapshot steps; below `u64`
saturation). -/
theorem C20_counts_conserved (agg : Bool) (ops : List LOp) :
    totalRead { hasAgg := agg } ops + (lreach agg ops).agg.events = totalAdded { hasAgg := agg } ops := by
  have := counts_conserved ops { hasAgg := agg }
  simpa [lreach] using this

/-- Removing a remote keeps the lane's entry — and therefore its reporter (the defect repaired by `fix:` f73d5b9). -/
theorem C20_reporter_survives_remote_removal (l : Links) (r id : Nat) (e : LaneLinks)
    (he : alGet l.forward id = some e) :
    ∃ e', alGet (l.removeFromLane id r).forward id = some e' ∧ e'.hasReporter = e.hasReporter := by
  unfold Links.removeFromLane
  rw [he]
  simp only []
  split
  · refine ⟨{ e with remotes := setErase e.remotes r }, ?_, rfl⟩
    rw [updEntry_forward, alGet_alSet_same]
  · exact ⟨e, he, rfl⟩

/-! Open: every run of the write task (`WT.step`) performs an `Admissible` sequence of registry operations, so the
theorems above hold for `(run {} evs).links`. Tied by the `wt` correspondence engine and the monitor. -/
def C20_write_task_links_open : Prop :=
  ∀ (evs : List Ev) (agg : Bool), LInv (run { links := { hasAgg := agg } } evs).links

/-! Non-vacuity -/
example : Admissible { hasAgg := true } [.register 0, .insert 0 1, .insert 0 2, .removeRemote 1, .insert 0 3] := by
  simp [Admissible, admissible, lstep, Links.linkedFrom, Links.registerReporter, alGet, alSet]
example : (lreach true [.register 0, .insert 0 1, .insert 0 2, .removeRemote 1, .removeRemote 2, .insert 0 3]).lane
    = [(0, ⟨1, 0⟩)] := by decide
example : (lreach true [.register 0, .insert 0 1, .countBroadcast 0, .snapshot, .countSingle 0]).agg = ⟨1, 1⟩ := by
  decide

end SwimVerif.WT
