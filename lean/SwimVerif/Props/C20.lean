/-
C20 — introspection reports the true number of links and counts every message.
Theorems about the model of the link registry `Links` with its `UplinkReporter`s (`Model/WriteTask.lean`,
`Model/LinksSys.lean`), for EVERY sequence of the operations the write task performs on it (insert, remove, remove a
whole remote, remove a whole lane, remove everything, count events, take snapshots, register a lane's reporter) — the
only side condition (`Admissible`) is the one the code guarantees: a reporter is registered for a lane at the moment
the lane is registered, i.e. while nothing is linked to it.
Model = the code after the `fix:` commits (the lane entry with its reporter survives `remove_remote`; responses for
removed remotes are discarded).
The second half lifts everything to the WHOLE write task (`WT.step` / `WT.run`, every event sequence): each step
performs an admissible sequence of registry operations (`C20_step_is_registry_ops`), so `LInv` holds in every reached
state (`C20_write_task_links_partial`) — under the one assumption the statement needs and the runtime guarantees:
a response addressed to a remote comes from a registered lane (`envOk`; without it the statement is false,
`C20_write_task_links_fails`, for the model and for the real `WriteTaskState` alike). The event counters are
accounted for exactly (`C20_wt_counts_conserved`, `C20_wt_lane_counts_conserved`), and under the runtime's
discipline (`liveOk`) every response handed to a remote is counted exactly once by the lane's reporter and once by the
aggregate reporter (`C20_wt_every_response_counted_once`).
The model is tied to the real `WriteTaskState` + real `UplinkReporter`/`UplinkReportReader` by the `wt` engine
(snapshots compared, and checked against a reference link set by the monitor).
-/
import SwimVerif.Proofs.LinksWTCount
import SwimVerif.Model.Counters
import SwimVerif.Proofs.CounterProg
import SwimVerif.Proofs.ReadFeedCount

set_option linter.unusedVariables false
namespace SwimVerif.WT

def lreach (agg : Bool) (ops : List LOp) : Links := lrun { hasAgg := agg } ops

/-- **Reported = actual, per lane**: the uplink count reported for a lane that has a reporter is the number of
remotes linked to that lane. -/
theorem C20_lane_count_is_actual (agg : Bool) (ops : List LOp) (ha : Admissible { hasAgg := agg } ops)
    (id : Nat) (e : LaneLinks) (he : alGet (lreach agg ops).forward id = some e) (hr : e.hasReporter = true) :
    ∃ c, alGet (lreach agg ops).lane id = some c ∧ c.links = (lreach agg ops).actual id := by
  obtain ⟨c, hc, hl⟩ := (linv_run ops _ (linv_init agg) ha).r.lane id e he hr
  refine ⟨c, hc, ?_⟩
  simp only [Links.actual, Links.linkedFrom, he]
  exact hl

/-- **Reported = actual, aggregate**: the agent-level count is the running total, and the running total is the
number of links that actually exist (the sum over the lanes). -/
theorem C20_aggregate_is_actual (agg : Bool) (ops : List LOp) (ha : Admissible { hasAgg := agg } ops) :
    ((lreach agg ops).hasAgg = true → (lreach agg ops).agg.links = sumLinks (lreach agg ops).forward) ∧
    (lreach agg ops).total = sumLinks (lreach agg ops).forward := by
  have h := linv_run ops _ (linv_init agg) ha
  exact ⟨fun hh => (h.r.agg hh).trans h.t.total, h.t.total⟩

/-- Each link is registered (and counted) once: no lane holds the same remote twice, no lane has two entries. -/
theorem C20_links_counted_once (agg : Bool) (ops : List LOp) (ha : Admissible { hasAgg := agg } ops) :
    (keysOf (lreach agg ops).forward).Nodup ∧
    ∀ id e, alGet (lreach agg ops).forward id = some e → e.remotes.Nodup :=
  ⟨(linv_run ops _ (linv_init agg) ha).t.keys, (linv_run ops _ (linv_init agg) ha).t.nodup⟩

/-- **Counters lose nothing**: everything the snapshots of the aggregate reader returned plus what is still in the
counter equals everything that was counted (for any interleaving of counting and snapshot steps; below `u64`
saturation). -/
theorem C20_counts_conserved (agg : Bool) (ops : List LOp) :
    totalRead { hasAgg := agg } ops + (lreach agg ops).agg.events = totalAdded { hasAgg := agg } ops := by
  have := counts_conserved ops { hasAgg := agg }
  simpa [lreach] using this

/-- Removing a remote keeps the lane's entry — and therefore its reporter (the defect repaired by `fix:` f73d5b9). -/
theorem C20_reporter_survives_remote_removal (l : Links) (r id : Nat) (e : LaneLinks)
    (he : alGet l.forward id = some e) :
    ∃ e', alGet (l.removeFromLane id r).forward id = some e' ∧ e'.hasReporter = e.hasReporter := by
  unfold Links.removeFromLane
  rw [he]
  simp only []
  split
  · refine ⟨{ e with remotes := setErase e.remotes r }, ?_, rfl⟩
    rw [updEntry_forward, alGet_alSet_same]
  · exact ⟨e, he, rfl⟩

/-! ## The whole write task -/

/-- The registry as the write task sees it after the events `evs` (`agg`: introspection on). -/
def wreach (agg : Bool) (evs : List Ev) : Links := (run { links := { hasAgg := agg } } evs).links

/-- **One iteration of the write-task loop = an admissible sequence of registry operations**: whatever the rest of
the state (remotes, queues, writes in flight), `step` changes `s.links` exactly by `stepOps s e`, and the only
`register_reporter` among them is for the lane id being assigned, to which nothing is linked yet. -/
theorem C20_step_is_registry_ops (s : St) (e : Ev) :
    (step s e).1.links = lrun s.links (stepOps s e) ∧ (NoUnreg s → Admissible s.links (stepOps s e)) :=
  ⟨(step_links_reg s e).1, fun hu => stepOps_admissible hu e⟩

/-- The statement for EVERY event sequence — false: the event alphabet of the model (like the signature of
`WriteTaskState::handle_event`) admits a response from a lane id that is registered only later. -/
def C20_write_task_links : Prop :=
  ∀ (evs : List Ev) (agg : Bool), LInv (run { links := { hasAgg := agg } } evs).links

/-- Witness: a remote attaches, a response addressed to it arrives for lane id 0 (implicit link), then the lane with
id 0 is registered with a reporter — the fresh reporter is never told about the link: it reports 0, 1 is linked.
The real `WriteTaskState` does the same (replayed: `corpus/C20/wt-unregistered-lane.ops`, snapshot `l0=0/0` with
remote 1 linked to lane 0); the runtime cannot produce this input (lane ids come from registered lanes' streams). -/
theorem C20_write_task_links_fails : ¬ C20_write_task_links := by
  intro h
  have hl := (h [.attach 0, .event 0 (some 0) (.synced .value), .lane 0 true] true).r.lane 0 ⟨[0], true⟩ rfl rfl
  obtain ⟨c, hc, hn⟩ := hl
  have hc' : some (⟨0, 0⟩ : Counters) = some c := hc
  cases hc'
  simp at hn

/-- **The link registry of the write task is consistent in every reached state** — for every event sequence in
which responses addressed to a remote come from registered lanes: reporters' link counts equal the sizes of the remote
sets, the aggregate equals the running total, the total equals the sum over the lanes, keys and remotes are
duplicate-free. -/
theorem C20_write_task_links_partial (evs : List Ev) (agg : Bool)
    (hok : envOk { links := { hasAgg := agg } } evs = true) :
    LInv (run { links := { hasAgg := agg } } evs).links :=
  (winv_run evs _ (winv_init agg) (envOk_EnvOk evs _ hok)).l

/-- **Reported = actual, per lane, in the write task.** -/
theorem C20_wt_lane_count_is_actual (evs : List Ev) (agg : Bool)
    (hok : envOk { links := { hasAgg := agg } } evs = true)
    (id : Nat) (e : LaneLinks) (he : alGet (wreach agg evs).forward id = some e) (hr : e.hasReporter = true) :
    ∃ c, alGet (wreach agg evs).lane id = some c ∧ c.links = (wreach agg evs).actual id := by
  obtain ⟨c, hc, hl⟩ := (C20_write_task_links_partial evs agg hok).r.lane id e he hr
  refine ⟨c, hc, ?_⟩
  simp only [Links.actual, Links.linkedFrom, he]
  exact hl

/-- **Reported = actual, aggregate, in the write task**: the agent-level count is the running total = the number of
links that exist. -/
theorem C20_wt_aggregate_is_actual (evs : List Ev) (agg : Bool)
    (hok : envOk { links := { hasAgg := agg } } evs = true) :
    ((wreach agg evs).hasAgg = true → (wreach agg evs).agg.links = sumLinks (wreach agg evs).forward) ∧
    (wreach agg evs).total = sumLinks (wreach agg evs).forward := by
  have h := C20_write_task_links_partial evs agg hok
  exact ⟨fun hh => (h.r.agg hh).trans h.t.total, h.t.total⟩

/-- Each link of the write task is registered (and counted) once. -/
theorem C20_wt_links_counted_once (evs : List Ev) (agg : Bool)
    (hok : envOk { links := { hasAgg := agg } } evs = true) :
    (keysOf (wreach agg evs).forward).Nodup ∧
    ∀ id e, alGet (wreach agg evs).forward id = some e → e.remotes.Nodup :=
  ⟨(C20_write_task_links_partial evs agg hok).t.keys, (C20_write_task_links_partial evs agg hok).t.nodup⟩

/-- **Aggregate event counter, exact accounting for every event sequence**: what the snapshots returned + what is
still in the counter + the responses routed uncounted = the responses handed to remotes (`push_write` calls).
`missed` is explicit: a response addressed to a remote from a lane that has no registry entry at that moment
(`count_single` runs before the implicit link creates the entry), or any response when there is no aggregate
reporter. -/
theorem C20_wt_counts_conserved (evs : List Ev) (agg : Bool) :
    wtSnapAgg { links := { hasAgg := agg } } evs + (wreach agg evs).agg.events
      + wtMissed { links := { hasAgg := agg } } evs = wtRouted { links := { hasAgg := agg } } evs := by
  have := run_agg_events evs { links := { hasAgg := agg } }
  simpa [wreach] using this

/-- **Event counter of one lane, exact accounting** (responses addressed to a remote come from registered lanes):
snapshots of the lane's reader + residual + routed uncounted = responses of that lane handed to remotes. -/
theorem C20_wt_lane_counts_conserved (evs : List Ev) (agg : Bool) (id : Nat)
    (hok : envOk { links := { hasAgg := agg } } evs = true) :
    wtSnapLane id { links := { hasAgg := agg } } evs + (wreach agg evs).laneEv id
      + wtMissedLane id { links := { hasAgg := agg } } evs = wtRoutedLane id { links := { hasAgg := agg } } evs := by
  have := run_lane_events id evs { links := { hasAgg := agg } } (fresh_init agg) (envOk_EnvOk evs _ hok)
  simpa [wreach, Links.laneEv] using this

/-- **Every response handed to a remote is counted exactly once** by the aggregate reporter and once by its lane's
reporter — with introspection on, every lane registered with a reporter, and lanes producing responses only between
their registration and their failure (`liveOk`, what the agent runtime does): the sum of all snapshots taken plus
what is still in the counter equals the number of responses routed to remotes, in aggregate and lane by lane. -/
theorem C20_wt_every_response_counted_once (evs : List Ev) (hl : liveOk 0 [] evs = true) :
    wtSnapAgg { links := { hasAgg := true } } evs + (wreach true evs).agg.events
      = wtRouted { links := { hasAgg := true } } evs ∧
    ∀ id, wtSnapLane id { links := { hasAgg := true } } evs + (wreach true evs).laneEv id
      = wtRoutedLane id { links := { hasAgg := true } } evs := by
  have hm := live_no_miss evs 0 [] { links := { hasAgg := true } } (live_init true) rfl hl
  have hok := live_envOk evs 0 [] { links := { hasAgg := true } } (live_init true) hl
  constructor
  · have := run_agg_events evs { links := { hasAgg := true } }
    rw [hm.1] at this
    simpa [wreach] using this
  · intro id
    have := run_lane_events id evs { links := { hasAgg := true } } (fresh_init true) hok
    rw [hm.2 id] at this
    simpa [wreach, Links.laneEv] using this

/-- With introspection on and every lane holding a reporter nothing is routed uncounted … -/
theorem C20_wt_nothing_missed (evs : List Ev) (hl : liveOk 0 [] evs = true) :
    wtMissed { links := { hasAgg := true } } evs = 0 ∧ ∀ id, wtMissedLane id { links := { hasAgg := true } } evs = 0 :=
  live_no_miss evs 0 [] _ (live_init true) rfl hl

/-- … but a lane registered WITHOUT a reporter (reporter registration failed) has no registry entry until the first
link, and its first response addressed to a remote is routed without the aggregate reporter being told: two responses
routed, one counted (same in the real code: `corpus/C20/wt-uncounted-first-response.ops`, snapshot `agg=1/1`). -/
theorem C20_wt_first_response_uncounted :
    wtRouted { links := { hasAgg := true } }
      [.lane 0 false, .attach 1, .event 0 (some 1) (.synced .value), .event 0 (some 1) (.synced .value)] = 2 ∧
    (wreach true [.lane 0 false, .attach 1, .event 0 (some 1) (.synced .value),
      .event 0 (some 1) (.synced .value)]).agg.events = 1 := by
  decide

/-! Non-vacuity -/
example : Admissible { hasAgg := true } [.register 0, .insert 0 1, .insert 0 2, .removeRemote 1, .insert 0 3] := by
  simp [Admissible, admissible, lstep, Links.linkedFrom, Links.registerReporter, alGet, alSet]
example : (lreach true [.register 0, .insert 0 1, .insert 0 2, .removeRemote 1, .removeRemote 2, .insert 0 3]).lane
    = [(0, ⟨1, 0⟩)] := by decide
example : (lreach true [.register 0, .insert 0 1, .countBroadcast 0, .snapshot, .countSingle 0]).agg = ⟨1, 1⟩ := by
  decide

/-- a write-task run with two lanes, two remotes, links, broadcasts, a targeted response with implicit link, a write
failure that removes a remote, snapshots, a lane failure and the shutdown epilogue -/
def exRun : List Ev :=
  [.lane 5 true, .lane 6 true, .attach 1, .attach 2, .link 1 5, .link 2 5, .event 0 none (.value [1]),
   .event 1 (some 2) (.synced .supply), .snapshot, .done 1 true, .event 0 none (.value [2]), .done 2 false,
   .event 0 none (.value [3]), .laneFailed 1, .snapshot, .unlink 1 5, .stop]

example : envOk { links := { hasAgg := true } } exRun = true := by decide
example : liveOk 0 [] exRun = true := by decide
example : stepOps (run { links := { hasAgg := true } } (exRun.take 7)) (.event 1 (some 2) (.synced .supply))
    = [.countSingle 1, .insert 1 2] := rfl
example : ((wreach true (exRun.take 11)).lane, (wreach true (exRun.take 11)).agg) = ([(0, ⟨2, 2⟩), (1, ⟨1, 0⟩)], ⟨3, 2⟩) := by
  decide
example : wtRouted { links := { hasAgg := true } } exRun = 6 ∧ wtSnapAgg { links := { hasAgg := true } } exRun = 6 ∧
    wtRoutedLane 0 { links := { hasAgg := true } } exRun = 5 ∧ wtSnapLane 0 { links := { hasAgg := true } } exRun = 5 := by
  decide

end SwimVerif.WT

namespace SwimVerif.Ctr

theorem step_conserved (s : St) (e : Ev) (h : s.taken + s.n = s.added) :
    (step s e).taken + (step s e).n = (step s e).added := by
  cases e with
  | add m => simp only [step]; omega
  | load => exact h
  | cas sp =>
    simp only [step]
    split
    · exact h
    · rename_i c hc
      split
      · rename_i hn; simp only []; omega
      · exact h

/-- **No count is lost or reported twice under any interleaving**: for every interleaving of the counting threads'
atomic increments with the snapshot thread's `load` / `compare_exchange_weak` steps (including spurious failures),
the counts handed out by completed snapshots plus what is still in the counter equal everything counted. -/
theorem C20_counter_interleaving_conserved (evs : List Ev) :
    (run {} evs).taken + (run {} evs).n = (run {} evs).added := by
  suffices H : ∀ (s : St), s.taken + s.n = s.added → (run s evs).taken + (run s evs).n = (run s evs).added from
    H {} rfl
  induction evs with
  | nil => intro s h; exact h
  | cons e evs ih => intro s h; exact ih _ (step_conserved s e h)

/-- A snapshot returns only what was in the counter when its `compare_exchange` succeeded, and empties it. -/
theorem C20_snapshot_takes_exactly_the_counter (s : St) (c : Nat) (h : s.loaded = some c) (hn : s.n = c) :
    (step s (.cas false)).taken = s.taken + s.n ∧ (step s (.cas false)).n = 0 := by
  simp [step, h, hn]

example : (run {} [.add 2, .load, .add 3, .cas false, .load, .cas false]).taken = 5 := by decide
example : (run {} [.add 2, .load, .add 3, .cas false]).n = 5 := by decide

/-! ## The atomic steps are the source (translator tie)

`Generated/CounterSrc.lean` is regenerated on every run from `runtime/swimos_runtime/src/agent/reporting/mod.rs` by
`tools/extractors/c20.py` (`saturating_add`, `snapshot_value`; the wiring of `count_events` / `count_commands` /
`set_uplinks` / `snapshot` to them is checked as exact text). -/

open SwimVerif.CounterProg in
/-- **`snapshot_value` performs exactly the model's `load` / `cas` steps**: run without interference, with any number
`k` of spurious `compare_exchange_weak` failures, the translated function returns the counter, leaves it at zero, adds
it to `taken`, and its atomic accesses are `k` failed `load; cas` rounds followed by one successful round — the event
alphabet `C20_counter_interleaving_conserved` quantifies over.  (A `load` followed by a plain `store(0)`, the seeded
change C20-m2, is not in the translator's vocabulary and would not be these steps.) -/
theorem C20_source_snapshot_value_is_model (s : St) (hl : s.loaded = none) (k : Nat) (tr : List Ev) :
    (execK (k + 1) Generated.CounterSrc.snapshot_value
        { s := s, oracle := List.replicate k true ++ [false], trace := tr }).ret = some s.n ∧
    (execK (k + 1) Generated.CounterSrc.snapshot_value
        { s := s, oracle := List.replicate k true ++ [false], trace := tr }).trace = tr ++ snapTrace k ∧
    (execK (k + 1) Generated.CounterSrc.snapshot_value
        { s := s, oracle := List.replicate k true ++ [false], trace := tr }).s = run s (snapTrace k) ∧
    (execK (k + 1) Generated.CounterSrc.snapshot_value
        { s := s, oracle := List.replicate k true ++ [false], trace := tr }).s.n = 0 ∧
    (execK (k + 1) Generated.CounterSrc.snapshot_value
        { s := s, oracle := List.replicate k true ++ [false], trace := tr }).s.taken = s.taken + s.n :=
  snapshot_value_eq s hl k tr

open SwimVerif.CounterProg in
/-- `saturating_add` (behind `count_events` / `count_commands`) is ONE atomic read-modify-write: the model's `add`
step.  Saturation at `u64::MAX` is outside the model (counters are naturals). -/
theorem C20_source_saturating_add_is_model (s : St) (m : Nat) (tr : List Ev) :
    (execK 0 Generated.CounterSrc.saturating_add { s := s, m := m, trace := tr }).s = step s (.add m) ∧
    (execK 0 Generated.CounterSrc.saturating_add { s := s, m := m, trace := tr }).trace = tr ++ [.add m] :=
  saturating_add_eq s m tr

/-! Non-vacuity: a counter holding 7, two spurious failures, then success: returns 7 after `load, cas, load, cas, load, cas`. -/
example : (SwimVerif.CounterProg.execK 3 Generated.CounterSrc.snapshot_value
      { s := { n := 7, added := 7 }, oracle := [true, true, false] }).ret = some 7 ∧
    (SwimVerif.CounterProg.execK 3 Generated.CounterSrc.snapshot_value
      { s := { n := 7, added := 7 }, oracle := [true, true, false] }).trace.length = 6 := by decide

end SwimVerif.Ctr

/-! ## Command counters (read task)
Model `Model/ReadFeed.lean` (`RF`): the aggregate reporter is bumped in `read_task`, the lane's reporter at the top of
`LaneSender::feed_frame` — both BEFORE the body is inspected or written, so a command the lane's sender rejects
(`LaneSendError::Extraction`, map lanes) is counted by both; commands for unknown lanes and link / sync / unlink
envelopes by neither. "Received" = processed by the read task (`picked`). Tied to the real read task, `LaneSender`
and `UplinkReporter`s by the `rf` engines (every snapshot compared; monitor reasons `command-count-*`). -/
namespace SwimVerif.RF

/-- **Per lane: snapshots + residual = commands received for the lane**, for every configuration (value and map
lanes, any set of invalid bodies, with or without the immediate flush) and every interleaving of remotes' envelopes,
idle flushes, agent reads and snapshots of any reader. -/
theorem C20_command_lane_counts_conserved (c : Cfg) (ops : List Op) (l : Nat) (hl : c.known.contains l = true) :
    (run c {} ops).laneSnap l + (run c {} ops).laneCount l = cmdsFor l (run c {} ops).picked :=
  (cinv_run c ops {} (cinv_init c)).lane l hl

/-- **Aggregate: snapshots + residual = commands received for existing lanes.** -/
theorem C20_command_aggregate_counts_conserved (c : Cfg) (ops : List Op) :
    (run c {} ops).aggSnap + (run c {} ops).aggCount = cmdsKnown c (run c {} ops).picked :=
  (cinv_run c ops {} (cinv_init c)).agg

/-- **The aggregate is the sum of the lanes** (totals = snapshots taken + residual): lane and aggregate reporters
count exactly the same envelopes. -/
theorem C20_command_aggregate_is_sum_of_lanes (c : Cfg) (hn : c.known.Nodup) (ops : List Op) :
    (run c {} ops).aggSnap + (run c {} ops).aggCount
      = (c.known.map (fun l => (run c {} ops).laneSnap l + (run c {} ops).laneCount l)).sum := by
  have hi := cinv_run c ops {} (cinv_init c)
  rw [hi.agg, cmdsKnown_eq_sum c hn]
  congr 1
  apply List.map_congr_left
  intro l hl
  exact (hi.lane l (by simpa using hl)).symm

/-- A lane that does not exist never counts anything (and its commands are not in the aggregate). -/
theorem C20_command_unknown_lane_uncounted (c : Cfg) (ops : List Op) (l : Nat) (hl : c.known.contains l = false) :
    (run c {} ops).laneSnap l + (run c {} ops).laneCount l = 0 :=
  (cinv_run c ops {} (cinv_init c)).other l hl

/-- **A rejected command is counted like an accepted one**: whatever the lane's sender does with the body, the
command bumps the lane's counter and the aggregate by one each (the code counts before it looks). -/
theorem C20_command_counted_before_inspection (c : Cfg) (s : St) (r l b : Nat) :
    (handleCommand c s r l b).laneCount l = s.laneCount l + 1 ∧ (handleCommand c s r l b).aggCount = s.aggCount + 1 := by
  obtain ⟨h1, h2, _, _⟩ := handleCommand_counts c s r l b
  rw [h1, h2]; simp

/-- A snapshot hands out exactly the counter's value and resets it. -/
theorem C20_command_snapshot_takes_the_counter (c : Cfg) (s : St) (l : Nat) :
    (step c s (.snapLane l)).laneSnap l = s.laneSnap l + s.laneCount l ∧ (step c s (.snapLane l)).laneCount l = 0 := by
  simp [step]

/-! Non-vacuity: lane 1 is a map lane; remote 1's second command (body 900001) is rejected by the lane's sender —
counted by the lane and by the aggregate, not forwarded; the command for lane 7 (unknown) is counted by nobody. -/
example :
    let s := run (mkCfg 2 1) {} [.send 1 1 (.command 5), .send 1 1 (.command 900001), .send 2 0 (.command 6),
      .send 2 7 (.command 8), .send 1 0 .sync, .pick 1, .pick 1, .snapLane 1, .pick 2, .pick 2, .pick 1, .idle, .snapAgg]
    (s.laneSnap 1, s.laneCount 1, s.laneCount 0, s.aggSnap, s.aggCount, s.laneStream 1)
      = (2, 0, 1, 3, 0, [.command 1 5]) := by decide

end SwimVerif.RF
