/-
C17 — inactivity shutdown needs all parties idle at once and cannot deadlock.
Quantifier: every number of parties 2..8, every interleaving (`List Ev`) of the voters' *atomic* steps
(`fetch_or`, the `load` and the `compare_exchange` of the CAS loop, drop) and polls of the receiver.
`votedAt s i` = party `i` currently has an outstanding vote (its `voted` cell; a dropped party counts).
Model: `Model/TimeoutCoord.lean` (the code after the `fix:` commit that resets `voted` on a successful rescind).
-/
import SwimVerif.Proofs.TimeoutCoord
import SwimVerif.Proofs.InactivityRt
import SwimVerif.Proofs.InactivityDl
import SwimVerif.Proofs.CoordPoll
import SwimVerif.Proofs.CoordProg

set_option linter.unusedVariables false
namespace SwimVerif.Coord

def reach (n : Nat) (evs : List Ev) : St := run (init n) evs

theorem reach_inv (n : Nat) (h2 : 2 ≤ n) (h8 : n ≤ 8) (evs : List Ev) : Inv (reach n evs) :=
  inv_run (inv_init n h2 h8) evs

theorem n_step (s : St) (e : Ev) : (step s e).1.n = s.n := by
  cases e with
  | poll => exact step_poll_n s
  | act i a => exact n_stepAct s i a

theorem n_run (s : St) (evs : List Ev) : (run s evs).n = s.n := by
  induction evs generalizing s with
  | nil => rfl
  | cons e evs ih => simp only [run, List.foldl] at *; rw [ih, n_step]

theorem reach_n (n : Nat) (evs : List Ev) : (reach n evs).n = n := n_run (init n) evs

/-- The shared bit-set is exactly the set of parties with an outstanding vote: the stop condition
(`flags == unanimity`) holds iff every party has an outstanding vote at this very moment. -/
theorem C17_unanimous_iff_all_outstanding (n : Nat) (h2 : 2 ≤ n) (h8 : n ≤ 8) (evs : List Ev) :
    (reach n evs).flags = allMask n ↔ ∀ i, i < n → votedAt (reach n evs) i = true := by
  have := flags_all_iff (reach_inv n h2 h8 evs)
  rwa [reach_n] at this

/-- The receiver completes exactly when every party has an outstanding vote. -/
theorem C17_receiver_ready_iff (n : Nat) (h2 : 2 ≤ n) (h8 : n ≤ 8) (evs : List Ev) :
    (step (reach n evs) .poll).2 = .ready ↔ ∀ i, i < n → votedAt (reach n evs) i = true := by
  rw [← C17_unanimous_iff_all_outstanding n h2 h8 evs]
  simp only [step, reach_n]
  split <;> simp_all

theorem flag_ne_all (n i : Nat) (h2 : 2 ≤ n) : flagOf i ≠ allMask n := by
  intro h
  have h0 := congrArg (fun x => x.testBit 0) h
  have h1 := congrArg (fun x => x.testBit 1) h
  simp only [testBit_flagOf, testBit_allMask] at h0 h1
  have : (0 : Nat) < n := by omega
  have : (1 : Nat) < n := by omega
  simp_all

theorem or_flag_all (n i : Nat) (hi : i < n) : allMask n ||| flagOf i = allMask n := by
  apply Nat.eq_of_testBit_eq
  intro j
  rw [Nat.testBit_or, testBit_allMask, testBit_flagOf]
  by_cases hij : i = j
  · subst hij; simp [hi]
  · simp [hij]

theorem stable_stepAct {s : St} (h : Inv s) (hf : s.flags = allMask s.n) (i : Nat) (a : Act) :
    (stepAct s i a).1.flags = allMask s.n := by
  fun_cases stepAct s i a
  case case2 v hv hpc =>
    have hi : i < s.n := h.len ▸ lt_of_get hv
    simp [hf, or_flag_all s.n i hi]
  case case3 v hv hpc hvd h2 hfl => exact absurd (hfl.symm.trans hf) (flag_ne_all _ _ h.n2)
  case case8 v hv hpc => exact absurd hf ((h.pcs i v hv).2 _ hpc).2
  case case12 v hv hpc hvd =>
    have hi : i < s.n := h.len ▸ lt_of_get hv
    simp [hf, or_flag_all s.n i hi]
  all_goals simp [hf]

/-- **Unanimity is never undone**: once every flag is set no atomic step of anybody changes it. -/
theorem C17_unanimity_stable (n : Nat) (h2 : 2 ≤ n) (h8 : n ≤ 8) (evs more : List Ev)
    (hu : (reach n evs).flags = allMask n) : (run (reach n evs) more).flags = allMask n := by
  have hi := reach_inv n h2 h8 evs
  have hn := reach_n n evs
  generalize reach n evs = s at *
  induction more generalizing s with
  | nil => exact hu
  | cons e more ih =>
    simp only [run, List.foldl]
    cases e with
    | poll => exact ih _ (by rw [step_poll_flags]; exact hu) (inv_step hi .poll) (by rw [step_poll_n]; exact hn)
    | act i a =>
      have := stable_stepAct hi (hn ▸ hu) i a
      exact ih _ (by simp only [step]; rw [this, hn]) (inv_stepAct hi i a)
        (by simp only [step]; rw [n_stepAct, hn])

/-- A vote that reports `Unanimous` has made every flag set (and wakes the receiver). -/
theorem C17_vote_unanimous_sound (n : Nat) (h2 : 2 ≤ n) (h8 : n ≤ 8) (evs : List Ev) (i : Nat)
    (hr : (step (reach n evs) (.act i .vote)).2 = .unanimous) :
    (step (reach n evs) (.act i .vote)).1.flags = allMask n ∧
    (step (reach n evs) (.act i .vote)).1.woken = true := by
  have hi := reach_inv n h2 h8 evs
  have hn := reach_n n evs
  generalize reach n evs = s at *
  generalize ha : Act.vote = a at hr ⊢
  simp only [step] at hr ⊢
  revert hr
  fun_cases stepAct s i a
  case case2 v hv hpc =>
    have hlt : i < s.n := hi.len ▸ lt_of_get hv
    rw [doVote_res]
    split
    · rename_i hb
      intro _
      exact ⟨by rw [doVote_flags, hb, inverse_or_flag s.n i hlt, hn], doVote_woken _ _ _ _ hb⟩
    · simp
  all_goals simp_all

/-- A rescind (either atomic step of it) that reports `Unanimous` happens with every flag set:
the caller *will* see the runtime stop (by `C17_unanimity_stable`). -/
theorem C17_rescind_unanimous_sound (n : Nat) (h2 : 2 ≤ n) (h8 : n ≤ 8) (evs : List Ev) (i : Nat) (a : Act)
    (ha : a = .rescind ∨ a = .cas)
    (hr : (step (reach n evs) (.act i a)).2 = .unanimous) :
    (reach n evs).flags = allMask n ∧ (step (reach n evs) (.act i a)).1.flags = allMask n := by
  have hi := reach_inv n h2 h8 evs
  have hn := reach_n n evs
  generalize reach n evs = s at *
  simp only [step] at hr ⊢
  revert hr
  fun_cases stepAct s i a
  case case4 v hv hpc hvd htwo hne =>
    -- two parties, CAS(flag, 0) failed although we hold a vote: the other flag must be set too
    intro _
    have hlt : i < s.n := hi.len ▸ lt_of_get hv
    have hn2 : s.n = 2 := (two_party_iff s.n i hi.n2 hi.n8 hlt).mp htwo
    have hbi := hi.bits i
    rw [votedAt_of_get hv, hvd] at hbi
    have : s.flags = allMask s.n := by
      apply Nat.eq_of_testBit_eq
      intro j
      rw [testBit_allMask]
      by_cases hj : j < s.n
      · by_cases hij : i = j
        · subst hij; simpa [hj] using hbi
        · -- j is the other party; if its bit were clear, flags = flagOf i
          cases hjb : s.flags.testBit j with
          | true => simp [hj]
          | false =>
            exfalso; apply hne
            apply Nat.eq_of_testBit_eq
            intro k
            rw [testBit_flagOf]
            by_cases hk : k < s.n
            · have : k = i ∨ k = j := by omega
              rcases this with rfl | rfl
              · simpa [hk] using hbi
              · simp [hjb, hij]
            · have := hi.bits k
              simp [hk] at this
              rw [this]; simp; omega
      · have := hi.bits j
        simp [hj] at this ⊢
        exact this
    exact ⟨by rw [this, hn], by rw [this, hn]⟩
  case case5 v hv hpc hvd htwo hfl =>
    intro _
    have hlt : i < s.n := hi.len ▸ lt_of_get hv
    rw [inverse_or_flag s.n i hlt] at hfl
    exact ⟨by rw [hfl, hn], by rw [hfl, hn]⟩
  case case9 v hv c hpc hne hfl =>
    intro _
    have hlt : i < s.n := hi.len ▸ lt_of_get hv
    rw [inverse_or_flag s.n i hlt] at hfl
    exact ⟨by rw [hfl, hn], by simp only [setVoter_flags]; rw [hfl, hn]⟩
  case case2 => rcases ha with h | h <;> simp at h
  case case11 => rcases ha with h | h <;> simp at h
  case case12 => rcases ha with h | h <;> simp at h
  all_goals simp_all

/-- A rescind that reports `UnanimityPending` leaves the caller without an outstanding vote, and the stop
has not begun. -/
theorem C17_rescind_pending_sound (n : Nat) (h2 : 2 ≤ n) (h8 : n ≤ 8) (evs : List Ev) (i : Nat) (a : Act)
    (hlt : i < n) (ha : a = .rescind ∨ a = .cas)
    (hr : (step (reach n evs) (.act i a)).2 = .pending) :
    votedAt (step (reach n evs) (.act i a)).1 i = false ∧
    (step (reach n evs) (.act i a)).1.flags ≠ allMask n := by
  have hi := reach_inv n h2 h8 evs
  have hn := reach_n n evs
  have hpost := inv_step hi (.act i a)
  have hnp : (step (reach n evs) (.act i a)).1.n = n := by rw [n_step, hn]
  have hv : votedAt (step (reach n evs) (.act i a)).1 i = false := by
    generalize reach n evs = s at *
    simp only [step] at hr ⊢
    revert hr
    fun_cases stepAct s i a
    case case1 hnone => intro _; simp [votedAt, hnone]
    case case3 v hv hpc hvd htwo hfl => intro _; rw [votedAt_setVoter]; simp [lt_of_get hv]
    case case7 v hv hpc hvd => intro _; rw [votedAt_of_get hv]; simpa using hvd
    case case8 v hv hpc => intro _; rw [votedAt_setVoter]; simp [lt_of_get hv]
    case case2 => rcases ha with h | h <;> simp at h
    all_goals simp_all
  refine ⟨hv, ?_⟩
  intro hall
  have := (flags_all_iff hpost).mp (by rw [hall, hnp]) i (by rw [hnp]; exact hlt)
  rw [hv] at this
  exact Bool.false_ne_true this

/-- …and the stop cannot begin while that party has no outstanding vote, whatever the others do. -/
theorem C17_no_stop_without_my_vote (n : Nat) (h2 : 2 ≤ n) (h8 : n ≤ 8) (evs : List Ev) (i : Nat)
    (hlt : i < n) (hv : votedAt (reach n evs) i = false) : (reach n evs).flags ≠ allMask n := by
  intro hall
  have := (C17_unanimous_iff_all_outstanding n h2 h8 evs).mp hall i hlt
  rw [hv] at this
  exact Bool.false_ne_true this

/-- A party's outstanding vote appears only through its own `vote` (or its drop). -/
theorem C17_only_own_vote_sets (n : Nat) (evs : List Ev) (i : Nat) (e : Ev)
    (hv : votedAt (reach n evs) i = false) (hv' : votedAt (step (reach n evs) e).1 i = true) :
    e = .act i .vote ∨ e = .act i .drop := by
  generalize reach n evs = s at *
  cases e with
  | poll => rw [votedAt_step_poll, hv] at hv'; exact absurd hv' (by decide)
  | act k a =>
    simp only [step] at hv'
    revert hv'
    fun_cases stepAct s k a
    case case2 v hvk hpc =>
      rw [votedAt_doVote]; split
      · rename_i h; intro _; left; rw [h.1]
      · simp [hv]
    case case12 v hvk hpc hvd =>
      rw [votedAt_doVote]; split
      · rename_i h; intro _; right; rw [h.1]
      · simp [hv]
    all_goals (try rw [votedAt_setVoter]) <;> (try split) <;> simp_all [votedAt]

/-- **A party that disappears counts as having voted**, forever. -/
theorem C17_drop_counts_as_vote (n : Nat) (h2 : 2 ≤ n) (h8 : n ≤ 8) (evs more : List Ev) (i : Nat)
    (hr : (step (reach n evs) (.act i .drop)).2 = .unit) :
    votedAt (run (step (reach n evs) (.act i .drop)).1 more) i = true := by
  have hi := reach_inv n h2 h8 evs
  -- after the drop the voter is `dead`; `dead` is permanent and implies `voted`
  have hdead : ∃ v, (step (reach n evs) (.act i .drop)).1.voters[i]? = some v ∧ v.pc = .dead := by
    generalize reach n evs = s at *
    generalize ha : Act.drop = a at hr ⊢
    simp only [step] at hr ⊢
    revert hr
    fun_cases stepAct s i a
    case case11 v hv hpc hvd =>
      intro _
      exact ⟨{ v with pc := .dead }, by rw [setVoter_get]; simp [lt_of_get hv], rfl⟩
    case case12 v hv hpc hvd =>
      intro _
      exact ⟨{ voted := true, pc := .dead }, by rw [doVote_get]; simp [lt_of_get hv], rfl⟩
    all_goals simp_all
  have hi' := inv_step hi (.act i .drop)
  generalize (step (reach n evs) (.act i .drop)).1 = s at *
  induction more generalizing s with
  | nil =>
    obtain ⟨v, hv, hpc⟩ := hdead
    simp only [run, List.foldl]
    rw [votedAt_of_get hv]; exact (hi'.pcs i v hv).1 hpc
  | cons e more ih =>
    simp only [run, List.foldl]
    apply ih _ _ (inv_step hi' e)
    obtain ⟨v, hv, hpc⟩ := hdead
    cases e with
    | poll => exact ⟨v, by rw [step_poll_voters]; exact hv, hpc⟩
    | act k a =>
      simp only [step]
      by_cases hk : k = i
      · subst hk
        fun_cases stepAct s k a <;> simp_all
      · fun_cases stepAct s k a
        case case2 w hw hpcw => rw [doVote_get]; simp [hk]; exact ⟨v, hv, hpc⟩
        case case12 w hw hpcw hvd => rw [doVote_get]; simp [hk]; exact ⟨v, hv, hpc⟩
        all_goals (try rw [setVoter_get]) <;> (try simp [hk]) <;> exact ⟨v, hv, hpc⟩

/-! ### No lost wake-up -/

theorem or_flag_eq_all {n i f : Nat} (hi : i < n) (hb : ∀ j, f.testBit j = true → j < n)
    (h : f ||| flagOf i = allMask n) : f = inverseOf n i ∨ f = allMask n := by
  have hj : ∀ j, (f.testBit j || decide (i = j)) = decide (j < n) := by
    intro j
    have := congrArg (fun x => x.testBit j) h
    simpa [Nat.testBit_or, testBit_allMask, testBit_flagOf] using this
  by_cases hbit : f.testBit i = true
  · right
    apply Nat.eq_of_testBit_eq
    intro j
    rw [testBit_allMask]
    by_cases hij : i = j
    · subst hij; simp [hbit, hi]
    · have := hj j; simpa [hij] using this
  · left
    apply Nat.eq_of_testBit_eq
    intro j
    simp only [inverseOf, Nat.testBit_xor, testBit_allMask, testBit_flagOf]
    by_cases hij : i = j
    · subst hij; simp [hbit, hi]
    · have := hj j; simpa [hij] using this

theorem doVote_parked_wakes (s : St) (i : Nat) (v : Voter) (pc : PC) (h : s.flags = inverseOf s.n i) :
    (doVote s i v pc).1.parked = false ∧ (doVote s i v pc).1.wakes = s.wakes + (if s.parked then 1 else 0) := by
  unfold doVote; simp only []; rw [if_pos h]; exact ⟨rfl, rfl⟩

theorem inv_bits_lt {s : St} (h : Inv s) : ∀ j, s.flags.testBit j = true → j < s.n := by
  intro j hj
  rw [h.bits j] at hj
  simp at hj
  exact hj.1

/-- A voter's step changes `parked` only by taking the waker. -/
theorem parked_false_of_changed (s : St) (i : Nat) (a : Act) (h : ¬ (stepAct s i a).1.parked = s.parked) :
    (stepAct s i a).1.parked = false := by
  revert h
  fun_cases stepAct s i a
  case case2 v hv hpc => unfold doVote; simp only []; split <;> simp [setVoter]
  case case12 v hv hpc hvd => unfold doVote; simp only []; split <;> simp [setVoter]
  all_goals (intro h; exact absurd rfl h)

/-- A step of a voter that makes every flag set, from a state where not every flag was set, is the vote
(or drop) whose `fetch_or` saw `inverse`: it takes the registered waker and wakes it. -/
theorem reach_all_stepAct {s : St} (h : Inv s) (hne : s.flags ≠ allMask s.n) (i : Nat) (a : Act)
    (hall : (stepAct s i a).1.flags = allMask s.n) :
    (stepAct s i a).1.parked = false ∧ (stepAct s i a).1.wakes = s.wakes + (if s.parked then 1 else 0) := by
  revert hall
  fun_cases stepAct s i a
  case case2 v hv hpc =>
    intro hall
    rw [doVote_flags] at hall
    have hi : i < s.n := h.len ▸ lt_of_get hv
    rcases or_flag_eq_all hi (inv_bits_lt h) hall with hinv | hal
    · exact doVote_parked_wakes s i v _ hinv
    · exact absurd hal hne
  case case12 v hv hpc hvd =>
    intro hall
    rw [doVote_flags] at hall
    have hi : i < s.n := h.len ▸ lt_of_get hv
    rcases or_flag_eq_all hi (inv_bits_lt h) hall with hinv | hal
    · exact doVote_parked_wakes s i v _ hinv
    · exact absurd hal hne
  case case3 v hv hpc hvd h2p hf =>
    intro hall
    exfalso
    have hn2 := h.n2
    have h0 : (allMask s.n).testBit 0 = true := by rw [testBit_allMask]; simp; omega
    have hc : (Generated.coordInit).testBit 0 = false := by decide
    have hall' : Generated.coordInit = allMask s.n := hall
    rw [← hall', hc] at h0
    exact absurd h0 (by decide)
  case case8 v hv hpc =>
    intro hall
    exfalso
    have hi : i < s.n := h.len ▸ lt_of_get hv
    have h0 := congrArg (fun x => x.testBit i) hall
    simp [setVoter, Nat.testBit_and, testBit_notU8, testBit_flagOf, testBit_allMask, hi] at h0
    have := h.n8
    omega
  all_goals (intro hall; exact absurd hall hne)

/-- **No lost wake-up (1)**: in every reachable state in which every party has an outstanding vote (or is gone),
the receiver is not left parked: the waker it registered has been taken and woken. -/
theorem C17_no_parked_receiver_after_unanimity (n : Nat) (h2 : 2 ≤ n) (h8 : n ≤ 8) (evs : List Ev) :
    (reach n evs).flags = allMask n → (reach n evs).parked = false := by
  suffices H : ∀ (evs : List Ev) (s : St), Inv s → (s.flags = allMask s.n → s.parked = false) →
      ((run s evs).flags = allMask (run s evs).n → (run s evs).parked = false) by
    have := H evs (init n) (inv_init n h2 h8) (by intro _; rfl)
    rw [n_run] at this
    exact this
  intro evs
  induction evs with
  | nil => intro s _ hp; exact hp
  | cons e evs ih =>
    intro s hi hp
    simp only [run, List.foldl]
    apply ih _ (inv_step hi e)
    rw [n_step]
    cases e with
    | poll =>
      simp only [step]
      split
      · exact hp
      · rename_i hne; intro hall; exact absurd hall hne
    | act i a =>
      simp only [step]
      intro hall
      by_cases hf : s.flags = allMask s.n
      · have hpk := hp hf
        -- already unanimous: a voter's step can only keep `parked = false`
        by_cases hch : (stepAct s i a).1.parked = s.parked
        · rw [hch]; exact hpk
        · exact parked_false_of_changed s i a hch
      · exact (reach_all_stepAct hi hf i a hall).1

/-- **No lost wake-up (2)**: if the receiver is parked (its last poll returned `Pending` and it has not been woken
since) and a step of any party makes the vote unanimous, that very step delivers exactly one wake-up. -/
theorem C17_parked_receiver_woken_by_unanimity (n : Nat) (h2 : 2 ≤ n) (h8 : n ≤ 8) (evs : List Ev) (e : Ev)
    (hp : (reach n evs).parked = true) (hall : (step (reach n evs) e).1.flags = allMask n) :
    (step (reach n evs) e).1.wakes = (reach n evs).wakes + 1 ∧ (step (reach n evs) e).1.parked = false := by
  have hi := reach_inv n h2 h8 evs
  have hn := reach_n n evs
  have hne : (reach n evs).flags ≠ allMask (reach n evs).n := by
    intro hf
    rw [hn] at hf
    have := C17_no_parked_receiver_after_unanimity n h2 h8 evs hf
    rw [hp] at this; exact absurd this (by decide)
  generalize reach n evs = s at *
  cases e with
  | poll => rw [step_poll_flags, ← hn] at hall; exact absurd hall hne
  | act i a =>
    simp only [step] at hall ⊢
    have := reach_all_stepAct hi hne i a (hn ▸ hall)
    rw [hp] at this
    exact ⟨by simpa using this.2, this.1⟩

example : (reach 3 [.act 0 .vote, .poll, .act 1 .vote]).parked = true := by decide
example : (step (reach 3 [.act 0 .vote, .poll, .act 1 .vote]) (.act 2 .drop)).1.wakes = 1 := by decide

/-! Non-vacuity and the witness of the defect repaired by the `fix:` commit (kept as regression). -/

example : (reach 2 [.act 0 .vote, .act 1 .vote]).flags = allMask 2 := by decide
example : (step (reach 2 [.act 0 .vote]) (.act 1 .vote)).2 = .unanimous := by decide
example : (step (reach 3 [.act 0 .vote, .act 0 .rescind]) (.act 0 .cas)).2 = .pending := by decide
example : (step (reach 2 [.act 0 .vote, .act 1 .vote]) (.act 0 .rescind)).2 = .unanimous := by decide
/-- `vote; rescind; rescind` on two parties (F11): the second rescind is now `UnanimityPending`. -/
example : (step (reach 2 [.act 0 .vote, .act 0 .rescind]) (.act 0 .rescind)).2 = .pending := by decide
/-- `vote; rescind; drop; other votes` (F11): the receiver is now ready. -/
example : (step (reach 2 [.act 0 .vote, .act 0 .rescind, .act 0 .drop, .act 1 .vote]) .poll).2 = .ready := by
  decide

/-! ## The model is the source (translator tie)

`Generated/TimeoutSrc.lean` is regenerated on every run from `runtime/swimos_runtime/src/timeout_coord/mod.rs` by
`tools/extractors/c17.py`: the statement structure of `Voter::vote`, `Voter::rescind` (both the two-party
`compare_exchange` and the CAS loop), `Drop for Voter` and `Receiver::poll`. -/

open SwimVerif.CoordProg in
/-- **Every API call of the model is the translated source of that call** (run to completion without interference), for
every state, party index and idle voter: same next state (shared word, the voter's `voted` cell, the receiver's waker
bookkeeping) and same answer.  `rescind` is the model's `load` step followed by its `compare_exchange` step. -/
theorem C17_source_is_model (s : St) (i : Nat) (v : Voter) (hv : s.voters[i]? = some v) (hpc : v.pc = .idle) :
    ((finish (execC Generated.TimeoutSrc.vote (start s i v)) .idle, (execC Generated.TimeoutSrc.vote (start s i v)).ret)
        = ((stepAct s i .vote).1, some (stepAct s i .vote).2)) ∧
    ((finish (execC Generated.TimeoutSrc.rescind (start s i v)) .idle,
        (execC Generated.TimeoutSrc.rescind (start s i v)).ret) = ((apiRescind s i).1, some (apiRescind s i).2)) ∧
    ((finish (execC Generated.TimeoutSrc.drop (start s i v)) .dead, (execC Generated.TimeoutSrc.drop (start s i v)).ret)
        = ((stepAct s i .drop).1, none)) ∧
    (((execC Generated.TimeoutSrc.poll { s := s, i := 0, voted := false }).s,
        (execC Generated.TimeoutSrc.poll { s := s, i := 0, voted := false }).ret)
        = ((step s .poll).1, some (step s .poll).2)) :=
  ⟨vote_eq s i v hv hpc, rescind_eq s i v hv hpc, drop_eq s i v hv hpc, poll_eq s⟩

open SwimVerif.CoordProg in
/-- **The atomic steps of the interleaving model are the atomic accesses of the source**, in program order: `vote` is
one `fetch_or` (then `wake` exactly when that access completed the set), `rescind` is nothing / one
`compare_exchange` / `load` then at most one `compare_exchange`, `drop` is nothing or a `vote`, and `poll` is `load`,
then — only when the set is incomplete — `register` and a SECOND `load` (the order `C17_poll_no_lost_wakeup` rests on). -/
theorem C17_source_atomic_accesses (s : St) (i : Nat) (voted : Bool) :
    (traceOf Generated.TimeoutSrc.vote s i voted = [.fetchOr] ∨
      (traceOf Generated.TimeoutSrc.vote s i voted = [.fetchOr, .wake] ∧ s.flags = inverseOf s.n i)) ∧
    (traceOf Generated.TimeoutSrc.rescind s i voted ∈ [[], [.cas true], [.cas false], [.load], [.load, .cas true]]) ∧
    (traceOf Generated.TimeoutSrc.drop s i voted = [] ∨
      traceOf Generated.TimeoutSrc.drop s i voted = traceOf Generated.TimeoutSrc.vote s i voted) ∧
    (traceOf Generated.TimeoutSrc.poll s i voted = [.load] ∧ s.flags = allMask s.n ∨
     traceOf Generated.TimeoutSrc.poll s i voted = [.load, .register, .load] ∧ s.flags ≠ allMask s.n) :=
  atomic_accesses s i voted

/-! Non-vacuity: three parties, two have voted; the translated `vote` of the third answers `Unanimous` and wakes; the
translated `rescind` of a voter (three parties: the CAS loop) does `load`, `compare_exchange`. -/
example : (SwimVerif.CoordProg.execC Generated.TimeoutSrc.vote
      (SwimVerif.CoordProg.start (reach 3 [.act 0 .vote, .act 1 .vote]) 2 {})).ret = some .unanimous ∧
    SwimVerif.CoordProg.traceOf Generated.TimeoutSrc.vote (reach 3 [.act 0 .vote, .act 1 .vote]) 2 false
      = [.fetchOr, .wake] ∧
    SwimVerif.CoordProg.traceOf Generated.TimeoutSrc.rescind (reach 3 [.act 0 .vote]) 0 true = [.load, .cas true] := by
  decide

end SwimVerif.Coord

/-!
## The coordinator as it is used: the agent runtime's three tasks (`Model/InactivityRt.lean`)

Quantifier: every timeout `T`, every script (`List Op`) of remote attach / detach / link / sync / unlink / command,
agent reads and events, HTTP requests (served, 404, blocked on a full lane queue), agent reads of the HTTP queue and
clock advances. `reachRt T ops` is the state of the composed model (read, write and HTTP task, each a voter of the
three-party coordinator with its busy flag and timer, plus `AgentRuntimeTask::run`'s stop rule) after the script.
`rAct / wAct / hAct` = the time of the task's last vote-withdrawing activity.
-/
namespace SwimVerif.InactRt
open SwimVerif

def reachRt (T : Nat) (ops : List Op) : St := run (init T) ops

theorem reachRt_inv (T : Nat) (ops : List Op) : RInv (reachRt T ops) := rinv_run (rinv_init T) ops

/-- the coordinator inside the runtime model is a reachable coordinator state: every `C17_*` theorem above applies -/
theorem C17_rt_coord_reachable (T : Nat) (ops : List Op) :
    ∃ evs, (reachRt T ops).coord = Coord.reach 3 evs :=
  ⟨(reachRt T ops).cevs, (reachRt_inv T ops).core.cr⟩

/-- The three tasks' own `voted` flags are exactly the coordinator's outstanding votes, and **a task that is busy
(blocked in the middle of a dispatch) has no outstanding vote**. -/
theorem C17_rt_busy_task_has_no_vote (T : Nat) (ops : List Op) :
    Coord.votedAt (reachRt T ops).coord READ = (reachRt T ops).rVoted ∧
    Coord.votedAt (reachRt T ops).coord WRITE = (reachRt T ops).wVoted ∧
    Coord.votedAt (reachRt T ops).coord HTTP = (reachRt T ops).hVoted ∧
    ((reachRt T ops).rBusy = true → Coord.votedAt (reachRt T ops).coord READ = false) ∧
    ((reachRt T ops).hBusy = true → Coord.votedAt (reachRt T ops).coord HTTP = false) := by
  have h := (reachRt_inv T ops).core
  exact ⟨h.vr, h.vw, h.vh, fun hb => h.vr.trans (h.rb hb), fun hb => h.vh.trans (h.hb hb)⟩

/-- **The runtime stops by the vote only when all three tasks are idle, their votes are outstanding at that very
moment, and for each of them a full timeout has passed since its last activity**; and then `run_agent` returns. -/
theorem C17_rt_stop_needs_all_idle_expired (T : Nat) (ops : List Op) (st : Stop)
    (hs : (reachRt T ops).stop = some st) (hk : st.kind = .unanimous) :
    (reachRt T ops).rBusy = false ∧ (reachRt T ops).hBusy = false ∧
    (∀ i, i < 3 → Coord.votedAt (reachRt T ops).coord i = true) ∧
    (reachRt T ops).rVoted = true ∧ (reachRt T ops).wVoted = true ∧ (reachRt T ops).hVoted = true ∧
    (reachRt T ops).rAct + T ≤ st.time ∧ (reachRt T ops).wAct + T ≤ st.time ∧ (reachRt T ops).hAct + T ≤ st.time ∧
    st.ret = true := by
  have hTT : (reachRt T ops).T = T := T_run (init T) ops
  have h := reachRt_inv T ops
  obtain ⟨hf, htime, hret⟩ := h.st_un st hs hk
  have hall := (Coord.flags_all_iff h.core.c.inv).mp (by rw [hf, h.core.c.n3])
  rw [h.core.c.n3] at hall
  have hr : (reachRt T ops).rVoted = true := h.core.vr.symm.trans (hall 0 (by decide))
  have hw : (reachRt T ops).wVoted = true := h.core.vw.symm.trans (hall 1 (by decide))
  have hh : (reachRt T ops).hVoted = true := h.core.vh.symm.trans (hall 2 (by decide))
  have hrb : (reachRt T ops).rBusy = false := by
    cases hb : (reachRt T ops).rBusy with
    | false => rfl
    | true => have := h.core.rb hb; rw [hr] at this; cases this
  have hhb : (reachRt T ops).hBusy = false := by
    cases hb : (reachRt T ops).hBusy with
    | false => rfl
    | true => have := h.core.hb hb; rw [hh] at this; cases this
  refine ⟨hrb, hhb, hall, hr, hw, hh, ?_, ?_, ?_, ?_⟩
  · have := h.core.ra hr; rw [hTT] at this; rw [htime]; exact this
  · have := h.core.wa hw; rw [hTT] at this; rw [htime]; exact this
  · have := h.core.ha hh; rw [hTT] at this; rw [htime]; exact this
  · rw [hret, hrb, hhb]; rfl

/-- **An HTTP task that becomes busy before unanimity prevents the stop by the vote** for as long as the agent does
not read the HTTP lane's queue, whatever else happens (remotes, other requests, any amount of time). -/
theorem C17_rt_http_busy_prevents_stop (T : Nat) (ops more : List Op)
    (hb : (reachRt T ops).hBusy = true) (hm : ∀ op, op ∈ more → op ≠ .httpread) (st : Stop)
    (hs : (reachRt T (ops ++ more)).stop = some st) : st.kind = .noRemotes := by
  cases hk : st.kind with
  | noRemotes => rfl
  | unanimous =>
    have h1 := (C17_rt_stop_needs_all_idle_expired T (ops ++ more) st hs hk).2.1
    have h2 : (reachRt T (ops ++ more)).hBusy = true := by
      unfold reachRt; rw [run_app]; exact hBusy_run hb more hm
    rw [h1] at h2; cases h2

/-- … and the same for a read task blocked feeding a lane, until the agent reads that lane. -/
theorem C17_rt_read_busy_prevents_stop (T : Nat) (ops more : List Op)
    (hb : (reachRt T ops).rBusy = true) (hm : ∀ op, op ∈ more → op ≠ .take (reachRt T ops).busyLane) (st : Stop)
    (hs : (reachRt T (ops ++ more)).stop = some st) : st.kind = .noRemotes := by
  cases hk : st.kind with
  | noRemotes => rfl
  | unanimous =>
    have h1 := (C17_rt_stop_needs_all_idle_expired T (ops ++ more) st hs hk).1
    have h2 : (reachRt T (ops ++ more)).rBusy = true := by
      unfold reachRt; rw [run_app]; exact rBusy_run hb more hm
    rw [h1] at h2; cases h2

/-- **After unanimity the run ends**: in no reachable state is every flag set while the runtime is still up. -/
theorem C17_rt_unanimity_ends_run (T : Nat) (ops : List Op)
    (hf : (reachRt T ops).coord.flags = Coord.allMask 3) : ∃ st, (reachRt T ops).stop = some st := by
  cases hs : (reachRt T ops).stop with
  | some st => exact ⟨st, rfl⟩
  | none => exact absurd hf ((reachRt_inv T ops).st_none hs)

/-- A task whose `vote()` is told `Unanimous` has set the last flag: the attachment task's `combined_stop` fires
(`settle`) — **a task told the stop is unanimous will see the runtime stop**. -/
theorem C17_rt_told_unanimous_sets_all (T : Nat) (ops : List Op) (i : Nat) (hi : i < 3)
    (ht : voteTold (reachRt T ops) i = true) :
    (voteAs (reachRt T ops) i).coord.flags = Coord.allMask 3 ∧
    ∀ s' : St, s'.coord = (voteAs (reachRt T ops) i).coord → (settle s').stop.isSome = true := by
  have hc := (reachRt_inv T ops).core.c
  have hfl : (voteAs (reachRt T ops) i).coord.flags = Coord.allMask 3 :=
    vote_told_flags hc hi (by simpa [voteTold] using ht)
  refine ⟨hfl, ?_⟩
  intro s' hs'
  unfold settle
  split
  · assumption
  · rw [hs', if_pos hfl]; rfl

/-- While the runtime is up no `rescind()` is told `Unanimous`: every activity really withdraws the vote. -/
theorem C17_rt_rescind_pending_while_up (T : Nat) (ops : List Op) (i : Nat) (hi : i < 3)
    (hs : (reachRt T ops).stop = none) : rescindTold (reachRt T ops) i = false := by
  have h := reachRt_inv T ops
  rcases rescind_cases h.core.c hi with hl | hr
  · exact absurd hl.2.2 (h.st_none hs)
  · simp [rescindTold, hr.1]

/-- "The runtime stops for inactivity only by the unanimous vote" is **false** for the code as it is: with no remote
attached the write task stops the agent at its own timeout without a vote (finding C17-N1). -/
def C17_rt_stop_only_unanimous : Prop :=
  ∀ (T : Nat) (ops : List Op) (st : Stop), (reachRt T ops).stop = some st → st.kind = .unanimous

/-- Witness: an agent that serves an HTTP request every 500 ms is stopped at t = 1001 ms. -/
theorem C17_rt_stop_only_unanimous_fails : ¬ C17_rt_stop_only_unanimous := by
  intro h
  have := h 1001 [.http false, .adv 5, .http false, .adv 5, .http false, .adv 5]
    { kind := .noRemotes, time := 1001, ret := true, writeSaw := false } (by decide)
  cases this

/-- What does hold: a stop without the vote happens only when no remote is attached (and the write task's own timer
has expired); with a remote attached the runtime stops only by the unanimous vote. -/
theorem C17_rt_stop_only_unanimous_partial (T : Nat) (ops : List Op) (st : Stop)
    (hs : (reachRt T ops).stop = some st) :
    st.kind = .unanimous ∨
    ((reachRt T ops).attached = [] ∧ (reachRt T ops).wRemotes = [] ∧ (reachRt T ops).wAct + (reachRt T ops).T ≤ st.time) := by
  cases hk : st.kind with
  | unanimous => exact Or.inl rfl
  | noRemotes =>
    right
    have h := reachRt_inv T ops
    obtain ⟨hw, ht, _⟩ := h.st_nr st hs hk
    refine ⟨?_, hw, ht⟩
    cases hatt : (reachRt T ops).attached with
    | nil => rfl
    | cons r rest =>
      have := h.core.sub r (by rw [hatt]; exact List.mem_cons_self)
      rw [hw] at this; cases this

example : (reachRt 1001 [.attach 1, .http true, .adv 5, .link 1 0, .adv 6, .http true]).hBusy = true := by decide
example : (reachRt 1001 [.attach 1, .http true, .adv 5, .link 1 0, .adv 6, .http true, .adv 5, .adv 6]).stop = none := by
  decide
example : (reachRt 1001 [.attach 1, .link 1 0, .adv 5, .http false, .adv 5, .adv 5, .adv 1]).stop =
    some { kind := .unanimous, time := 1501, ret := true, writeSaw := false } := by decide
example : (reachRt 1001 [.attach 1, .cmd 1 0, .cmd 1 0]).rBusy = true := by decide
example : voteTold (reachRt 1001 [.attach 1, .adv 10]) 0 = false := by decide

/-- **No deadlock at the level of the runtime**: when neither the read nor the HTTP task is busy and nothing happens
for a full timeout (`T ≥ 100` ms, the clock advances by `100 k ≥ T` ms), the runtime stops: every task's timer fires,
every task votes, the last one is told `Unanimous` (or the write task's "no remotes" short cut fires first). -/
theorem C17_rt_quiet_stops (T : Nat) (ops : List Op) (k : Nat) (hT : 100 ≤ T)
    (hr : (reachRt T ops).rBusy = false) (hh : (reachRt T ops).hBusy = false) (hk : T ≤ 100 * k) :
    ((step (reachRt T ops) (.adv k)).1.stop).isSome = true := by
  have h := reachRt_inv T ops
  have hTT : (reachRt T ops).T = T := T_run (init T) ops
  generalize reachRt T ops = s at *
  unfold step
  cases hs : s.stop with
  | some st => simp [hs]
  | none =>
    simp only [Option.isSome_none, Bool.false_eq_true, if_false, step0]
    have hdr := h.core.dr hr
    have hdh := h.core.dh hh
    have p : Prog s s.now (s.now + 100 * k) (3 * (k + 1) + 3) := by
      refine ⟨h, hs, hh, hr, by rw [hTT]; exact hT, Nat.le_refl _, Or.inr (by omega), Or.inr (by omega), ?_, ?_⟩
      · cases hw : s.wVoted with
        | true => exact Or.inl rfl
        | false =>
          have he := h.core.ew hw
          have := h.core.dw he
          exact Or.inr ⟨he, by omega⟩
      · have h1 : mH s s.now (s.now + 100 * k) ≤ k + 1 := by unfold mH; split <;> omega
        have h2 : mR s s.now (s.now + 100 * k) ≤ k + 1 := by unfold mR; split <;> omega
        have h3 : mW s (s.now + 100 * k) ≤ 1 := by unfold mW; split <;> omega
        omega
    have := prog_advLoop s.now (s.now + 100 * k) _ p
    unfold settle
    rw [if_pos this]
    exact this

example : ((step (reachRt 1001 [.attach 1, .link 1 0, .http false]) (.adv 11)).1.stop).isSome = true := by decide

end SwimVerif.InactRt

/-!
## … and the downlink runtime's two tasks (`Model/InactivityDl.lean`)

Quantifier: every timeout `T`, every script of consumers attaching and leaving, events from the remote lane, commands
and clock advances. `live` = the consumers that are attached and have not dropped their channels.
-/
namespace SwimVerif.InactDl
open SwimVerif

def reachDl (T : Nat) (ops : List Op) : St := run (init T) ops

theorem reachDl_inv (T : Nat) (ops : List Op) : DInv (reachDl T ops) := dinv_run (dinv_init T) ops

/-- **The downlink runtime stops for inactivity only when both tasks have an outstanding vote at that moment, neither
knows of any consumer, and no consumer is attached.** -/
theorem C17_dl_stop_needs_both_idle (T : Nat) (ops : List Op) (t : Nat) (hs : (reachDl T ops).stop = some t) :
    (∀ i, i < 2 → Coord.votedAt (reachDl T ops).coord i = true) ∧
    (reachDl T ops).rVoted = true ∧ (reachDl T ops).wVoted = true ∧
    (reachDl T ops).rCons = [] ∧ (reachDl T ops).wCons = [] ∧ (reachDl T ops).live = [] := by
  have h := reachDl_inv T ops
  have hf := h.st_some t hs
  have hall := (Coord.flags_all_iff h.c.inv).mp (by rw [hf, h.c.n2])
  rw [h.c.n2] at hall
  have hr : (reachDl T ops).rVoted = true := h.vr.symm.trans (hall 0 (by decide))
  have hw : (reachDl T ops).wVoted = true := h.vw.symm.trans (hall 1 (by decide))
  refine ⟨hall, hr, hw, h.rc hr, h.wc hw, ?_⟩
  cases hl : (reachDl T ops).live with
  | nil => rfl
  | cons c rest =>
    have := h.lw c (by rw [hl]; exact List.mem_cons_self)
    rw [h.wc hw] at this; cases this

/-- **An attached consumer keeps the runtime up** for as long as it does not drop its channels, whatever else happens
and however long it is silent. -/
theorem C17_dl_consumer_prevents_stop (T : Nat) (ops more : List Op) (c : Nat)
    (hc : c ∈ (reachDl T ops).live) (hm : ∀ op, op ∈ more → op ≠ .dropc c) :
    (reachDl T (ops ++ more)).stop = none := by
  cases hs : (reachDl T (ops ++ more)).stop with
  | none => rfl
  | some t =>
    have h1 := (C17_dl_stop_needs_both_idle T (ops ++ more) t hs).2.2.2.2.2
    have h2 : c ∈ (reachDl T (ops ++ more)).live := by
      unfold reachDl; rw [run_app]; exact live_run hc more hm
    rw [h1] at h2; cases h2

/-- **After unanimity the run ends.** -/
theorem C17_dl_unanimity_ends_run (T : Nat) (ops : List Op)
    (hf : (reachDl T ops).coord.flags = Coord.allMask 2) : ∃ t, (reachDl T ops).stop = some t := by
  cases hs : (reachDl T ops).stop with
  | some t => exact ⟨t, rfl⟩
  | none => exact absurd hf ((reachDl_inv T ops).st_none hs)

/-- While the runtime is up a new consumer's `rescind()` is never told `Unanimous`. -/
theorem C17_dl_rescind_pending_while_up (T : Nat) (ops : List Op) (i : Nat) (hi : i < 2)
    (hs : (reachDl T ops).stop = none) : rescindTold (reachDl T ops) i = false := by
  have h := reachDl_inv T ops
  rcases rescind_cases2 h.c hi with hl | hr
  · exact absurd hl.2.2 (h.st_none hs)
  · simp [rescindTold, hr.1]

example : (reachDl 1001 [.attach 1, .adv 11, .dropc 1, .adv 11, .ev, .adv 5, .ev, .adv 5, .adv 6]).stop = some 3701 := by
  decide
example : (reachDl 1001 [.adv 9, .attach 1, .adv 21]).stop = none := by decide
example : (reachDl 1001 [.adv 11]).stop = some 1001 := by decide

end SwimVerif.InactDl

/-!
## Below the atomic `poll` of the model above: the wake-up handshake, every memory operation its own step
(`Model/CoordPoll.lean`)

`C17_no_parked_receiver_after_unanimity` and `C17_parked_receiver_woken_by_unanimity` treat `Receiver::poll` and
`Voter::vote` as atomic. Here `vote` = `fetch_or` ; (later) `waker.wake()`, and `poll` = `load` ; `register` ; `load`;
an execution is any interleaving of these steps of any number of parties, with rescinds and re-polls.
-/
namespace SwimVerif.CoordPoll

def reachP (n : Nat) (twoLoads : Bool) (evs : List Ev) : St := run (init n twoLoads) evs

/-- **No lost wake-up, for every interleaving of the individual memory operations**: with the re-check of the flags
after `register` (the code as it is), a receiver that was told `Pending` while every flag is set has been woken — or
the voter whose `fetch_or` set the last flag has not yet executed its `waker.wake()`. -/
theorem C17_poll_no_lost_wakeup (n : Nat) (evs : List Ev)
    (hp : (reachP n true evs).rpc = .pending) (ha : allSet (reachP n true evs) = true) :
    (reachP n true evs).woken = true ∨ anyOwes (reachP n true evs) = true := by
  have h := inv_run (inv_init n true) evs
  have ht : (reachP n true evs).twoLoads = true := by
    have : ∀ (s : St) (evs : List Ev), (run s evs).twoLoads = s.twoLoads := by
      intro s evs
      induction evs generalizing s with
      | nil => rfl
      | cons e es ih =>
        simp only [run, List.foldl] at ih ⊢
        rw [ih]
        cases e <;> simp only [step] <;> (repeat' split) <;> rfl
    exact this _ evs
  exact h.p ht hp ha

/-- … and that owed `wake()` does wake it: the waker is still in the `AtomicWaker` when the voter gets there. -/
theorem C17_poll_owed_wake_delivers (n : Nat) (evs : List Ev) (i : Nat)
    (hp : (reachP n true evs).rpc = .pending) (ho : (reachP n true evs).owes.getD i false = true) :
    (step (reachP n true evs) (.wake i)).woken = true := by
  have h : Inv (reachP n true evs) := inv_run (inv_init n true) evs
  generalize reachP n true evs = s at *
  simp only [step, ho, if_true]
  cases hw : s.woken with
  | false => have := h.j3 (Or.inr hp) hw; rw [if_pos this]
  | true => split <;> rfl

/-- "A receiver told `Pending` with every flag set is woken or still owed its wake-up" is **false** for a `poll` that
does not look at the flags again after registering (seeded change C17/r3m1): `load` (not all) ; the last `fetch_or` ;
its `wake()` (no waker yet) ; `register` — parked for ever. -/
def C17_poll_one_load_no_lost_wakeup : Prop :=
  ∀ (n : Nat) (evs : List Ev), (reachP n false evs).rpc = .pending → allSet (reachP n false evs) = true →
    (reachP n false evs).woken = true ∨ anyOwes (reachP n false evs) = true

theorem C17_poll_one_load_no_lost_wakeup_fails : ¬ C17_poll_one_load_no_lost_wakeup := by
  intro h
  have := h 2 [.fetchOr 0, .load1, .fetchOr 1, .wake 1, .register] (by decide) (by decide)
  revert this
  decide

/-- the same interleaving with the second load: the receiver is `Ready` -/
example : (reachP 2 true [.fetchOr 0, .load1, .fetchOr 1, .wake 1, .register, .load2]).rpc = .ready := by decide
example : (reachP 2 true [.fetchOr 0, .load1, .register, .load2, .fetchOr 1]).rpc = .pending := by decide
example : (reachP 2 true [.fetchOr 0, .load1, .register, .load2, .fetchOr 1, .wake 1]).woken = true := by decide

end SwimVerif.CoordPoll
