/-
C05 — persisted state is never older than what was published; restart restores it.

Model: `Model/Persist.lean` — `persist_response; handle_event` (the `WriteTaskEvent::Event` arm of `write_task`)
composed with the WHOLE write-task model of `Model/WriteTask.lean` (links, remote tracker, uplink queues with
back-pressure, write completion / failure, lane failure, pruning, stop), the store as the fold of the operations
handed to `NodePersistence`, and the init protocol of a restart (`ValueInit` / `MapInit` → `value_like_init` /
`map_like_init`).

Quantifiers: every store-id assignment `cfg` (which items are persistent), every sequence of write-task events
`evs : List PEv` (= every history and every schedule of lane responses, link / unlink / sync answers, write
completions and failures, store failures, remote removal, lane failure, stop), and every crash point: a crash point
is a prefix of the merged log (`List.take n`), whose index is the global sequence number shared by store
operations and delivered frames.
-/
import SwimVerif.Proofs.Persist

set_option linter.unusedVariables false
namespace SwimVerif.Persist
open SwimVerif.WT

def preach (cfg : Cfg) (evs : List PEv) : PSt := prun cfg {} evs

theorem reach_inv (cfg : Cfg) (evs : List PEv) : PInv cfg (preach cfg evs) := pinv_run (pinv_init cfg) evs

/-- **Persist before publish.** In the merged log of every run, every event frame delivered to any remote for a
persistent lane `l` (store id `sid`) is preceded by the store operation that hands exactly the state carried by
the frame to the store (`put_value` of the same bytes for a value / supply lane, `apply_map` of the same operation
for a map lane). -/
theorem C05_persist_before_publish (cfg : Cfg) (evs : List PEv) (pre post : List Entry) (r l sid : Nat) (b : Body)
    (hlog : (preach cfg evs).log = pre ++ Entry.send r (some l) (.event b) :: post)
    (hsid : cfg.sid l = some sid) :
    ∃ op, storeOpOf sid b = some op ∧ Entry.store op ∈ pre :=
  (reach_inv cfg evs).ord pre post r l b hlog sid hsid

/-- The same at **every crash point**: cut the log anywhere (after any store operation, after any delivered
frame); what the remotes have seen by then has been handed to the store before the cut. -/
theorem C05_persist_before_publish_at_every_cut (cfg : Cfg) (evs : List PEv) (n : Nat)
    (pre post : List Entry) (r l sid : Nat) (b : Body)
    (hlog : (preach cfg evs).log.take n = pre ++ Entry.send r (some l) (.event b) :: post)
    (hsid : cfg.sid l = some sid) :
    ∃ op, storeOpOf sid b = some op ∧ Entry.store op ∈ pre := by
  have h := (reach_inv cfg evs).ord
  rw [← List.take_append_drop n (preach cfg evs).log] at h
  exact ordered_prefix h pre post r l b hlog sid hsid

/-- Nothing is fabricated on the way: whatever event body the composed write task delivers for lane `l` was
handed to `handle_event` for lane `l` by a lane response (stated with an arbitrary predicate `P` on bodies that
holds of every response handed over). This is the no-fabrication statement of C04 for the whole write task. -/
theorem C05_delivered_bodies_were_handed_over (P : Nat → Body → Prop) (evs : List WT.Ev)
    (hP : ∀ e ∈ evs, NewOK P e) :
    PendingOK P (WT.run {} evs) ∧
    ∀ (pre : List WT.Ev) (e : WT.Ev) (post : List WT.Ev) (r l : Nat) (b : Body), evs = pre ++ e :: post →
      Entry.send r (some l) (.event b) ∈ sentBy (WT.run {} pre) e → P l b := by
  have hrun : ∀ (evs : List WT.Ev) (s : WT.St), PendingOK P s → (∀ e ∈ evs, NewOK P e) →
      PendingOK P (WT.run s evs) := by
    intro evs
    induction evs with
    | nil => intro s h _; exact h
    | cons e rest ih =>
      intro s h hall
      exact ih _ (pendingOK_step h e (hall e (by simp))) (fun e' he' => hall e' (by simp [he']))
  refine ⟨hrun evs {} (pendingOK_init P) hP, ?_⟩
  intro pre e post r l b heq hm
  have hpre : PendingOK P (WT.run {} pre) :=
    hrun pre {} (pendingOK_init P) (fun e' he' => hP e' (by rw [heq]; simp [he']))
  exact sentBy_ok hpre e r l b hm

/-- The durable store is, at every moment, the fold of the store operations in the log. -/
theorem C05_store_is_fold_of_log (cfg : Cfg) (evs : List PEv) :
    (preach cfg evs).store = foldStore (storeOps (preach cfg evs).log) :=
  (reach_inv cfg evs).fold

/-- **Restart is the fold (values).** For every sequence of operations handed to the store (any mix of items),
a value lane / value store restarted against the resulting store holds the last value handed over for its id,
or its default if there was none. -/
theorem C05_restart_is_fold_value {κ : Type} [DecidableEq κ] (ops : List (SOp κ)) (sid : Nat) (dflt : Bytes) :
    restoreValue (foldStore ops) (some sid) dflt = (lastPut sid ops).getD dflt := by
  simp only [restoreValue, valueLikeInit_valueInitMsgs, foldStore]
  rw [getValue_foldl]
  simp [StoreState.getValue]

/-- **Restart is the fold (maps).** A map lane / map store restarted against the resulting store holds exactly
the entries implied by the map operations handed over for its id, in order: every key maps to what the fold of
update / remove / clear says, and no other key is present. -/
theorem C05_restart_is_fold_map {κ : Type} [DecidableEq κ] (ops : List (SOp κ)) (sid : Nat) (k : κ) :
    kGet (restoreMap (foldStore ops) (some sid)) k = specMap (mapOpsFor sid ops) k := by
  simp only [restoreMap, foldStore]
  have hnd : NoDup ((ops.foldl applyStore ({} : StoreState κ)).readMap sid) := by
    rw [readMap_foldl]; exact noDup_foldl _ _ (by simp [StoreState.readMap, NoDup])
  rw [kGet_mapLikeInit _ hnd, readMap_foldl, kGet_foldl]
  simp [specMap, StoreState.readMap, kGet_nil_fun]

/-- Operations on other store ids do not matter: items are isolated from each other in the store. -/
theorem C05_restart_ignores_other_items {κ : Type} [DecidableEq κ] (ops : List (SOp κ)) (sid : Nat) (dflt : Bytes)
    (k : κ) :
    restoreValue (foldStore ops) (some sid) dflt = restoreValue (foldStore (ops.filter (fun o => o.sid = sid))) (some sid) dflt ∧
    kGet (restoreMap (foldStore ops) (some sid)) k =
      kGet (restoreMap (foldStore (ops.filter (fun o => o.sid = sid))) (some sid)) k := by
  have h1 := lastPut_filter sid ops
  have h2 := mapOpsFor_filter sid ops
  exact ⟨by rw [C05_restart_is_fold_value, C05_restart_is_fold_value, h1],
         by rw [C05_restart_is_fold_map, C05_restart_is_fold_map, h2]⟩

/-- **Transient items never reach the store**: every store operation of every run is addressed to the store id
of an item that has one (`store_id = None` ⇒ `persist_response` writes nothing). -/
theorem C05_transient_never_stored (cfg : Cfg) (evs : List PEv) (op : SOp Nat)
    (h : Entry.store op ∈ (preach cfg evs).log) : ∃ item, cfg.sid item = some op.sid :=
  (reach_inv cfg evs).sids op h

/-- **Transient items come back at their defaults**, whatever the store holds. -/
theorem C05_transient_default {κ : Type} [DecidableEq κ] (s : StoreState κ) (dflt : Bytes) :
    restoreValue s none dflt = dflt ∧ restoreMap s none = [] := ⟨rfl, rfl⟩

theorem storeOps_split {log : List Entry} {op : SOp Nat} (h : Entry.store op ∈ log) :
    ∃ A B, storeOps log = A ++ op :: B := by
  obtain ⟨X, Y, hxy⟩ := List.append_of_mem h
  exact ⟨storeOps X, storeOps Y, by rw [hxy, storeOps_append]; rfl⟩

/-- **Never older (values), at every crash cut.** Cut the log of any run at any point `n` and restart a
persistent value lane `l` against the store as it is at the cut. For every value `b` that any remote has been
sent for `l` before the cut, the operations handed to the store before the cut split as `A ++ put b :: B`, and the
restored value is `b` itself or a value handed over after it (never anything older). -/
theorem C05_never_older_value (cfg : Cfg) (evs : List PEv) (n r l sid : Nat) (b dflt : Bytes)
    (hsent : Entry.send r (some l) (.event (.raw b)) ∈ (preach cfg evs).log.take n)
    (hsid : cfg.sid l = some sid) :
    ∃ A B, storeOps ((preach cfg evs).log.take n) = A ++ SOp.put sid b :: B ∧
      restoreValue (foldStore (storeOps ((preach cfg evs).log.take n))) (some sid) dflt = (lastPut sid B).getD b := by
  obtain ⟨pre, post, hsplit⟩ := List.append_of_mem hsent
  obtain ⟨op, hop, hmem⟩ := C05_persist_before_publish_at_every_cut cfg evs n pre post r l sid (.raw b) hsplit hsid
  simp only [storeOpOf, Option.some.injEq] at hop
  subst hop
  have hmem' : Entry.store (SOp.put sid b) ∈ (preach cfg evs).log.take n := by
    rw [hsplit]; exact List.mem_append_left _ hmem
  obtain ⟨A, B, hAB⟩ := storeOps_split hmem'
  refine ⟨A, B, hAB, ?_⟩
  rw [C05_restart_is_fold_value, hAB, lastPut_append]
  cases hB : lastPut sid B <;> simp [lastPut, hB]

/-- **Never older (maps), at every crash cut.** Likewise for a persistent map lane: for every map operation any
remote has been sent before the cut, the restored map is the state right after that operation was handed to the
store, followed only by operations handed over later: `fold B (fold (A ++ [op]) ∅)`. -/
theorem C05_never_older_map (cfg : Cfg) (evs : List PEv) (n r l sid : Nat) (op : MapOp) (k : Nat)
    (hsent : Entry.send r (some l) (.event (.map op)) ∈ (preach cfg evs).log.take n)
    (hsid : cfg.sid l = some sid) :
    ∃ A B, storeOps ((preach cfg evs).log.take n) = A ++ SOp.map sid (mapOpK op) :: B ∧
      kGet (restoreMap (foldStore (storeOps ((preach cfg evs).log.take n))) (some sid)) k =
        (mapOpsFor sid B).foldl specApply (specMap (mapOpsFor sid A ++ [mapOpK op])) k := by
  obtain ⟨pre, post, hsplit⟩ := List.append_of_mem hsent
  obtain ⟨sop, hop, hmem⟩ := C05_persist_before_publish_at_every_cut cfg evs n pre post r l sid (.map op) hsplit hsid
  simp only [storeOpOf, Option.some.injEq] at hop
  subst hop
  have hmem' : Entry.store (SOp.map sid (mapOpK op)) ∈ (preach cfg evs).log.take n := by
    rw [hsplit]; exact List.mem_append_left _ hmem
  obtain ⟨A, B, hAB⟩ := storeOps_split hmem'
  refine ⟨A, B, hAB, ?_⟩
  rw [C05_restart_is_fold_map, hAB, mapOpsFor_append, mapOpsFor_cons]
  simp [specMap, mapOpsFor, List.foldl_append]

/-- A failed store call ends the write task: nothing is stored or sent afterwards (`persist_response(..)?`). -/
theorem C05_store_failure_stops_everything (cfg : Cfg) (s : PSt) (hf : s.failed = true) (evs : List PEv) :
    prun cfg s evs = s := by
  induction evs with
  | nil => rfl
  | cons e rest ih =>
    have : pstep cfg s e = s := by cases e <;> simp [pstep, hf]
    simp only [prun, List.foldl, this]
    exact ih

/-! ### Non-vacuity: concrete runs -/

/-- lane 0: persistent value lane (store id 7), lane 1: transient, lane 2: persistent map lane (store id 8),
item 5: a value store (store id 9). -/
def exCfg : Cfg := { sid := fun i => if i = 0 then some 7 else if i = 2 then some 8 else if i = 5 then some 9 else none }

def exRun : List PEv :=
  [ .other (.lane 0 false), .other (.lane 1 false), .other (.lane 2 false),
    .other (.attach 1), .other (.link 1 0), .other (.done 1 true),
    .resp 0 (.lane none (.value [53])) true,          -- the value lane publishes `5`
    .other (.done 1 true),
    .resp 1 (.lane (some 1) (.value [54])) true,      -- the transient lane answers a sync of remote 1
    .other (.done 1 true), .other (.done 1 true),
    .resp 5 (.storeValue [57]) true,                  -- the value store is set
    .resp 2 (.lane (some 1) (.map (.upd 3 [49]))) true,
    .other (.done 1 true), .other (.done 1 true) ]

/-- The log of the run: each published state of a persistent lane is preceded by its store operation, the
transient lane's value is sent without any store operation, the store item is stored and never sent. -/
example : (preach exCfg exRun).log =
    [ .send 1 (some 0) .linked,
      .store (.put 7 [53]), .send 1 (some 0) (.event (.raw [53])),
      .send 1 (some 1) .linked, .send 1 (some 1) (.event (.raw [54])),
      .store (.put 9 [57]),
      .store (.map 8 (.upd 3 [49])), .send 1 (some 2) .linked, .send 1 (some 2) (.event (.map (.upd 3 [49]))) ] := by
  decide

/-- Restart after that run: the value lane holds `5`, the map lane `{3 ↦ 1}`, the store `9`; a crash after the
first store operation (cut at 2) already restores `5`. -/
example : restoreValue (preach exCfg exRun).store (some 7) [48] = [53] ∧
    restoreMap (preach exCfg exRun).store (some 8) = [(3, [49])] ∧
    restoreValue (preach exCfg exRun).store (some 9) [48] = [57] ∧
    restoreValue (foldStore (storeOps ((preach exCfg exRun).log.take 2))) (some 7) [48] = [53] ∧
    restoreValue (foldStore (storeOps ((preach exCfg exRun).log.take 1))) (some 7) [48] = [48] := by
  decide

/-- A store failure: the response is neither stored nor published, and the task is dead. -/
example : (preach exCfg (exRun.take 6 ++ [.resp 0 (.lane none (.value [53])) false, .other (.done 1 true)])).log =
    [ .send 1 (some 0) .linked ] ∧
    (preach exCfg (exRun.take 6 ++ [.resp 0 (.lane none (.value [53])) false])).failed = true := by
  decide

/-- Map restore is exact: update, overwrite, remove, clear, update — only the entries implied remain. -/
example : restoreMap (foldStore [SOp.map 1 (.upd 1 [1]), .map 1 (.upd 2 [2]), .put 1 [9], .map 2 (.upd 7 [7]),
      .map 1 (.upd 1 [3]), .map 1 (.rem 2), .map 1 (.upd 4 [4])]) (some 1) = [((1 : Nat), [3]), (4, [4])] ∧
    restoreMap (foldStore [SOp.map 1 (.upd 1 [1]), .map 1 .clear, .map 1 (.upd (5 : Nat) [5])]) (some 1) = [(5, [5])] := by
  decide

end SwimVerif.Persist
