/-
C05 — persisted state is never older than what was published; restart restores it.

Model: `Model/Persist.lean` — `persist_response; handle_event` (the `WriteTaskEvent::Event` arm of `write_task`)
composed with the WHOLE write-task model of `Model/WriteTask.lean` (links, remote tracker, uplink queues with
back-pressure, write completion / failure, lane failure, pruning, stop), the store as the fold of the operations
handed to `NodePersistence`, and the init protocol of a restart (`ValueInit` / `MapInit` → `value_like_init` /
`map_like_init`).

Lanes and stores are REGISTERED by events of the history (`PEv.addLane` / `PEv.addStore`): in the prologue of
`write_task` for the items of the initialisation phase (`late = false`) and at any later moment for a lane added
while the agent runs (`TaskMessageResult::AddLane`, `late = true`); the registration fixes the `store_id` of the
item's response stream (`laneStoreId`), which is what `persist_response` looks at.

Quantifiers: every store naming `cfg.idFor` and `cfg.hasStore`, every sequence of write-task events
`evs : List PEv` (= every history and every schedule of registrations — before or after any other event —, lane
responses, link / unlink / sync answers, write completions and failures, store failures, remote removal, lane
failure, stop), and every crash point: a crash point
is a prefix of the merged log (`List.take n`), whose index is the global sequence number shared by store
operations and delivered frames.
-/
import SwimVerif.Proofs.Persist

set_option linter.unusedVariables false
namespace SwimVerif.Persist
open SwimVerif.WT

def preach (cfg : Cfg) (evs : List PEv) : PSt := prun cfg {} evs

theorem reach_inv (cfg : Cfg) (evs : List PEv) : PInv (preach cfg evs) := pinv_run cfg pinv_init evs

/-- The store id of lane `l`'s response stream (`none`: the stream was built with `store_id = None`, or there is no
such lane). -/
def sidOfLane (s : PSt) (l : Nat) : Option Nat := alGet s.laneSid l

/-- **Persist before publish.** In the merged log of every run, every event frame delivered to any remote for a
persistent lane `l` (store id `sid`) is preceded by the store operation that hands exactly the state carried by
the frame to the store (`put_value` of the same bytes for a value / supply lane, `apply_map` of the same operation
for a map lane). -/
theorem C05_persist_before_publish (cfg : Cfg) (evs : List PEv) (pre post : List Entry) (r l sid : Nat) (b : Body)
    (hlog : (preach cfg evs).log = pre ++ Entry.send r (some l) (.event b) :: post)
    (hsid : sidOfLane (preach cfg evs) l = some sid) :
    ∃ op, storeOpOf sid b = some op ∧ Entry.store op ∈ pre :=
  ((reach_inv cfg evs).ord pre post r l b hlog).2 sid hsid

/-- The same at **every crash point**: cut the log anywhere (after any store operation, after any delivered
frame); what the remotes have seen by then has been handed to the store before the cut. -/
theorem C05_persist_before_publish_at_every_cut (cfg : Cfg) (evs : List PEv) (n : Nat)
    (pre post : List Entry) (r l sid : Nat) (b : Body)
    (hlog : (preach cfg evs).log.take n = pre ++ Entry.send r (some l) (.event b) :: post)
    (hsid : sidOfLane (preach cfg evs) l = some sid) :
    ∃ op, storeOpOf sid b = some op ∧ Entry.store op ∈ pre := by
  have h := (reach_inv cfg evs).ord
  rw [← List.take_append_drop n (preach cfg evs).log] at h
  exact (ordered_prefix h pre post r l b hlog).2 sid hsid

/-- Nothing is fabricated on the way: whatever event body the composed write task delivers for lane `l` was
handed to `handle_event` for lane `l` by a lane response (stated with an arbitrary predicate `P` on bodies that
holds of every response handed over). This is the no-fabrication statement of C04 for the whole write task. -/
theorem C05_delivered_bodies_were_handed_over (P : Nat → Body → Prop) (evs : List WT.Ev)
    (hP : ∀ e ∈ evs, NewOK P e) :
    PendingOK P (WT.run {} evs) ∧
    ∀ (pre : List WT.Ev) (e : WT.Ev) (post : List WT.Ev) (r l : Nat) (b : Body), evs = pre ++ e :: post →
      Entry.send r (some l) (.event b) ∈ sentBy (WT.run {} pre) e → P l b := by
  have hrun : ∀ (evs : List WT.Ev) (s : WT.St), PendingOK P s → (∀ e ∈ evs, NewOK P e) →
      PendingOK P (WT.run s evs) := by
    intro evs
    induction evs with
    | nil => intro s h _; exact h
    | cons e rest ih =>
      intro s h hall
      exact ih _ (pendingOK_step h e (hall e (by simp))) (fun e' he' => hall e' (by simp [he']))
  refine ⟨hrun evs {} (pendingOK_init P) hP, ?_⟩
  intro pre e post r l b heq hm
  have hpre : PendingOK P (WT.run {} pre) :=
    hrun pre {} (pendingOK_init P) (fun e' he' => hP e' (by rw [heq]; simp [he']))
  exact sentBy_ok hpre e r l b hm

/-- The durable store is, at every moment, the fold of the store operations in the log. -/
theorem C05_store_is_fold_of_log (cfg : Cfg) (evs : List PEv) :
    (preach cfg evs).store = foldStore (storeOps (preach cfg evs).log) :=
  (reach_inv cfg evs).fold

/-- **Restart is the fold (values).** For every sequence of operations handed to the store (any mix of items),
a value lane / value store restarted against the resulting store holds the last value handed over for its id,
or its default if there was none. -/
theorem C05_restart_is_fold_value {κ : Type} [DecidableEq κ] (ops : List (SOp κ)) (sid : Nat) (dflt : Bytes) :
    restoreValue (foldStore ops) (some sid) dflt = (lastPut sid ops).getD dflt := by
  simp only [restoreValue, valueLikeInit_valueInitMsgs, foldStore]
  rw [getValue_foldl]
  simp [StoreState.getValue]

/-- **Restart is the fold (maps).** A map lane / map store restarted against the resulting store holds exactly
the entries implied by the map operations handed over for its id, in order: every key maps to what the fold of
update / remove / clear says, and no other key is present. -/
theorem C05_restart_is_fold_map {κ : Type} [DecidableEq κ] (ops : List (SOp κ)) (sid : Nat) (k : κ) :
    kGet (restoreMap (foldStore ops) (some sid)) k = specMap (mapOpsFor sid ops) k := by
  simp only [restoreMap, foldStore]
  have hnd : NoDup ((ops.foldl applyStore ({} : StoreState κ)).readMap sid) := by
    rw [readMap_foldl]; exact noDup_foldl _ _ (by simp [StoreState.readMap, NoDup])
  rw [kGet_mapLikeInit _ hnd, readMap_foldl, kGet_foldl]
  simp [specMap, StoreState.readMap, kGet_nil_fun]

/-- Operations on other store ids do not matter: items are isolated from each other in the store. -/
theorem C05_restart_ignores_other_items {κ : Type} [DecidableEq κ] (ops : List (SOp κ)) (sid : Nat) (dflt : Bytes)
    (k : κ) :
    restoreValue (foldStore ops) (some sid) dflt = restoreValue (foldStore (ops.filter (fun o => o.sid = sid))) (some sid) dflt ∧
    kGet (restoreMap (foldStore ops) (some sid)) k =
      kGet (restoreMap (foldStore (ops.filter (fun o => o.sid = sid))) (some sid)) k := by
  have h1 := lastPut_filter sid ops
  have h2 := mapOpsFor_filter sid ops
  exact ⟨by rw [C05_restart_is_fold_value, C05_restart_is_fold_value, h1],
         by rw [C05_restart_is_fold_map, C05_restart_is_fold_map, h2]⟩

/-- **Transient items never reach the store**: every store operation of every run is addressed to the store id
of an item that has one (`store_id = None` ⇒ `persist_response` writes nothing). -/
theorem C05_transient_never_stored (cfg : Cfg) (evs : List PEv) (op : SOp Nat)
    (h : Entry.store op ∈ (preach cfg evs).log) :
    ∃ item, alGet (preach cfg evs).laneSid item = some op.sid ∨ alGet (preach cfg evs).storeSid item = some op.sid :=
  (reach_inv cfg evs).sids op h

/-- **Transient items come back at their defaults**, whatever the store holds. -/
theorem C05_transient_default {κ : Type} [DecidableEq κ] (s : StoreState κ) (dflt : Bytes) :
    restoreValue s none dflt = dflt ∧ restoreMap s none = [] := ⟨rfl, rfl⟩

theorem storeOps_split {log : List Entry} {op : SOp Nat} (h : Entry.store op ∈ log) :
    ∃ A B, storeOps log = A ++ op :: B := by
  obtain ⟨X, Y, hxy⟩ := List.append_of_mem h
  exact ⟨storeOps X, storeOps Y, by rw [hxy, storeOps_append]; rfl⟩

/-- **Never older (values), at every crash cut.** Cut the log of any run at any point `n` and restart a
persistent value lane `l` against the store as it is at the cut. For every value `b` that any remote has been
sent for `l` before the cut, the operations handed to the store before the cut split as `A ++ put b :: B`, and the
restored value is `b` itself or a value handed over after it (never anything older). -/
theorem C05_never_older_value (cfg : Cfg) (evs : List PEv) (n r l sid : Nat) (b dflt : Bytes)
    (hsent : Entry.send r (some l) (.event (.raw b)) ∈ (preach cfg evs).log.take n)
    (hsid : sidOfLane (preach cfg evs) l = some sid) :
    ∃ A B, storeOps ((preach cfg evs).log.take n) = A ++ SOp.put sid b :: B ∧
      restoreValue (foldStore (storeOps ((preach cfg evs).log.take n))) (some sid) dflt = (lastPut sid B).getD b := by
  obtain ⟨pre, post, hsplit⟩ := List.append_of_mem hsent
  obtain ⟨op, hop, hmem⟩ := C05_persist_before_publish_at_every_cut cfg evs n pre post r l sid (.raw b) hsplit hsid
  simp only [storeOpOf, Option.some.injEq] at hop
  subst hop
  have hmem' : Entry.store (SOp.put sid b) ∈ (preach cfg evs).log.take n := by
    rw [hsplit]; exact List.mem_append_left _ hmem
  obtain ⟨A, B, hAB⟩ := storeOps_split hmem'
  refine ⟨A, B, hAB, ?_⟩
  rw [C05_restart_is_fold_value, hAB, lastPut_append]
  cases hB : lastPut sid B <;> simp [lastPut, hB]

/-- **Never older (maps), at every crash cut.** Likewise for a persistent map lane: for every map operation any
remote has been sent before the cut, the restored map is the state right after that operation was handed to the
store, followed only by operations handed over later: `fold B (fold (A ++ [op]) ∅)`. -/
theorem C05_never_older_map (cfg : Cfg) (evs : List PEv) (n r l sid : Nat) (op : MapOp) (k : Nat)
    (hsent : Entry.send r (some l) (.event (.map op)) ∈ (preach cfg evs).log.take n)
    (hsid : sidOfLane (preach cfg evs) l = some sid) :
    ∃ A B, storeOps ((preach cfg evs).log.take n) = A ++ SOp.map sid (mapOpK op) :: B ∧
      kGet (restoreMap (foldStore (storeOps ((preach cfg evs).log.take n))) (some sid)) k =
        (mapOpsFor sid B).foldl specApply (specMap (mapOpsFor sid A ++ [mapOpK op])) k := by
  obtain ⟨pre, post, hsplit⟩ := List.append_of_mem hsent
  obtain ⟨sop, hop, hmem⟩ := C05_persist_before_publish_at_every_cut cfg evs n pre post r l sid (.map op) hsplit hsid
  simp only [storeOpOf, Option.some.injEq] at hop
  subst hop
  have hmem' : Entry.store (SOp.map sid (mapOpK op)) ∈ (preach cfg evs).log.take n := by
    rw [hsplit]; exact List.mem_append_left _ hmem
  obtain ⟨A, B, hAB⟩ := storeOps_split hmem'
  refine ⟨A, B, hAB, ?_⟩
  rw [C05_restart_is_fold_map, hAB, mapOpsFor_append, mapOpsFor_cons]
  simp [specMap, mapOpsFor, List.foldl_append]

/-- A failed store call ends the write task: nothing is stored or sent afterwards (`persist_response(..)?`). -/
theorem C05_store_failure_stops_everything (cfg : Cfg) (s : PSt) (hf : s.failed = true) (evs : List PEv) :
    prun cfg s evs = s := by
  induction evs with
  | nil => rfl
  | cons e rest ih =>
    have : pstep cfg s e = s := by cases e <;> simp [pstep, hf]
    simp only [prun, List.foldl, this]
    exact ih

/-- **An empty value is a value.** A state whose encoding is the EMPTY byte string (the Recon of `Option::None`,
`()`, `Value::Extant`) is handed to the store, kept and restored like any other:
* `persist_response` makes a `put_value` with the empty payload / an `update_map` with the empty value — never a
  delete, never a `remove_map`;
* `ValueInit` replays a stored empty value as an init command with an empty body (then `InitComplete`), and after ANY
  sequence of store operations ending with `put sid []` the item restarts holding `[]`, whatever its default;
* after any operations ending with `update k ↦ []` the restarted map HAS key `k` (with the empty value), whereas
  after `remove k` it has not: an update with an empty value is not a remove. -/
theorem C05_empty_value_is_a_value {κ : Type} [DecidableEq κ] (ops : List (SOp κ)) (sid : Nat) (dflt : Bytes)
    (k : κ) (target : Option Nat) (kn : Nat) :
    persistOp (some sid) (.lane target (.value [])) = some (.put sid []) ∧
    persistOp (some sid) (.storeValue []) = some (.put sid []) ∧
    persistOp (some sid) (.lane target (.map (.upd kn []))) = some (.map sid (.upd kn [])) ∧
    persistOp (some sid) (.storeMap (.upd kn [])) = some (.map sid (.upd kn [])) ∧
    valueInitMsgs (some []) = [.command [], .initComplete] ∧
    restoreValue (foldStore (ops ++ [SOp.put sid []])) (some sid) dflt = [] ∧
    kGet (restoreMap (foldStore (ops ++ [SOp.map sid (.upd k [])])) (some sid)) k = some [] ∧
    kGet (restoreMap (foldStore (ops ++ [SOp.map sid (.rem k)])) (some sid)) k = none := by
  refine ⟨rfl, rfl, rfl, rfl, rfl, ?_, ?_, ?_⟩
  · rw [C05_restart_is_fold_value, lastPut_append]
    simp [lastPut]
  · rw [C05_restart_is_fold_map, mapOpsFor_append]
    simp [mapOpsFor, specMap, List.foldl_append, specApply]
  · rw [C05_restart_is_fold_map, mapOpsFor_append]
    simp [mapOpsFor, specMap, List.foldl_append, specApply]

/-- Concretely: `5` then the empty value — the lane comes back empty, not at its default `0` and not at `5`; a map
with `1 ↦ 1`, `2 ↦ (empty)` comes back with both keys. -/
example : restoreValue (foldStore [SOp.put 3 [53], .put (3 : Nat) []] : StoreState Nat) (some 3) [48] = [] ∧
    restoreMap (foldStore [SOp.map 4 (.upd 1 [49]), .map 4 (.upd (2 : Nat) [])]) (some 4) = [(1, [49]), (2, [])] := by
  decide

/-! ### Lanes registered while the agent runs (`AgentContext::add_lane` → `TaskMessageResult::AddLane`) -/

/-- **Registration fixes the store id.** Whenever a lane is registered — in the prologue over the initial endpoints
(`late = false`) or by `AddLane` after any history `evs` whatsoever (`late = true`) — it gets the next lane id and
its response stream is built with exactly `laneStoreId` (the id the store gives its name if it is persistent,
`None` if it is transient); and that never changes afterwards, whatever happens (`more`). -/
theorem C05_registration_fixes_store_id (cfg : Cfg) (evs more : List PEv) (late : Bool) (name : Nat) (kind : UKind)
    (transient rep : Bool) (hlive : (preach cfg evs).failed = false) :
    (preach cfg (evs ++ [.addLane late name kind transient rep true])).wt.reg.length =
      (preach cfg evs).wt.reg.length + 1 ∧
    sidOfLane (preach cfg (evs ++ .addLane late name kind transient rep true :: more)) (preach cfg evs).wt.reg.length =
      laneStoreId cfg late name kind transient := by
  have hinv := reach_inv cfg evs
  have hreg := pstep_addLane (cfg := cfg) hinv hlive late name kind transient rep
  have h1 : preach cfg (evs ++ [.addLane late name kind transient rep true]) =
      pstep cfg (preach cfg evs) (.addLane late name kind transient rep true) := by
    simp [preach, prun, List.foldl_append]
  have h2 : preach cfg (evs ++ .addLane late name kind transient rep true :: more) =
      prun cfg (pstep cfg (preach cfg evs) (.addLane late name kind transient rep true)) more := by
    simp [preach, prun, List.foldl_append]
  refine ⟨by rw [h1]; exact hreg.1, ?_⟩
  rw [h2]
  simp only [sidOfLane]
  have hlt : (preach cfg evs).wt.reg.length <
      (pstep cfg (preach cfg evs) (.addLane late name kind transient rep true)).wt.reg.length := by
    rw [hreg.1]; omega
  rw [(prun_laneSid cfg more hlt).1]
  exact hreg.2.1

/-- **A lane added at run time is persistent exactly as one registered during initialisation**: for value and map
lanes `laneStoreId` does not depend on `late`, and a non-transient one gets the store's id for its name whenever
there is a store — the same id in every incarnation of the agent, which is what a restart reads back. -/
theorem C05_late_registration_as_init (cfg : Cfg) (name : Nat) (kind : UKind) (transient : Bool)
    (hkind : kind ≠ .supply) :
    laneStoreId cfg true name kind transient = laneStoreId cfg false name kind transient ∧
    (cfg.hasStore = true → ∀ late, laneStoreId cfg late name kind false = some (cfg.idFor name)) ∧
    (∀ late, laneStoreId cfg late name kind true = none) := by
  cases kind <;> simp [laneStoreId] at hkind ⊢ <;> intro h <;> simp [h]

/-- **Persist before publish for a lane registered at ANY point of the history** (in particular after start-up:
`late = true`, after `evs1`), at every crash cut: every event frame any remote has been sent for the lane before
the cut is preceded by the store operation handing exactly that state to the store under the id of the lane's
name. -/
theorem C05_registered_lane_persist_before_publish (cfg : Cfg) (evs1 evs2 : List PEv) (late : Bool) (name : Nat)
    (kind : UKind) (rep : Bool) (hstore : cfg.hasStore = true) (hkind : kind ≠ .supply)
    (hlive : (preach cfg evs1).failed = false) (n : Nat) (pre post : List Entry) (r : Nat) (b : Body)
    (hlog : (preach cfg (evs1 ++ .addLane late name kind false rep true :: evs2)).log.take n =
      pre ++ Entry.send r (some (preach cfg evs1).wt.reg.length) (.event b) :: post) :
    ∃ op, storeOpOf (cfg.idFor name) b = some op ∧ Entry.store op ∈ pre := by
  have hsid := (C05_registration_fixes_store_id cfg evs1 evs2 late name kind false rep hlive).2
  rw [(C05_late_registration_as_init cfg name kind false hkind).2.1 hstore late] at hsid
  exact C05_persist_before_publish_at_every_cut cfg _ n pre post r _ _ b hlog hsid

/-- **Never older for a lane registered at any point, across re-registration** (values): crash anywhere after a
value `b` of the lane has been sent to a remote; start again against the store as it is at the cut and register
the lane of the same name again — during initialisation or later (`late'`): it is initialised with `b` or a value
handed over after `b`. -/
theorem C05_registered_lane_never_older_value (cfg : Cfg) (evs1 evs2 : List PEv) (late late' : Bool) (name : Nat)
    (rep : Bool) (hstore : cfg.hasStore = true) (hlive : (preach cfg evs1).failed = false) (n r : Nat)
    (b dflt : Bytes)
    (hsent : Entry.send r (some (preach cfg evs1).wt.reg.length) (.event (.raw b)) ∈
      (preach cfg (evs1 ++ .addLane late name .value false rep true :: evs2)).log.take n) :
    ∃ A B, storeOps ((preach cfg (evs1 ++ .addLane late name .value false rep true :: evs2)).log.take n) =
        A ++ SOp.put (cfg.idFor name) b :: B ∧
      restoreValue (foldStore (storeOps ((preach cfg (evs1 ++ .addLane late name .value false rep true :: evs2)).log.take n)))
        (laneStoreId cfg late' name .value false) dflt = (lastPut (cfg.idFor name) B).getD b := by
  have hsid := (C05_registration_fixes_store_id cfg evs1 evs2 late name .value false rep hlive).2
  have hk : UKind.value ≠ .supply := by decide
  rw [(C05_late_registration_as_init cfg name .value false hk).2.1 hstore late] at hsid
  rw [(C05_late_registration_as_init cfg name .value false hk).2.1 hstore late']
  exact C05_never_older_value cfg _ n r _ _ b dflt hsent hsid

/-- The same for a map lane registered at any point: the re-registered lane is initialised with the state right
after the published operation, followed only by operations handed over later. -/
theorem C05_registered_lane_never_older_map (cfg : Cfg) (evs1 evs2 : List PEv) (late late' : Bool) (name : Nat)
    (rep : Bool) (hstore : cfg.hasStore = true) (hlive : (preach cfg evs1).failed = false) (n r : Nat)
    (op : MapOp) (k : Nat)
    (hsent : Entry.send r (some (preach cfg evs1).wt.reg.length) (.event (.map op)) ∈
      (preach cfg (evs1 ++ .addLane late name .map false rep true :: evs2)).log.take n) :
    ∃ A B, storeOps ((preach cfg (evs1 ++ .addLane late name .map false rep true :: evs2)).log.take n) =
        A ++ SOp.map (cfg.idFor name) (mapOpK op) :: B ∧
      kGet (restoreMap (foldStore (storeOps ((preach cfg (evs1 ++ .addLane late name .map false rep true :: evs2)).log.take n)))
        (laneStoreId cfg late' name .map false)) k =
        (mapOpsFor (cfg.idFor name) B).foldl specApply (specMap (mapOpsFor (cfg.idFor name) A ++ [mapOpK op])) k := by
  have hsid := (C05_registration_fixes_store_id cfg evs1 evs2 late name .map false rep hlive).2
  have hk : UKind.map ≠ .supply := by decide
  rw [(C05_late_registration_as_init cfg name .map false hk).2.1 hstore late] at hsid
  rw [(C05_late_registration_as_init cfg name .map false hk).2.1 hstore late']
  exact C05_never_older_map cfg _ n r _ _ op k hsent hsid

/-- A lane registered as transient — at start-up or later — never causes a store operation and is never restored:
its stream has no store id for the rest of the run. -/
theorem C05_transient_registration_has_no_store_id (cfg : Cfg) (evs more : List PEv) (late : Bool) (name : Nat)
    (kind : UKind) (rep : Bool) (hlive : (preach cfg evs).failed = false) :
    sidOfLane (preach cfg (evs ++ .addLane late name kind true rep true :: more)) (preach cfg evs).wt.reg.length = none := by
  rw [(C05_registration_fixes_store_id cfg evs more late name kind true rep hlive).2]
  simp [laneStoreId]

/-- **A failing id lookup never degrades an item to transient.** If `store.store_id(name)` fails (an error other
than `NoStoreAvailable`) when a lane that is to be persistent is registered — in the prologue over the initial
endpoints or by `AddLane` at run time — or when a store is registered, the task ends with the error: the item is
NOT registered (it gets no response stream, hence never runs with `store_id = None`), and nothing is stored or
sent afterwards, whatever follows (`more`). The stored state is untouched for the next start. -/
theorem C05_id_failure_never_degrades_to_transient (cfg : Cfg) (evs more : List PEv) (late : Bool) (name : Nat)
    (kind : UKind) (rep : Bool) (hstore : cfg.hasStore = true) (hkind : kind ≠ .supply)
    (hlive : (preach cfg evs).failed = false) :
    (let s' := preach cfg (evs ++ .addLane late name kind false rep false :: more)
     s'.failed = true ∧ s'.wt.reg.length = (preach cfg evs).wt.reg.length ∧ s'.laneSid = (preach cfg evs).laneSid ∧
       s'.log = (preach cfg evs).log ∧ s'.store = (preach cfg evs).store) ∧
    (let s' := preach cfg (evs ++ .addStore name false :: more)
     s'.failed = true ∧ s'.storeCounter = (preach cfg evs).storeCounter ∧ s'.storeSid = (preach cfg evs).storeSid ∧
       s'.log = (preach cfg evs).log ∧ s'.store = (preach cfg evs).store) := by
  have hsid : laneStoreId cfg late name kind false = some (cfg.idFor name) :=
    (C05_late_registration_as_init cfg name kind false hkind).2.1 hstore late
  have h1 : pstep cfg (preach cfg evs) (.addLane late name kind false rep false) =
      { preach cfg evs with failed := true } := by
    simp [pstep, hlive, hsid]
  have h2 : pstep cfg (preach cfg evs) (.addStore name false) = { preach cfg evs with failed := true } := by
    simp [pstep, hlive, hstore]
  have hsplit : ∀ e, preach cfg (evs ++ e :: more) = prun cfg (pstep cfg (preach cfg evs) e) more := by
    intro e; simp [preach, prun, List.foldl_append]
  constructor
  · simp only [hsplit, h1]
    rw [C05_store_failure_stops_everything cfg _ rfl more]
    exact ⟨rfl, rfl, rfl, rfl, rfl⟩
  · simp only [hsplit, h2]
    rw [C05_store_failure_stops_everything cfg _ rfl more]
    exact ⟨rfl, rfl, rfl, rfl, rfl⟩

/-! ### Non-vacuity: concrete runs -/

/-- The store names item `n` with id `n + 7`. -/
def exCfg : Cfg := { idFor := fun name => name + 7 }

/-- lane 0: persistent value lane (store id 7), lane 1: transient, lane 2: persistent map lane (store id 9), all
registered in the prologue, and a value store (item 0 of the stores, store id 12); then, after traffic, lane 3 is
added WHILE THE AGENT RUNS as a persistent value lane (store id 10) and lane 4 as a transient one. -/
def exRun : List PEv :=
  [ .addLane false 0 .value false false true, .addLane false 1 .value true false true,
    .addLane false 2 .map false false true, .addStore 5 true,
    .other (.attach 1), .other (.link 1 0), .other (.done 1 true),
    .resp 0 (.lane none (.value [53])) true,          -- the value lane publishes `5`
    .other (.done 1 true),
    .resp 1 (.lane (some 1) (.value [54])) true,      -- the transient lane answers a sync of remote 1
    .other (.done 1 true), .other (.done 1 true),
    .resp 0 (.storeValue [57]) true,                  -- the value store is set
    .resp 2 (.lane (some 1) (.map (.upd 3 [49]))) true,
    .other (.done 1 true), .other (.done 1 true),
    .addLane true 3 .value false false true,          -- `AgentContext::add_lane` at run time: persistent
    .addLane true 4 .value true false true,           -- … and a transient one
    .other (.link 1 3), .other (.done 1 true),
    .resp 3 (.lane none (.value [52])) true,          -- the late lane publishes `4`
    .other (.done 1 true),
    .resp 4 (.lane (some 1) (.value [56])) true,      -- the late transient lane answers a sync
    .other (.done 1 true), .other (.done 1 true) ]

/-- The log of the run: each published state of a persistent lane — registered at start-up (0, 2) or at run time
(3) — is preceded by its store operation, the transient lanes' values (1, and 4 registered at run time) are sent
without any store operation, the store item is stored and never sent. -/
example : (preach exCfg exRun).log =
    [ .send 1 (some 0) .linked,
      .store (.put 7 [53]), .send 1 (some 0) (.event (.raw [53])),
      .send 1 (some 1) .linked, .send 1 (some 1) (.event (.raw [54])),
      .store (.put 12 [57]),
      .store (.map 9 (.upd 3 [49])), .send 1 (some 2) .linked, .send 1 (some 2) (.event (.map (.upd 3 [49]))),
      .send 1 (some 3) .linked,
      .store (.put 10 [52]), .send 1 (some 3) (.event (.raw [52])),
      .send 1 (some 4) .linked, .send 1 (some 4) (.event (.raw [56])) ] ∧
    (preach exCfg exRun).laneSid = [(0, 7), (2, 9), (3, 10)] ∧ (preach exCfg exRun).storeSid = [(0, 12)] := by
  decide

/-- Restart after that run: the value lane holds `5`, the map lane `{3 ↦ 1}`, the store `9`, the lane that was
added at run time `4` — whether it is re-registered at start-up or again at run time; a crash after the first
store operation (cut at 2) already restores `5`, a crash right after the late lane's store operation (cut at 11,
before its frame) already restores `4`, one step earlier its default. -/
example : restoreValue (preach exCfg exRun).store (some 7) [48] = [53] ∧
    restoreMap (preach exCfg exRun).store (some 9) = [(3, [49])] ∧
    restoreValue (preach exCfg exRun).store (some 12) [48] = [57] ∧
    restoreValue (preach exCfg exRun).store (laneStoreId exCfg false 3 .value false) [48] = [52] ∧
    restoreValue (preach exCfg exRun).store (laneStoreId exCfg true 3 .value false) [48] = [52] ∧
    restoreValue (preach exCfg exRun).store (laneStoreId exCfg true 4 .value true) [48] = [48] ∧
    restoreValue (foldStore (storeOps ((preach exCfg exRun).log.take 2))) (some 7) [48] = [53] ∧
    restoreValue (foldStore (storeOps ((preach exCfg exRun).log.take 1))) (some 7) [48] = [48] ∧
    restoreValue (foldStore (storeOps ((preach exCfg exRun).log.take 11))) (some 10) [48] = [52] ∧
    restoreValue (foldStore (storeOps ((preach exCfg exRun).log.take 10))) (some 10) [48] = [48] := by
  decide

/-- A store failure: the response is neither stored nor published, and the task is dead (later registrations do
nothing either); a failing `store_id` at a run-time registration kills the task as well. -/
example : (preach exCfg (exRun.take 7 ++ [.resp 0 (.lane none (.value [53])) false, .other (.done 1 true)])).log =
    [ .send 1 (some 0) .linked ] ∧
    (preach exCfg (exRun.take 7 ++ [.resp 0 (.lane none (.value [53])) false])).failed = true ∧
    (preach exCfg (exRun.take 7 ++ [.resp 0 (.lane none (.value [53])) false,
      .addLane true 3 .value false false true])).wt.reg.length = 3 ∧
    (preach exCfg (exRun.take 7 ++ [.addLane true 3 .value false false false])).failed = true := by
  decide

/-- Without a store nothing gets a store id; a supply lane gets one only when registered at start-up (its events
are then `put`, but a supply lane has no state that is restored). -/
example : laneStoreId { idFor := id, hasStore := false } true 3 .value false = none ∧
    laneStoreId exCfg false 3 .supply false = some 10 ∧ laneStoreId exCfg true 3 .supply false = none := by
  decide

/-- Map restore is exact: update, overwrite, remove, clear, update — only the entries implied remain. -/
example : restoreMap (foldStore [SOp.map 1 (.upd 1 [1]), .map 1 (.upd 2 [2]), .put 1 [9], .map 2 (.upd 7 [7]),
      .map 1 (.upd 1 [3]), .map 1 (.rem 2), .map 1 (.upd 4 [4])]) (some 1) = [((1 : Nat), [3]), (4, [4])] ∧
    restoreMap (foldStore [SOp.map 1 (.upd 1 [1]), .map 1 .clear, .map 1 (.upd (5 : Nat) [5])]) (some 1) = [(5, [5])] := by
  decide

end SwimVerif.Persist
