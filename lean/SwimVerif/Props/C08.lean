/-
C08 — the state held by a value or map downlink equals the fold of what it received.

Quantifier: every notification sequence of the grammar `linked ev* synced ev* unlinked (relink ..)` (`phaseRun`,
`vRunG`), both settings of `events_when_not_synced` (`c.ews`) and `terminate_on_unlinked` (`c.tou`), both
implementations (`MClient`/`VClient` = `swimos_downlink::task`, `MHosted`/`VHosted` = `swimos_agent` hosted downlinks;
`Model/DownlinkTask.lean`, the code as it is — after the repairs of F5 (`clear` while callbacks are suppressed) and F5b
(`take` / `drop` ignoring `dispatch`)). The fold is `specRun` (`applyMsg`: update, remove, clear, take, drop applied in
order on a finite map) resp. `vSpecRun` (last value received since `linked`).

`Restr.noTakeDrop` restricts the *callback-trace* claims to update / remove / clear; for take / drop the callbacks are
characterised separately (`C08_*take_drop*`). The only statement kept as a `def` with a `_fails` witness is F6 (the client
folds its own writes into its replica).

Last section (C08x): the mode switch of the client tasks. `run_io` has a second, separate loop (`Mode::Read`) that takes over
when the write handle is dropped; `C08_read_only_mode_same_fold` shows that state, callbacks and termination are then those of
the run in which the handle is never dropped, for both flags, every op sequence and every drop point.
-/
import SwimVerif.Proofs.DownlinkTask

set_option linter.unusedVariables false
namespace SwimVerif.Dl

/-- every sequence of the grammar -/
def legalAll : Restr := { noTakeDrop := false }
/-- only update / remove / clear events -/
def legalBasic : Restr := { noTakeDrop := true }

/-! ### association lists are finite maps (what "fold" means) -/

theorem C08_look_ins_same (k v : Int) (m : AMap) : look k (ins k v m) = some v := look_ins_same k v m
theorem C08_look_ins_other (k k' v : Int) (m : AMap) (h : k' ≠ k) : look k' (ins k v m) = look k' m :=
  look_ins_other k k' v m h
theorem C08_look_del_same (k : Int) (m : AMap) : look k (del k m) = none := look_del_same k m
theorem C08_look_del_other (k k' : Int) (m : AMap) (h : k' ≠ k) : look k' (del k m) = look k' m :=
  look_del_other k k' m h

/-! ### state = fold -/

/-- **Hosted map downlink, both settings:** after any legal sequence (update / remove / clear events) the
replica is the fold of the notifications received since it linked (empty when not linked). -/
theorem C08_hosted_state_is_fold (c : Cfg) (ns : List Note) (p : Phase)
    (h : phaseRun legalBasic c .U ns = some p) :
    (MHosted.run c {} (notes ns)).1.map = (specRun none ns).getD [] := by
  have hrel := relH_run (R := legalBasic) rfl c ns relH_init h
  cases p with
  | U => obtain ⟨hs, hsp⟩ := hrel; rw [hs, hsp]; rfl
  | L => obtain ⟨_, _, hsp⟩ := hrel; rw [hsp]; rfl
  | S => obtain ⟨_, _, hsp⟩ := hrel; rw [hsp]; rfl
  | E => obtain ⟨_, hm, hsp⟩ := hrel; rw [hm, hsp]; rfl

example : phaseRun legalBasic ⟨false, false⟩ .U
    [.linked, .ev (.update 1 10), .ev .clear, .ev (.update 2 5), .synced, .ev (.remove 2), .unlinked, .linked]
    = some .L := by decide

/-- **Client map downlink, both settings, all five messages:** after every legal sequence the replica is the fold of
the notifications received since it linked (`State::Unlinked` when not linked). -/
theorem C08_client_state_is_fold (c : Cfg) (ns : List Note) (p : Phase)
    (h : phaseRun legalAll c .U ns = some p) (hE : p ≠ .E) :
    (MClient.run c {} (notes ns)).1.st.replica = specRun none ns := by
  have hrel := relC_run_all (R := legalAll) c ns relC_init sortedK_nil h
  cases p with
  | U => obtain ⟨hs, hsp⟩ := hrel; rw [hs, hsp]; rfl
  | L => obtain ⟨m, hs, hsp⟩ := hrel; rw [hs, hsp]; rfl
  | S => obtain ⟨m, hs, hsp⟩ := hrel; rw [hs, hsp]; rfl
  | E => exact absurd rfl hE

example : phaseRun legalAll ⟨false, false⟩ .U
    [.linked, .ev (.update 1 10), .ev .clear, .ev (.update 2 5), .ev (.update 3 5), .ev (.take 1), .synced, .ev .clear,
     .ev (.drop 2), .unlinked, .linked] = some .L := by decide

/-- Regression of F5 (was `C08_client_state_is_fold_fails`): with the default configuration
`linked, update 1→10, clear, synced` now reports the empty map. -/
theorem C08_client_clear_while_suppressed_is_applied :
    (MClient.run ⟨false, true⟩ {} (notes [.linked, .ev (.update 1 10), .ev .clear, .synced])).2
      = [[.linked], [], [], [.syncedM []]] := by decide

/-! ### callbacks: notification order, true old / new values -/

/-- **Callbacks (hosted):** the callback trace is exactly the one the fold implies — one list per notification, in
order; `on_update` carries the previous value of the key in the fold and the map after the update, `on_remove` the removed
value, `on_clear` the map before; nothing while callbacks are suppressed. -/
theorem C08_hosted_callbacks_in_order_with_true_old_new (c : Cfg) (ns : List Note) (p : Phase)
    (h : phaseRun legalBasic c .U ns = some p) :
    (MHosted.run c {} (notes ns)).2 = specTrace legalBasic c .U none ns :=
  traceH_run (R := legalBasic) rfl c ns relH_init h

/-- **Callbacks (client):** the same trace. -/
theorem C08_client_callbacks_in_order_with_true_old_new (c : Cfg) (ns : List Note) (p : Phase)
    (h : phaseRun legalBasic c .U ns = some p) :
    (MClient.run c {} (notes ns)).2 = specTrace legalBasic c .U none ns :=
  traceC_run (R := legalBasic) rfl c ns relC_init h

example : specTrace legalBasic ⟨false, false⟩ .U none
      [.linked, .ev (.update 1 10), .synced, .ev (.update 1 11), .ev (.remove 1), .ev (.remove 1)]
    = [[.linked], [], [.syncedM [(1, 10)]], [.update 1 (some 10) 11 [(1, 11)]], [.remove 1 11 []], []] := by decide

/-! ### client = hosted -/

/-- **client = hosted** on every legal sequence of update / remove / clear, both settings: same callback trace, same
replica. -/
theorem C08_client_eq_hosted (c : Cfg) (ns : List Note) (p : Phase)
    (h : phaseRun legalBasic c .U ns = some p) :
    (MClient.run c {} (notes ns)).2 = (MHosted.run c {} (notes ns)).2 ∧
    (p ≠ .E → (MClient.run c {} (notes ns)).1.st.replica.getD [] = (MHosted.run c {} (notes ns)).1.map) := by
  have hc := traceC_run (R := legalBasic) rfl c ns relC_init h
  have hh := traceH_run (R := legalBasic) rfl c ns relH_init h
  refine ⟨hc.trans hh.symm, ?_⟩
  have rc := relC_run (R := legalBasic) rfl c ns relC_init h
  have rh := relH_run (R := legalBasic) rfl c ns relH_init h
  intro hE
  cases p with
  | U => obtain ⟨hs, _⟩ := rc; obtain ⟨hs', _⟩ := rh; rw [hs, hs']; rfl
  | L => obtain ⟨m, hs, hsp⟩ := rc; obtain ⟨_, _, hsp'⟩ := rh; rw [hs]; rw [hsp] at hsp'; simpa [CSt.replica] using hsp'
  | S => obtain ⟨m, hs, hsp⟩ := rc; obtain ⟨_, _, hsp'⟩ := rh; rw [hs]; rw [hsp] at hsp'; simpa [CSt.replica] using hsp'
  | E => exact absurd rfl hE

example : phaseRun legalBasic ⟨false, false⟩ .U
    [.linked, .ev (.update 1 10), .ev .clear, .ev (.remove 1), .synced, .ev .clear, .ev (.update 3 1), .unlinked, .linked,
     .ev (.update 2 2), .synced] = some .S := by decide

/-- **client replica = hosted replica, all five messages**, both settings, every legal sequence. -/
theorem C08_client_eq_hosted_state_all_messages (c : Cfg) (ns : List Note) (p : Phase)
    (h : phaseRun legalAll c .U ns = some p) (hE : p ≠ .E) :
    (MClient.run c {} (notes ns)).1.st.replica.getD [] = (MHosted.run c {} (notes ns)).1.map := by
  have rc := relC_run_all (R := legalAll) c ns relC_init sortedK_nil h
  have rh := relH_run_all (R := legalAll) c ns relH_init sortedK_nil h
  cases p with
  | U => obtain ⟨hs, _⟩ := rc; obtain ⟨hs', _⟩ := rh; rw [hs, hs']; rfl
  | L => obtain ⟨m, hs, hsp⟩ := rc; obtain ⟨_, _, hsp'⟩ := rh; rw [hs]; rw [hsp] at hsp'; simpa [CSt.replica] using hsp'
  | S => obtain ⟨m, hs, hsp⟩ := rc; obtain ⟨_, _, hsp'⟩ := rh; rw [hs]; rw [hsp] at hsp'; simpa [CSt.replica] using hsp'
  | E => exact absurd rfl hE

/-! ### on_synced exactly once, with the state of that moment -/

/-- **on_synced (hosted):** after any legal prefix, a legal `synced` notification fires `on_synced` exactly once and hands
it the fold of that moment; no other legal notification fires `on_synced`. -/
theorem C08_hosted_on_synced_exactly_once_with_state_of_that_moment (c : Cfg) (pre : List Note) (n : Note)
    (p p' : Phase) (h1 : phaseRun legalBasic c .U pre = some p) (h2 : phaseStep legalBasic c p n = some p') :
    (n = .synced → ((MHosted.run c {} (notes pre)).1.step c (.note n)).2 = [.syncedM ((specRun none pre).getD [])]) ∧
    (n ≠ .synced → ∀ m, Cb.syncedM m ∉ ((MHosted.run c {} (notes pre)).1.step c (.note n)).2) := by
  have hrel := relH_run (R := legalBasic) rfl c pre relH_init h1
  have hc := cbsH_step (R := legalBasic) rfl c hrel h2
  rw [hc]
  exact ⟨fun hn => by subst hn; rfl, fun hn m => specCbs_not_synced _ _ n hn m⟩

/-- **on_synced (client):** the same, update / remove / clear prefixes. -/
theorem C08_client_on_synced_exactly_once_with_state_of_that_moment (c : Cfg) (pre : List Note) (n : Note)
    (p p' : Phase) (h1 : phaseRun legalBasic c .U pre = some p) (h2 : phaseStep legalBasic c p n = some p') :
    (n = .synced → ((MClient.run c {} (notes pre)).1.step c (.note n)).2 = [.syncedM ((specRun none pre).getD [])]) ∧
    (n ≠ .synced → ∀ m, Cb.syncedM m ∉ ((MClient.run c {} (notes pre)).1.step c (.note n)).2) := by
  have hrel := relC_run (R := legalBasic) rfl c pre relC_init h1
  have hc := cbsC_step (R := legalBasic) rfl c hrel h2
  rw [hc]
  exact ⟨fun hn => by subst hn; rfl, fun hn m => specCbs_not_synced _ _ n hn m⟩

/-- **on_synced (client), all five messages:** a legal `synced` fires `on_synced` once with the fold of that moment. -/
theorem C08_client_on_synced_with_state_of_that_moment (c : Cfg) (pre : List Note)
    (h : phaseRun legalAll c .U pre = some .L) :
    ((MClient.run c {} (notes pre)).1.step c (.note .synced)).2 = [.syncedM ((specRun none pre).getD [])] := by
  obtain ⟨m, hs, hsp⟩ := relC_run_all (R := legalAll) c pre relC_init sortedK_nil h
  rw [hs, hsp]
  rfl

/-! ### local writes -/

/-- F6 statement: interleaved local writes do not change what the client reports (its replica stays the fold of the
*received* notifications). -/
def C08_client_ignores_local_writes : Prop :=
  ∀ (c : Cfg) (ops : List MOp),
    ((MClient.run c {} ops).2.filter (· ≠ [])) =
      ((MClient.run c {} (ops.filter fun o => match o with | .write _ => false | _ => true)).2.filter (· ≠ []))

/-- F6: `linked, (local) update 2→20, update 1→10, synced` reports `on_synced {1:10, 2:20}`; and the lane's echo of a
local write is then reported with a wrong `old` value. -/
theorem C08_client_ignores_local_writes_fails : ¬ C08_client_ignores_local_writes := by
  intro h
  have := h ⟨false, true⟩ [.note .linked, .write (.update 2 20), .note (.ev (.update 1 10)), .note .synced]
  revert this
  decide

theorem C08_client_echo_reports_wrong_old_value :
    (MClient.run ⟨false, true⟩ {} [.note .linked, .note .synced, .write (.update 2 20), .note (.ev (.update 2 20))]).2
      = [[.linked], [.syncedM []], [], [.update 2 (some 20) 20 [(2, 20)]]] := by decide

/-- **Hosted:** local writes never touch the replica nor cause callbacks — every op sequence (legal or not). -/
theorem C08_hosted_ignores_local_writes (c : Cfg) (ops : List MOp) (s : MHosted) :
    (MHosted.run c s ops).1 = (MHosted.run c s (ops.filter fun o => match o with | .write _ => false | _ => true)).1 := by
  induction ops generalizing s with
  | nil => rfl
  | cons op r ih =>
    cases op with
    | write w => simp only [List.filter, MHosted.run, MHosted.step]; exact ih s
    | note n => simp only [List.filter, MHosted.run]; exact ih _
    | bad => simp only [List.filter, MHosted.run]; exact ih _
    | eof => simp only [List.filter, MHosted.run]; exact ih _
    | reconnect => simp only [List.filter, MHosted.run]; exact ih _

/-! ### value downlinks -/

/-- **Value downlinks, both implementations, both settings:** on every legal sequence the two produce the same callback
trace — the one implied by the values received (`on_event v; on_set prev v` exactly when synced or
`events_when_not_synced`, `on_synced` once with the last value received) — and both hold the last value received since
`linked`. -/
theorem C08_value_state_is_fold_and_client_eq_hosted (c : Cfg) (ns : List VNote) (g : VG)
    (h : vRunG c .U ns = some g) :
    (VClient.run c {} (vnotes ns)).2 = vSpecTrace c .U ns ∧
    (VHosted.run c {} (vnotes ns)).2 = vSpecTrace c .U ns ∧
    g.spec = vSpecRun none ns ∧
    RelVC g (VClient.run c {} (vnotes ns)).1 ∧ RelVH g (VHosted.run c {} (vnotes ns)).1 := by
  have hc := relVC_run c ns (g := .U) (s := {}) rfl h
  have hh := relVH_run c ns (g := .U) (s := {}) rfl h
  exact ⟨hc.2, hh.2, vRunG_spec c ns h, hc.1, hh.1⟩

/-- Corollary in plain terms: the hosted value cell and the client state hold the fold. -/
theorem C08_value_hosted_state_is_fold (c : Cfg) (ns : List VNote) (g : VG) (h : vRunG c .U ns = some g) :
    (VHosted.run c {} (vnotes ns)).1.val = (vSpecRun none ns).getD none := by
  have := C08_value_state_is_fold_and_client_eq_hosted c ns g h
  obtain ⟨_, _, hs, _, hh⟩ := this
  rw [← hs]
  cases g with
  | U => simp only [RelVH] at hh; rw [hh]; rfl
  | L v => simp only [RelVH] at hh; rw [hh]; rfl
  | S v => simp only [RelVH] at hh; rw [hh]; rfl
  | E => exact hh.2

example : vRunG ⟨false, false⟩ .U [.linked, .ev 3, .ev 4, .synced, .ev 5, .unlinked, .linked, .ev 1] = some (.L (some 1)) := by
  decide

/-- **on_synced (value):** at a legal `synced` both implementations fire `on_synced` once with the last value received. -/
theorem C08_value_on_synced_with_last_received (c : Cfg) (pre : List VNote) (v : Option Int)
    (h : vRunG c .U pre = some (.L v)) (w : Int) (hv : v = some w) :
    ((VClient.run c {} (vnotes pre)).1.step c (.note .synced)).2 = [.syncedV w] ∧
    ((VHosted.run c {} (vnotes pre)).1.step c (.note .synced)).2 = [.syncedV w] := by
  subst hv
  have hc := (relVC_run c pre (g := .U) (s := {}) rfl h).1
  have hh := (relVH_run c pre (g := .U) (s := {}) rfl h).1
  have h2 : vStep c (.L (some w)) .synced = some (.S w) := rfl
  exact ⟨(relVC_step c hc h2).2, (relVH_step c hh h2).2⟩

/-- The two value implementations differ outside the grammar: `synced` before any value is a task error in the client
and silently accepted by the hosted downlink (recorded; illegal sequences are only checked for absence of panics). -/
theorem C08_value_synced_without_value_differs :
    ((VClient.run ⟨false, false⟩ {} (vnotes [.linked, .synced])).1.fin,
     (VHosted.run ⟨false, false⟩ {} (vnotes [.linked, .synced])).1.fin) = (some .syncedNoValue, none) := by decide

/-! ### take / drop -/

/-- **Hosted map downlink, all five messages:** removing the sorted key suffix / prefix one key at a time (what
`MapDlState::take/drop` do with `drop_or_take`) is `take` / `drop` of the fold; so the replica is the fold on *every*
legal sequence, both settings. -/
theorem C08_hosted_state_is_fold_all_messages (c : Cfg) (ns : List Note) (p : Phase)
    (h : phaseRun legalAll c .U ns = some p) :
    (MHosted.run c {} (notes ns)).1.map = (specRun none ns).getD [] := by
  have hrel := relH_run_all (R := legalAll) c ns relH_init sortedK_nil h
  cases p with
  | U => obtain ⟨hs, hsp⟩ := hrel; rw [hs, hsp]; rfl
  | L => obtain ⟨_, _, hsp⟩ := hrel; rw [hsp]; rfl
  | S => obtain ⟨_, _, hsp⟩ := hrel; rw [hsp]; rfl
  | E => obtain ⟨_, hm, hsp⟩ := hrel; rw [hm, hsp]; rfl

example : phaseRun legalAll ⟨false, false⟩ .U
    [.linked, .ev (.update 3 1), .ev (.update 1 10), .ev (.update 2 5), .ev (.take 2), .synced, .ev (.drop 1), .ev (.drop 7)]
    = some .S := by decide

/-- **on_synced (hosted), all five messages:** a legal `synced` fires `on_synced` once with the fold of that moment. -/
theorem C08_hosted_on_synced_with_state_of_that_moment_all_messages (c : Cfg) (pre : List Note)
    (h : phaseRun legalAll c .U pre = some .L) :
    ((MHosted.run c {} (notes pre)).1.step c (.note .synced)).2 = [.syncedM ((specRun none pre).getD [])] := by
  obtain ⟨_, hfin, hsp⟩ := relH_run_all (R := legalAll) c pre relH_init sortedK_nil h
  simp [MHosted.step, hNext, hfin, hsp]

/-- **take / drop callbacks (hosted):** on a key-sorted replica `take n` / `drop n` (`n < len`) fire one `on_remove` per
removed entry, in key order, with the true removed value and the map after that removal (the monitor's reference shape). -/
theorem C08_hosted_take_drop_callback_shape (m : AMap) (n : Nat) (hs : SortedK m) (hn : n < m.length) :
    (hEvent m (.take n) true).2 = refRemoveSeq m (m.drop n) ∧ (hEvent m (.drop n) true).2 = refRemoveSeq m (m.take n) := by
  constructor
  · simp only [hEvent, hn, ↓reduceIte]
    rw [← keys_drop]
    exact removeSeq_snd_sorted m (m.drop n) hs (List.drop_sublist n m)
  · have : ¬ m.length ≤ n := by omega
    simp only [hEvent, this, ↓reduceIte]
    rw [← keys_take]
    exact removeSeq_snd_sorted m (m.take n) hs (List.take_sublist n m)

example : SortedK [(1, 10), (2, 20), (3, 30)] := by simp [SortedK, keys]

/-- **take / drop callbacks, client = hosted:** for `take n` (any `n`) and `drop n` with `n < len` the two implementations
compute the same replica *and* the same callbacks (both respect `dispatch`). -/
theorem C08_client_eq_hosted_take_drop_callbacks (m : AMap) (e : Msg) (d : Bool)
    (h : match e with | .take _ => True | .drop n => n < m.length | _ => False) :
    cEvent m e d = hEvent m e d := by
  apply cEvent_eq_hEvent
  cases e <;> simp_all

/-- The one remaining (benign, accepted by the monitor) difference in callback *shape*: `drop n` with `n ≥ len` is one
`on_clear` in the hosted downlink (also on an empty map) and one `on_remove` per key in the client. -/
theorem C08_drop_everything_callbacks_differ :
    (cEvent [(1, 10), (2, 20)] (.drop 2) true).2 = [.remove 1 10 [(2, 20)], .remove 2 20 []] ∧
    (hEvent [(1, 10), (2, 20)] (.drop 2) true).2 = [.clear [(1, 10), (2, 20)]] ∧
    (cEvent [] (.drop 0) true).2 = [] ∧ (hEvent [] (.drop 0) true).2 = [.clear []] := by decide

/-- Regression of F5b: `take` no longer fires `on_remove` while callbacks are suppressed, and `drop` shows `on_remove` the
map after the removal. -/
theorem C08_client_take_drop_respect_dispatch :
    (MClient.run ⟨false, true⟩ {} (notes [.linked, .ev (.update 1 10), .ev (.update 2 20), .ev (.take 1), .synced])).2
      = [[.linked], [], [], [], [.syncedM [(1, 10)]]] ∧
    (MClient.run ⟨true, true⟩ {} (notes [.linked, .ev (.update 1 10), .ev (.update 2 20), .ev (.drop 1)])).2
      = [[.linked], [.update 1 none 10 [(1, 10)]], [.update 2 none 20 [(1, 10), (2, 20)]], [.remove 1 10 [(2, 20)]]] := by
  decide

/-! ### the read-only mode (the write handle has been dropped)

`MClientIO` / `VClientIO` = `run_io` with its `mode`: `MClient.step` / `VClient.step` are the `Mode::ReadWrite` arm,
`stepRO` the separate `Mode::Read` loop entered at `IoOp.dropHandle` (and, value task, after a failed write:
`IoOp.closeOut`). `neverDropped false ops` is the same run with the handle never dropped: the `drop-handle` / `close-out`
ops removed, and the local writes after the first `drop-handle` removed (they can no longer happen). -/

/-- The `Mode::Read` loop does to a notification, an undecodable frame and EOF exactly what the read arm of the
`Mode::ReadWrite` loop does — same state, same callbacks, same termination — for both settings of both flags. -/
theorem C08_read_only_loop_is_the_read_arm (c : Cfg) :
    (∀ (s : MClient) (o : MOp), s.fin.isSome = false → o.isWrite = false → s.stepRO c o = s.step c o) ∧
    (∀ (s : VClient) (o : VOp), s.fin.isSome = false → s.stepRO c o = s.step c o) :=
  ⟨fun s o hf hw => MClient.stepRO_eq c s o hf hw, fun s o hf => VClient.stepRO_eq c s o hf⟩

/-- **Read-only mode = the same fold.** For every configuration (both flags), every op sequence (notifications legal or
not, local writes, undecodable frames, EOF) and every point(s) at which the handle is dropped / the output closed: the
client's state and termination (`core` = replica + how it finished) are those of the run in which the handle is never
dropped, the callbacks of every kept op are identical op by op, and the removed ops (the drop itself, the writes that can
no longer happen) produce nothing. Map and value task. -/
theorem C08_read_only_mode_same_fold (c : Cfg) :
    (∀ ops : List (IoOp MOp),
      (MClientIO.run c {} ops).1.core = (MClient.run c {} (neverDropped MOp.isWrite false ops)).1 ∧
      keptOuts MOp.isWrite false ops (MClientIO.run c {} ops).2 = (MClient.run c {} (neverDropped MOp.isWrite false ops)).2 ∧
      (∀ x ∈ removedOuts MOp.isWrite false ops (MClientIO.run c {} ops).2, x = [])) ∧
    (∀ ops : List (IoOp VOp),
      (VClientIO.run c {} ops).1.core = (VClient.run c {} (neverDropped VOp.isWrite false ops)).1 ∧
      keptOuts VOp.isWrite false ops (VClientIO.run c {} ops).2 = (VClient.run c {} (neverDropped VOp.isWrite false ops)).2 ∧
      (∀ x ∈ removedOuts VOp.isWrite false ops (VClientIO.run c {} ops).2, x = [])) :=
  ⟨fun ops => mclientIO_run_eq c ops false {} ⟨fun _ => rfl, fun h => by cases h⟩,
   fun ops => vclientIO_run_eq c ops false {}⟩

/-- The same in the shape "a notification sequence, the handle dropped after `pre`": the outputs are those of the
never-dropped client for `pre`, nothing for the drop, and then those of the never-dropped client continuing with `post`;
the final state / termination are the same. -/
theorem C08_read_only_mode_same_fold_at_any_drop_point (c : Cfg) (pre post : List Note) :
    (MClientIO.run c {} (ionotes pre ++ .dropHandle :: ionotes post)).1.core
      = (MClient.run c {} (notes (pre ++ post))).1 ∧
    (MClientIO.run c {} (ionotes pre ++ .dropHandle :: ionotes post)).2
      = (MClient.run c {} (notes pre)).2 ++ [] :: (MClient.run c (MClient.run c {} (notes pre)).1 (notes post)).2 ∧
    (MClient.run c {} (notes pre)).2 ++ (MClient.run c (MClient.run c {} (notes pre)).1 (notes post)).2
      = (MClient.run c {} (notes (pre ++ post))).2 := by
  have ha := mclientIO_run_notes c pre {}
  have hfin : ∀ s : MClientIO, (s.step c .dropHandle).1.core = s.core ∧ (s.step c .dropHandle).2 = [] := by
    intro s
    cases hf : s.core.fin.isSome <;> simp [MClientIO.step, hf]
  have hb := mclientIO_run_notes c post ((MClientIO.run c {} (ionotes pre)).1.step c .dropHandle).1
  rw [(hfin _).1, ha.1] at hb
  have happ : notes (pre ++ post) = notes pre ++ notes post := by simp [notes]
  rw [MClientIO.run_append, happ, MClient.run_append]
  simp only [MClientIO.run, (hfin _).2, ha.2, hb.1, hb.2]
  exact ⟨trivial, trivial, trivial⟩

theorem C08_value_read_only_mode_same_fold_at_any_drop_point (c : Cfg) (pre post : List VNote) :
    (VClientIO.run c {} (iovnotes pre ++ .dropHandle :: iovnotes post)).1.core
      = (VClient.run c {} (vnotes (pre ++ post))).1 ∧
    (VClientIO.run c {} (iovnotes pre ++ .dropHandle :: iovnotes post)).2
      = (VClient.run c {} (vnotes pre)).2 ++ [] :: (VClient.run c (VClient.run c {} (vnotes pre)).1 (vnotes post)).2 ∧
    (VClient.run c {} (vnotes pre)).2 ++ (VClient.run c (VClient.run c {} (vnotes pre)).1 (vnotes post)).2
      = (VClient.run c {} (vnotes (pre ++ post))).2 := by
  have ha := vclientIO_run_notes c pre {}
  have hfin : ∀ s : VClientIO, (s.step c .dropHandle).1.core = s.core ∧ (s.step c .dropHandle).2 = [] := by
    intro s
    cases hf : s.core.fin.isSome <;> simp [VClientIO.step, hf]
  have hb := vclientIO_run_notes c post ((VClientIO.run c {} (iovnotes pre)).1.step c .dropHandle).1
  rw [(hfin _).1, ha.1] at hb
  have happ : vnotes (pre ++ post) = vnotes pre ++ vnotes post := by simp [vnotes]
  rw [VClientIO.run_append, happ, VClient.run_append]
  simp only [VClientIO.run, (hfin _).2, ha.2, hb.1, hb.2]
  exact ⟨trivial, trivial, trivial⟩

/-- **State = fold also in read-only mode (map client, all five messages, both settings):** on every legal sequence, with
the handle dropped at any point, the replica is the fold of the notifications received since it linked. -/
theorem C08_client_state_is_fold_after_handle_dropped (c : Cfg) (pre post : List Note) (p : Phase)
    (h : phaseRun legalAll c .U (pre ++ post) = some p) (hE : p ≠ .E) :
    (MClientIO.run c {} (ionotes pre ++ .dropHandle :: ionotes post)).1.core.st.replica = specRun none (pre ++ post) := by
  rw [(C08_read_only_mode_same_fold_at_any_drop_point c pre post).1]
  exact C08_client_state_is_fold c (pre ++ post) p h hE

/-- **Callbacks = those the fold implies, also in read-only mode (map client; update / remove / clear):** the per-notification
callback lists before and after the drop point, put together, are exactly `specTrace` of the whole sequence — in
particular nothing fires before `synced` when `events_when_not_synced` is off, `on_synced` sees the fold of that moment, and
the task ends at `unlinked` exactly when `terminate_on_unlinked` is set. -/
theorem C08_client_callbacks_are_fold_after_handle_dropped (c : Cfg) (pre post : List Note) (p : Phase)
    (h : phaseRun legalBasic c .U (pre ++ post) = some p) :
    ∃ a b, a.length = pre.length ∧ a ++ b = specTrace legalBasic c .U none (pre ++ post) ∧
      (MClientIO.run c {} (ionotes pre ++ .dropHandle :: ionotes post)).2 = a ++ [] :: b := by
  obtain ⟨_, h2, h3⟩ := C08_read_only_mode_same_fold_at_any_drop_point c pre post
  refine ⟨_, _, ?_, ?_, h2⟩
  · rw [MClient.run_length]; simp [notes]
  · rw [h3]; exact C08_client_callbacks_in_order_with_true_old_new c (pre ++ post) p h

/-- the value task: the same, against `vSpecTrace` -/
theorem C08_value_callbacks_are_fold_after_handle_dropped (c : Cfg) (pre post : List VNote) (g : VG)
    (h : vRunG c .U (pre ++ post) = some g) :
    (∃ a b, a.length = pre.length ∧ a ++ b = vSpecTrace c .U (pre ++ post) ∧
      (VClientIO.run c {} (iovnotes pre ++ .dropHandle :: iovnotes post)).2 = a ++ [] :: b) ∧
    RelVC g (VClientIO.run c {} (iovnotes pre ++ .dropHandle :: iovnotes post)).1.core := by
  obtain ⟨h1, h2, h3⟩ := C08_value_read_only_mode_same_fold_at_any_drop_point c pre post
  have hv := C08_value_state_is_fold_and_client_eq_hosted c (pre ++ post) g h
  refine ⟨⟨_, _, ?_, ?_, h2⟩, ?_⟩
  · rw [VClient.run_length]; simp [vnotes]
  · rw [h3]; exact hv.1
  · rw [h1]; exact hv.2.2.2.1

/-- The seeded mutation this section is about — the `Mode::Read` loop of the value task passing
`terminate_on_unlinked, events_when_not_synced` in swapped order — changes the callbacks already for
`[handle dropped] linked, event 5` under the default configuration; `VClient.stepRO` (the code as it is) does not. -/
example : (vcRead { ews := (⟨false, true⟩ : Cfg).tou, tou := (⟨false, true⟩ : Cfg).ews } (.linked none) (.ev 5)).2.1
    ≠ (vcRead ⟨false, true⟩ (.linked none) (.ev 5)).2.1 := by decide

example : (VClientIO.run ⟨false, true⟩ {} [.dropHandle, .op (.note .linked), .op (.note (.ev 5)), .op (.note (.ev 6)),
      .op (.note .synced), .op (.note (.ev 7)), .op (.note .unlinked), .op (.note .linked)]).2
    = [[], [.linked], [], [], [.syncedV 6], [.event 7, .set (some 6) 7], [.unlinked], []] := by decide

example : ((MClientIO.run ⟨false, true⟩ {} [.op (.note .linked), .op (.write (.update 2 20)), .dropHandle,
      .op (.write (.update 3 30)), .op (.note (.ev (.update 1 10))), .op (.note .synced)]).2,
    neverDropped MOp.isWrite false [.op (.note .linked), .op (.write (.update 2 20)), .dropHandle,
      .op (.write (.update 3 30)), .op (.note (.ev (.update 1 10))), .op (.note .synced)])
    = ([[.linked], [], [], [], [], [.syncedM [(1, 10), (2, 20)]]],
       [.note .linked, .write (.update 2 20), .note (.ev (.update 1 10)), .note .synced]) := by decide

/-- **Hosted channels:** dropping the handle (the stop trigger resolves to `Err`, the write stream ends) changes nothing
for the notifications that follow — every op sequence without `reconnect` / `stop`, both settings, map and value. -/
theorem C08_hosted_handle_dropped_same_fold (c : Cfg) :
    (∀ ops : List (IoOp MOp), (∀ o ∈ ops, o ≠ .op .reconnect ∧ o ≠ .stop) →
      (MHostedIO.run c {} ops).1.core = (MHosted.run c {} (neverDropped MOp.isWrite false ops)).1 ∧
      keptOuts MOp.isWrite false ops (MHostedIO.run c {} ops).2 = (MHosted.run c {} (neverDropped MOp.isWrite false ops)).2 ∧
      (∀ x ∈ removedOuts MOp.isWrite false ops (MHostedIO.run c {} ops).2, x = [])) ∧
    (∀ ops : List (IoOp VOp), (∀ o ∈ ops, o ≠ .op .reconnect ∧ o ≠ .stop) →
      (VHostedIO.run c {} ops).1.core = (VHosted.run c {} (neverDropped VOp.isWrite false ops)).1 ∧
      keptOuts VOp.isWrite false ops (VHostedIO.run c {} ops).2 = (VHosted.run c {} (neverDropped VOp.isWrite false ops)).2 ∧
      (∀ x ∈ removedOuts VOp.isWrite false ops (VHostedIO.run c {} ops).2, x = [])) :=
  ⟨fun ops h => mhostedIO_run_eq c ops false {} h, fun ops h => vhostedIO_run_eq c ops false {} h⟩

/-- `handle.stop()` does to a hosted channel what the end of its input does (a synthetic `on_unlinked` if linked, the
replica cleared, the channel finished) — and, like a dropped handle, it rules out a restart
(when it reaches a channel that has not finished yet; afterwards neither is looked at). -/
theorem C08_hosted_stop_is_eof (c : Cfg) :
    (∀ s : MHostedIO, s.stopRx = true →
      (s.step c .stop).1.core = (s.core.step c .eof).1 ∧ (s.step c .stop).2 = (s.core.step c .eof).2 ∧
      (s.core.fin.isSome = false →
        ((s.step c .stop).1.step c (.op .reconnect)) = ((s.step c .stop).1, []) ∧
        ((s.step c .dropHandle).1.step c (.op .reconnect)) = ((s.step c .dropHandle).1, []))) ∧
    (∀ s : VHostedIO, s.stopRx = true →
      (s.step c .stop).1.core = (s.core.step c .eof).1 ∧ (s.step c .stop).2 = (s.core.step c .eof).2 ∧
      (s.core.fin.isSome = false →
        ((s.step c .stop).1.step c (.op .reconnect)) = ((s.step c .stop).1, []) ∧
        ((s.step c .dropHandle).1.step c (.op .reconnect)) = ((s.step c .dropHandle).1, []))) := by
  refine ⟨fun s hs => ?_, fun s hs => ?_⟩
  · cases hf : s.core.fin.isSome <;> cases hl : s.core.dl.isLinked <;> cases ht : c.tou <;>
      simp_all [MHostedIO.step, MHosted.step]
  · cases hf : s.core.fin.isSome <;> cases hl : s.core.dl.isLinked <;> cases ht : c.tou <;>
      simp_all [VHostedIO.step, VHosted.step]

/-! ### hosted event downlink (no replica; present for the builder coverage) -/

/-- **Hosted event downlink, both settings:** whatever happened before, on a live channel `on_event v` fires for an event
exactly when the link is synced or `events_when_not_synced` is set, `synced` fires `on_synced` once, `unlinked` fires
`on_unlinked` and finishes the channel exactly when `terminate_on_unlinked` is set; nothing else is ever called. -/
theorem C08_hosted_event_callbacks (c : Cfg) (s : VHostedIO) (hf : s.core.fin.isSome = false) :
    (∀ b, (EHostedIO.step c s (.op (.note (.ev b)))).2 = if s.core.dl = .synced || c.ews then [.event b] else []) ∧
    (EHostedIO.step c s (.op (.note .synced))).2 = [.syncedU] ∧
    (EHostedIO.step c s (.op (.note .unlinked))).2 = [.unlinked] ∧
    ((EHostedIO.step c s (.op (.note .unlinked))).1.core.fin.isSome = c.tou) := by
  cases ht : c.tou <;> simp [EHostedIO.step, ehNext, hf, ht]

end SwimVerif.Dl
