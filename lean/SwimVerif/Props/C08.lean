/-
C08 — the state held by a value or map downlink equals the fold of what it received.

Quantifier: every notification sequence of the grammar `linked ev* synced ev* unlinked (relink ..)` (`phaseRun`,
`vRunG`), both settings of `events_when_not_synced` (`c.ews`) and `terminate_on_unlinked` (`c.tou`), both
implementations (`MClient`/`VClient` = `swimos_downlink::task`, `MHosted`/`VHosted` = `swimos_agent` hosted downlinks;
`Model/DownlinkTask.lean`, the code as it is — after the repairs of F5 (`clear` while callbacks are suppressed) and F5b
(`take` / `drop` ignoring `dispatch`)). The fold is `specRun` (`applyMsg`: update, remove, clear, take, drop applied in
order on a finite map) resp. `vSpecRun` (last value received since `linked`).

`Restr.noTakeDrop` restricts the *callback-trace* claims to update / remove / clear; for take / drop the callbacks are
characterised separately (`C08_*take_drop*`). The only statement kept as a `def` with a `_fails` witness is F6 (the client
folds its own writes into its replica).
-/
import SwimVerif.Proofs.DownlinkTask

set_option linter.unusedVariables false
namespace SwimVerif.Dl

/-- every sequence of the grammar -/
def legalAll : Restr := { noTakeDrop := false }
/-- only update / remove / clear events -/
def legalBasic : Restr := { noTakeDrop := true }

/-! ### association lists are finite maps (what "fold" means) -/

theorem C08_look_ins_same (k v : Int) (m : AMap) : look k (ins k v m) = some v := look_ins_same k v m
theorem C08_look_ins_other (k k' v : Int) (m : AMap) (h : k' ≠ k) : look k' (ins k v m) = look k' m :=
  look_ins_other k k' v m h
theorem C08_look_del_same (k : Int) (m : AMap) : look k (del k m) = none := look_del_same k m
theorem C08_look_del_other (k k' : Int) (m : AMap) (h : k' ≠ k) : look k' (del k m) = look k' m :=
  look_del_other k k' m h

/-! ### state = fold -/

/-- **Hosted map downlink, both settings:** after any legal sequence (update / remove / clear events) the
replica is the fold of the notifications received since it linked (empty when not linked). -/
theorem C08_hosted_state_is_fold (c : Cfg) (ns : List Note) (p : Phase)
    (h : phaseRun legalBasic c .U ns = some p) :
    (MHosted.run c {} (notes ns)).1.map = (specRun none ns).getD [] := by
  have hrel := relH_run (R := legalBasic) rfl c ns relH_init h
  cases p with
  | U => obtain ⟨hs, hsp⟩ := hrel; rw [hs, hsp]; rfl
  | L => obtain ⟨_, _, hsp⟩ := hrel; rw [hsp]; rfl
  | S => obtain ⟨_, _, hsp⟩ := hrel; rw [hsp]; rfl
  | E => obtain ⟨_, hm, hsp⟩ := hrel; rw [hm, hsp]; rfl

example : phaseRun legalBasic ⟨false, false⟩ .U
    [.linked, .ev (.update 1 10), .ev .clear, .ev (.update 2 5), .synced, .ev (.remove 2), .unlinked, .linked]
    = some .L := by decide

/-- **Client map downlink, both settings, all five messages:** after every legal sequence the replica is the fold of
the notifications received since it linked (`State::Unlinked` when not linked). -/
theorem C08_client_state_is_fold (c : Cfg) (ns : List Note) (p : Phase)
    (h : phaseRun legalAll c .U ns = some p) (hE : p ≠ .E) :
    (MClient.run c {} (notes ns)).1.st.replica = specRun none ns := by
  have hrel := relC_run_all (R := legalAll) c ns relC_init sortedK_nil h
  cases p with
  | U => obtain ⟨hs, hsp⟩ := hrel; rw [hs, hsp]; rfl
  | L => obtain ⟨m, hs, hsp⟩ := hrel; rw [hs, hsp]; rfl
  | S => obtain ⟨m, hs, hsp⟩ := hrel; rw [hs, hsp]; rfl
  | E => exact absurd rfl hE

example : phaseRun legalAll ⟨false, false⟩ .U
    [.linked, .ev (.update 1 10), .ev .clear, .ev (.update 2 5), .ev (.update 3 5), .ev (.take 1), .synced, .ev .clear,
     .ev (.drop 2), .unlinked, .linked] = some .L := by decide

/-- Regression of F5 (was `C08_client_state_is_fold_fails`): with the default configuration
`linked, update 1→10, clear, synced` now reports the empty map. -/
theorem C08_client_clear_while_suppressed_is_applied :
    (MClient.run ⟨false, true⟩ {} (notes [.linked, .ev (.update 1 10), .ev .clear, .synced])).2
      = [[.linked], [], [], [.syncedM []]] := by decide

/-! ### callbacks: notification order, true old / new values -/

/-- **Callbacks (hosted):** the callback trace is exactly the one the fold implies — one list per notification, in
order; `on_update` carries the previous value of the key in the fold and the map after the update, `on_remove` the removed
value, `on_clear` the map before; nothing while callbacks are suppressed. -/
theorem C08_hosted_callbacks_in_order_with_true_old_new (c : Cfg) (ns : List Note) (p : Phase)
    (h : phaseRun legalBasic c .U ns = some p) :
    (MHosted.run c {} (notes ns)).2 = specTrace legalBasic c .U none ns :=
  traceH_run (R := legalBasic) rfl c ns relH_init h

/-- **Callbacks (client):** the same trace. -/
theorem C08_client_callbacks_in_order_with_true_old_new (c : Cfg) (ns : List Note) (p : Phase)
    (h : phaseRun legalBasic c .U ns = some p) :
    (MClient.run c {} (notes ns)).2 = specTrace legalBasic c .U none ns :=
  traceC_run (R := legalBasic) rfl c ns relC_init h

example : specTrace legalBasic ⟨false, false⟩ .U none
      [.linked, .ev (.update 1 10), .synced, .ev (.update 1 11), .ev (.remove 1), .ev (.remove 1)]
    = [[.linked], [], [.syncedM [(1, 10)]], [.update 1 (some 10) 11 [(1, 11)]], [.remove 1 11 []], []] := by decide

/-! ### client = hosted -/

/-- **client = hosted** on every legal sequence of update / remove / clear, both settings: same callback trace, same
replica. -/
theorem C08_client_eq_hosted (c : Cfg) (ns : List Note) (p : Phase)
    (h : phaseRun legalBasic c .U ns = some p) :
    (MClient.run c {} (notes ns)).2 = (MHosted.run c {} (notes ns)).2 ∧
    (p ≠ .E → (MClient.run c {} (notes ns)).1.st.replica.getD [] = (MHosted.run c {} (notes ns)).1.map) := by
  have hc := traceC_run (R := legalBasic) rfl c ns relC_init h
  have hh := traceH_run (R := legalBasic) rfl c ns relH_init h
  refine ⟨hc.trans hh.symm, ?_⟩
  have rc := relC_run (R := legalBasic) rfl c ns relC_init h
  have rh := relH_run (R := legalBasic) rfl c ns relH_init h
  intro hE
  cases p with
  | U => obtain ⟨hs, _⟩ := rc; obtain ⟨hs', _⟩ := rh; rw [hs, hs']; rfl
  | L => obtain ⟨m, hs, hsp⟩ := rc; obtain ⟨_, _, hsp'⟩ := rh; rw [hs]; rw [hsp] at hsp'; simpa [CSt.replica] using hsp'
  | S => obtain ⟨m, hs, hsp⟩ := rc; obtain ⟨_, _, hsp'⟩ := rh; rw [hs]; rw [hsp] at hsp'; simpa [CSt.replica] using hsp'
  | E => exact absurd rfl hE

example : phaseRun legalBasic ⟨false, false⟩ .U
    [.linked, .ev (.update 1 10), .ev .clear, .ev (.remove 1), .synced, .ev .clear, .ev (.update 3 1), .unlinked, .linked,
     .ev (.update 2 2), .synced] = some .S := by decide

/-- **client replica = hosted replica, all five messages**, both settings, every legal sequence. -/
theorem C08_client_eq_hosted_state_all_messages (c : Cfg) (ns : List Note) (p : Phase)
    (h : phaseRun legalAll c .U ns = some p) (hE : p ≠ .E) :
    (MClient.run c {} (notes ns)).1.st.replica.getD [] = (MHosted.run c {} (notes ns)).1.map := by
  have rc := relC_run_all (R := legalAll) c ns relC_init sortedK_nil h
  have rh := relH_run_all (R := legalAll) c ns relH_init sortedK_nil h
  cases p with
  | U => obtain ⟨hs, _⟩ := rc; obtain ⟨hs', _⟩ := rh; rw [hs, hs']; rfl
  | L => obtain ⟨m, hs, hsp⟩ := rc; obtain ⟨_, _, hsp'⟩ := rh; rw [hs]; rw [hsp] at hsp'; simpa [CSt.replica] using hsp'
  | S => obtain ⟨m, hs, hsp⟩ := rc; obtain ⟨_, _, hsp'⟩ := rh; rw [hs]; rw [hsp] at hsp'; simpa [CSt.replica] using hsp'
  | E => exact absurd rfl hE

/-! ### on_synced exactly once, with the state of that moment -/

/-- **on_synced (hosted):** after any legal prefix, a legal `synced` notification fires `on_synced` exactly once and hands
it the fold of that moment; no other legal notification fires `on_synced`. -/
theorem C08_hosted_on_synced_exactly_once_with_state_of_that_moment (c : Cfg) (pre : List Note) (n : Note)
    (p p' : Phase) (h1 : phaseRun legalBasic c .U pre = some p) (h2 : phaseStep legalBasic c p n = some p') :
    (n = .synced → ((MHosted.run c {} (notes pre)).1.step c (.note n)).2 = [.syncedM ((specRun none pre).getD [])]) ∧
    (n ≠ .synced → ∀ m, Cb.syncedM m ∉ ((MHosted.run c {} (notes pre)).1.step c (.note n)).2) := by
  have hrel := relH_run (R := legalBasic) rfl c pre relH_init h1
  have hc := cbsH_step (R := legalBasic) rfl c hrel h2
  rw [hc]
  exact ⟨fun hn => by subst hn; rfl, fun hn m => specCbs_not_synced _ _ n hn m⟩

/-- **on_synced (client):** the same, update / remove / clear prefixes. -/
theorem C08_client_on_synced_exactly_once_with_state_of_that_moment (c : Cfg) (pre : List Note) (n : Note)
    (p p' : Phase) (h1 : phaseRun legalBasic c .U pre = some p) (h2 : phaseStep legalBasic c p n = some p') :
    (n = .synced → ((MClient.run c {} (notes pre)).1.step c (.note n)).2 = [.syncedM ((specRun none pre).getD [])]) ∧
    (n ≠ .synced → ∀ m, Cb.syncedM m ∉ ((MClient.run c {} (notes pre)).1.step c (.note n)).2) := by
  have hrel := relC_run (R := legalBasic) rfl c pre relC_init h1
  have hc := cbsC_step (R := legalBasic) rfl c hrel h2
  rw [hc]
  exact ⟨fun hn => by subst hn; rfl, fun hn m => specCbs_not_synced _ _ n hn m⟩

/-- **on_synced (client), all five messages:** a legal `synced` fires `on_synced` once with the fold of that moment. -/
theorem C08_client_on_synced_with_state_of_that_moment (c : Cfg) (pre : List Note)
    (h : phaseRun legalAll c .U pre = some .L) :
    ((MClient.run c {} (notes pre)).1.step c (.note .synced)).2 = [.syncedM ((specRun none pre).getD [])] := by
  obtain ⟨m, hs, hsp⟩ := relC_run_all (R := legalAll) c pre relC_init sortedK_nil h
  rw [hs, hsp]
  rfl

/-! ### local writes -/

/-- F6 statement: interleaved local writes do not change what the client reports (its replica stays the fold of the
*received* notifications). -/
def C08_client_ignores_local_writes : Prop :=
  ∀ (c : Cfg) (ops : List MOp),
    ((MClient.run c {} ops).2.filter (· ≠ [])) =
      ((MClient.run c {} (ops.filter fun o => match o with | .write _ => false | _ => true)).2.filter (· ≠ []))

/-- F6: `linked, (local) update 2→20, update 1→10, synced` reports `on_synced {1:10, 2:20}`; and the lane's echo of a
local write is then reported with a wrong `old` value. -/
theorem C08_client_ignores_local_writes_fails : ¬ C08_client_ignores_local_writes := by
  intro h
  have := h ⟨false, true⟩ [.note .linked, .write (.update 2 20), .note (.ev (.update 1 10)), .note .synced]
  revert this
  decide

theorem C08_client_echo_reports_wrong_old_value :
    (MClient.run ⟨false, true⟩ {} [.note .linked, .note .synced, .write (.update 2 20), .note (.ev (.update 2 20))]).2
      = [[.linked], [.syncedM []], [], [.update 2 (some 20) 20 [(2, 20)]]] := by decide

/-- **Hosted:** local writes never touch the replica nor cause callbacks — every op sequence (legal or not). -/
theorem C08_hosted_ignores_local_writes (c : Cfg) (ops : List MOp) (s : MHosted) :
    (MHosted.run c s ops).1 = (MHosted.run c s (ops.filter fun o => match o with | .write _ => false | _ => true)).1 := by
  induction ops generalizing s with
  | nil => rfl
  | cons op r ih =>
    cases op with
    | write w => simp only [List.filter, MHosted.run, MHosted.step]; exact ih s
    | note n => simp only [List.filter, MHosted.run]; exact ih _
    | bad => simp only [List.filter, MHosted.run]; exact ih _
    | eof => simp only [List.filter, MHosted.run]; exact ih _
    | reconnect => simp only [List.filter, MHosted.run]; exact ih _

/-! ### value downlinks -/

/-- **Value downlinks, both implementations, both settings:** on every legal sequence the two produce the same callback
trace — the one implied by the values received (`on_event v; on_set prev v` exactly when synced or
`events_when_not_synced`, `on_synced` once with the last value received) — and both hold the last value received since
`linked`. -/
theorem C08_value_state_is_fold_and_client_eq_hosted (c : Cfg) (ns : List VNote) (g : VG)
    (h : vRunG c .U ns = some g) :
    (VClient.run c {} (vnotes ns)).2 = vSpecTrace c .U ns ∧
    (VHosted.run c {} (vnotes ns)).2 = vSpecTrace c .U ns ∧
    g.spec = vSpecRun none ns ∧
    RelVC g (VClient.run c {} (vnotes ns)).1 ∧ RelVH g (VHosted.run c {} (vnotes ns)).1 := by
  have hc := relVC_run c ns (g := .U) (s := {}) rfl h
  have hh := relVH_run c ns (g := .U) (s := {}) rfl h
  exact ⟨hc.2, hh.2, vRunG_spec c ns h, hc.1, hh.1⟩

/-- Corollary in plain terms: the hosted value cell and the client state hold the fold. -/
theorem C08_value_hosted_state_is_fold (c : Cfg) (ns : List VNote) (g : VG) (h : vRunG c .U ns = some g) :
    (VHosted.run c {} (vnotes ns)).1.val = (vSpecRun none ns).getD none := by
  have := C08_value_state_is_fold_and_client_eq_hosted c ns g h
  obtain ⟨_, _, hs, _, hh⟩ := this
  rw [← hs]
  cases g with
  | U => simp only [RelVH] at hh; rw [hh]; rfl
  | L v => simp only [RelVH] at hh; rw [hh]; rfl
  | S v => simp only [RelVH] at hh; rw [hh]; rfl
  | E => exact hh.2

example : vRunG ⟨false, false⟩ .U [.linked, .ev 3, .ev 4, .synced, .ev 5, .unlinked, .linked, .ev 1] = some (.L (some 1)) := by
  decide

/-- **on_synced (value):** at a legal `synced` both implementations fire `on_synced` once with the last value received. -/
theorem C08_value_on_synced_with_last_received (c : Cfg) (pre : List VNote) (v : Option Int)
    (h : vRunG c .U pre = some (.L v)) (w : Int) (hv : v = some w) :
    ((VClient.run c {} (vnotes pre)).1.step c (.note .synced)).2 = [.syncedV w] ∧
    ((VHosted.run c {} (vnotes pre)).1.step c (.note .synced)).2 = [.syncedV w] := by
  subst hv
  have hc := (relVC_run c pre (g := .U) (s := {}) rfl h).1
  have hh := (relVH_run c pre (g := .U) (s := {}) rfl h).1
  have h2 : vStep c (.L (some w)) .synced = some (.S w) := rfl
  exact ⟨(relVC_step c hc h2).2, (relVH_step c hh h2).2⟩

/-- The two value implementations differ outside the grammar: `synced` before any value is a task error in the client
and silently accepted by the hosted downlink (recorded; illegal sequences are only checked for absence of panics). -/
theorem C08_value_synced_without_value_differs :
    ((VClient.run ⟨false, false⟩ {} (vnotes [.linked, .synced])).1.fin,
     (VHosted.run ⟨false, false⟩ {} (vnotes [.linked, .synced])).1.fin) = (some .syncedNoValue, none) := by decide

/-! ### take / drop -/

/-- **Hosted map downlink, all five messages:** removing the sorted key suffix / prefix one key at a time (what
`MapDlState::take/drop` do with `drop_or_take`) is `take` / `drop` of the fold; so the replica is the fold on *every*
legal sequence, both settings. -/
theorem C08_hosted_state_is_fold_all_messages (c : Cfg) (ns : List Note) (p : Phase)
    (h : phaseRun legalAll c .U ns = some p) :
    (MHosted.run c {} (notes ns)).1.map = (specRun none ns).getD [] := by
  have hrel := relH_run_all (R := legalAll) c ns relH_init sortedK_nil h
  cases p with
  | U => obtain ⟨hs, hsp⟩ := hrel; rw [hs, hsp]; rfl
  | L => obtain ⟨_, _, hsp⟩ := hrel; rw [hsp]; rfl
  | S => obtain ⟨_, _, hsp⟩ := hrel; rw [hsp]; rfl
  | E => obtain ⟨_, hm, hsp⟩ := hrel; rw [hm, hsp]; rfl

example : phaseRun legalAll ⟨false, false⟩ .U
    [.linked, .ev (.update 3 1), .ev (.update 1 10), .ev (.update 2 5), .ev (.take 2), .synced, .ev (.drop 1), .ev (.drop 7)]
    = some .S := by decide

/-- **on_synced (hosted), all five messages:** a legal `synced` fires `on_synced` once with the fold of that moment. -/
theorem C08_hosted_on_synced_with_state_of_that_moment_all_messages (c : Cfg) (pre : List Note)
    (h : phaseRun legalAll c .U pre = some .L) :
    ((MHosted.run c {} (notes pre)).1.step c (.note .synced)).2 = [.syncedM ((specRun none pre).getD [])] := by
  obtain ⟨_, hfin, hsp⟩ := relH_run_all (R := legalAll) c pre relH_init sortedK_nil h
  simp [MHosted.step, hNext, hfin, hsp]

/-- **take / drop callbacks (hosted):** on a key-sorted replica `take n` / `drop n` (`n < len`) fire one `on_remove` per
removed entry, in key order, with the true removed value and the map after that removal (the monitor's reference shape). -/
theorem C08_hosted_take_drop_callback_shape (m : AMap) (n : Nat) (hs : SortedK m) (hn : n < m.length) :
    (hEvent m (.take n) true).2 = refRemoveSeq m (m.drop n) ∧ (hEvent m (.drop n) true).2 = refRemoveSeq m (m.take n) := by
  constructor
  · simp only [hEvent, hn, ↓reduceIte]
    rw [← keys_drop]
    exact removeSeq_snd_sorted m (m.drop n) hs (List.drop_sublist n m)
  · have : ¬ m.length ≤ n := by omega
    simp only [hEvent, this, ↓reduceIte]
    rw [← keys_take]
    exact removeSeq_snd_sorted m (m.take n) hs (List.take_sublist n m)

example : SortedK [(1, 10), (2, 20), (3, 30)] := by simp [SortedK, keys]

/-- **take / drop callbacks, client = hosted:** for `take n` (any `n`) and `drop n` with `n < len` the two implementations
compute the same replica *and* the same callbacks (both respect `dispatch`). -/
theorem C08_client_eq_hosted_take_drop_callbacks (m : AMap) (e : Msg) (d : Bool)
    (h : match e with | .take _ => True | .drop n => n < m.length | _ => False) :
    cEvent m e d = hEvent m e d := by
  apply cEvent_eq_hEvent
  cases e <;> simp_all

/-- The one remaining (benign, accepted by the monitor) difference in callback *shape*: `drop n` with `n ≥ len` is one
`on_clear` in the hosted downlink (also on an empty map) and one `on_remove` per key in the client. -/
theorem C08_drop_everything_callbacks_differ :
    (cEvent [(1, 10), (2, 20)] (.drop 2) true).2 = [.remove 1 10 [(2, 20)], .remove 2 20 []] ∧
    (hEvent [(1, 10), (2, 20)] (.drop 2) true).2 = [.clear [(1, 10), (2, 20)]] ∧
    (cEvent [] (.drop 0) true).2 = [] ∧ (hEvent [] (.drop 0) true).2 = [.clear []] := by decide

/-- Regression of F5b: `take` no longer fires `on_remove` while callbacks are suppressed, and `drop` shows `on_remove` the
map after the removal. -/
theorem C08_client_take_drop_respect_dispatch :
    (MClient.run ⟨false, true⟩ {} (notes [.linked, .ev (.update 1 10), .ev (.update 2 20), .ev (.take 1), .synced])).2
      = [[.linked], [], [], [], [.syncedM [(1, 10)]]] ∧
    (MClient.run ⟨true, true⟩ {} (notes [.linked, .ev (.update 1 10), .ev (.update 2 20), .ev (.drop 1)])).2
      = [[.linked], [.update 1 none 10 [(1, 10)]], [.update 2 none 20 [(1, 10), (2, 20)]], [.remove 1 10 [(2, 20)]]] := by
  decide

end SwimVerif.Dl
