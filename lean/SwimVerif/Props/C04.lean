/-
C04 — every uplink follows the WARP link state machine; no fabricated frames.
Theorems about the model of one remote's `Uplinks` queue + write futures (`Model/WriteTask.lean`,
`Model/UplinkSys.lean`), for EVERY registry and EVERY interleaving (`List UOp`) of lane events, link / unlink /
lane-not-found messages (`push_special`) and completions of the in-flight write.  The composition with `Links`
and the coordination messages (`WriteTaskState`) is tied to the code by the `wt` correspondence engine and
monitored on implementation traces (`WT.Mon`); its link-language theorem is kept below as an open statement.
Model = the code after the `fix:` commits (explicit `pending` flag in `ValueBackpressure`, stale queue entries
skipped, responses for removed remotes discarded).
-/
import SwimVerif.Proofs.NoFab

set_option linter.unusedVariables false
namespace SwimVerif.WT

def ureach (reg : Registry) (ops : List UOp) : USys := urun reg {} ops

/-- **No fabrication**: every event body handed to the channel (or lent to the write in flight) for lane `l` is,
byte for byte, a body that was pushed for lane `l` on this remote. -/
theorem C04_no_fabrication (reg : Registry) (ops : List UOp) (l : Nat) (b : Body)
    (h : b ∈ bodiesFor l (ureach reg ops).sent) : b ∈ pushedBodies l (ureach reg ops).pushed :=
  (finv_run reg uinv_init finv_init ops).sent l b h

/-- Nothing that was not pushed for the lane ever waits in its backpressure buffers either. -/
theorem C04_buffers_hold_only_pushed (reg : Registry) (ops : List UOp) (l : Nat) (b : Body)
    (h : b ∈ bufBodies (ureach reg ops).up l) : b ∈ pushedBodies l (ureach reg ops).pushed :=
  (finv_run reg uinv_init finv_init ops).buf l b h

/-- The writer is lent out exactly while a write is in flight (at most one write per remote at a time). -/
theorem C04_writer_discipline (reg : Registry) (ops : List UOp) :
    (ureach reg ops).up.writerHome = true ↔ (ureach reg ops).inflight = none :=
  (uinv_run reg uinv_init ops).w

/-- **Nothing is forgotten**: when no write is in flight for a remote, nothing is owed to it — no queued
link/unlink message, no queue entry, no buffered body, no pending `synced`. -/
theorem C04_idle_means_nothing_owed (reg : Registry) (ops : List UOp)
    (h : (ureach reg ops).inflight = none) :
    (ureach reg ops).up.specialQueue = [] ∧ (ureach reg ops).up.writeQueue = [] ∧
    (∀ l, bufBodies (ureach reg ops).up l = []) ∧
    (∀ l up, alGet (ureach reg ops).up.value l = some up → up.sendSynced = false) ∧
    (∀ l up, alGet (ureach reg ops).up.supply l = some up → up.sendSynced = false) ∧
    (∀ l up, alGet (ureach reg ops).up.map l = some up → up.sendSynced = false) := by
  have hi := uinv_run reg uinv_init ops
  unfold ureach at *
  generalize urun reg {} ops = s at *
  have hh := hi.w.mpr h
  obtain ⟨hs, hq⟩ := hi.q.home hh
  have nv : ∀ l (up : Uplink ValueBp), alGet s.up.value l = some up → up.queued = false := by
    intro l up hl
    cases hqd : up.queued with
    | false => rfl
    | true => have := (hi.q.value l up hl).2 hqd; rw [hq] at this; simp at this
  have ns : ∀ l (up : Uplink (List Bytes)), alGet s.up.supply l = some up → up.queued = false := by
    intro l up hl
    cases hqd : up.queued with
    | false => rfl
    | true => have := (hi.q.supply l up hl).2 hqd; rw [hq] at this; simp at this
  have nm : ∀ l (up : Uplink (List MapOp)), alGet s.up.map l = some up → up.queued = false := by
    intro l up hl
    cases hqd : up.queued with
    | false => rfl
    | true => have := (hi.q.map l up hl).2 hqd; rw [hq] at this; simp at this
  refine ⟨hs, hq, ?_, ?_, ?_, ?_⟩
  · intro l
    have v : bufValue s.up l = [] := by
      unfold bufValue
      cases hg : alGet s.up.value l with
      | none => rfl
      | some up =>
        simp only []
        cases hp : up.bp.pending with
        | false => simp
        | true =>
          have := (hi.q.value l up hg).1 (Or.inl hp)
          rw [nv l up hg] at this; simp at this
    have su : bufSupply s.up l = [] := by
      unfold bufSupply
      cases hg : alGet s.up.supply l with
      | none => rfl
      | some up =>
        simp only []
        cases hb : up.bp with
        | nil => rfl
        | cons x xs =>
          have := (hi.q.supply l up hg).1 (Or.inl (by rw [hb]; simp))
          rw [ns l up hg] at this; simp at this
    have m : bufMap s.up l = [] := by
      unfold bufMap
      cases hg : alGet s.up.map l with
      | none => rfl
      | some up =>
        simp only []
        cases hb : up.bp with
        | nil => rfl
        | cons x xs =>
          have := (hi.q.map l up hg).1 (Or.inl (by rw [hb]; simp))
          rw [nm l up hg] at this; simp at this
    simp [bufBodies, v, su, m]
  · intro l up hl
    cases hsy : up.sendSynced with
    | false => rfl
    | true =>
      have := (hi.q.value l up hl).1 (Or.inr hsy)
      rw [nv l up hl] at this; simp at this
  · intro l up hl
    cases hsy : up.sendSynced with
    | false => rfl
    | true =>
      have := (hi.q.supply l up hl).1 (Or.inr hsy)
      rw [ns l up hl] at this; simp at this
  · intro l up hl
    cases hsy : up.sendSynced with
    | false => rfl
    | true =>
      have := (hi.q.map l up hl).1 (Or.inr hsy)
      rw [nm l up hl] at this; simp at this

/-- Link / unlink / lane-not-found messages pre-empt data: the next write after a completion is the oldest
queued special message whenever there is one. -/
theorem C04_specials_preempt (u : Uplinks) (reg : Registry) (a : Special) (rest : List Special)
    (h : u.specialQueue = a :: rest) :
    (u.replaceAndPop reg).2 = some (specialWrite reg a) ∧ (u.replaceAndPop reg).1.specialQueue = rest := by
  unfold Uplinks.replaceAndPop; rw [h]; exact ⟨rfl, rfl⟩

/-- A queued `unlinked` discards whatever was still buffered for that lane: nothing of the closed link follows it. -/
theorem C04_unlinked_discards_pending (u : Uplinks) (reg : Registry) (l : Nat) (m : UnlinkMsg)
    (h : u.writerHome = false) : bufBodies (u.pushSpecial (.unlinked l m) reg).1 l = [] := by
  simp [Uplinks.pushSpecial, h, bufBodies, bufValue, bufSupply, bufMap, alGet_alErase]

/-- A lane-not-found answer is exactly one `unlinked` carrying `@laneNotFound`, under the requested name. -/
theorem C04_lane_not_found_frame (reg : Registry) (name : Nat) :
    specialWrite reg (.laneNotFound name) = ⟨some name, [.unlinked .notFound], none⟩ := rfl

/-! Open (tied by correspondence + monitor only): the per-(remote, lane) frame language
`(linked (event | synced)* unlinked)*` of the whole write task. `WT.Mon` is the decidable predicate run over
implementation traces; the statement below is its core over the structured model trace. -/

def frameOk (isOpen : Bool) : Note → Option Bool
  | .linked => some true
  | .unlinked .notFound => some isOpen
  | .unlinked _ => if isOpen then some false else none
  | .synced => if isOpen then some true else none
  | .event _ => if isOpen then some true else none

def langFrame (st : List (Nat × Bool)) (r : Nat) (f : Option Nat × Note) : Option (List (Nat × Bool)) :=
  match f.1 with
  | none => none
  | some name => (frameOk ((alGet st (r * 100000 + name)).getD false) f.2).map (alSet st (r * 100000 + name))

def langFrames (st : List (Nat × Bool)) (r : Nat) : List (Option Nat × Note) → Option (List (Nat × Bool))
  | [] => some st
  | f :: fs => match langFrame st r f with
    | some st' => langFrames st' r fs
    | none => none

/-- Frames come out of `done r` steps only. -/
def langOk : St → List (Nat × Bool) → List Ev → Bool
  | _, _, [] => true
  | s, st, e :: rest =>
    let x := step s e
    match e with
    | .done r _ => (match langFrames st r x.2.frames with
      | some st' => langOk x.1 st' rest
      | none => false)
    | _ => langOk x.1 st rest

/-- Events refer to registered lanes and a remote id is attached at most once. -/
def wellFormed : St → List Nat → List Ev → Bool
  | _, _, [] => true
  | s, seen, e :: rest =>
    (match e with
      | .event lane _ _ => decide (lane < s.reg.length)
      | .laneFailed lane => decide (lane < s.reg.length)
      | .attach r => !seen.contains r
      | _ => true) &&
    wellFormed (step s e).1 (match e with | .attach r => r :: seen | _ => seen) rest

def C04_link_language_open : Prop :=
  ∀ (evs : List Ev), wellFormed {} [] evs = true → langOk {} [] evs = true

/-! Non-vacuity -/
example : (ureach [0] [.push 0 (.value [1]), .push 0 (.value [2]), .done]).inflight.isSome = true := by decide
example : bodiesFor 0 (ureach [0] [.push 0 (.value [1]), .push 0 (.value [2]), .done, .done]).sent
    = [.raw [1], .raw [2]] := by decide
/-- F1 regression: a `synced` queued on its own no longer drags an empty event along. -/
example : (ureach [0] [.push 0 (.value [7]), .push 0 (.synced .value), .done]).inflight
    = some ⟨some 0, [.synced], some 0⟩ := by decide
/-- F1 regression: a stale queue entry (queued `unlinked`, re-link, push) produces no empty event. -/
example : bodiesFor 0 (ureach [0] [.special (.linked 0), .push 0 (.value [1]), .special (.unlinked 0 .closed),
    .special (.linked 0), .push 0 (.value [2]), .done, .done, .done, .done, .done]).sent = [.raw [2]] := by decide

end SwimVerif.WT
