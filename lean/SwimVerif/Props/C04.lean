/-
C04 — every uplink follows the WARP link state machine; no fabricated frames.
Theorems about the model of one remote's `Uplinks` queue + write futures (`Model/WriteTask.lean`,
`Model/UplinkSys.lean`), for EVERY registry and EVERY interleaving (`List UOp`) of lane events, link / unlink /
lane-not-found messages (`push_special`) and completions of the in-flight write.  The composition with `Links`
and the coordination messages (`WriteTaskState`) is tied to the code by the `wt` correspondence engine and
monitored on implementation traces (`WT.Mon`); its link-language theorem is kept below as an open statement.
Model = the code after the `fix:` commits (explicit `pending` flag in `ValueBackpressure`, stale queue entries
skipped, responses for removed remotes discarded).
-/
import SwimVerif.Proofs.NoFab
import SwimVerif.Proofs.LinkLangStop

set_option linter.unusedVariables false
namespace SwimVerif.WT

def ureach (reg : Registry) (ops : List UOp) : USys := urun reg {} ops

/-- **No fabrication**: every event body handed to the channel (or lent to the write in flight) for lane `l` is,
byte for byte, a body that was pushed for lane `l` on this remote. -/
theorem C04_no_fabrication (reg : Registry) (ops : List UOp) (l : Nat) (b : Body)
    (h : b ∈ bodiesFor l (ureach reg ops).sent) : b ∈ pushedBodies l (ureach reg ops).pushed :=
  (finv_run reg uinv_init finv_init ops).sent l b h

/-- Nothing that was not pushed for the lane ever waits in its backpressure buffers either. -/
theorem C04_buffers_hold_only_pushed (reg : Registry) (ops : List UOp) (l : Nat) (b : Body)
    (h : b ∈ bufBodies (ureach reg ops).up l) : b ∈ pushedBodies l (ureach reg ops).pushed :=
  (finv_run reg uinv_init finv_init ops).buf l b h

/-- The writer is lent out exactly while a write is in flight (at most one write per remote at a time). -/
theorem C04_writer_discipline (reg : Registry) (ops : List UOp) :
    (ureach reg ops).up.writerHome = true ↔ (ureach reg ops).inflight = none :=
  (uinv_run reg uinv_init ops).w

/-- **Nothing is forgotten**: when no write is in flight for a remote, nothing is owed to it — no queued
link/unlink message, no queue entry, no buffered body, no pending `synced`. -/
theorem C04_idle_means_nothing_owed (reg : Registry) (ops : List UOp)
    (h : (ureach reg ops).inflight = none) :
    (ureach reg ops).up.specialQueue = [] ∧ (ureach reg ops).up.writeQueue = [] ∧
    (∀ l, bufBodies (ureach reg ops).up l = []) ∧
    (∀ l up, alGet (ureach reg ops).up.value l = some up → up.sendSynced = false) ∧
    (∀ l up, alGet (ureach reg ops).up.supply l = some up → up.sendSynced = false) ∧
    (∀ l up, alGet (ureach reg ops).up.map l = some up → up.sendSynced = false) := by
  have hi := uinv_run reg uinv_init ops
  unfold ureach at *
  generalize urun reg {} ops = s at *
  have hh := hi.w.mpr h
  obtain ⟨hs, hq⟩ := hi.q.home hh
  have nv : ∀ l (up : Uplink ValueBp), alGet s.up.value l = some up → up.queued = false := by
    intro l up hl
    cases hqd : up.queued with
    | false => rfl
    | true => have := (hi.q.value l up hl).2 hqd; rw [hq] at this; simp at this
  have ns : ∀ l (up : Uplink (List Bytes)), alGet s.up.supply l = some up → up.queued = false := by
    intro l up hl
    cases hqd : up.queued with
    | false => rfl
    | true => have := (hi.q.supply l up hl).2 hqd; rw [hq] at this; simp at this
  have nm : ∀ l (up : Uplink (List MapOp)), alGet s.up.map l = some up → up.queued = false := by
    intro l up hl
    cases hqd : up.queued with
    | false => rfl
    | true => have := (hi.q.map l up hl).2 hqd; rw [hq] at this; simp at this
  refine ⟨hs, hq, ?_, ?_, ?_, ?_⟩
  · intro l
    have v : bufValue s.up l = [] := by
      unfold bufValue
      cases hg : alGet s.up.value l with
      | none => rfl
      | some up =>
        simp only []
        cases hp : up.bp.pending with
        | false => simp
        | true =>
          have := (hi.q.value l up hg).1 (Or.inl hp)
          rw [nv l up hg] at this; simp at this
    have su : bufSupply s.up l = [] := by
      unfold bufSupply
      cases hg : alGet s.up.supply l with
      | none => rfl
      | some up =>
        simp only []
        cases hb : up.bp with
        | nil => rfl
        | cons x xs =>
          have := (hi.q.supply l up hg).1 (Or.inl (by rw [hb]; simp))
          rw [ns l up hg] at this; simp at this
    have m : bufMap s.up l = [] := by
      unfold bufMap
      cases hg : alGet s.up.map l with
      | none => rfl
      | some up =>
        simp only []
        cases hb : up.bp with
        | nil => rfl
        | cons x xs =>
          have := (hi.q.map l up hg).1 (Or.inl (by rw [hb]; simp))
          rw [nm l up hg] at this; simp at this
    simp [bufBodies, v, su, m]
  · intro l up hl
    cases hsy : up.sendSynced with
    | false => rfl
    | true =>
      have := (hi.q.value l up hl).1 (Or.inr hsy)
      rw [nv l up hl] at this; simp at this
  · intro l up hl
    cases hsy : up.sendSynced with
    | false => rfl
    | true =>
      have := (hi.q.supply l up hl).1 (Or.inr hsy)
      rw [ns l up hl] at this; simp at this
  · intro l up hl
    cases hsy : up.sendSynced with
    | false => rfl
    | true =>
      have := (hi.q.map l up hl).1 (Or.inr hsy)
      rw [nm l up hl] at this; simp at this

/-- Link / unlink / lane-not-found messages pre-empt data: the next write after a completion is the oldest
queued special message whenever there is one. -/
theorem C04_specials_preempt (u : Uplinks) (reg : Registry) (a : Special) (rest : List Special)
    (h : u.specialQueue = a :: rest) :
    (u.replaceAndPop reg).2 = some (specialWrite reg a) ∧ (u.replaceAndPop reg).1.specialQueue = rest := by
  unfold Uplinks.replaceAndPop; rw [h]; exact ⟨rfl, rfl⟩

/-- A queued `unlinked` discards whatever was still buffered for that lane: nothing of the closed link follows it. -/
theorem C04_unlinked_discards_pending (u : Uplinks) (reg : Registry) (l : Nat) (m : UnlinkMsg)
    (h : u.writerHome = false) : bufBodies (u.pushSpecial (.unlinked l m) reg).1 l = [] := by
  simp [Uplinks.pushSpecial, h, bufBodies, bufValue, bufSupply, bufMap, alGet_alErase]

/-- A lane-not-found answer is exactly one `unlinked` carrying `@laneNotFound`, under the requested name. -/
theorem C04_lane_not_found_frame (reg : Registry) (name : Nat) :
    specialWrite reg (.laneNotFound name) = ⟨some name, [.unlinked .notFound], none⟩ := rfl

/-! ### The per-(remote, lane) frame language `(linked (event | synced)* unlinked)*` of the whole write task

`langOk` (in `Proofs/LinkLang.lean`, with `frameOk`, `langFrames`, `wellFormed`, `lanesFresh`) is the core of
`WT.Mon`, the decidable predicate run over implementation traces, over the structured model trace: frames come
out of `done r` steps; per key `r * 100000 + name` a `linked` opens, `event` / `synced` / `unlinked` need an open
key, `unlinked` closes, an `@laneNotFound` answer is allowed in any state and changes nothing. -/

/-- Full statement as first written: every well-formed event sequence is accepted. -/
def C04_link_language : Prop :=
  ∀ (evs : List Ev), wellFormed {} [] evs = true → langOk {} [] evs = true

/-- It is false of the model for inputs the statement does not exclude: (i) the same lane NAME registered twice
(two lane ids share the frames' name: unlinking one closes the key while the other is still linked). The real
`WriteTaskState` shows the same behaviour (harness replay `lane 6 0; lane 6 0; attach 0; ev 0 0 val:01; done 0 ok;
done 0 ok; link 0 6; done 0 ok; unlink 0 6; done 0 ok; ev 0 0 val:02; done 0 ok` ⇒ frames `6:linked 6:ev:01
6:linked 6:unl:closed 6:ev:02`, monitor `event-outside-link`): `LaneRegistry::add_endpoint` accepts a name twice
(`id_for` then answers the LAST id — the model's `idFor` the first, so model and code differ on such inputs);
duplicate names are rejected above the runtime (`AgentInitError::DuplicateLane` in `swimos_agent`), not by it; … -/
theorem C04_link_language_fails : ¬ C04_link_language := by
  intro h
  have := h [.lane 5 false, .lane 5 false, .attach 0, .event 1 (some 0) (.value [1]), .done 0 true, .done 0 true,
    .link 0 5, .done 0 true, .unlink 0 5, .done 0 true, .event 1 (some 0) (.value [2]), .done 0 true] (by decide)
  revert this
  decide

/-- … (ii) a lane name ≥ 100000 collides with another remote's key in the checker's own encoding
`r * 100000 + name` (an artefact of the checker, not of the write task). -/
theorem C04_link_language_fails_key_collision :
    wellFormed {} [] [.lane 100000 false, .lane 0 false, .attach 0, .attach 1, .link 0 100000, .done 0 true,
      .link 1 0, .done 1 true, .unlink 0 100000, .done 0 true, .event 1 (some 1) (.value [2]), .done 1 true] = true ∧
    langOk {} [] [.lane 100000 false, .lane 0 false, .attach 0, .attach 1, .link 0 100000, .done 0 true,
      .link 1 0, .done 1 true, .unlink 0 100000, .done 0 true, .event 1 (some 1) (.value [2]), .done 1 true] = false := by
  decide

/-- **Link language** (corrected statement): for every event sequence that is well formed (events name
registered lanes, a remote id is attached at most once) and registers every lane name at most once, below the
checker's key modulus (`lanesFresh`), the frames sent to each remote on each lane are accepted by the checker:
`linked` before events, nothing after `unlinked` until relinked, `synced` only while linked, unknown lane ⇒
`@laneNotFound` only. Proved by the inductive invariant `GInv` (`Proofs/LinkLangGInv.lean`): for every attached
remote and lane name, write in flight ++ special queue is accepted from the key's current state and ends open
whenever `Links` says linked or data are still buffered for the lane. -/
theorem C04_link_language_partial (evs : List Ev) (hw : wellFormed {} [] evs = true)
    (hf : lanesFresh {} evs = true) : langOk {} [] evs = true :=
  langOk_of_ginv evs {} [] [] ginv_init hw hf

/-- Non-vacuity: two remotes, three lanes, link / events with a busy writer / unlink + relink while data are
buffered / unknown lane / lane failure / failed write / stop — well formed, fresh, and frames are delivered. -/
example : wellFormed {} [] [.lane 0 true, .lane 1 false, .lane 2 false, .attach 0, .attach 1, .link 0 0, .link 1 0,
    .event 0 none (.value [1]), .event 0 none (.value [2]), .done 0 true, .unlink 0 0, .link 0 0,
    .event 0 (some 0) (.synced .value), .unknown 1 7, .done 0 true, .done 0 true, .done 1 true, .done 0 true,
    .event 2 (some 1) (.map (.upd 1 [3])), .laneFailed 0, .done 1 true, .done 1 false, .stop, .done 0 true] = true ∧
  lanesFresh {} [.lane 0 true, .lane 1 false, .lane 2 false, .attach 0, .attach 1, .link 0 0, .link 1 0,
    .event 0 none (.value [1]), .event 0 none (.value [2]), .done 0 true, .unlink 0 0, .link 0 0,
    .event 0 (some 0) (.synced .value), .unknown 1 7, .done 0 true, .done 0 true, .done 1 true, .done 0 true,
    .event 2 (some 1) (.map (.upd 1 [3])), .laneFailed 0, .done 1 true, .done 1 false, .stop, .done 0 true] = true := by
  decide

/-! ### T2 statements over the whole write task (reachable states of well-formed runs)

`pend reg up inflight n` (`Proofs/LinkLangRemote.lean`) = the notes already owed to a remote for lane name `n`:
those of the write in flight followed by those of the special queue, in sending order. -/

/-- **Unknown lane ⇒ exactly one `unlinked @laneNotFound`**: in every reachable state, an unknown-lane request
of an attached remote schedules exactly the write `name : [unlinked @laneNotFound]` if the remote's writer is
idle, and otherwise appends exactly one `laneNotFound name` to its special queue (sent as that one frame when it
is popped: `C04_specials_preempt`, `C04_lane_not_found_frame`); the remote's buffers and write queue are
untouched. -/
theorem C04_unknown_lane_one_unlinked (evs : List Ev) (hw : wellFormed {} [] evs = true)
    (hf : lanesFresh {} evs = true) (r name : Nat) (rem : Remote) (hg : (run {} evs).remote? r = some rem) :
    ∃ rem', (step (run {} evs) (.unknown r name)).1.remote? r = some rem' ∧
      rem'.up.value = rem.up.value ∧ rem'.up.supply = rem.up.supply ∧ rem'.up.map = rem.up.map ∧
      rem'.up.writeQueue = rem.up.writeQueue ∧
      ((rem.inflight = none ∧ rem'.inflight = some ⟨some name, [Note.unlinked .notFound], none⟩ ∧
          rem.up.specialQueue = [] ∧ rem'.up.specialQueue = []) ∨
       (rem.inflight ≠ none ∧ rem'.inflight = rem.inflight ∧
          rem'.up.specialQueue = rem.up.specialQueue ++ [.laneNotFound name])) := by
  obtain ⟨st, seen, h⟩ := ginv_run evs {} [] [] ginv_init hw hf
  exact unknown_lane_of_ginv h r name rem hg

/-- … and when that write completes, exactly the one frame reaches the remote. -/
theorem C04_lane_not_found_delivered (s : St) (r name : Nat) (rem : Remote) (hg : s.remote? r = some rem)
    (hi : rem.inflight = some ⟨some name, [Note.unlinked .notFound], none⟩) :
    (step s (.done r true)).2.frames = [(some name, Note.unlinked .notFound)] := by
  simp [step, hg, hi]

/-- **Stop closes all**: in every reachable state, after `unlink_all` no (remote, lane) is linked any more, and
for every attached remote and every registered lane what is owed on the lane's name has grown by exactly one
`unlinked` if the remote was linked to the lane — and is unchanged if it was not. (That everything owed is then
sent and accepted by the checker is `C04_link_language_partial`.) -/
theorem C04_stop_closes_all (evs : List Ev) (hw : wellFormed {} [] evs = true) (hf : lanesFresh {} evs = true) :
    (∀ r l, (step (run {} evs) .stop).1.links.isLinked r l = false) ∧
    (∀ r rem, (run {} evs).remote? r = some rem →
      ∃ rem', (step (run {} evs) .stop).1.remote? r = some rem' ∧
        ∀ l n, (run {} evs).reg.nameFor l = some n →
          pend (run {} evs).reg rem'.up rem'.inflight n =
            pend (run {} evs).reg rem.up rem.inflight n ++
              (if (run {} evs).links.isLinked r l = true then [Note.unlinked .none] else [])) := by
  obtain ⟨st, seen, h⟩ := ginv_run evs {} [] [] ginv_init hw hf
  exact stop_closes_all_of_ginv h

/-- Non-vacuity: remote 0 linked to lanes 0 and 1 (a `linked` still in flight), remote 1 to lane 1 only; after
stop remote 0 is owed `linked, unlinked` on lane 0 and both are owed one `unlinked` on lane 1. -/
example : let s := (step (run {} [.lane 0 false, .lane 1 false, .attach 0, .attach 1, .link 0 0, .link 0 1, .link 1 1,
      .done 1 true]) .stop).1
    ((s.remote? 0).map (fun rem => (pend s.reg rem.up rem.inflight 0, pend s.reg rem.up rem.inflight 1)),
     (s.remote? 1).map (fun rem => (pend s.reg rem.up rem.inflight 0, pend s.reg rem.up rem.inflight 1))) =
    (some ([.linked, .unlinked .none], [.linked, .unlinked .none]), some ([], [.unlinked .none])) := by
  decide
example : ((step (run {} [.lane 0 false, .attach 0, .link 0 0]) (.unknown 0 9)).1.remote? 0).map
    (fun rem => rem.up.specialQueue) = some [.laneNotFound 9] := by decide

/-! Non-vacuity -/
example : (ureach [0] [.push 0 (.value [1]), .push 0 (.value [2]), .done]).inflight.isSome = true := by decide
example : bodiesFor 0 (ureach [0] [.push 0 (.value [1]), .push 0 (.value [2]), .done, .done]).sent
    = [.raw [1], .raw [2]] := by decide
/-- F1 regression: a `synced` queued on its own no longer drags an empty event along. -/
example : (ureach [0] [.push 0 (.value [7]), .push 0 (.synced .value), .done]).inflight
    = some ⟨some 0, [.synced], some 0⟩ := by decide
/-- F1 regression: a stale queue entry (queued `unlinked`, re-link, push) produces no empty event. -/
example : bodiesFor 0 (ureach [0] [.special (.linked 0), .push 0 (.value [1]), .special (.unlinked 0 .closed),
    .special (.linked 0), .push 0 (.value [2]), .done, .done, .done, .done, .done]).sent = [.raw [2]] := by decide

end SwimVerif.WT
