/-
C15 — comparing and hashing Recon text agrees with comparing parsed values.

Model: `Model/ReconEq.lean` (`compareRecon` = `compare_recon_values`, `hashCalls` = the `Hasher` calls of `recon_hash`,
`parseValue` = `parse_recognize::<Value>`, all over the modelled automaton; `veq` = `Value::eq`; `hnorm` = the
normal form the hash is meant to respect).
Quantifiers: all values; all texts; all pairs of event streams (`List SItem`: events, possibly ending in an error item).
-/
import SwimVerif.Proofs.ReconEqMat
import SwimVerif.Proofs.ReconEqLeaves
import SwimVerif.Proofs.ReconEqHash
import SwimVerif.Model.ReconEqProto
import SwimVerif.Proofs.ReconStruct
import SwimVerif.Proofs.ReconEqFinal
import SwimVerif.Proofs.ReconEqBlind
import SwimVerif.Proofs.ReconEqMixC

namespace SwimVerif.ReconEq
open SwimVerif.Recon
open SwimVerif.Generated.ReconEq

/-! ## T1 — value level: `Value::eq` is an equivalence and the hash normal form respects it -/

/-- `Value::eq` (as modelled: integer kinds ignored, `NaN == NaN`, `0.0 == -0.0`) is reflexive — every value. -/
theorem C15_veq_refl (v : Value) : veq v v = true := veq_refl v

/-- … symmetric … -/
theorem C15_veq_symm (v w : Value) : veq v w = veq w v := veq_symm v w

/-- … and transitive: an equivalence, so "the same key" is well defined. -/
theorem C15_veq_trans (u v w : Value) (h1 : veq u v = true) (h2 : veq v w = true) : veq u w = true :=
  veq_trans u v w h1 h2

/-- It is equality of the canonical forms used by C09's round-trip monitor. -/
theorem C15_veq_iff_canon (v w : Value) : veq v w = true ↔ v.canon = w.canon := veq_iff_canon v w

/-- Equal values have the same hash normal form (the hasher calls of their canonical event stream, every
attribute body that is a record written with `StartBody … EndRecord`, integers by value, `-0.0` as `0.0`). -/
theorem C15_hash_respects (v w : Value) (h : veq v w = true) : hnorm v = hnorm w := hnorm_veq v w h

example : veq (.record (.cons "a".toList (.int .i32 1) .nil) (.val (.float (.fin true 0 0)) .nil))
      (.record (.cons "a".toList (.int .u64 1) .nil) (.val (.float (.fin false 0 0)) .nil)) = true := by decide +kernel

example : veq (.int .i32 1) (.float (.fin false 1 0)) = false := by decide +kernel

/-! ## T1 — text level: invalid Recon compares as a plain string; every text equals itself -/

/-- `compare_recon_values(a, a)` is `true` for every string (valid Recon or not). -/
theorem C15_compare_refl (a : List Char) : compareRecon a a = true := compareRecon_refl a

/-- If one of the two strings is not valid Recon (its event stream ends in an error item), the comparison is plain
string equality. -/
theorem C15_invalid_is_string_eq (a b : List Char) (h : (events a).2 ≠ .fin ∨ (events b).2 ≠ .fin) :
    compareRecon a b = (a == b) := compareRecon_invalid a b h

example : (events "{1".toList).2 ≠ .fin := by decide +kernel
example : compareRecon "{1".toList "{1".toList = true ∧ compareRecon "{1".toList "{ 1".toList = false := by decide +kernel

/-! ## T2 — event level: the comparator on ALL pairs of event streams -/

/-- `incremental_compare` on a stream and itself never answers `Some(false)`. -/
theorem C15_cmp_refl (s : List SItem) : incrementalCompare s s = none ∨ incrementalCompare s s = some true :=
  incrementalCompare_refl s

/-- More generally: two streams that agree event by event — the same tokens in any spelling (radix, leading zeros,
integer kind, quoting, escapes; white space and separators never reach the events) and the same layout of bodies —
never compare `Some(false)`. -/
theorem C15_cmp_agreeing_streams (a b : List SItem) (h : streamsAgree a b = true) :
    incrementalCompare a b = none ∨ incrementalCompare a b = some true := incrementalCompare_agree a b h

example : streamsAgree (stream (events "{0x10, \"a\"; b:-0}".toList)) (stream (events "{ 16,a\n\"b\" : 0 }".toList)) = true ∧
    compareRecon "{0x10, \"a\"; b:-0}".toList "{ 16,a\n\"b\" : 0 }".toList = true := by decide +kernel

/-- Completeness on canonical streams, for ALL values: if two values are equal (`Value::eq`), their canonical event
streams — any spelling of the numbers, every body explicit — compare `Some(true)`: the validators take every value in
as one item of the expected size (`feedAll_value`), are never `Invalid`, and end in the initial state. -/
theorem C15_cmp_complete_canonical (v w : Value) (h : veq v w = true) :
    incrementalCompare (stream (evsV v, .fin)) (stream (evsV w, .fin)) = some true := canonical_equal v w h

/-- The validator reads the canonical stream of any value back to its initial state (never `Invalid` on the way). -/
theorem C15_validator_accepts_canonical (v : Value) : feedAll {} (evsV v) = {} := feedAll_top v

/-- The canonical event stream of a value is read back by `ValueMaterializer` as that value (integers in the kinds
the parser chooses, `Value.norm` of C09) — for ALL values, nested to any depth: `evsV` is a right inverse of the
modelled `parse_recognize::<Value>` at the event level, so `hnorm` and `C15_cmp_complete_canonical` talk about the
streams the real recognizer accepts for that value. -/
theorem C15_canonical_stream_reads_back (v : Value) : materialize {} (evsV v) .fin = some v.norm :=
  materialize_evsV v

example : (parseValue "@a({1,2}) {k: -0.0}".toList).map evsV = some (events "@a({1,2}) {k: -0.0}".toList).1 := by
  decide +kernel

/-- `incremental_compare` is symmetric — for all pairs of event streams, valid or not, including the
`StartBody`/`EndRecord` skipping and the validators' size bookkeeping. -/
theorem C15_cmp_symm (a b : List SItem) : incrementalCompare a b = incrementalCompare b a :=
  incrementalCompare_symm a b

/-- Hence `compare_recon_values` is symmetric on all pairs of strings. -/
theorem C15_compare_symm (a b : List Char) : compareRecon a b = compareRecon b a := compareRecon_symm a b

/-- A stream that ends in an error item never compares `Some(true)`. -/
theorem C15_cmp_error_never_equal (a b : List SItem) (h : SItem.bad ∈ a ∨ SItem.bad ∈ b) :
    incrementalCompare a b ≠ some true := incrementalCompare_bad a b h

example : incrementalCompare (stream (events "@a(1,2)".toList)) (stream (events "@a({1,2})".toList)) = some true := by
  decide +kernel
example : incrementalCompare (stream (events "@a(1)".toList)) (stream (events "@a({1})".toList)) = some false := by
  decide +kernel

/-! ## the hash after the repairs C15-N1 (/repo 093eb3d) and C15-N2 (/repo 881b1c8)

The two flags are read from the source on every run (`Generated/ReconEqConsts.lean`): `floatHashZeroNormalised` is
`true` since `NumericValue::hash` writes `-0.0` as `0.0`, `implicitByStructure` is `true` since `is_implicit_record`
reads the attribute body ahead with the parser instead of scanning the text.  The regression theorems are stated under
the flag they depend on, so that a tree with a repair reverted fails the two `example`s at once (and cheaply) instead
of a long kernel evaluation; the monitor classes `negzero` / `implicit-scan` are then violations (the known-findings
entries are `fixed`, they suppress nothing). -/

example : floatHashZeroNormalised = true := by decide
example : implicitByStructure = true := by decide

/-- The statement of the property for the hash. -/
def C15_eq_same_hash : Prop := ∀ a b : List Char, compareRecon a b = true → hashCalls a = hashCalls b

/-- C15-N1 repaired: `-0.0` and `0.0` (equal as events and as values) hash alike. -/
theorem C15_hash_negzero_repaired : floatHashZeroNormalised = true →
    (compareRecon "-0.0".toList "0.0".toList = true ∧
     (parseValue "-0.0".toList).isSome = true ∧ (parseValue "0.0".toList).isSome = true ∧
     hashCalls "-0.0".toList = hashCalls "0.0".toList) := by decide +kernel

/-- C15-N2 (a) repaired: items of an attribute body separated by a new line are the implicit record they are. -/
theorem C15_hash_newline_repaired : implicitByStructure = true →
    (compareRecon "@a(1\n2)".toList "@a(1,2)".toList = true ∧
     parseValue "@a(1\n2)".toList = parseValue "@a(1,2)".toList ∧
     hashCalls "@a(1\n2)".toList = hashCalls "@a(1,2)".toList ∧
     hashCalls "@a(1\n2)".toList = hashCalls "@a({1,2})".toList) := by decide +kernel

/-- C15-N2 (b) repaired: delimiters inside string literals do not count. -/
theorem C15_hash_string_delimiter_repaired : implicitByStructure = true →
    (compareRecon "@a(\"b,\")".toList "@a(\"b\\u002c\")".toList = true ∧
     hashCalls "@a(\"b,\")".toList = hashCalls "@a(\"b\\u002c\")".toList ∧
     hashCalls "@a(\"(\", 2)".toList = hashCalls "@a(\"\\u0028\", 2)".toList ∧
     hashCalls "@a(\"(\", 2)".toList = hashCalls "@a({\"(\", 2})".toList) := by decide +kernel

/-- With C15-N1 repaired the hasher calls of every event are its normal-form calls … -/
theorem C15_event_hash_is_normal (e : Event) : evCalls e = evCallsN e :=
  evCalls_eq_evCallsN (by decide) e

/-- … so on the canonical event stream of ANY value the hasher calls are `hnorm`, and (with `C15_hash_respects`)
canonical streams of equal values hash alike. -/
theorem C15_hash_canonical (v w : Value) (h : veq v w = true) :
    (evsV v).flatMap evCalls = hnorm v ∧ (evsV v).flatMap evCalls = (evsV w).flatMap evCalls :=
  hash_canonical (by decide) v w h

/-- With C15-N2 repaired too — the implicit-record decision is a look-ahead on the events (`implicitLook`) — the
event-level `HashParser` (`hashEvs`) gives the normal form `hnorm v` on EVERY layout of EVERY value: `ch` chooses, per
attribute name, whether a body that may be written without braces is (`@a(1,2)` / `@a(k:1)` vs `@a({1,2})` /
`@a({k:1})`); `fun _ => true` is the printers' layout.  Hence equal values hash alike whatever mixture of implicit and
explicit attribute bodies, integer kinds and zero signs their two texts use.  (That `hashCalls text` is `hashEvs` of
the text's events is checked by the monitor on every `hash` line: reason `model-self-check:hash-events`.) -/
theorem C15_hash_layout_invariant (ch1 ch2 : List Char → Bool) (v w : Value) (h : veq v w = true) :
    hashEvs [] (evsG ch1 v) = hnorm v ∧ hashEvs [] (evsG ch1 v) = hashEvs [] (evsG ch2 w) := by
  have e1 := hashEvs_layout (ch := ch1) v
  have e2 := hashEvs_layout (ch := ch2) w
  have hc := hash_canonical (by decide) v w h
  unfold callsE at e1 e2
  exact ⟨e1.trans hc.1, by rw [e1, e2]; exact hc.2⟩

/-- The printers' layout `evsP` is what the modelled parser reads from the modelled printers' output (sample). -/
example :
    let v : Value := .record (.cons "a".toList (.record .nil (.val (.int .i32 1) (.val (.text "x".toList) .nil)))
        (.cons "b".toList (.record .nil (.slot (.text "k".toList) (.record .nil (.val (.int .i32 2) .nil)) .nil)) .nil))
        (.val (.int .i32 3) (.val (.record .nil (.val (.int .i32 4) .nil)) .nil))
    (events (print .std v)).1 = evsP v ∧ (events (print .compact v)).1 = evsP v ∧ (events (print .pretty v)).1 = evsP v ∧
    hashCalls (print .pretty v) = hnorm v := by
  decide +kernel

/-- The hash half of the property is still false of the code, now only because of the comparison (C15-N3): `{{1,2}}`
and `{1,{2}}` compare equal, are different values, and (rightly) hash differently. -/
theorem C15_eq_same_hash_fails : ¬ C15_eq_same_hash := by
  intro hp
  have := hp "{{1,2}}".toList "{1,{2}}".toList (by decide +kernel)
  revert this
  decide +kernel

/-- What holds at the level of values (`C15_hash_respects`) is reached by the real hash on these
spellings: the calls are the normal form of the parsed value, so implicit and explicit bodies hash alike. -/
theorem C15_eq_same_hash_partial :
    (parseValue "@a(1,2)".toList).map hnorm = some (hashCalls "@a(1,2)".toList) ∧
    (parseValue "@a({1,2})".toList).map hnorm = some (hashCalls "@a({1,2})".toList) ∧
    hashCalls "@a(1,2)".toList = hashCalls "@a({1,2})".toList := by decide +kernel

/-! ## "equal exactly when the values are equal" is false of `compare_recon_values` as it is (finding C15-N3) -/

/-- The statement of the property for the comparison, on valid texts. -/
def C15_cmp_sound : Prop :=
  ∀ a b : List Char, ∀ va vb : Value, parseValue a = some va → parseValue b = some vb →
    compareRecon a b = veq va vb

/-- C15-N3: where the two event streams disagree the comparator skips a `StartBody` / `EndRecord` on either side —
anywhere, not only around attribute bodies — and then relies on the validators' sizes, which are additive
(`Record(attrs, items).len = max(attrs,1) + max(items,1)`): moving the first item of a nested record out in front of
it keeps every sum, so `{{1,2}}` and `{1,{2}}` (different values, both printer output) compare equal. -/
theorem C15_cmp_sound_fails : ¬ C15_cmp_sound := by
  intro h
  have := h "{{1,2}}".toList "{1,{2}}".toList
    (.record .nil (.val (.record .nil (.val (.int .i32 1) (.val (.int .i32 2) .nil))) .nil))
    (.record .nil (.val (.int .i32 1) (.val (.record .nil (.val (.int .i32 2) .nil)) .nil)))
    (by decide +kernel) (by decide +kernel)
  revert this
  decide +kernel

/-- The witness is printer output on both sides (what the backpressure layer holds as keys). -/
theorem C15_cmp_sound_on_printed_fails :
    print .compact (.record .nil (.val (.record .nil (.val (.int .i32 1) (.val (.int .i32 2) .nil))) .nil)) = "{{1,2}}".toList ∧
    print .compact (.record .nil (.val (.int .i32 1) (.val (.record .nil (.val (.int .i32 2) .nil)) .nil))) = "{1,{2}}".toList ∧
    compareRecon "{{1,2}}".toList "{1,{2}}".toList = true ∧
    hashCalls "{{1,2}}".toList ≠ hashCalls "{1,{2}}".toList := by decide +kernel

/-- WHEN the comparator answers `Some(true)` — all pairs of event streams that are each one complete value (the validator
is `InProgress` strictly inside, `Init` at the end): the two streams have the same events in the same order except for
where their `StartBody` / `EndRecord` events stand.  The comparator never confuses leaves, attributes or slots; the only
thing it can get wrong is the position of braces. -/
theorem C15_cmp_true_only_moves_braces (a b : List Event) (ha : Single a) (hb : Single b)
    (h : incrementalCompare (a.map .ev) (b.map .ev) = some true) :
    evsAgree (leavesOf a) (leavesOf b) = true := compare_true_same_leaves a b ha hb h

/-- Hence the monitor's class for C15-N3 is exact: whenever `compare_recon_values` (as modelled) says `true` for two
valid single-value texts, the pair is in the class `same-leaves` — there is no `other` merge the modelled code can
make, so the known-finding entry cannot hide a different defect of the comparison. -/
theorem C15_merge_class_exact (a b : List Char) (fa : (events a).2 = .fin) (fb : (events b).2 = .fin)
    (ha : singleB (events a).1 = true) (hb : singleB (events b).1 = true) (h : compareRecon a b = true) :
    mergeClass a b = "same-leaves" := by
  have hl := compareRecon_true_same_leaves a b fa fb ha hb h
  unfold mergeClass
  simp [fa, fb, ha, hb, hl, h]

example : singleB (events "{{1,2}}".toList).1 = true ∧ singleB (events "@a(1) {k: {2}}".toList).1 = true ∧
    singleB (events "7".toList).1 = true ∧ mergeClass "{{1,2}}".toList "{1,{2}}".toList = "same-leaves" := by
  decide +kernel

/-- What holds (for ALL values): equal values in canonical layout compare equal — the "never split" half on canonical
streams (`C15_cmp_complete_canonical`), and a text compares equal to itself / an invalid text only to itself
(`C15_compare_refl`, `C15_invalid_is_string_eq`). -/
theorem C15_cmp_sound_partial (v w : Value) (h : veq v w = true) :
    incrementalCompare (stream (evsV v, .fin)) (stream (evsV w, .fin)) = some (veq v w) := by
  rw [h]; exact canonical_equal v w h

/-! ## T5 — on the output of the three printers, for every well-formed value (floats and quoted attribute names
included: `Value.wf` as widened by C09)

The pushdown automaton of the model (`step` / `finalStep` / `runFrom`: nom streaming lexers, `Incomplete` at the end of
the input, the final-segment parser) is run symbolically over `print st v` by a nested induction over the value
(`Proofs/ReconEqPrinted.lean: rh_all`, the shape of C09's `ih_all'`; tokens by C09's `lexPrim_value` through the bridge
`Proofs/ReconEqTok.lean`; the end of the document in `Proofs/ReconEqTop.lean: top_fin`). -/

/-- What the modelled `ParseIterator` reads from the text any of the three printers gives for a well-formed value:
exactly the value's event stream in the printers' layout (attribute bodies without braces where the printers leave
them out), then the end — never an error, never out of fuel. -/
theorem C15_parser_reads_printed (st : Style) (v : Value) (hw : v.wf = true) :
    events (print st v) = (evsP v, .fin) := events_print st v hw

/-- **The hash on printer output** (was `C15_hash_on_printed_open`).  For every well-formed value and every printer the
`Hasher` calls of `recon_hash` (as modelled: the parser's events, `is_implicit_record` evaluated on the parser's actual
remaining input at each `StartAttribute`, `has_next` as the iterator reports it) are the normal form `hnorm v`; hence
equal values (`Value::eq`), printed by any two of the three printers, hash alike. -/
theorem C15_hash_on_printed (s1 s2 : Style) (v w : Value) (hv : v.wf = true) (hw : w.wf = true)
    (h : veq v w = true) :
    hashCalls (print s1 v) = hnorm v ∧ hashCalls (print s1 v) = hashCalls (print s2 w) := by
  have hc := hash_canonical (by decide) v w h
  rw [hashCalls_print s1 v hv, hashCalls_print s2 w hw]
  exact hc

/-- **No false splits on printer output.**  Equal well-formed values, printed by any two of the three printers, compare
equal under `compare_recon_values` (as modelled).  With `C15_cmp_true_only_moves_braces` this pins the comparator on
everything the writers feed it: `true` for equal values, and `true` for unequal ones only if they differ in where braces
stand (C15-N3). -/
theorem C15_cmp_complete_on_printed (s1 s2 : Style) (v w : Value) (hv : v.wf = true) (hw : w.wf = true)
    (h : veq v w = true) : compareRecon (print s1 v) (print s2 w) = true := compare_print s1 s2 v w hv hw h

/-- No false splits in any one layout: for ALL values (not only `wf` ones) and any choice `ch` of which attribute bodies
are written without braces (the same on both sides), the event streams of equal values compare `Some(true)`, and the
validator reads either back to its initial state (never `Invalid`). -/
theorem C15_cmp_complete_layouts (ch : List Char → Bool) (v w : Value) (h : veq v w = true) :
    incrementalCompare (stream (evsG ch v, .fin)) (stream (evsG ch w, .fin)) = some true ∧
    feedAll {} (evsG ch v) = {} := ⟨layout_equal v w h, feedAll_top_layout v⟩

/-! ## C15-N3 — which brace moves are merged -/

/-- **The mechanism of C15-N3, for ALL items** (the additive-size argument): in any context — any builder that is in
its body on top, anything below — feeding the validator the items `ps` and then the record `{ ys }`, or the record
`{ ps, ys }` (the same events with the `StartBody` moved left across `ps`), leaves two validators that
`<ValueValidator as PartialEq>::eq` calls equal, whenever `ys` is not empty: it looks only at the keys, the `attrs` and
the SUM of the item sizes of the builders (`stacksEq_sim`), and `Record(0, n).len = 1 + n` for `n ≥ 1`.  So once
`incremental_compare` has skipped the `StartBody` on either side it cannot tell `p…, { ys }` from `{ p…, ys }`. -/
theorem C15_validator_blind_to_brace_move (ps ys : Items) (hy : ys ≠ .nil) (key : KeyState) (a : Nat)
    (c : ItemCollection) (rest : List BuilderState) :
    (feedAll (S (F key true a c :: rest) none) (evsI ps ++ .startBody :: (evsI ys ++ [.endRecord]))).beq
      (feedAll (S (F key true a c :: rest) none) (.startBody :: (evsI ps ++ (evsI ys ++ [.endRecord])))) = true :=
  validator_blind_to_brace_move ps ys hy key a c rest

/-- The edge of the merged class, on texts (first group: merged although the values differ; second group: told apart).
Merged: an opening brace moved left across the items before it — in a record, in a slot value, in an attribute body
that stays an implicit record.  Told apart: the same move when the inner record is empty (`Record(0,0).len = 2`), when
it is a slot KEY (the pending key is compared exactly), when it changes the number of items of an attribute body
between one and two, any move of a CLOSING brace, and adding / dropping a pair of braces. -/
theorem C15_merged_class_edge :
    (compareRecon "{1,{2},3}".toList "{{1,2},3}".toList = true ∧
     compareRecon "{1,2,{3}}".toList "{1,{2,3}}".toList = true ∧
     compareRecon "{a:1,{2}}".toList "{{a:1,2}}".toList = true ∧
     compareRecon "{k:{1,{2}}}".toList "{k:{{1,2}}}".toList = true ∧
     compareRecon "@a(1,{2},3)".toList "@a({1,2},3)".toList = true) ∧
    (compareRecon "{1,{}}".toList "{{1}}".toList = false ∧
     compareRecon "{{1},2}".toList "{1,{2}}".toList = false ∧
     compareRecon "{{1},2}".toList "{{1,2}}".toList = false ∧
     compareRecon "{1,{2}:3}".toList "{{1,2}:3}".toList = false ∧
     compareRecon "@a(1,{2})".toList "@a({1,2})".toList = false ∧
     compareRecon "{1,{2}}".toList "{1,2}".toList = false) := by decide +kernel

/-- `compare_recon_values` is not transitive (so it is not the kernel of any normal form, and the merged class is not
the equivalence generated by the brace move): each neighbouring pair below differs by one opening brace moved across the
items before it and is merged, the two ends are told apart. -/
theorem C15_compare_not_transitive :
    compareRecon "{1,{2},{3}}".toList "{{1,2},{3}}".toList = true ∧
    compareRecon "{{1,2},{3}}".toList "{{{1,2},3}}".toList = true ∧
    compareRecon "{1,{2},{3}}".toList "{{{1,2},3}}".toList = false := by decide +kernel

/-! ## no false splits across layouts (implicit / explicit attribute bodies MIXED between the two sides) -/

/-- **No false splits between any two layouts** — the step `C15_cmp_complete_layouts` left open.  For ALL values and any
two choices `ch1`, `ch2` of which attribute bodies are written without braces (independent on the two sides:
`@a(1,2)` against `@a({1,2})`, nested to any depth), the event streams of equal values compare `Some(true)`.  The proof
follows `incremental_compare` iteration by iteration (`Proofs/ReconEqMix{A,B,C}.lean`): where one side has the body
braces and the other has not, the loop skips the `StartBody` — possibly only after matching it against the opening
braces of the body's first items (the two streams are then one `StartBody` out of step, `QV`/`QIs`; when the innermost
of these records is empty the same iteration skips `StartBody, EndRecord` on one side and `EndRecord` on the other) —
and the `EndRecord` in front of the `EndAttribute`; in between the two validators differ by an empty attribute builder
with a `NoKey` builder above it, which `<ValueValidator as PartialEq>::eq` absorbs (`SR`, `stacksEq_SRb`). -/
theorem C15_cmp_complete_mixed_layouts (ch1 ch2 : List Char → Bool) (v w : Value) (h : veq v w = true) :
    incrementalCompare (stream (evsG ch1 v, .fin)) (stream (evsG ch2 w, .fin)) = some true :=
  mixed_layouts ch1 ch2 v w h

example :
    let v : Value := .record (.cons "a".toList (.record .nil (.val (.record .nil (.val (.record .nil .nil) .nil))
        (.val (.int .i32 2) .nil))) .nil) .nil
    evsG (fun _ => false) v ≠ evsG (fun _ => true) v ∧
    incrementalCompare (stream (evsG (fun _ => false) v, .fin)) (stream (evsG (fun _ => true) v, .fin)) = some true := by
  decide +kernel

/-- The comparator sees the two event streams only up to `ReadEvent::eq`: replacing either stream by one that agrees
with it event by event (another spelling of the same tokens) never changes the verdict — all streams, all validators. -/
theorem C15_cmp_respects_spelling (fuel : Nat) (V1 V2 : VV) (a a' b b' : List Event) (ha : evsAgree a a' = true)
    (hb : evsAgree b b' = true) :
    cmpLoop fuel V1 V2 (a.map .ev) (b.map .ev) = cmpLoop fuel V1 V2 (a'.map .ev) (b'.map .ev) :=
  cmpLoop_congr fuel V1 V2 a a' b b' ha hb

/-- **No false splits on hand-written texts, layout by layout.**  `inLayout ch a` (decidable): `a` is valid Recon and
its event stream is, up to the spelling of the tokens, the stream of its value with the attribute bodies `ch` selects
written without braces.  White space, `,` / `;` / new lines as separators, radix, leading zeros, quoting and escapes
never reach the events, so the fragment contains far more than printer output.  Two such texts — in DIFFERENT layouts
`ch1`, `ch2` — with equal values compare equal under `compare_recon_values` (as modelled). -/
theorem C15_cmp_complete_layout_texts (ch1 ch2 : List Char → Bool) (a b : List Char) (va vb : Value)
    (pa : parseValue a = some va) (pb : parseValue b = some vb) (la : inLayout ch1 a = true) (lb : inLayout ch2 b = true)
    (h : veq va vb = true) : compareRecon a b = true := by
  unfold inLayout at la lb
  rw [pa] at la
  rw [pb] at lb
  simp only [Bool.and_eq_true, beq_iff_eq] at la lb
  exact compareRecon_of_streams a b _ _ la.1 lb.1 la.2 lb.2 (mixed_layouts ch1 ch2 va vb h)

/-- Non-vacuity: neither text is what a printer writes for this value (they write `@a({1},2)`): `;` and a new line as
separators, the body explicit on one side and implicit on the other, and its first item is itself a record (the
out-of-step case). -/
example :
    inLayout (fun _ => false) "@a({{1};2})".toList = true ∧ inLayout (fun _ => true) "@a({1}\n2)".toList = true ∧
    parseValue "@a({{1};2})".toList = parseValue "@a({1}\n2)".toList ∧
    (parseValue "@a({1}\n2)".toList).isSome = true ∧
    compareRecon "@a({{1};2})".toList "@a({1}\n2)".toList = true := by
  decide +kernel

/-- **One side printer output, the other any text in any layout**: a well-formed value printed by any of the three
printers compares equal to every valid text of an equal value whose stream is a layout of it. -/
theorem C15_cmp_complete_printed_vs_layout (st : Style) (v : Value) (hw : v.wf = true) (ch : List Char → Bool)
    (b : List Char) (vb : Value) (pb : parseValue b = some vb) (lb : inLayout ch b = true) (h : veq v vb = true) :
    compareRecon (print st v) b = true := by
  unfold inLayout at lb
  rw [pb] at lb
  simp only [Bool.and_eq_true, beq_iff_eq] at lb
  have e := events_print st v hw
  have f1 : (events (print st v)).2 = .fin := by rw [e]
  have a1 : evsAgree (events (print st v)).1 (evsG (fun _ => true) v) = true := by
    rw [e]; exact evsAgree_refl _
  exact compareRecon_of_streams _ b _ _ f1 lb.1 a1 lb.2 (mixed_layouts (fun _ => true) ch v vb h)

/-- Non-vacuity: a hand-written text (explicit body, `;`, blanks, a new line before the record body) in the fragment;
the printers write `@a(1,2)` for its value. -/
example :
    inLayout (fun _ => false) "@a({1 ; 2})\n{ }".toList = true ∧
    parseValue "@a({1 ; 2})\n{ }".toList = parseValue "@a(1,2)".toList ∧
    (parseValue "@a(1,2)".toList).isSome = true := by decide +kernel

/-- The open statement below with the exact extra hypothesis under which it is proved: each text's event stream is a
layout of its value (some choice of brace-less attribute bodies, not necessarily the same for the two texts). -/
theorem C15_cmp_complete_partial :
    ∀ a b : List Char, ∀ va vb : Value, parseValue a = some va → parseValue b = some vb → veq va vb = true →
      (∃ ch, inLayout ch a = true) → (∃ ch, inLayout ch b = true) → compareRecon a b = true := by
  intro a b va vb pa pb h ⟨ch1, la⟩ ⟨ch2, lb⟩
  exact C15_cmp_complete_layout_texts ch1 ch2 a b va vb pa pb la lb h

example : (∃ ch, inLayout ch "@a({1 ; 2})\n{ }".toList = true) ∧ (∃ ch, inLayout ch "@a(1\n2)".toList = true) :=
  ⟨⟨fun _ => false, by decide +kernel⟩, ⟨fun _ => true, by decide +kernel⟩⟩

/-! ## open (tied by differential testing only) -/

/-- No false splits on ALL valid texts: texts of equal values compare equal, whatever their layout (implicit / explicit
attribute bodies MIXED between the two sides, white space, separators, spellings).  Proved for printer output
(`C15_cmp_complete_on_printed`), for any two layouts of the event streams (`C15_cmp_complete_mixed_layouts`) and for all
texts whose stream is a layout of their value (`C15_cmp_complete_layout_texts`, `…_printed_vs_layout`).  What is missing
for ALL texts is only the parser side: that the automaton's stream for every valid text IS a layout of the value
`ValueMaterializer` builds from it (with the choice made per attribute occurrence, not per name).  Neither the random
engines nor the exhaustive small scope found a counterexample. -/
def C15_cmp_complete_open : Prop :=
  ∀ a b : List Char, ∀ va vb : Value, parseValue a = some va → parseValue b = some vb → veq va vb = true →
    compareRecon a b = true

end SwimVerif.ReconEq
