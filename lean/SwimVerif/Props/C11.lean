/-
C11 — WARP envelopes cross the socket unchanged and reach only their addressee.
Property theorems only; helper lemmas live in `Proofs/Envelope.lean` (pure part), `Proofs/Routing.lean`,
`Proofs/MultiReader.lean`.

Part 1 (pure round trip).  Quantifier: every envelope kind, EVERY node and lane string (`List Char` = sequences of
Unicode scalar values = Rust `str`: empty, `true`/`false`, quotes, backslashes, control and non-BMP characters, `%`),
every body that satisfies `BodyWF`.
-/
import SwimVerif.Proofs.Envelope
import SwimVerif.Proofs.Routing
import SwimVerif.Proofs.WsFrames
import SwimVerif.Proofs.MultiReader
import SwimVerif.Proofs.MultiReaderReady
import SwimVerif.Proofs.MultiReaderPending
import SwimVerif.Proofs.MultiReaderFair

set_option linter.unusedSimpArgs false
namespace SwimVerif.C11

section Pure
open SwimVerif.Envelope SwimVerif.Generated.Env

/-- **Round trip, general form**: for every message, whatever its node, lane and body, the reader returns the same
kind, node and lane, and the body with its leading spaces and tabs removed. -/
theorem C11_read_write_any_body (m : Msg) :
    peel (encode m) = .env m.kind m.node m.lane (stripSpace (if hasBody m.kind then m.body else [])) := by
  unfold encode
  rw [peel_written]
  by_cases hb : hasBody m.kind = true
  · cases hbody : m.body with
    | nil => simp [hb, skipSpace, stripSpace]
    | cons c cs =>
      simp only [hb, Bool.true_and, List.isEmpty_cons, Bool.not_false, if_true]
      cases hsp : isSpace c with
      | false =>
        rw [skipSpace_putBody (c :: cs) (by intro c' h; simp at h; subst h; exact hsp)]
        simp [stripSpace, List.dropWhile_cons, hsp]
      | true =>
        have hne : c ≠ '@' := by intro e; subst e; simp [isSpace] at hsp
        have h1 : isSpace ' ' = true := by decide
        simp [putBody, hne, skipSpace, stripSpace, List.dropWhile_cons, hsp, h1]
  · have hb' : hasBody m.kind = false := by simpa using hb
    simp [hb', skipSpace, stripSpace]

/-- **T1 `read_write`**: what `ReconEncoder` writes for a request or notification is read by
`peel_envelope_header_str` as the same kind of envelope with the same node, lane and body — for all node and lane
strings, and all bodies that do not begin with a space or a tab. -/
theorem C11_read_write (m : Msg) (h : BodyWF m) : peel (encode m) = rawOf m := by
  rw [C11_read_write_any_body, rawOf]
  by_cases hb : hasBody m.kind = true
  · simp only [hb, if_true]
    cases hbody : m.body with
    | nil => rfl
    | cons c cs =>
      have := h.2 c (by simp [hbody])
      simp [stripSpace, List.dropWhile_cons, this]
  · have hb' : hasBody m.kind = false := by simpa using hb
    simp [hb', stripSpace]

/-- The same statement spelled out by components (the form of the design document). -/
theorem C11_read_write_components (kind : Kind) (node lane body : Str) (h : BodyWF ⟨kind, node, lane, body⟩) :
    peel (encode ⟨kind, node, lane, body⟩) = .env kind node lane body := by
  rw [C11_read_write _ h, rawOf]
  by_cases hb : hasBody kind = true
  · simp [hb]
  · have hb' : hasBody kind = false := by simpa using hb
    have := h.1 hb'
    simp only at this
    simp [hb', this]

/-- The "node not found" answer names the node and lane that were asked for. -/
theorem C11_no_such_agent_read (node : Str) (lane : Option Str) :
    peel (encodeNoSuchAgent node lane) = .env .unlinked node (lane.getD []) nodeNotFoundTag := by
  unfold encodeNoSuchAgent
  show peel (writeHeader (wHeader .unlinked) node (lane.getD []) ++ putBody nodeNotFoundTag) = _
  rw [peel_written]
  have : skipSpace (putBody nodeNotFoundTag) = nodeNotFoundTag := by decide
  rw [this]

/-- Distinct well-formed messages never share a frame (so the receiver's routing key is the sender's). -/
theorem C11_encode_injective (m1 m2 : Msg) (h1 : BodyWF m1) (h2 : BodyWF m2) (h : encode m1 = encode m2) :
    m1 = m2 := by
  have e1 := C11_read_write_components m1.kind m1.node m1.lane m1.body h1
  have e2 := C11_read_write_components m2.kind m2.node m2.lane m2.body h2
  have : encode ⟨m1.kind, m1.node, m1.lane, m1.body⟩ = encode ⟨m2.kind, m2.node, m2.lane, m2.body⟩ := h
  rw [this, e2] at e1
  cases m1; cases m2
  simp only [Peeled.env.injEq] at e1
  simp_all

/-- The reader's unescaping inverts the writer's escaping, for every string. -/
theorem C11_unescape_escape (s : Str) : resolveEscapes (escapeText s) = .ok s := by
  rw [resolveEscapes_eq, unescRun_escapeText]

/-- A written name is read back by `parse_text_token` as the name, quoted or not. -/
theorem C11_text_token_of_literal (s : Str) : parseTextToken (lit s) = .ok s := parseTextToken_lit s

/-- The writer's quoting decision is the reader's: a name is written bare exactly when the reader's identifier
lexer consumes all of it and it is not a keyword. -/
theorem C11_quote_decision_agrees (s : Str) :
    isIdentifier s = true ↔ (lexIdent s = some (s, []) ∧ identKeywords.contains s = false) := by
  constructor
  · intro h
    obtain ⟨c, cs, rfl, hc, hcs⟩ := isIdentifier_shape h
    refine ⟨lexIdent_all c cs hc hcs, ?_⟩
    unfold isIdentifier at h
    by_cases hk : identKeywords.contains (c :: cs) = true
    · rw [if_pos hk] at h; cases h
    · simpa using hk
  · rintro ⟨h1, h2⟩
    cases s with
    | nil => simp [lexIdent] at h1
    | cons c cs =>
      unfold lexIdent at h1
      by_cases hc : isIdentStart c = true
      · simp only [hc, if_true, Option.some.injEq, Prod.mk.injEq, List.cons.injEq, true_and] at h1
        have hall : cs.all isIdentChar = true := all_of_dropWhile_nil cs h1.2
        have hk : ¬ (c :: cs) ∈ identKeywords := by simpa using h2
        rw [List.all_eq_true] at hall
        simp [isIdentifier, hk, hc]
        exact hall
      · simp [hc] at h1

/-- `BodyWF` cannot be dropped: a body beginning with a space is read back without it. -/
theorem C11_leading_space_not_preserved :
    peel (encode ⟨.event, ['n'], ['l'], [' ', 'x']⟩) = .env .event ['n'] ['l'] ['x'] := by
  rw [C11_read_write_any_body]; decide

/-! ### the reader on frames that the writer does not produce -/

/-- **The reader never panics**, whatever the frame: the two panic paths that existed (FC11-1: `finish()` on
`Incomplete` in `parse_text_token` for an empty node/lane value, fixed by 15ca393; F16: `char::try_from(..).unwrap()`
on a surrogate escape, fixed by b1a4cde) are closed in the code. The two facts about the code's shape are the
generated flags, re-read from the sources on every run: if either path is reopened this theorem stops building and
the monitors report `reader-panic-*` / `task-panic-*`. -/
theorem C11_reader_never_panics : ∀ (frame : Str) (c : Cause), peel frame ≠ .panic c :=
  fun frame c => peel_no_panic (by decide) (by decide) frame c

/-- The former witnesses are now ordinary rejections. -/
theorem C11_former_panic_witnesses_rejected :
    peel "@event(node:,lane:a)".toList = .err ∧ peel "@link(node:a,lane:)".toList = .err ∧
    peel "@event(node:\"\\ud800\",lane:a)".toList = .err := by decide

/-- Every frame produced by the writer is accepted by the reader. -/
theorem C11_written_frames_accepted (m : Msg) : peel (encode m) ≠ .err ∧ peel (encode m) ≠ .unsup := by
  rw [C11_read_write_any_body]; exact ⟨by simp, by simp⟩

/-! ### non-vacuity: the hypotheses are met by awkward concrete names -/

example : BodyWF ⟨.command, "".toList, "true".toList, "@update(key:1) 10".toList⟩ := by decide
example : BodyWF ⟨.link, "a\"b\\c\n".toList, "😀 %20".toList, []⟩ := by decide
example : ¬ BodyWF ⟨.event, ['n'], ['l'], [' ', 'x']⟩ := by decide
example : ¬ BodyWF ⟨.link, ['n'], ['l'], ['x']⟩ := by decide
example : encode ⟨.event, "true".toList, "a b".toList, "1".toList⟩ = "@event(node:\"true\",lane:\"a b\") 1".toList := by
  decide
example : encode ⟨.link, "\u0001\"".toList, "x".toList, []⟩ = "@link(node:\"\\u0001\\\"\",lane:x)".toList := by decide
example : isIdentifier "true".toList = false ∧ isIdentifier "".toList = false ∧ isIdentifier "ℵ-1".toList = true := by
  decide

end Pure

/-!
## Part 2 (routing).  Quantifier: every sequence of operations on one socket — agents and downlinks attaching,
writing, detaching, the resolver's answers changing, arbitrary text frames arriving (`List Op`) — and every frame.
-/
section Routing
open SwimVerif.Envelope SwimVerif.Routing
open SwimVerif.Envelope (peel Msg Kind Str encode BodyWF hasBody)

/-- States reachable by any operation sequence from a fresh socket task. -/
def reach (ops : List Routing.Op) : St := run init ops

def isDelivery : Ev → Bool
  | .toDl _ _ _ _ _ => true
  | .toAgent _ _ => true
  | _ => false

/-- **T1 `route_exact` (notifications)**: a `linked`/`synced`/`unlinked`/`event` envelope that decodes to
`(node, lane)` produces deliveries only, each to a downlink attached to exactly that node and lane whose far end is
open, carrying the decoded kind, node and lane; and every such downlink gets it. -/
theorem C11_route_exact (ops : List Routing.Op) (frame : Str) (k : Kind) (n l b : Str)
    (hp : peel frame = .env k n l b) (hk : isRequest k = false) :
    (∀ e ∈ (stepInput (reach ops) frame).2, ∃ id, e = .toDl id k n l (deliveredBody k b) ∧
        dlAlive (reach ops) id = true ∧ ∃ d ∈ (reach ops).dls, d.id = id ∧ d.node = n ∧ d.lane = l) ∧
    ((reach ops).running = true → ∀ d ∈ (reach ops).dls, d.alive = true → d.node = n → d.lane = l →
        Ev.toDl d.id k n l (deliveredBody k b) ∈ (stepInput (reach ops) frame).2) := by
  have hinv : Inv (reach ops) := inv_run init inv_init ops
  generalize reach ops = st at *
  simp only [stepInput, hp, hk, Bool.false_eq_true, if_false, routeResponse]
  cases hs : subsGet st.subs n l with
  | none =>
    refine ⟨by simp, ?_⟩
    intro hr d hd ha hn hl
    obtain ⟨ids, hg, _⟩ := hinv.compl hr d hd ha
    rw [hn, hl, hs] at hg; cases hg
  | some ids =>
    simp only [List.mem_map, List.mem_filter]
    constructor
    · rintro e ⟨id, ⟨hin, hal⟩, rfl⟩
      exact ⟨id, rfl, hal, hinv.iso n l ids id hs hin⟩
    · intro hr d hd ha hn hl
      obtain ⟨ids0, hg, hin⟩ := hinv.compl hr d hd ha
      rw [hn, hl, hs] at hg
      cases hg
      exact ⟨d.id, ⟨hin, dlAlive_of_mem st d hd ha⟩, rfl⟩

/-- **T1 `route_exact` (requests)**: a `link`/`sync`/`unlink`/`command` envelope for `node` is handed to at most one
agent channel, one that was opened for exactly that node, as the decoded request; never to a downlink. -/
theorem C11_route_exact_agents (ops : List Routing.Op) (frame : Str) (k : Kind) (n l b : Str)
    (hp : peel frame = .env k n l b) (hk : isRequest k = true) :
    (∀ e ∈ (stepInput (reach ops) frame).2, ∀ i m, e = Ev.toAgent i m →
        m = ⟨k, n, l, requestBody k b⟩ ∧ ∃ a, (stepInput (reach ops) frame).1.agents[i]? = some a ∧ a.node = n) ∧
    (∀ e ∈ (stepInput (reach ops) frame).2, ∀ id k' n' l' b', e ≠ Ev.toDl id k' n' l' b') ∧
    ((stepInput (reach ops) frame).2.filter (fun e => isDelivery e)).length ≤ 1 := by
  have hinv : Inv (reach ops) := inv_run init inv_init ops
  generalize reach ops = st at *
  simp only [stepInput, hp, hk, if_true, routeRequest]
  cases hr : kGet st.routes n with
  | none =>
    by_cases hres : st.resolvable.contains n = true
    · simp only [hres, if_true]
      refine ⟨?_, by simp, by simp [isDelivery]⟩
      intro e he i m hm
      subst hm
      simp at he
      obtain ⟨rfl, rfl⟩ := he
      exact ⟨rfl, ⟨n, true⟩, getElem?_append_new _ _, rfl⟩
    · simp only [hres]
      by_cases hc : k = .command <;> simp [hc, isDelivery]
  | some i =>
    by_cases ha : agAlive st i = true
    · simp only [ha, if_true]
      refine ⟨?_, by simp, by simp [isDelivery]⟩
      intro e he i' m hm
      subst hm
      simp at he
      obtain ⟨h1, h2⟩ := he
      rw [h1, h2]
      exact ⟨rfl, hinv.routes n i hr⟩
    · simp only [ha]
      by_cases hres : st.resolvable.contains n = true
      · simp only [hres, if_true]
        refine ⟨?_, by simp, by simp [isDelivery]⟩
        intro e he i' m hm
        subst hm
        simp at he
        obtain ⟨rfl, rfl⟩ := he
        exact ⟨rfl, ⟨n, true⟩, getElem?_append_new _ _, rfl⟩
      · simp only [hres]
        by_cases hc : k = .command <;> simp [hc, isDelivery]

/-- **`invalid_not_delivered`**: a frame that is not a request or notification envelope (rejected, crashing the
reader, or `auth`/`deauth`) is handed to nobody. -/
theorem C11_invalid_not_delivered (ops : List Routing.Op) (frame : Str)
    (hp : ∀ k n l b, peel frame ≠ .env k n l b) :
    ∀ e ∈ (stepInput (reach ops) frame).2, isDelivery e = false := by
  generalize reach ops = st
  unfold stepInput
  cases h : peel frame with
  | env k n l b => exact absurd h (hp k n l b)
  | unsup => simp
  | auth => simp
  | deauth => simp
  | err =>
    simp only [stopAll, endEvents]
    intro e he
    simp only [List.mem_append, List.mem_filterMap, List.mem_cons, List.mem_nil_iff, or_false] at he
    rcases he with (⟨p, _, hp'⟩ | ⟨d, _, hd'⟩) | rfl | rfl
    · split at hp' <;> simp at hp'; subst hp'; rfl
    · split at hd' <;> simp at hd'; subst hd'; rfl
    · rfl
    · rfl
  | panic c =>
    simp only [stopAll, endEvents]
    intro e he
    simp only [List.mem_append, List.mem_filterMap, List.mem_cons, List.mem_nil_iff, or_false] at he
    rcases he with (⟨p, _, hp'⟩ | ⟨d, _, hd'⟩) | rfl | rfl
    · split at hp' <;> simp at hp'; subst hp'; rfl
    · split at hd' <;> simp at hd'; subst hd'; rfl
    · rfl
    · rfl

/-- Only an incoming frame causes a delivery: attaching, detaching, sending, stopping never do. -/
theorem C11_only_input_delivers (st : St) (op : Routing.Op) (h : ∀ f, op ≠ .input f) (h' : ∀ fs, op ≠ .frames fs) :
    ∀ e ∈ (step st op).2, isDelivery e = false := by
  have hstop : ∀ extra : List Ev, (∀ e ∈ extra, isDelivery e = false) →
      ∀ e ∈ (stopAll st extra).2, isDelivery e = false := by
    intro extra hx e he
    simp only [stopAll, endEvents, List.mem_append, List.mem_filterMap] at he
    rcases he with (⟨p, _, hp'⟩ | ⟨d, _, hd'⟩) | he
    · split at hp' <;> simp at hp'; subst hp'; rfl
    · split at hd' <;> simp at hd'; subst hd'; rfl
    · exact hx e he
  cases op with
  | input f => exact absurd rfl (h f)
  | frames fs => exact absurd rfl (h' fs)
  | agents ns => simp [step]
  | attach id n l => simp only [step]; split <;> simp
  | attachOne id n l => simp only [step]; split <;> simp
  | send s m => simp only [step]; split <;> simp [isDelivery]
  | burst srcs =>
    simp only [step]
    split
    · clear h h'
      generalize st.counter = k
      induction srcs generalizing k with
      | nil => simp [burstEvents]
      | cons s rest ih =>
        intro e he
        simp only [burstEvents, List.mem_append] at he
        rcases he with he | he
        · split at he
          · split at he
            · simp at he; subst he; rfl
            · simp at he
          · simp at he
        · exact ih (k + 1) e he
    · simp
  | detach s => cases s <;> simp [step]
  | stop =>
    simp only [step]
    split
    · exact hstop _ (by simp [isDelivery])
    · simp

/-! ### incoming web-socket frames: fragmented messages, control frames -/

/-- **`fragmented_message_reassembled`**: for every payload, every way of cutting it into fragments (a `text` frame
followed by `continuation` frames, the last one final; cuts anywhere, also inside the header or inside a multi-byte
character) and every interleaving of ping/pong control frames before, between the fragments, the stream of text
messages handed to the incoming task is exactly one message: the concatenation of the fragments — and the buffer is
empty again afterwards. -/
theorem C11_fragmented_message_reassembled (pre : List WsFrames.Ctl)
    (chunks : List (List Nat × List WsFrames.Ctl)) (last : List Nat) :
    WsFrames.run {} (WsFrames.ctlFrames pre ++ WsFrames.fragFrames true chunks last) =
      ({}, [.text (chunks.flatMap (·.1) ++ last)]) := by
  rw [WsFrames.run_ctl]
  have := WsFrames.run_frag [] true chunks last (fun _ => rfl)
  simpa using this

/-- control frames alone never produce a message nor touch a partially received one -/
theorem C11_control_frames_keep_buffer (a : WsFrames.Asm) (cs : List WsFrames.Ctl) :
    WsFrames.run a (WsFrames.ctlFrames cs) = (a, []) := by
  have := WsFrames.run_ctl a cs []
  simpa [WsFrames.run] using this

theorem stepFrame_ping (st : St) : stepFrame st .ping = (st, []) ∧ stepFrame st .pong = (st, []) := by
  unfold stepFrame
  by_cases hr : st.running = true
  · rw [if_pos hr, if_pos hr]; exact ⟨rfl, rfl⟩
  · rw [if_neg hr, if_neg hr]; exact ⟨rfl, rfl⟩

theorem stepFrames_ctl (st : St) (cs : List WsFrames.Ctl) (fs : List WsFrames.Frame) :
    stepFrames st (WsFrames.ctlFrames cs ++ fs) = stepFrames st fs := by
  induction cs with
  | nil => rfl
  | cons c cs ih =>
    cases c
    · simp only [WsFrames.ctlFrames, List.cons_append, stepFrames, (stepFrame_ping st).1, List.nil_append, ih]
    · simp only [WsFrames.ctlFrames, List.cons_append, stepFrames, (stepFrame_ping st).2, List.nil_append, ih]

/-- **A fragmented envelope is routed like the whole envelope**: on a running task with an empty read buffer, the
frames of a fragmented text message (with any control frames in between) have exactly the effect of the complete
text arriving in one frame. -/
theorem C11_fragmented_envelope_routed (st : St) (s : Str) (pre : List WsFrames.Ctl)
    (chunks : List (List Nat × List WsFrames.Ctl)) (last : List Nat)
    (hr : st.running = true) (ha : st.asm = {}) (hs : utf8 (chunks.flatMap (·.1) ++ last) = some s) :
    stepFrames st (WsFrames.ctlFrames pre ++ WsFrames.fragFrames true chunks last) = stepInput st s := by
  rw [stepFrames_ctl]
  -- generalise over the position in the message
  have key : ∀ (chunks : List (List Nat × List WsFrames.Ctl)) (first : Bool) (buf : List Nat) (st' : St),
      st'.running = true → st'.asm = ⟨buf, !first⟩ → (first = true → buf = []) →
      utf8 (buf ++ chunks.flatMap (·.1) ++ last) = some s →
      stepFrames st' (WsFrames.fragFrames first chunks last) = stepInput { st' with asm := {} } s := by
    intro chunks
    induction chunks with
    | nil =>
      intro first buf st' hr' ha' hb hu
      cases first with
      | true =>
        have := hb rfl; subst this
        simp only [List.flatMap_nil, List.append_nil, List.nil_append] at hu
        simp [WsFrames.fragFrames, stepFrames, stepFrame, WsFrames.step, hr', ha', hu]
      | false =>
        simp only [List.flatMap_nil, List.append_nil] at hu
        simp [WsFrames.fragFrames, stepFrames, stepFrame, WsFrames.step, hr', ha', hu]
    | cons c rest ih =>
      intro first buf st' hr' ha' hb hu
      obtain ⟨c, ctl⟩ := c
      have hu' : utf8 (buf ++ c ++ rest.flatMap (·.1) ++ last) = some s := by
        simpa [List.append_assoc] using hu
      have step1 : ∀ f, (f = WsFrames.Frame.text false c ∧ first = true) ∨ (f = WsFrames.Frame.cont false c ∧ first = false) →
          stepFrame st' f = ({ st' with asm := ⟨buf ++ c, true⟩ }, []) := by
        intro f hf
        rcases hf with ⟨rfl, rfl⟩ | ⟨rfl, rfl⟩
        · have := hb rfl; subst this
          simp [stepFrame, WsFrames.step, hr', ha']
        · simp [stepFrame, WsFrames.step, hr', ha']
      have hnext := ih false (buf ++ c) { st' with asm := ⟨buf ++ c, true⟩ } hr' rfl (by simp) hu'
      cases first with
      | true =>
        simp only [WsFrames.fragFrames, if_true, stepFrames, step1 _ (Or.inl ⟨rfl, rfl⟩), List.nil_append]
        rw [stepFrames_ctl, hnext]
      | false =>
        simp only [WsFrames.fragFrames, Bool.false_eq_true, if_false, stepFrames, step1 _ (Or.inr ⟨rfl, rfl⟩),
          List.nil_append]
        rw [stepFrames_ctl, hnext]
  have := key chunks true [] st hr (by rw [ha]; rfl) (fun _ => rfl) (by simpa using hs)
  rw [this]
  have e : ({ st with asm := {} } : St) = st := by
    cases st; simp_all
  rw [e]

/-- a binary message, a close frame, or a data frame that breaks the fragmentation rules is delivered to nobody -/
theorem C11_non_text_frames_not_delivered (st : St) (f : WsFrames.Frame)
    (h : (WsFrames.step st.asm f).2 = .binary ∨ (WsFrames.step st.asm f).2 = .protoErr ∨
         (WsFrames.step st.asm f).2 = .closed ∨ (WsFrames.step st.asm f).2 = .none) :
    ∀ e ∈ (stepFrame st f).2, isDelivery e = false := by
  have hstop : ∀ extra : List Ev, (∀ e ∈ extra, isDelivery e = false) →
      ∀ e ∈ (stopAll st extra).2, isDelivery e = false := by
    intro extra hx e he
    simp only [stopAll, endEvents, List.mem_append, List.mem_filterMap] at he
    rcases he with (⟨p, _, hp'⟩ | ⟨d, _, hd'⟩) | he
    · split at hp' <;> simp at hp'; subst hp'; rfl
    · split at hd' <;> simp at hd'; subst hd'; rfl
    · exact hx e he
  unfold stepFrame
  split
  · rcases h with h | h | h | h <;> rw [h] <;> simp only
    · exact hstop _ (by simp [isDelivery])
    · exact hstop _ (by simp [isDelivery])
    · exact hstop _ (by simp [isDelivery])
    · simp
  · simp

/-! ### outgoing frames: agents, downlinks and send-only clients (`AttachClient::OneWay`) -/

/-- **Every message a source writes leaves the socket exactly once, unchanged**: while the task runs, a message
written by an open source whose registration kind reads that sort of message (`regKind`/`readerAccepts`: downlinks
and send-only clients are registered as `Client` and send requests, agents as `Server` and send notifications) is
written to the socket as exactly one text frame, the encoder's frame for that message; nothing else happens. -/
theorem C11_outgoing_frame_leaves (st : St) (s : Src) (m : Msg) (hr : st.running = true)
    (ha : srcAlive st s = true) (hk : readerAccepts (regKind s) m = true) :
    step st (.send s m) = (st, [.peer (encode m)]) := by
  simp [step, hr, ha, hk]

/-- … and the peer reads that frame as the message that was written (part 1). -/
theorem C11_outgoing_frame_read_back (m : Msg) (hwf : BodyWF m) : peel (encode m) = rawOf m :=
  C11_read_write m hwf

/-- **Send-only clients**: after `AttachClient::OneWay` succeeded on a running task, every request (in practice
`@command`) the client writes leaves the socket exactly once as the encoder's frame — whatever else happened before
on the socket — until the client is detached or the task stops. -/
theorem C11_one_way_command_leaves (ops : List Routing.Op) (id : Nat) (n l : Str) (m : Msg)
    (hr : (reach ops).running = true) (hm : isRequest m.kind = true) :
    (step (step (reach ops) (.attachOne id n l)).1 (.send (.ow id) m)).2 = [.peer (encode m)] := by
  generalize reach ops = st at *
  have h1 : (step st (.attachOne id n l)).1 = { st with ows := st.ows ++ [⟨id, n, l, true⟩] } := by
    simp [step, hr]
  rw [h1]
  generalize hst' : ({ st with ows := st.ows ++ [⟨id, n, l, true⟩] } : St) = st'
  have hr' : st'.running = true := by subst hst'; exact hr
  have ha : srcAlive st' (.ow id) = true := by subst hst'; simp [srcAlive, owAlive]
  rw [C11_outgoing_frame_leaves st' (.ow id) m hr' ha (by simp [regKind, readerAccepts, hm])]

/-- positions (offset by `k`) at which source `s` occurs in a burst -/
def occurrences : List Src → Src → Nat → List Nat
  | [], _, _ => []
  | s' :: rest, s, k => (if s' = s then [k] else []) ++ occurrences rest s (k + 1)

def framesFrom (s : Src) (evs : List Ev) : List Str :=
  evs.filterMap fun e => match e with
    | .peerFrom s' f => if s' = s then some f else none
    | _ => none

/-- **In order, interleaved with everything else**: in a burst (several sources writing before the task runs), the
frames that leave the socket for an open send-only client are exactly its commands, one per write, in the order it
wrote them. -/
theorem C11_one_way_burst_in_order (st : St) (id : Nat) (o : Ow) (srcs : List Src) (k : Nat)
    (ha : owAlive st id = true) (hf : (st.ows.find? fun x => x.id == id) = some o) :
    framesFrom (.ow id) (burstEvents st srcs k) =
      (occurrences srcs (.ow id) k).map fun j => encode ⟨.command, o.node, o.lane, ('m' :: (toString j).toList)⟩ := by
  induction srcs generalizing k with
  | nil => simp [burstEvents, framesFrom, occurrences]
  | cons s rest ih =>
    have ih' := ih (k + 1)
    unfold framesFrom at ih' ⊢
    simp only [burstEvents, occurrences, List.filterMap_append, List.map_append, ih']
    congr 1
    by_cases e : s = .ow id
    · subst e
      simp [srcAlive, ha, burstMsg, hf, regKind, readerAccepts, isRequest]
    · simp only [e, if_false, List.map_nil]
      cases hs : srcAlive st s <;> simp
      cases hb : burstMsg st s k <;> simp
      intro _; exact e

/-- **Content unchanged**: the body a downlink receives is the body that was on the wire (absent when empty for
`unlinked`), for every notification kind. (FC11-2, the inverted test in `interpret_envelope`, fixed by fffb427; the
shape of that expression is the generated flag `unlinkedBodyDropped`: if the test is inverted again this theorem stops
building and the routing monitor reports `unlinked-body-dropped`.) -/
theorem C11_body_unchanged (k : Kind) (b : Str) (hk : isRequest k = false) : deliveredBody k b = expectedBody k b := by
  have hf : Generated.Env.unlinkedBodyDropped = false := by decide
  cases k <;> simp_all [deliveredBody, expectedBody, isRequest]

/-- **Writer → socket → reader → routing**: a well-formed notification written by the peer's `ReconEncoder` reaches
exactly the open downlinks attached to its own node and lane. -/
theorem C11_written_notification_routed (ops : List Routing.Op) (m : Msg) (hwf : BodyWF m) (hk : isRequest m.kind = false) :
    (∀ e ∈ (stepInput (reach ops) (encode m)).2, ∃ id, e = .toDl id m.kind m.node m.lane
          (deliveredBody m.kind (if hasBody m.kind then m.body else [])) ∧
        ∃ d ∈ (reach ops).dls, d.id = id ∧ d.node = m.node ∧ d.lane = m.lane) ∧
    ((reach ops).running = true → ∀ d ∈ (reach ops).dls, d.alive = true → d.node = m.node → d.lane = m.lane →
        Ev.toDl d.id m.kind m.node m.lane (deliveredBody m.kind (if hasBody m.kind then m.body else []))
          ∈ (stepInput (reach ops) (encode m)).2) := by
  have hp := C11_read_write m hwf
  have := C11_route_exact ops (encode m) m.kind m.node m.lane (if hasBody m.kind then m.body else []) hp hk
  refine ⟨?_, this.2⟩
  intro e he
  obtain ⟨id, h1, _, h3⟩ := this.1 e he
  exact ⟨id, h1, h3⟩

/-- … and what they receive is the body the peer wrote (absent when empty for `unlinked`). -/
theorem C11_written_notification_content (m : Msg) (hk : isRequest m.kind = false) :
    deliveredBody m.kind (if hasBody m.kind then m.body else []) =
      expectedBody m.kind (if hasBody m.kind then m.body else []) :=
  C11_body_unchanged _ _ hk

example : (step (reach [.attach 0 "/n".toList "l".toList]) (.input "@unlinked(node:\"/n\",lane:l)@laneNotFound".toList)).2 =
    [.toDl 0 .unlinked "/n".toList "l".toList (some "@laneNotFound".toList)] := by decide

example : (step (reach [.attach 0 "/n".toList "l".toList, .attachOne 0 "/r".toList "two words".toList])
    (.send (.ow 0) ⟨.command, "/r".toList, "two words".toList, "1".toList⟩)).2 =
    [.peer "@command(node:\"/r\",lane:\"two words\") 1".toList] := by decide

/-! non-vacuity: two downlinks on the same node but different lanes, one detached; an agent resolved on demand -/

example :
    (step (reach [.agents ["/a".toList], .attach 0 "/a".toList "x".toList, .attach 1 "/a".toList "y".toList,
                  .attach 2 "/a".toList "x".toList, .detach (.dl 2)])
        (.input "@event(node:\"/a\",lane:x) 1".toList)).2 =
      [.toDl 0 .event "/a".toList "x".toList (some "1".toList)] := by decide

example :
    (step (reach [.agents ["/a".toList]]) (.input "@command(node:\"/a\",lane:x) 1".toList)).2 =
      [.find "/a".toList "x".toList (some 0), .toAgent 0 ⟨.command, "/a".toList, "x".toList, "1".toList⟩] := by decide

example : (step (reach []) (.input "@link(node:\"/a\",lane:x)".toList)).2 =
    [.find "/a".toList "x".toList none, .peer "@unlinked(node:\"/a\",lane:x)@nodeNotFound".toList] := by decide

end Routing

/-!
## Part 3 (multiplexer).  Quantifier: every sequence of `add`/`push`/`close`/`poll` operations (= every interleaving
of the sources' writes with the reader's polls), any number of sources (several 64-stream buckets).
-/
section Multiplexer
open SwimVerif.MultiReader

/-- States reachable by any operation sequence from an empty `MultiReader`. -/
def mreach (ops : List MultiReader.Op) : MultiReader.St := MultiReader.run MultiReader.init ops

/-- **`per_source_fifo`**: for every source, what was delivered from it followed by what it still holds is exactly
what was pushed into it — nothing lost, nothing duplicated, nothing reordered, nothing invented. -/
theorem C11_per_source_fifo (ops : List MultiReader.Op) (s : Nat) :
    proj (mreach ops).delivered s ++ ((mreach ops).sources.getD s {}).q = proj (mreach ops).pushed s := by
  have h := (fifoInv_run MultiReader.init fifoInv_init ops).fifo s
  simp only [data, List.getD_eq_getElem?_getD, List.getElem?_map] at h
  simp only [mreach, List.getD_eq_getElem?_getD]
  cases hs : (MultiReader.run MultiReader.init ops).sources[s]? with
  | none => simpa [hs] using h
  | some a => simpa [hs] using h

/-- Hence each source's deliveries are a prefix of its pushes, in push order. -/
theorem C11_delivered_prefix_of_pushed (ops : List MultiReader.Op) (s : Nat) :
    proj (mreach ops).delivered s <+: proj (mreach ops).pushed s :=
  ⟨_, C11_per_source_fifo ops s⟩

example : (mreach [.add, .add, .push 0 1, .push 1 2, .push 0 3, .poll, .poll, .poll]).delivered =
    [(0, 1), (1, 2), (0, 3)] := by decide

/-- **`no_lost_ready`**: a registered stream that has something to deliver (an item, or its end) always has its
ready bit set — in the flags of its bucket, or, if its bucket is the current one, in the local or the queue flags —
so the next polls reach it. -/
theorem C11_no_lost_ready (ops : List MultiReader.Op) (k s : Nat)
    (hk : (mreach ops).entries[k]? = some (Entry.occ s))
    (hready : ((mreach ops).sources.getD s {}).q ≠ [] ∨ ((mreach ops).sources.getD s {}).closed = true) :
    flagged (mreach ops) (k / bucketSize) (k % bucketSize) := by
  have h := (run_inv MultiReader.init ops inv_init.1 inv_init.2).2 k s (by simp) hk
  rcases h with h | h
  · exact h
  · unfold parked at h
    rcases hready with hq | hc
    · exact absurd h.2.1 hq
    · have h2 : ((mreach ops).sources.getD s {}).closed = false := h.2.2
      rw [h2] at hc; cases hc

/-- Conversely a registered stream without a ready bit is empty, open, and holds the waker that sets its bit. -/
theorem C11_unflagged_is_parked (ops : List MultiReader.Op) (k s : Nat)
    (hk : (mreach ops).entries[k]? = some (Entry.occ s))
    (hn : ¬ flagged (mreach ops) (k / bucketSize) (k % bucketSize)) :
    parked (mreach ops) k s := by
  rcases (run_inv MultiReader.init ops inv_init.1 inv_init.2).2 k s (by simp) hk with h | h
  · exact absurd h hn
  · exact h

/-- Pushing into a parked stream wakes the reading task and sets the stream's ready bit. -/
theorem C11_push_wakes_parked (ops : List MultiReader.Op) (k s x : Nat)
    (hk : (mreach ops).entries[k]? = some (Entry.occ s)) (hp : parked (mreach ops) k s) :
    (MultiReader.step (mreach ops) (.push s x)).2.2 = 1 ∧
    flagged (MultiReader.step (mreach ops) (.push s x)).1 (k / bucketSize) (k % bucketSize) := by
  have hinv : WF (mreach ops) ∧ Ready (mreach ops) none := run_inv MultiReader.init ops inv_init.1 inv_init.2
  generalize mreach ops = st at *
  have hs : s < st.sources.length := hinv.1.src_lt k s hk
  have hnc : (st.sources.getD s {}).closed = false := hp.2.2
  have hwk : ((setSource st s (fun src => { src with q := src.q ++ [x] })).sources.getD s {}).waker =
      some (k / bucketSize, k % bucketSize) := by
    rw [waker_setSource st s s (fun src => { src with q := src.q ++ [x] }) (fun _ => rfl)]; exact hp.1
  have hblt : k / bucketSize < st.buckets.length := by
    have hklt : k < st.entries.length := by
      rcases Nat.lt_or_ge k st.entries.length with h' | h'
      · exact h'
      · rw [List.getElem?_eq_none_iff.mpr h'] at hk; cases hk
    have hcov := hinv.1.cover
    rw [hB] at hcov ⊢
    omega
  simp only [MultiReader.step, hs, if_true, hnc, Bool.false_eq_true, if_false]
  have hwk' : (({ setSource st s (fun src => { src with q := src.q ++ [x] }) with
      pushed := st.pushed ++ [(s, x)] } : MultiReader.St).sources.getD s {}).waker =
      some (k / bucketSize, k % bucketSize) := hwk
  unfold fire
  rw [hwk']
  refine ⟨rfl, ?_⟩
  unfold flagged
  left
  simp only
  rw [getD_modify_list, if_pos ⟨rfl, by simpa [setSource] using hblt⟩]
  exact (mem_fInsert _ _ _).mpr (Or.inl rfl)

/-- **`Pending` means everybody is parked**: when `poll_next` answers `Pending`, no ready bit is left in any bucket
nor in the local or queue flags (the bucket walk of `get_next_stream` gives up only after a full cycle over empty
buckets; the loop of `poll_next` consumes a flag per iteration), hence every registered stream is empty, open and
holds the waker that sets its bit and wakes the task — no lost wake-up. -/
theorem C11_pending_means_all_parked (ops : List MultiReader.Op)
    (hp : (MultiReader.poll (mreach ops)).2 = .pending) :
    NoFlags (MultiReader.poll (mreach ops)).1 ∧
    ∀ k s, (MultiReader.poll (mreach ops)).1.entries[k]? = some (Entry.occ s) →
      parked (MultiReader.poll (mreach ops)).1 k s := by
  have hinv : WF (mreach ops) ∧ Ready (mreach ops) none := run_inv MultiReader.init ops inv_init.1 inv_init.2
  generalize mreach ops = st at *
  unfold MultiReader.poll at *
  have hn := pollNext_pending (flagCount st + 2) st hinv.1 (by omega) hp
  have hr := (pollNext_inv (flagCount st + 2) st hinv.1 hinv.2).2
  exact ⟨hn, fun k s hk => all_parked_of_noFlags _ hr hn k s hk⟩

/-- **Fairness, `fair_within_2n_polls`** (the proved form): a registered stream that holds an item `x` gets it
delivered by one of the next `2 * (slab size) + 1` calls of `poll_next`, whatever the other streams hold: every one of
these calls delivers exactly one item, all before the last come from other streams, the last is `(s, x)`. Hence at
most `2 * entries.length` items of other streams overtake a ready stream (every other stream at most twice: once from
the local flags, once more after its re-queued bit was flushed back into the bucket). Proof: the ranking function
`MultiReader.rank` (`Proofs/MultiReaderRank.lean`, `Proofs/MultiReaderFair.lean`) gives every key a weight in
`{0,1,2}` — how often its bit can still be taken before the target's bit (local flag below the target; bucket ahead of
the target's bucket in the walk; own bucket / queue flags below the target) — never grows inside `get_next_stream`
and drops with every delivery. -/
theorem C11_fair_delivered_within_2n_polls (ops : List MultiReader.Op) (k s x : Nat) (rest : List Nat)
    (hk : (mreach ops).entries[k]? = some (Entry.occ s))
    (hq : ((mreach ops).sources.getD s {}).q = x :: rest) :
    ∃ n, n ≤ 2 * (mreach ops).entries.length + 1 ∧ ∃ pre,
      (MultiReader.run (mreach ops) (List.replicate n .poll)).delivered =
        (mreach ops).delivered ++ pre ++ [(s, x)] ∧
      (∀ p ∈ pre, p.1 ≠ s) ∧ pre.length + 1 = n := by
  have hflag := C11_no_lost_ready ops k s hk (Or.inl (by rw [hq]; simp))
  have hinv : WF (mreach ops) ∧ Ready (mreach ops) none := run_inv MultiReader.init ops inv_init.1 inv_init.2
  generalize mreach ops = st at *
  have hkL : k < st.entries.length := lt_of_getElem?_some _ _ _ hk
  obtain ⟨n, hn, h⟩ := fair_run (rank st k) st k s x rest hinv.1 hinv.2 ⟨hk, hq, hflag⟩ (Nat.le_refl _)
  have := rank_le st k hinv.1 hkL
  exact ⟨n, by omega, h⟩

/-- Fairness as first written: "… some `(s, x)` is in the delivered history afterwards that was not there before".
FALSE as a statement about values (not a defect of `MultiReader`): item values may repeat, so the newly delivered
pair can be equal to an older one — see `C11_fair_within_2n_polls_fails`; the position-based statement
`C11_fair_delivered_within_2n_polls` holds without any hypothesis. -/
def C11_fair_within_2n_polls : Prop :=
  ∀ (ops : List MultiReader.Op) (k s : Nat), (mreach ops).entries[k]? = some (Entry.occ s) →
    ((mreach ops).sources.getD s {}).q ≠ [] →
    ∃ n, n ≤ 2 * (mreach ops).entries.length + 1 ∧
      ∃ x, (s, x) ∈ (MultiReader.run (mreach ops) (List.replicate n .poll)).delivered ∧
           (s, x) ∉ (mreach ops).delivered

/-- Witness: one source, `5` pushed, delivered, and pushed again — the second delivery is again the pair `(0, 5)`. -/
theorem C11_fair_within_2n_polls_fails : ¬ C11_fair_within_2n_polls := by
  intro h
  obtain ⟨n, hn, x, hin, hnot⟩ := h [.add, .push 0 5, .poll, .push 0 5] 0 0 (by decide) (by decide)
  have hd : (mreach [.add, .push 0 5, .poll, .push 0 5]).delivered = [(0, 5)] := by decide
  have hl : (mreach [.add, .push 0 5, .poll, .push 0 5]).entries.length = 1 := by decide
  rw [hd] at hnot
  rw [hl] at hn
  have hall : ∀ m, m ≤ 3 → ∀ p ∈ (MultiReader.run (mreach [.add, .push 0 5, .poll, .push 0 5])
      (List.replicate m .poll)).delivered, p = (0, 5) := by decide
  exact hnot (by rw [hall n (by omega) _ hin]; simp)

/-- The statement as first written holds whenever the item at the head of the stream was not delivered from this
stream before (e.g. all pushed items distinct, as in the generated traces). -/
theorem C11_fair_within_2n_polls_partial (ops : List MultiReader.Op) (k s : Nat)
    (hk : (mreach ops).entries[k]? = some (Entry.occ s))
    (hq : ((mreach ops).sources.getD s {}).q ≠ [])
    (hfresh : ∀ x ∈ ((mreach ops).sources.getD s {}).q.head?, (s, x) ∉ (mreach ops).delivered) :
    ∃ n, n ≤ 2 * (mreach ops).entries.length + 1 ∧
      ∃ x, (s, x) ∈ (MultiReader.run (mreach ops) (List.replicate n .poll)).delivered ∧
           (s, x) ∉ (mreach ops).delivered := by
  cases hq' : ((mreach ops).sources.getD s {}).q with
  | nil => exact absurd hq' hq
  | cons x rest =>
    obtain ⟨n, hn, pre, hd, _, _⟩ := C11_fair_delivered_within_2n_polls ops k s x rest hk hq'
    refine ⟨n, hn, x, by rw [hd]; simp, hfresh x (by rw [hq']; simp)⟩

/-- distinct pushed items are enough for `hfresh` (per-source FIFO: delivered ++ queued = pushed) -/
theorem C11_fresh_of_distinct_pushes (ops : List MultiReader.Op) (s x : Nat) (rest : List Nat)
    (hq : ((mreach ops).sources.getD s {}).q = x :: rest)
    (hd : (proj (mreach ops).pushed s).Nodup) : (s, x) ∉ (mreach ops).delivered := by
  have hf := C11_per_source_fifo ops s
  rw [← hf, hq] at hd
  intro hin
  have : x ∈ proj (mreach ops).delivered s := by
    unfold proj
    simp only [List.mem_map, List.mem_filter, beq_iff_eq]
    exact ⟨(s, x), ⟨hin, rfl⟩, rfl⟩
  have := (List.nodup_append.mp hd).2.2 x this x (by simp)
  exact this rfl

/-! non-vacuity: three streams in one bucket, stream 2 is ready while 0 and 1 keep delivering: it is reached by the
third poll; and a stream of the second bucket (key 64) while the walk stands in the first -/
example : (mreach [.add, .add, .add, .push 0 1, .push 0 2, .push 1 3, .push 1 4, .push 2 9]).entries[2]? =
    some (Entry.occ 2) := by decide
example : (MultiReader.run (mreach [.add, .add, .add, .push 0 1, .push 0 2, .push 1 3, .push 1 4, .push 2 9])
    (List.replicate 3 .poll)).delivered = [(0, 1), (1, 3), (2, 9)] := by decide
example : (MultiReader.run (mreach [.add, .add, .poll, .poll, .push 1 7, .push 0 1, .push 0 2, .poll, .push 1 8])
    (List.replicate 3 .poll)).delivered = [(0, 1), (1, 7), (0, 2), (1, 8)] := by decide
set_option maxRecDepth 100000 in
example : (mreach [.addn 66, .poll, .push 0 1, .push 0 2, .push 1 3, .push 1 4, .push 64 9]).cur = 1 ∧
    (MultiReader.run (mreach [.addn 66, .poll, .push 0 1, .push 0 2, .push 1 3, .push 1 4, .push 64 9])
      (List.replicate 3 .poll)).delivered = [(0, 1), (1, 3), (64, 9)] ∧
    rank (mreach [.addn 66, .poll, .push 0 1, .push 0 2, .push 1 3, .push 1 4, .push 64 9]) 64 = 3 := by decide

example : (MultiReader.poll (mreach [.add, .add, .push 1 5, .poll])).2 = .pending := by decide
example : parked (mreach [.add, .poll]) 0 0 := by unfold parked; decide
example : flagged (mreach [.add, .poll, .push 0 7]) 0 0 := by unfold flagged; decide
example : (MultiReader.step (mreach [.add, .poll]) (.push 0 7)).2.2 = 1 := by decide

end Multiplexer

end SwimVerif.C11
