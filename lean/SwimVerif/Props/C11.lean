/-
C11 — WARP envelopes cross the socket unchanged and reach only their addressee.
Property theorems only; helper lemmas live in `Proofs/Envelope.lean` (pure part), `Proofs/Routing.lean`,
`Proofs/MultiReader.lean`.

Part 1 (pure round trip).  Quantifier: every envelope kind, EVERY node and lane string (`List Char` = sequences of
Unicode scalar values = Rust `str`: empty, `true`/`false`, quotes, backslashes, control and non-BMP characters, `%`),
every body that satisfies `BodyWF`.
-/
import SwimVerif.Proofs.Envelope

set_option linter.unusedSimpArgs false
namespace SwimVerif.Envelope
open SwimVerif.Generated.Env

/-- **Round trip, general form**: for every message, whatever its node, lane and body, the reader returns the same
kind, node and lane, and the body with its leading spaces and tabs removed. -/
theorem C11_read_write_any_body (m : Msg) :
    peel (encode m) = .env m.kind m.node m.lane (stripSpace (if hasBody m.kind then m.body else [])) := by
  unfold encode
  rw [peel_written]
  by_cases hb : hasBody m.kind = true
  · cases hbody : m.body with
    | nil => simp [hb, skipSpace, stripSpace]
    | cons c cs =>
      simp only [hb, Bool.true_and, List.isEmpty_cons, Bool.not_false, if_true]
      cases hsp : isSpace c with
      | false =>
        rw [skipSpace_putBody (c :: cs) (by intro c' h; simp at h; subst h; exact hsp)]
        simp [stripSpace, List.dropWhile_cons, hsp]
      | true =>
        have hne : c ≠ '@' := by intro e; subst e; simp [isSpace] at hsp
        have h1 : isSpace ' ' = true := by decide
        simp [putBody, hne, skipSpace, stripSpace, List.dropWhile_cons, hsp, h1]
  · have hb' : hasBody m.kind = false := by simpa using hb
    simp [hb', skipSpace, stripSpace]

/-- **T1 `read_write`**: what `ReconEncoder` writes for a request or notification is read by
`peel_envelope_header_str` as the same kind of envelope with the same node, lane and body — for all node and lane
strings, and all bodies that do not begin with a space or a tab. -/
theorem C11_read_write (m : Msg) (h : BodyWF m) : peel (encode m) = rawOf m := by
  rw [C11_read_write_any_body, rawOf]
  by_cases hb : hasBody m.kind = true
  · simp only [hb, if_true]
    cases hbody : m.body with
    | nil => rfl
    | cons c cs =>
      have := h.2 c (by simp [hbody])
      simp [stripSpace, List.dropWhile_cons, this]
  · have hb' : hasBody m.kind = false := by simpa using hb
    simp [hb', stripSpace]

/-- The same statement spelled out by components (the form of the design document). -/
theorem C11_read_write_components (kind : Kind) (node lane body : Str) (h : BodyWF ⟨kind, node, lane, body⟩) :
    peel (encode ⟨kind, node, lane, body⟩) = .env kind node lane body := by
  rw [C11_read_write _ h, rawOf]
  by_cases hb : hasBody kind = true
  · simp [hb]
  · have hb' : hasBody kind = false := by simpa using hb
    have := h.1 hb'
    simp only at this
    simp [hb', this]

/-- The "node not found" answer names the node and lane that were asked for. -/
theorem C11_no_such_agent_read (node : Str) (lane : Option Str) :
    peel (encodeNoSuchAgent node lane) = .env .unlinked node (lane.getD []) nodeNotFoundTag := by
  unfold encodeNoSuchAgent
  show peel (writeHeader (wHeader .unlinked) node (lane.getD []) ++ putBody nodeNotFoundTag) = _
  rw [peel_written]
  have : skipSpace (putBody nodeNotFoundTag) = nodeNotFoundTag := by decide
  rw [this]

/-- Distinct well-formed messages never share a frame (so the receiver's routing key is the sender's). -/
theorem C11_encode_injective (m1 m2 : Msg) (h1 : BodyWF m1) (h2 : BodyWF m2) (h : encode m1 = encode m2) :
    m1 = m2 := by
  have e1 := C11_read_write_components m1.kind m1.node m1.lane m1.body h1
  have e2 := C11_read_write_components m2.kind m2.node m2.lane m2.body h2
  have : encode ⟨m1.kind, m1.node, m1.lane, m1.body⟩ = encode ⟨m2.kind, m2.node, m2.lane, m2.body⟩ := h
  rw [this, e2] at e1
  cases m1; cases m2
  simp only [Peeled.env.injEq] at e1
  simp_all

/-- The reader's unescaping inverts the writer's escaping, for every string. -/
theorem C11_unescape_escape (s : Str) : resolveEscapes (escapeText s) = .ok s := by
  rw [resolveEscapes_eq, unescRun_escapeText]

/-- A written name is read back by `parse_text_token` as the name, quoted or not. -/
theorem C11_text_token_of_literal (s : Str) : parseTextToken (lit s) = .ok s := parseTextToken_lit s

/-- The writer's quoting decision is the reader's: a name is written bare exactly when the reader's identifier
lexer consumes all of it and it is not a keyword. -/
theorem C11_quote_decision_agrees (s : Str) :
    isIdentifier s = true ↔ (lexIdent s = some (s, []) ∧ identKeywords.contains s = false) := by
  constructor
  · intro h
    obtain ⟨c, cs, rfl, hc, hcs⟩ := isIdentifier_shape h
    refine ⟨lexIdent_all c cs hc hcs, ?_⟩
    unfold isIdentifier at h
    by_cases hk : identKeywords.contains (c :: cs) = true
    · rw [if_pos hk] at h; cases h
    · simpa using hk
  · rintro ⟨h1, h2⟩
    cases s with
    | nil => simp [lexIdent] at h1
    | cons c cs =>
      unfold lexIdent at h1
      by_cases hc : isIdentStart c = true
      · simp only [hc, if_true, Option.some.injEq, Prod.mk.injEq, List.cons.injEq, true_and] at h1
        have hall : cs.all isIdentChar = true := all_of_dropWhile_nil cs h1.2
        have hk : ¬ (c :: cs) ∈ identKeywords := by simpa using h2
        rw [List.all_eq_true] at hall
        simp [isIdentifier, hk, hc]
        exact hall
      · simp [hc] at h1

/-- `BodyWF` cannot be dropped: a body beginning with a space is read back without it. -/
theorem C11_leading_space_not_preserved :
    peel (encode ⟨.event, ['n'], ['l'], [' ', 'x']⟩) = .env .event ['n'] ['l'] ['x'] := by
  rw [C11_read_write_any_body]; decide

/-! ### the reader on frames that the writer does not produce -/

/-- Full statement (false of the current code, see `C11_reader_never_panics_fails`). -/
def C11_reader_never_panics : Prop := ∀ (frame : Str) (c : Cause), peel frame ≠ .panic c

/-- Witness FC11-1: an empty `node` (or `lane`) value makes `parse_text_token` hit `Incomplete`, on which
`finish()` panics — as long as the code has that shape (`textTokenIncompletePanics`, re-read from the source). -/
theorem C11_reader_never_panics_fails (h : textTokenIncompletePanics = true) : ¬ C11_reader_never_panics := by
  intro hall
  have w : textTokenIncompletePanics = true →
      peel "@event(node:,lane:a)".toList = .panic .finishIncomplete := by decide
  exact hall _ _ (w h)

/-- Witness F16 (C09's finding, reachable from the socket): a `\uD800` escape in a name. -/
theorem C11_reader_never_panics_fails_surrogate (h : unescSurrogatePanics = true) : ¬ C11_reader_never_panics := by
  intro hall
  have w : unescSurrogatePanics = true →
      peel "@event(node:\"\\ud800\",lane:a)".toList = .panic .charTryFrom := by decide
  exact hall _ _ (w h)

/-- What does hold: no frame produced by the writer panics the reader or is rejected by it. -/
theorem C11_reader_never_panics_partial (m : Msg) : (∀ c, peel (encode m) ≠ .panic c) ∧ peel (encode m) ≠ .err := by
  rw [C11_read_write_any_body]; exact ⟨by simp, by simp⟩

/-! ### non-vacuity: the hypotheses are met by awkward concrete names -/

example : BodyWF ⟨.command, "".toList, "true".toList, "@update(key:1) 10".toList⟩ := by decide
example : BodyWF ⟨.link, "a\"b\\c\n".toList, "😀 %20".toList, []⟩ := by decide
example : ¬ BodyWF ⟨.event, ['n'], ['l'], [' ', 'x']⟩ := by decide
example : ¬ BodyWF ⟨.link, ['n'], ['l'], ['x']⟩ := by decide
example : encode ⟨.event, "true".toList, "a b".toList, "1".toList⟩ = "@event(node:\"true\",lane:\"a b\") 1".toList := by
  decide
example : encode ⟨.link, "\u0001\"".toList, "x".toList, []⟩ = "@link(node:\"\\u0001\\\"\",lane:x)".toList := by decide
example : isIdentifier "true".toList = false ∧ isIdentifier "".toList = false ∧ isIdentifier "ℵ-1".toList = true := by
  decide

end SwimVerif.Envelope
