/-
C19 — Model values: equality, ordering and hashing are mutually coherent.
Quantifier: all inputs (pairs and triples of values).

Model: `Model/ValueOrd.lean` — `Value::compare` (12×12 cells), `PartialEq`, the hash key, `Attr`/`Item` order, exact
`f64` — the code AS IT IS. The laws are the Boolean predicates `lawRefl`, `lawAntisym`, `lawTrans`, `lawCmpEq`,
`lawEqSymm`, `lawEqTrans`, `lawEqHash` that the monitor applies to the answers of the implementation.

The model follows the code after the three `fix:` commits F13-negzero (both zeros hash alike), F13-data-order
(`Text`/`Record` vs `Data` answer `Greater`) and F13-inf-refl (`x == y ⇒ Equal` for floats).

The fragment `F` (`InF`): values whose leaves are `Extant`, `Boolean`, `Int32`, `Int64`, `UInt32`, `UInt64`, `BigInt`,
`BigUint`, `Text`, `Data`, with records over `F` nested to any depth (attributes, value items, slots); fixed-width
payloads in range (`Val.wf`). On `F` all laws are theorems (for ALL values: structural induction over `Val`/`Elems`).
For ALL well-formed values (floats included): reflexivity of `cmp` and `==`, and `== ⇒` equal hashes.
With a `Float64` somewhere the remaining laws are false of the current code (finding F13, behavioural choices:
integer-vs-float equality, EPSILON comparison, float truncation against big integers): the full statement is kept
as a `def` with `_fails` witnesses.
-/
import SwimVerif.Proofs.ValueOrd

set_option linter.unusedVariables false
namespace SwimVerif.ValueOrd

/-- The fragment `F`: well-formed, no `Float64` anywhere inside. -/
def InF (a : Val) : Prop := a.wf = true ∧ a.inF = true

instance (a : Val) : Decidable (InF a) := by unfold InF; infer_instance

/-! ## T1 + T2: total order, equivalence, hash coherence on `F` (records over `F` included) -/

/-- Antisymmetry / totality: `b.cmp(a)` is always the reverse of `a.cmp(b)`. -/
theorem C19_cmp_antisym (a b : Val) (ha : InF a) (hb : InF b) : lawAntisym (a.cmp b) (b.cmp a) = true := by
  simp [lawAntisym, swapV_all a ha b hb]

/-- Every value compares `Equal` to itself. -/
theorem C19_cmp_refl (a : Val) (ha : InF a) : lawRefl (a.cmp a) = true := by
  have h := swapV_all a ha a ha
  revert h
  cases a.cmp a <;> simp [lawRefl, Ordering.swap]

/-- Transitivity of `≤` and of `≥`, strict as soon as one of the two steps is strict. -/
theorem C19_cmp_trans (a b c : Val) (ha : InF a) (hb : InF b) (hc : InF c) :
    lawTrans (a.cmp b) (b.cmp c) (a.cmp c) = true :=
  transV_all a ha b c hb hc

/-- Any two values are comparable (`a ≤ b` or `b ≤ a`). -/
theorem C19_cmp_total (a b : Val) (ha : InF a) (hb : InF b) : a.cmp b ≠ .gt ∨ b.cmp a ≠ .gt := by
  rw [swapV_all a ha b hb]
  cases a.cmp b <;> simp [Ordering.swap]

/-- Two values compare as `Equal` exactly when they are `==`. -/
theorem C19_cmp_eq_iff_eq (a b : Val) (ha : InF a) (hb : InF b) : lawCmpEq (a.cmp b) (a.eq b) = true := by
  have h := cmpEqV_all a ha b hb
  unfold lawCmpEq
  cases h1 : a.cmp b <;> cases h2 : a.eq b <;> simp_all

theorem C19_eq_refl (a : Val) (ha : InF a) : a.eq a = true := by
  have h := C19_cmp_refl a ha
  have := (cmpEqV_all a ha a ha).1
  simp [lawRefl] at h
  exact this h

theorem C19_eq_symm (a b : Val) (ha : InF a) (hb : InF b) : lawEqSymm (a.eq b) (b.eq a) = true := by
  have h1 := cmpEqV_all a ha b hb
  have h2 := cmpEqV_all b hb a ha
  have h3 := swapV_all a ha b hb
  unfold lawEqSymm
  cases e1 : a.eq b <;> cases e2 : b.eq a <;> simp_all

theorem C19_eq_trans (a b c : Val) (ha : InF a) (hb : InF b) (hc : InF c) :
    lawEqTrans (a.eq b) (b.eq c) (a.eq c) = true := by
  have h1 := cmpEqV_all a ha b hb
  have h2 := cmpEqV_all b hb c hc
  have h3 := cmpEqV_all a ha c hc
  have ht := transV_all a ha b c hb hc
  unfold lawEqTrans
  cases e1 : a.eq b <;> cases e2 : b.eq c <;> cases e3 : a.eq c <;> simp_all [lawTrans]

/-- Equal values feed the same stream to the hasher. -/
theorem C19_eq_implies_hash_eq (a b : Val) (ha : InF a) (hb : InF b) : lawEqHash (a.eq b) (a.heq b) = true := by
  unfold lawEqHash Val.heq
  cases e : a.eq b
  · rfl
  · simp [hashV_all a ha b hb e]

/-- The same number in any two integer kinds: compared, equated and hashed as the number. -/
theorem C19_numbers_by_value (a b : Val) (ha : InF a) (hb : InF b) (n m : Int)
    (hn : view a = .num n) (hm : view b = .num m) :
    a.cmp b = cmpInt n m ∧ (a.eq b = true ↔ n = m) ∧ (n = m → a.hashKey = b.hashKey) := by
  refine ⟨?_, ?_, ?_⟩
  · rw [view_cmp a b ha hb, hn, hm]; rfl
  · rw [view_eq a b ha hb, hn, hm]; simp [viewEq]
  · intro h; rw [view_key a ha, view_key b hb, hn, hm, h]

/-- Keys in `F` sort deterministically (what `drop_or_take`'s `sort_by(|a, b| a.cmp(b))` relies on): the model's
`sortIdx` is a permutation of the input positions in ascending order with `Equal` keys in input order ... -/
theorem C19_sort_keys_sorted_stable (vs : List Val) (h : ∀ v ∈ vs, InF v) :
    (sortIdx vs).Perm (List.range vs.length) ∧ (sortIdx vs).Pairwise (Before vs) :=
  sort_fold vs h (List.range vs.length) List.pairwise_lt_range

/-- ... and it is the ONLY such arrangement: any stable sort of keys in `F` (whatever the algorithm) returns
exactly `sortIdx` — which is why the implementation's `sort_by` can be compared with the model literally. -/
theorem C19_sort_keys_unique (vs : List Val) (h : ∀ v ∈ vs, InF v) (l : List Nat)
    (hp : l.Perm (List.range vs.length)) (hs : l.Pairwise (Before vs)) : l = sortIdx vs := by
  have hm := C19_sort_keys_sorted_stable vs h
  exact List.Perm.eq_of_pairwise (fun a b _ _ hab hba => (before_asymm vs h a b hab hba).elim) hs hm.2
    (hp.trans hm.1.symm)

example : sortIdx [.u64 2, .i32 1, .bigint 2, .text [97], .extant] = [3, 1, 0, 2, 4] := by decide

example : InF (.record (.attr [97] (.i32 1) (.item (.u64 1) (.slot (.text [107]) (.bigint (-5)) .nil)))) := by decide
example : (Val.record (.item (.i32 1) .nil)).eq (.record (.item (.biguint 1) .nil)) = true := by decide
example : (Val.i32 (-1)).cmp (.u64 18446744073709551615) = .lt := by decide
example : view (.u32 7) = .num 7 ∧ view (.bigint 7) = .num 7 := ⟨rfl, rfl⟩

/-! ## For ALL well-formed values, floats included (after F13-negzero and F13-inf-refl) -/

/-- Every value compares `Equal` to itself (infinities included since `fix:` F13-inf-refl). -/
theorem C19_cmp_refl_all (a : Val) : lawRefl (a.cmp a) = true := by
  simp [lawRefl, (reflV_all a).1]

theorem C19_eq_refl_all (a : Val) : a.eq a = true := (reflV_all a).2

/-- Equal values feed the same stream to the hasher — for every well-formed value (`0.0`/`-0.0` included since
`fix:` F13-negzero; two `==` floats are both zero or have the same bits: `decode_feq_bits`). -/
theorem C19_eq_implies_hash_eq_all (a b : Val) (ha : a.wf = true) (hb : b.wf = true) :
    lawEqHash (a.eq b) (a.heq b) = true := by
  unfold lawEqHash Val.heq
  cases e : a.eq b
  · rfl
  · simp [hashAllV_all a ha b hb e]

/-! Regressions of the three repaired cells (corpus cases F13a, F13a', F13e, F13f, F13g). -/
example : (Val.data []).cmp (.record .nil) = .lt ∧ (Val.record .nil).cmp (.data []) = .gt := by decide
example : (Val.data []).cmp (.text [97]) = .lt ∧ (Val.text [97]).cmp (.data []) = .gt := by decide
example : (Val.f64 0).eq (.f64 0x8000000000000000) = true ∧ (Val.f64 0).heq (.f64 0x8000000000000000) = true := by
  decide +kernel
example : (Val.f64 0x7ff0000000000000).cmp (.f64 0x7ff0000000000000) = .eq := by decide +kernel
example : InF (.record (.item (.data [97]) .nil)) := by decide

/-! ## With a `Float64` the other laws are false of the current code (finding F13): full statement + witnesses -/

/-- The property as stated, for all well-formed values. FALSE today. -/
def C19_coherent_all_values : Prop :=
  ∀ a b c : Val, a.wf = true → b.wf = true → c.wf = true →
    lawRefl (a.cmp a) = true ∧ lawAntisym (a.cmp b) (b.cmp a) = true ∧
    lawTrans (a.cmp b) (b.cmp c) (a.cmp c) = true ∧ lawCmpEq (a.cmp b) (a.eq b) = true ∧
    lawEqHash (a.eq b) (a.heq b) = true

/-- F13b: `Int32 1` vs `Float64 1.0`: `cmp = Equal` but `==` is false (and the hashes differ). -/
theorem C19_cmp_eq_fails_int_float :
    (Val.i32 1).cmp (.f64 0x3ff0000000000000) = .eq ∧ (Val.i32 1).eq (.f64 0x3ff0000000000000) = false := by
  decide +kernel

/-- F13c: `BigInt 1` vs `Float64 1.5`: `Equal` one way (`1.5 as i64 = 1`), `Greater` the other. -/
theorem C19_antisym_fails_bigint_float :
    (Val.bigint 1).cmp (.f64 0x3ff8000000000000) = .eq ∧ (Val.f64 0x3ff8000000000000).cmp (.bigint 1) = .gt := by
  decide +kernel

/-- F13c': `BigInt -1` vs `NaN`: `Less` both ways (`NaN as i64 = 0`). -/
theorem C19_antisym_fails_bigint_nan :
    (Val.bigint (-1)).cmp (.f64 0x7ff8000000000000) = .lt ∧ (Val.f64 0x7ff8000000000000).cmp (.bigint (-1)) = .lt := by
  decide +kernel

/-- F13d: floats closer than `EPSILON` compare `Equal`: `0 ~ 1.5e-16 ~ 3e-16` but `0 < 3e-16`. -/
theorem C19_trans_fails_float_epsilon :
    (Val.f64 0).cmp (.f64 0x3ca59e05f1e2674d) = .eq ∧
    (Val.f64 0x3ca59e05f1e2674d).cmp (.f64 0x3cb59e05f1e2674d) = .eq ∧
    (Val.f64 0).cmp (.f64 0x3cb59e05f1e2674d) = .lt ∧
    (Val.f64 0).eq (.f64 0x3ca59e05f1e2674d) = false := by
  decide +kernel

/-- Found by this check: `n as f64` rounds: `Int64 2^53` and `Int64 2^53+1` are both `Equal` to `Float64 2^53`
yet differ from each other. -/
theorem C19_trans_fails_int64_rounding :
    (Val.i64 9007199254740992).cmp (.f64 0x4340000000000000) = .eq ∧
    (Val.f64 0x4340000000000000).cmp (.i64 9007199254740993) = .eq ∧
    (Val.i64 9007199254740992).cmp (.i64 9007199254740993) = .lt := by
  decide +kernel

theorem C19_coherent_all_values_fails : ¬ C19_coherent_all_values := by
  intro h
  have := (h (.i32 1) (.f64 0x3ff0000000000000) .extant (by decide) (by decide) (by decide)).2.2.2.1
  revert this
  decide +kernel

end SwimVerif.ValueOrd
