/-
C02 — map lanes: every subscriber's replica converges to the lane's map.
Two coalescing layers, each proved to preserve the fold for EVERY interleaving of operations and pops:
* runtime (`MapOperationQueue` inside `MapBackpressure`, specification level `mqPush`): `Proofs/MapQueue.lean`;
* agent (`EventQueue<K, ()>` + `to_operation`: key-only queue, value read when the event is written, specification
  level): `Proofs/AgentMapQueue.lean`.
The index bookkeeping (`head_epoch`, `epoch_map`, arithmetic mod 2^64) of both real queues is modelled faithfully in
`Model/EpochQueue.lean`; that it equals the specification queue is a theorem below (`C02_epoch_queue_*`, for every
run in which fewer than 2^64 - 1 entries are queued — with 2^64 entries the epochs of positions 0 and 2^64 collide), and
is additionally re-checked by the driver on every step of every generated stream (including `head_epoch` seeded just
below 2^64) and against the real queues.
-/
import SwimVerif.Proofs.AgentMapQueue
import SwimVerif.Model.EpochQueue
import SwimVerif.Model.MapLane
import SwimVerif.Proofs.EpochQueueRun
import SwimVerif.Proofs.MapLaneTakeDrop

set_option linter.unusedVariables false
namespace SwimVerif.WT
open SwimVerif

/-- **Runtime coalescing preserves the fold**: for every interleaving of pushes and pops (starting from any base
map), applying what has been popped and then what is still queued gives the map obtained by applying everything that
was pushed, in order. Hence a remote that applies what it receives holds, once the queue is empty, exactly the fold of
what the lane sent — however operations were coalesced while it was slow. -/
theorem C02_runtime_queue_preserves_fold (m : KMap) (ops : List MQOp) :
    applyAll m ((mqRun {} ops).popped ++ (mqRun {} ops).queue) = applyAll m (mqRun {} ops).pushed :=
  (mq_refines m ops {} wfq_nil rfl).2

theorem C02_runtime_converged_when_drained (m : KMap) (ops : List MQOp) (h : (mqRun {} ops).queue = []) :
    applyAll m (mqRun {} ops).popped = applyAll m (mqRun {} ops).pushed := by
  have := C02_runtime_queue_preserves_fold m ops
  rwa [h, List.append_nil] at this

/-- The queue keeps at most one operation per key, and a `clear` only at its head: a `clear` is never lost and never
overtaken by an older operation (everything queued behind it was pushed after it). -/
theorem C02_runtime_queue_shape (ops : List MQOp) : WFQ (mqRun {} ops).queue :=
  (mq_refines (fun _ => none) ops {} wfq_nil rfl).1

/-- **Agent coalescing converges**: for every interleaving of `update` / `remove` / `clear` (by command or handler)
and event writes, whenever the lane's event queue is empty an observer that applied every emitted event holds
exactly the lane's map. -/
theorem C02_agent_queue_converges (ops : List AOp) (h : (aRun {} ops).queue = []) :
    (aRun {} ops).rep = (aRun {} ops).content :=
  ainv_quiescent (ainv_run ainv_init ops) h

/-- …and at every moment the observer's replica, corrected by the keys still queued, is the lane's map: a key that
is not queued is already right, a queued update refers to a key the lane holds, a queued remove to a key it lacks. -/
theorem C02_agent_queue_invariant (ops : List AOp) : AInv (aRun {} ops) := ainv_run ainv_init ops

/-- Pushing into the coalescing queue is, for whoever applies the result in order, the same as appending. -/
theorem C02_push_is_append_up_to_fold (m : KMap) (q : List MapOp) (op : MapOp) (h : WFQ q) :
    applyAll m (mqPush q op) = applyAll m (q ++ [op]) := applyAll_mqPush m q op h

/-! ### The indexed queue with wrapping 64-bit epochs refines the specification queue

`EQV.Q` (`events`, `head_epoch`, `epoch_map`, arithmetic mod 2^64) is the faithful model of both real queues; the
driver executes `invOk` and `events = spec` on every step. Here that is a theorem, for every run. The Boolean `invOk`
is equivalent to the Prop-level `EQV.Inv` (`Proofs/EpochQueue.lean`), in which the proofs are done. -/

/-- the executable index invariant (run by the driver) is the Prop-level one used in the proofs -/
theorem C02_epoch_queue_invOk_iff_inv (q : EQV.Q) : q.invOk = true ↔ EQV.Inv q := EQV.invOk_iff_inv q

/-- the index bookkeeping with wrapping epochs implements the specification queue: `push` -/
theorem C02_epoch_queue_refines_spec :
    ∀ (q : EQV.Q) (a : EQV.Entry), q.invOk = true → q.events.length + 1 < EQV.M64 →
      (q.push a).events = EQV.specPush q.events a ∧ (q.push a).invOk = true := by
  intro q a h hlen
  have := EQV.push_refines ((EQV.invOk_iff_inv q).mp h) (by omega) a
  exact ⟨this.1, (EQV.invOk_iff_inv _).mpr this.2⟩

/-- the empty queue satisfies the index invariant whatever `head_epoch` it starts from (in particular just below
2^64, as the hook constructor seeds it) -/
theorem C02_epoch_queue_empty_inv (h : Nat) (hh : h < EQV.M64) : ({ head := h } : EQV.Q).invOk = true :=
  (EQV.invOk_iff_inv _).mpr (EQV.inv_empty hh)

/-- `pop` returns the head of the specification queue, leaves its tail, and preserves the index invariant — also
when `head_epoch` wraps from 2^64 - 1 to 0 -/
theorem C02_epoch_queue_pop_refines (q : EQV.Q) (h : q.invOk = true) (hlen : q.events.length ≤ EQV.M64) :
    q.pop.1 = q.events.head? ∧ q.pop.2.events = q.events.tail ∧ q.pop.2.invOk = true := by
  have := EQV.pop_refines ((EQV.invOk_iff_inv q).mp h) hlen
  exact ⟨this.1, this.2.1, (EQV.invOk_iff_inv _).mpr this.2.2⟩

/-- **Refinement along every run.** From the empty queue with any `head_epoch < 2^64`, after every prefix of every
sequence of `push` / `pop` during which the (specification) queue never holds 2^64 - 1 entries, the index invariant
holds, the indexed queue holds exactly the specification queue, and the next `pop` would return the head of the
specification queue. -/
theorem C02_epoch_queue_run_refines (h : Nat) (hh : h < EQV.M64) (ops : List EQV.Op)
    (hb : ∀ n, (EQV.specRun [] (ops.take n)).length + 1 < EQV.M64) (m : Nat) :
    (EQV.runQ { head := h } (ops.take m)).invOk = true ∧
    (EQV.runQ { head := h } (ops.take m)).events = EQV.specRun [] (ops.take m) ∧
    (EQV.runQ { head := h } (ops.take m)).pop.1 = (EQV.specRun [] (ops.take m)).head? := by
  have := EQV.run_refines (ops.take m) { head := h } (EQV.inv_empty hh) (by
    intro n; rw [List.take_take]; exact hb _)
  refine ⟨(EQV.invOk_iff_inv _).mpr this.1, this.2, ?_⟩
  rw [EQV.pop_fst, this.2]

/-- a purely syntactic sufficient bound: fewer than 2^64 - 1 operations -/
theorem C02_epoch_queue_run_refines_short (h : Nat) (hh : h < EQV.M64) (ops : List EQV.Op)
    (hlen : ops.length + 1 < EQV.M64) :
    (EQV.runQ { head := h } ops).invOk = true ∧ (EQV.runQ { head := h } ops).events = EQV.specRun [] ops := by
  have := EQV.run_refines_of_short ops { head := h } (EQV.inv_empty hh) (by simpa using hlen)
  exact ⟨(EQV.invOk_iff_inv _).mpr this.1, this.2⟩

/-! ### Map lane `Drop(n)` / `Take(n)` -/

/-- the lane's map stays strictly sorted by key along every run (the order `sync` and take/drop use) -/
theorem C02_map_sorted (ops : List ML.Op) : ML.Sorted (ML.run {} ops).content :=
  ML.sorted_run ops {} ML.sorted_nil

/-- take / drop remove exactly the keys designated by the key order -/
theorem C02_take_drop_spec :
    ∀ (ops : List ML.Op) (n : Nat),
      (ML.step (ML.run {} ops) (.dropFirst n)).1.content = (ML.run {} ops).content.drop n ∧
      (ML.step (ML.run {} ops) (.takeFirst n)).1.content = (ML.run {} ops).content.take n :=
  fun ops n => ⟨ML.dropFirst_content _ n (C02_map_sorted ops), ML.takeFirst_content _ n (C02_map_sorted ops)⟩

/-! Non-vacuity -/
example : (mqRun {} [.push (.upd 1 [1]), .push (.upd 2 [2]), .push (.upd 1 [3]), .pop]).popped = [.upd 1 [3]] := by
  decide
example : (mqRun {} [.push (.upd 1 [1]), .push .clear, .push (.upd 2 [2])]).queue = [.clear, .upd 2 [2]] := by decide
example : (aRun {} [.update 1 [1], .update 1 [2], .remove 1, .pop]).queue = [] := by decide


/-! non-vacuity of the epoch-queue theorems: a queue seeded just below 2^64 whose epochs wrap -/
def exQ : EQV.Q := (({ head := EQV.M64 - 1 } : EQV.Q).push (.upd 1 10)).push (.upd 2 20)
example : exQ.invOk = true ∧ exQ.events.length + 1 < EQV.M64 ∧ exQ.events.length ≤ EQV.M64 := by decide
example : exQ.emap = [(1, EQV.M64 - 1), (2, 0)] := by decide
example : (exQ.push (.upd 2 21)).events = [.upd 1 10, .upd 2 21] ∧ exQ.pop.2.head = 0 ∧
    (exQ.pop.2.push (.upd 2 22)).events = [.upd 2 22] := by decide
example : EQV.specRun [] [.push (.upd 1 1), .push (.upd 2 2), .push (.upd 1 3), .pop, .push .clear] = [.clear] := by
  decide
/-- take / drop on a non-trivial map -/
example : (ML.run {} [.update 5 1, .update 2 1, .update 9 1, .update 2 7]).content = [(2, 7), (5, 1), (9, 1)] ∧
    (ML.step (ML.run {} [.update 5 1, .update 2 1, .update 9 1]) (.dropFirst 2)).1.content = [(9, 1)] ∧
    (ML.step (ML.run {} [.update 5 1, .update 2 1, .update 9 1]) (.takeFirst 2)).1.content = [(2, 1), (5, 1)] := by
  decide

end SwimVerif.WT
