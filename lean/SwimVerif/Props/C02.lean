/-
C02 — map lanes: every subscriber's replica converges to the lane's map.
Two coalescing layers, each proved to preserve the fold for EVERY interleaving of operations and pops:
* runtime (`MapOperationQueue` inside `MapBackpressure`, specification level `mqPush`): `Proofs/MapQueue.lean`;
* agent (`EventQueue<K, ()>` + `to_operation`: key-only queue, value read when the event is written, specification
  level): `Proofs/AgentMapQueue.lean`.
The index bookkeeping (`head_epoch`, `epoch_map`, arithmetic mod 2^64) of both real queues is modelled faithfully in
`Model/EpochQueue.lean`; that it equals the specification queue is a theorem below (`C02_epoch_queue_*`, for every
run in which fewer than 2^64 - 1 entries are queued — with 2^64 entries the epochs of positions 0 and 2^64 collide), and
is additionally re-checked by the driver on every step of every generated stream (including `head_epoch` seeded just
below 2^64) and against the real queues.
-/
import SwimVerif.Proofs.AgentMapQueue
import SwimVerif.Model.EpochQueue
import SwimVerif.Model.MapLane
import SwimVerif.Proofs.EpochQueueRun
import SwimVerif.Proofs.MapLaneTakeDrop
import SwimVerif.Proofs.MapCompose
import SwimVerif.Proofs.EpochQueueCompose
import SwimVerif.Proofs.MapLaneAgent

set_option linter.unusedVariables false
namespace SwimVerif.WT
open SwimVerif

/-- **Runtime coalescing preserves the fold**: for every interleaving of pushes and pops (starting from any base
map), applying what has been popped and then what is still queued gives the map obtained by applying everything that
was pushed, in order. Hence a remote that applies what it receives holds, once the queue is empty, exactly the fold of
what the lane sent — however operations were coalesced while it was slow. -/
theorem C02_runtime_queue_preserves_fold (m : KMap) (ops : List MQOp) :
    applyAll m ((mqRun {} ops).popped ++ (mqRun {} ops).queue) = applyAll m (mqRun {} ops).pushed :=
  (mq_refines m ops {} wfq_nil rfl).2

theorem C02_runtime_converged_when_drained (m : KMap) (ops : List MQOp) (h : (mqRun {} ops).queue = []) :
    applyAll m (mqRun {} ops).popped = applyAll m (mqRun {} ops).pushed := by
  have := C02_runtime_queue_preserves_fold m ops
  rwa [h, List.append_nil] at this

/-- The queue keeps at most one operation per key, and a `clear` only at its head: a `clear` is never lost and never
overtaken by an older operation (everything queued behind it was pushed after it). -/
theorem C02_runtime_queue_shape (ops : List MQOp) : WFQ (mqRun {} ops).queue :=
  (mq_refines (fun _ => none) ops {} wfq_nil rfl).1

/-- **Agent coalescing converges**: for every interleaving of `update` / `remove` / `clear` (by command or handler)
and event writes, whenever the lane's event queue is empty an observer that applied every emitted event holds
exactly the lane's map. -/
theorem C02_agent_queue_converges (ops : List AOp) (h : (aRun {} ops).queue = []) :
    (aRun {} ops).rep = (aRun {} ops).content :=
  ainv_quiescent (ainv_run ainv_init ops) h

/-- …and at every moment the observer's replica, corrected by the keys still queued, is the lane's map: a key that
is not queued is already right, a queued update refers to a key the lane holds, a queued remove to a key it lacks. -/
theorem C02_agent_queue_invariant (ops : List AOp) : AInv (aRun {} ops) := ainv_run ainv_init ops

/-- Pushing into the coalescing queue is, for whoever applies the result in order, the same as appending. -/
theorem C02_push_is_append_up_to_fold (m : KMap) (q : List MapOp) (op : MapOp) (h : WFQ q) :
    applyAll m (mqPush q op) = applyAll m (q ++ [op]) := applyAll_mqPush m q op h

/-! ### The indexed queue with wrapping 64-bit epochs refines the specification queue

`EQV.Q` (`events`, `head_epoch`, `epoch_map`, arithmetic mod 2^64) is the faithful model of both real queues; the
driver executes `invOk` and `events = spec` on every step. Here that is a theorem, for every run. The Boolean `invOk`
is equivalent to the Prop-level `EQV.Inv` (`Proofs/EpochQueue.lean`), in which the proofs are done. -/

/-- the executable index invariant (run by the driver) is the Prop-level one used in the proofs -/
theorem C02_epoch_queue_invOk_iff_inv (q : EQV.Q) : q.invOk = true ↔ EQV.Inv q := EQV.invOk_iff_inv q

/-- the index bookkeeping with wrapping epochs implements the specification queue: `push` -/
theorem C02_epoch_queue_refines_spec :
    ∀ (q : EQV.Q) (a : EQV.Entry), q.invOk = true → q.events.length + 1 < EQV.M64 →
      (q.push a).events = EQV.specPush q.events a ∧ (q.push a).invOk = true := by
  intro q a h hlen
  have := EQV.push_refines ((EQV.invOk_iff_inv q).mp h) (by omega) a
  exact ⟨this.1, (EQV.invOk_iff_inv _).mpr this.2⟩

/-- the empty queue satisfies the index invariant whatever `head_epoch` it starts from (in particular just below
2^64, as the hook constructor seeds it) -/
theorem C02_epoch_queue_empty_inv (h : Nat) (hh : h < EQV.M64) : ({ head := h } : EQV.Q).invOk = true :=
  (EQV.invOk_iff_inv _).mpr (EQV.inv_empty hh)

/-- `pop` returns the head of the specification queue, leaves its tail, and preserves the index invariant — also
when `head_epoch` wraps from 2^64 - 1 to 0 -/
theorem C02_epoch_queue_pop_refines (q : EQV.Q) (h : q.invOk = true) (hlen : q.events.length ≤ EQV.M64) :
    q.pop.1 = q.events.head? ∧ q.pop.2.events = q.events.tail ∧ q.pop.2.invOk = true := by
  have := EQV.pop_refines ((EQV.invOk_iff_inv q).mp h) hlen
  exact ⟨this.1, this.2.1, (EQV.invOk_iff_inv _).mpr this.2.2⟩

/-- **Refinement along every run.** From the empty queue with any `head_epoch < 2^64`, after every prefix of every
sequence of `push` / `pop` during which the (specification) queue never holds 2^64 - 1 entries, the index invariant
holds, the indexed queue holds exactly the specification queue, and the next `pop` would return the head of the
specification queue. -/
theorem C02_epoch_queue_run_refines (h : Nat) (hh : h < EQV.M64) (ops : List EQV.Op)
    (hb : ∀ n, (EQV.specRun [] (ops.take n)).length + 1 < EQV.M64) (m : Nat) :
    (EQV.runQ { head := h } (ops.take m)).invOk = true ∧
    (EQV.runQ { head := h } (ops.take m)).events = EQV.specRun [] (ops.take m) ∧
    (EQV.runQ { head := h } (ops.take m)).pop.1 = (EQV.specRun [] (ops.take m)).head? := by
  have := EQV.run_refines (ops.take m) { head := h } (EQV.inv_empty hh) (by
    intro n; rw [List.take_take]; exact hb _)
  refine ⟨(EQV.invOk_iff_inv _).mpr this.1, this.2, ?_⟩
  rw [EQV.pop_fst, this.2]

/-- a purely syntactic sufficient bound: fewer than 2^64 - 1 operations -/
theorem C02_epoch_queue_run_refines_short (h : Nat) (hh : h < EQV.M64) (ops : List EQV.Op)
    (hlen : ops.length + 1 < EQV.M64) :
    (EQV.runQ { head := h } ops).invOk = true ∧ (EQV.runQ { head := h } ops).events = EQV.specRun [] ops := by
  have := EQV.run_refines_of_short ops { head := h } (EQV.inv_empty hh) (by simpa using hlen)
  exact ⟨(EQV.invOk_iff_inv _).mpr this.1, this.2⟩

/-! ### Map lane `Drop(n)` / `Take(n)` -/

/-- the lane's map stays strictly sorted by key along every run (the order `sync` and take/drop use) -/
theorem C02_map_sorted (ops : List ML.Op) : ML.KeySorted (ML.run {} ops).content :=
  ML.keySorted_run ops {} ML.keySorted_nil

/-- take / drop remove exactly the keys designated by the key order -/
theorem C02_take_drop_spec :
    ∀ (ops : List ML.Op) (n : Nat),
      (ML.step (ML.run {} ops) (.dropFirst n)).1.content = (ML.run {} ops).content.drop n ∧
      (ML.step (ML.run {} ops) (.takeFirst n)).1.content = (ML.run {} ops).content.take n :=
  fun ops n => ⟨ML.dropFirst_content _ n (C02_map_sorted ops), ML.takeFirst_content _ n (C02_map_sorted ops)⟩

/-! ### Second tier: per-key sampling, both indexed queues against the specification queue, composition -/

/-- **Per-key sampling (runtime queue)**: for every key `k` and every interleaving of pushes and pops, the operations
that concern `k` (updates / removes of `k`, and every `clear`) that were popped, followed by those still queued, are a
sub-sequence of those pushed: nothing is duplicated, reordered or invented; only superseded operations are skipped.
With `C02_runtime_queue_preserves_fold` (the final state is never skipped) the values a remote sees for `k` are a
monotone sampling of `k`'s history. -/
theorem C02_runtime_per_key_sampled (ops : List MQOp) (k : Nat) :
    ((mqRun {} ops).popped.filter (touches k) ++ (mqRun {} ops).queue.filter (touches k)).Sublist
      ((mqRun {} ops).pushed.filter (touches k)) :=
  sampled_run k ops {} wfq_nil (sampled_init k)

/-- **The runtime's indexed queue is the specification queue**: the faithful model of `MapOperationQueue` (wrapping
epochs, any initial `head_epoch`), together with everything pushed into it and popped from it, is — entry for entry —
the specification system `mqRun` on which the convergence theorems are proved. -/
theorem C02_runtime_indexed_queue_refines (h : Nat) (hh : h < EQV.M64) (ops : List EQV.Op)
    (hb : ∀ n, (EQV.specRun [] (ops.take n)).length + 1 < EQV.M64) :
    EQV.abs EQV.entryOp (EQV.sysRun { q := { head := h } } ops) = mqRun {} (ops.map (EQV.opMap EQV.entryOp)) :=
  EQV.sys_run_refines EQV.entryOp EQV.entryOp_key rfl ops { q := { head := h } } (EQV.inv_empty hh) hb

/-- …hence the indexed runtime queue itself preserves the fold and samples every key monotonically. -/
theorem C02_runtime_indexed_queue_preserves_fold (h : Nat) (hh : h < EQV.M64) (ops : List EQV.Op)
    (hb : ∀ n, (EQV.specRun [] (ops.take n)).length + 1 < EQV.M64) (m : KMap) (k : Nat) :
    let s := EQV.sysRun { q := { head := h } } ops
    applyAll m (s.popped.map EQV.entryOp ++ s.q.events.map EQV.entryOp) = applyAll m (s.pushed.map EQV.entryOp) ∧
    ((s.popped.map EQV.entryOp).filter (touches k) ++ (s.q.events.map EQV.entryOp).filter (touches k)).Sublist
      ((s.pushed.map EQV.entryOp).filter (touches k)) := by
  intro s
  have hr := C02_runtime_indexed_queue_refines h hh ops hb
  have h1 := C02_runtime_queue_preserves_fold m (ops.map (EQV.opMap EQV.entryOp))
  have h2 := C02_runtime_per_key_sampled (ops.map (EQV.opMap EQV.entryOp)) k
  rw [← hr] at h1 h2
  exact ⟨h1, h2⟩

/-- **The agent's indexed event queue is the specification queue** on key-only operations (`EventQueue<K, ()>` as
modelled inside `Model/MapLane.lean`), for every run of fewer than 2^64 - 1 operations. -/
theorem C02_agent_indexed_queue_refines (ops : List ML.EQOp) (hlen : ops.length + 1 < EQV.M64) :
    ML.absA (ML.eqRun {} ops) = mqRun {} (ops.map ML.opA) := ML.agent_run_refines ops hlen

/-- **Composition of the two layers**: the agent's key-only event queue (values read when an event is written)
feeding the runtime's per-remote operation queue feeding the remote. For every interleaving of lane operations, event
writes and deliveries: whenever both queues are empty, the remote's replica is the lane's map. -/
theorem C02_compose (ops : List COp) (ha : (cRun {} ops).a.queue = []) (hr : (cRun {} ops).rt.queue = []) :
    (cRun {} ops).remote = (cRun {} ops).a.content :=
  cinv_converged (cinv_run ops {} cinv_init) ha hr

/-- …in between, the remote brought up to date with what the runtime still holds for it is the agent-side observer's
replica (which `C02_agent_queue_invariant` relates to the lane's map), and what the remote has received about any key
is a sub-sequence of what the agent emitted about it. -/
theorem C02_compose_invariant (ops : List COp) (k : Nat) :
    applyAll (cRun {} ops).remote (cRun {} ops).rt.queue = (cRun {} ops).a.rep ∧ AInv (cRun {} ops).a ∧
    ((cRun {} ops).rt.popped.filter (touches k) ++ (cRun {} ops).rt.queue.filter (touches k)).Sublist
      ((cRun {} ops).rt.pushed.filter (touches k)) :=
  ⟨cinv_remote_catches_up (cinv_run ops {} cinv_init), (cinv_run ops {} cinv_init).agent,
   csampled_run k ops {} cinv_init (sampled_init k)⟩

/-- what the agent emits is current: an emitted update carries the value the lane holds for the key at that moment,
and a remove is emitted only while the lane's map lacks the key -/
theorem C02_agent_emits_current (ops : List AOp) (k : Nat) :
    (∀ v, emitOf (aRun {} ops) = some (.upd k v) → (aRun {} ops).content k = some v) ∧
    (emitOf (aRun {} ops) = some (.rem k) → (aRun {} ops).content k = none) :=
  ⟨fun v h => emitOf_upd_current h, fun h => emitOf_rem_absent (C02_agent_queue_invariant ops) h⟩

/-- **The lane model refines the specification agent.** For the faithful lane model of `Model/MapLane.lean` (sorted
map, indexed event queue with wrapping epochs, `WriteQueues::pop` with the event/sync alternation and pending sync
requests, the loop skipping vanished keys, take/drop) and every run in which queue and map stay below 2^64 - 1 entries:
the abstraction (map, key-only queue, fold of the standard events written so far) satisfies the agent invariant
`AInv` of `C02_agent_queue_invariant` — sync traffic never disturbs it. -/
theorem C02_lane_refines_agent (ops : List ML.Op) (hb : ∀ n, ML.Small (ML.run {} (ops.take n))) :
    AInv (ML.absL (ML.run {} ops) (applyAll emptyMap (ML.opsOf (ML.framesOf {} ops)))) :=
  (ML.linv_run ops {} emptyMap ML.linv_init hb).agent

/-- **…hence the lane model converges**: whenever its event queue is empty, an observer that applied every standard
event the lane wrote holds exactly the lane's map. -/
theorem C02_lane_converges (ops : List ML.Op) (hb : ∀ n, ML.Small (ML.run {} (ops.take n)))
    (hq : (ML.run {} ops).wq.eq.events = []) :
    applyAll emptyMap (ML.opsOf (ML.framesOf {} ops)) = ML.absContent (ML.run {} ops).content :=
  ML.lane_converges ops hb hq

/-! Non-vacuity -/
example : (mqRun {} [.push (.upd 1 [1]), .push (.upd 2 [2]), .push (.upd 1 [3]), .pop]).popped = [.upd 1 [3]] := by
  decide
example : (mqRun {} [.push (.upd 1 [1]), .push .clear, .push (.upd 2 [2])]).queue = [.clear, .upd 2 [2]] := by decide
example : (aRun {} [.update 1 [1], .update 1 [2], .remove 1, .pop]).queue = [] := by decide


/-! non-vacuity of the epoch-queue theorems: a queue seeded just below 2^64 whose epochs wrap -/
def exQ : EQV.Q := (({ head := EQV.M64 - 1 } : EQV.Q).push (.upd 1 10)).push (.upd 2 20)
example : exQ.invOk = true ∧ exQ.events.length + 1 < EQV.M64 ∧ exQ.events.length ≤ EQV.M64 := by decide
example : exQ.emap = [(1, EQV.M64 - 1), (2, 0)] := by decide
example : (exQ.push (.upd 2 21)).events = [.upd 1 10, .upd 2 21] ∧ exQ.pop.2.head = 0 ∧
    (exQ.pop.2.push (.upd 2 22)).events = [.upd 2 22] := by decide
example : EQV.specRun [] [.push (.upd 1 1), .push (.upd 2 2), .push (.upd 1 3), .pop, .push .clear] = [.clear] := by
  decide
example : EQV.abs EQV.entryOp (EQV.sysRun { q := { head := EQV.M64 - 1 } }
      [.push (.upd 1 1), .push (.upd 2 2), .push (.upd 1 3), .pop]) =
    { queue := [.upd 2 [2]], pushed := [.upd 1 [1], .upd 2 [2], .upd 1 [3]], popped := [.upd 1 [3]] } := by rfl
example : ML.absA (ML.eqRun {} [.push (.upd 1), .push (.upd 2), .push (.rem 1), .pop]) =
    { queue := [.upd 2 []], pushed := [.upd 1 [], .upd 2 [], .rem 1], popped := [.rem 1] } := by rfl
/-- compose: update, emit, update again (coalesced in the runtime queue), emit, deliver -/
example : (cRun {} [.lane (.update 1 [1]), .lane .pop, .lane (.update 1 [2]), .lane .pop, .deliver]).rt.popped =
      [.upd 1 [2]] ∧
    (cRun {} [.lane (.update 1 [1]), .lane .pop, .lane (.update 1 [2]), .lane .pop, .deliver]).rt.queue = [] ∧
    (cRun {} [.lane (.update 1 [1]), .lane .pop, .lane (.update 1 [2]), .lane .pop, .deliver]).a.queue = [] := by decide
example : emitOf (aRun {} [.update 1 [1], .update 1 [2]]) = some (.upd 1 [2]) := by decide
/-- lane run with a coalesced update, a sync request in between, a drop and a vanished key -/
def exLane : List ML.Op :=
  [.update 5 1, .update 2 1, .update 5 3, .sync 7, .write, .write, .write, .write, .write, .dropFirst 1, .update 9 4,
   .remove 9, .write, .write, .write]
example : (∀ n, ML.Small (ML.run {} (exLane.take n))) ∧ (ML.run {} exLane).wq.eq.events = [] ∧
    ML.framesOf {} exLane = [.upd 5 3, .sync 7 2 1, .upd 2 1, .synced 7, .rem 2, .rem 9] ∧
    (ML.run {} exLane).content = [(5, 3)] :=
  ⟨ML.small_prefixes exLane (by decide), by decide, by decide, by decide⟩
/-- take / drop on a non-trivial map -/
example : (ML.run {} [.update 5 1, .update 2 1, .update 9 1, .update 2 7]).content = [(2, 7), (5, 1), (9, 1)] ∧
    (ML.step (ML.run {} [.update 5 1, .update 2 1, .update 9 1]) (.dropFirst 2)).1.content = [(9, 1)] ∧
    (ML.step (ML.run {} [.update 5 1, .update 2 1, .update 9 1]) (.takeFirst 2)).1.content = [(2, 1), (5, 1)] := by
  decide

end SwimVerif.WT
