/-
C02 — map lanes: every subscriber's replica converges to the lane's map.
Two coalescing layers, each proved to preserve the fold for EVERY interleaving of operations and pops:
* runtime (`MapOperationQueue` inside `MapBackpressure`, specification level `mqPush`): `Proofs/MapQueue.lean`;
* agent (`EventQueue<K, ()>` + `to_operation`: key-only queue, value read when the event is written, specification
  level): `Proofs/AgentMapQueue.lean`.
The index bookkeeping (`head_epoch`, `epoch_map`, arithmetic mod 2^64) of both real queues is modelled faithfully in
`Model/EpochQueue.lean`; that it equals the specification queue is re-checked by the driver on every step of every
generated stream (including `head_epoch` seeded just below 2^64) and against the real queues; as a theorem it is
kept open below.
-/
import SwimVerif.Proofs.AgentMapQueue
import SwimVerif.Model.EpochQueue
import SwimVerif.Model.MapLane

set_option linter.unusedVariables false
namespace SwimVerif.WT

/-- **Runtime coalescing preserves the fold**: for every interleaving of pushes and pops (starting from any base
map), applying what has been popped and then what is still queued gives the map obtained by applying everything that
was pushed, in order. Hence a remote that applies what it receives holds, once the queue is empty, exactly the fold of
what the lane sent — however operations were coalesced while it was slow. -/
theorem C02_runtime_queue_preserves_fold (m : KMap) (ops : List MQOp) :
    applyAll m ((mqRun {} ops).popped ++ (mqRun {} ops).queue) = applyAll m (mqRun {} ops).pushed :=
  (mq_refines m ops {} wfq_nil rfl).2

theorem C02_runtime_converged_when_drained (m : KMap) (ops : List MQOp) (h : (mqRun {} ops).queue = []) :
    applyAll m (mqRun {} ops).popped = applyAll m (mqRun {} ops).pushed := by
  have := C02_runtime_queue_preserves_fold m ops
  rwa [h, List.append_nil] at this

/-- The queue keeps at most one operation per key, and a `clear` only at its head: a `clear` is never lost and never
overtaken by an older operation (everything queued behind it was pushed after it). -/
theorem C02_runtime_queue_shape (ops : List MQOp) : WFQ (mqRun {} ops).queue :=
  (mq_refines (fun _ => none) ops {} wfq_nil rfl).1

/-- **Agent coalescing converges**: for every interleaving of `update` / `remove` / `clear` (by command or handler)
and event writes, whenever the lane's event queue is empty an observer that applied every emitted event holds
exactly the lane's map. -/
theorem C02_agent_queue_converges (ops : List AOp) (h : (aRun {} ops).queue = []) :
    (aRun {} ops).rep = (aRun {} ops).content :=
  ainv_quiescent (ainv_run ainv_init ops) h

/-- …and at every moment the observer's replica, corrected by the keys still queued, is the lane's map: a key that
is not queued is already right, a queued update refers to a key the lane holds, a queued remove to a key it lacks. -/
theorem C02_agent_queue_invariant (ops : List AOp) : AInv (aRun {} ops) := ainv_run ainv_init ops

/-- Pushing into the coalescing queue is, for whoever applies the result in order, the same as appending. -/
theorem C02_push_is_append_up_to_fold (m : KMap) (q : List MapOp) (op : MapOp) (h : WFQ q) :
    applyAll m (mqPush q op) = applyAll m (q ++ [op]) := applyAll_mqPush m q op h

/-! Open statements (tied by correspondence + monitors) -/

/-- the index bookkeeping with wrapping epochs implements the specification queue -/
def C02_epoch_queue_refines_spec_open : Prop :=
  ∀ (q : EQV.Q) (a : EQV.Entry), q.invOk = true → q.events.length + 1 < EQV.M64 →
    (q.push a).events = EQV.specPush q.events a ∧ (q.push a).invOk = true

/-- take / drop remove exactly the keys designated by the key order, for both map backings -/
def C02_take_drop_spec_open : Prop :=
  ∀ (ops : List ML.Op) (n : Nat),
    (ML.step (ML.run {} ops) (.dropFirst n)).1.content = (ML.run {} ops).content.drop n ∧
    (ML.step (ML.run {} ops) (.takeFirst n)).1.content = (ML.run {} ops).content.take n

/-! Non-vacuity -/
example : (mqRun {} [.push (.upd 1 [1]), .push (.upd 2 [2]), .push (.upd 1 [3]), .pop]).popped = [.upd 1 [3]] := by
  decide
example : (mqRun {} [.push (.upd 1 [1]), .push .clear, .push (.upd 2 [2])]).queue = [.clear, .upd 2 [2]] := by decide
example : (aRun {} [.update 1 [1], .update 1 [2], .remove 1, .pop]).queue = [] := by decide

end SwimVerif.WT
