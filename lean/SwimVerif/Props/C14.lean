/-
C14 — supply lanes, command lanes and agent-sent commands are never coalesced.
Part 1 (this file, first block): the per-remote uplink queue for a SUPPLY lane — model `Model/WriteTask.lean`
(`SupplyBackpressure`, the supply branch of `replace_and_pop`), system `Model/UplinkSys.lean`. For every registry and
every interleaving of pushes (for any lanes of any kind), link messages and write completions in which lane `l` is a
supply lane that stays linked, the items sent for `l` are exactly the items pushed for `l`, once each, in order.
Part 2: the ad hoc command output `CommandOutput` (`Model/CommandOutput.lean`).
Part 3: the agent-side `SupplyLane` (`Model/SupplyLane.lean`) and its composition with part 1.
Part 4: the runtime's read task feeding command envelopes to the lanes (`Model/ReadFeed.lean`).
Part 5: the agent task serving a command lane (`on_command`) and a supply lane (`Model/CommandLane.lean`).
-/
import SwimVerif.Proofs.SupplyFifo
import SwimVerif.Proofs.CommandOutput
import SwimVerif.Proofs.SupplyLane
import SwimVerif.Proofs.SupplyCompose
import SwimVerif.Proofs.ReadFeed
import SwimVerif.Proofs.CommandLane
import SwimVerif.Proofs.AgentCommands

set_option linter.unusedVariables false
namespace SwimVerif.WT

/-- **Supply items: exactly once, in push order.** Whatever has been sent (or is in flight) for the lane, followed
by what still waits in its buffer, is exactly the sequence of items pushed — nothing dropped, merged, duplicated or
reordered, however slow the remote is and whatever happens on other lanes. -/
theorem C14_supply_exactly_once_in_order (reg : Registry) (l : Nat) (ops : List UOp)
    (h : ∀ op, op ∈ ops → supplyOp l op) :
    bodiesFor l (urun reg {} ops).sent ++ bufSupply (urun reg {} ops).up l = pushedBodies l (urun reg {} ops).pushed :=
  (sinv_run reg l ops {} uinv_init (sinv_init l) h).fifo

/-- …and once the remote has caught up (no write in flight) everything pushed has been delivered, in order. -/
theorem C14_supply_all_delivered_when_idle (reg : Registry) (l : Nat) (ops : List UOp)
    (h : ∀ op, op ∈ ops → supplyOp l op) (hidle : (urun reg {} ops).inflight = none) :
    bodiesFor l (urun reg {} ops).delivered = pushedBodies l (urun reg {} ops).pushed := by
  have hu := uinv_run reg uinv_init ops
  have hf := C14_supply_exactly_once_in_order reg l ops h
  have hb := bufs_empty_of_home hu (hu.w.mpr hidle) l
  rw [sent_eq, hidle, hb.2.1] at hf
  simpa [writeBodies] using hf

/-! Non-vacuity: a burst while the writer is busy. -/
example : bodiesFor 1 (urun [0, 1] {} [.push 1 (.supply [1]), .push 1 (.supply [2]), .push 1 (.supply [3]),
    .push 0 (.value [9]), .done, .done, .done, .done]).delivered = [.raw [1], .raw [2], .raw [3]] := by decide

end SwimVerif.WT

namespace SwimVerif.Cmd

/-- **Agent-sent commands: each forwarded once, in order per target; only an overwritable command may be superseded,
and only by the next command to the same target.** For every sequence of `append` / `write` / write-completion
steps on a `CommandOutput` and every target `t`: what has reached the channel, then what the write in flight
carries, then what is still pending in `t`'s buffer is a supersession (`Sup`) of the commands appended for `t`. -/
theorem C14_commands_flow_is_supersession (ops : List Op) (t : Nat) :
    Sup ((run {} ops).appendedFor t) ((run {} ops).flow t) :=
  ((invc_run invc_init ops).per t).sup

/-- A non-overwritable command is never dropped … -/
theorem C14_non_overwritable_never_dropped (ops : List Op) (t : Nat) (c : Cmd)
    (h : c ∈ (run {} ops).appendedFor t) (hn : c.overwrite = false) : c ∈ (run {} ops).flow t :=
  sup_keeps_non_overwritable (C14_commands_flow_is_supersession ops t) c h hn

/-- … nothing is invented, duplicated or reordered … -/
theorem C14_commands_in_order (ops : List Op) (t : Nat) :
    ((run {} ops).flow t).Sublist ((run {} ops).appendedFor t) :=
  sup_sublist (C14_commands_flow_is_supersession ops t)

/-- … and the newest command for a target always survives. -/
theorem C14_newest_command_survives (ops : List Op) (t : Nat) :
    ((run {} ops).appendedFor t).getLast? = ((run {} ops).flow t).getLast? :=
  sup_last (C14_commands_flow_is_supersession ops t)

/-- Regression for the defect repaired by the `fix:` (the multi-target branch re-sent the previous frame). -/
example : (run {} [.append 0 ⟨1, false⟩, .write, .append 0 ⟨2, false⟩, .append 1 ⟨3, false⟩, .done, .write,
    .done]).channel = [(0, ⟨1, false⟩), (0, ⟨2, false⟩), (1, ⟨3, false⟩)] := by decide
example : (run {} [.append 0 ⟨1, true⟩, .append 0 ⟨2, false⟩, .write, .done]).channel = [(0, ⟨2, false⟩)] := by decide

end SwimVerif.Cmd

/-! ## Part 3 — the supply lane inside the agent -/
namespace SwimVerif.Sup

/-- **Supply items leave the lane exactly once, in push order**, for every interleaving of `push`, `sync` and
`write_to_buffer` calls and every item type: the items written so far followed by the items still queued are exactly
the items pushed — nothing dropped, duplicated, merged or reordered. -/
theorem C14_supply_lane_exactly_once_in_order {α : Type} (ops : List (Op α)) :
    events (run {} ops).written ++ (run {} ops).lane.eventQ = (run {} ops).pushed :=
  (inv_run ops {} inv_init).fifo

/-- Sync requests are answered exactly once each, in request order … -/
theorem C14_supply_lane_syncs_answered_in_order {α : Type} (ops : List (Op α)) :
    synceds (run {} ops).written ++ (run {} ops).lane.syncQ = (run {} ops).requested :=
  (inv_run ops {} inv_init).syncs

/-- … by a bare `synced` (a supply lane has no value to send), before any queued item, leaving the items alone. -/
theorem C14_supply_lane_sync_is_bare_and_first {α : Type} (l : Lane α) (r : Nat) (rest : List Nat)
    (h : l.syncQ = r :: rest) : l.write.2.1 = some (.synced r) ∧ l.write.1.eventQ = l.eventQ :=
  write_sync_first l r rest h

/-- One call of `write_to_buffer` writes at most one frame, so `n` calls write at most `n` frames (no merging) … -/
theorem C14_supply_lane_one_frame_per_write {α : Type} (ops : List (Op α)) :
    (run {} ops).written.length ≤ writes ops := by
  simpa using written_le_writes ops ({} : St α)

/-- … with no sync pending it is the OLDEST queued item, alone … -/
theorem C14_supply_lane_writes_oldest {α : Type} (l : Lane α) (a : α) (rest : List α) (hs : l.syncQ = [])
    (h : l.eventQ = a :: rest) : l.write.2.1 = some (.event a) ∧ l.write.1.eventQ = rest :=
  write_oldest l a rest hs h

/-- … and the result is `Done` exactly when nothing is left (`DataStillAvailable` while more is queued: that is what
keeps the lane in the agent task's `dirty_items`). -/
theorem C14_supply_lane_result_truthful {α : Type} (l : Lane α) :
    (l.write.2.2 = .done ↔ l.write.1.eventQ = [] ∧ l.write.1.syncQ = []) := by
  rw [(write_spec l).2.2]; exact result_done_iff _

/-- Draining: after at least as many writes as there are queued requests and items, every item pushed has been
written, in order. -/
theorem C14_supply_lane_drains {α : Type} (ops : List (Op α)) (n : Nat)
    (hn : (run {} ops).lane.eventQ.length + (run {} ops).lane.syncQ.length ≤ n) :
    events (run {} (ops ++ List.replicate n .write)).written = (run {} ops).pushed := by
  have hrun : run ({} : St α) (ops ++ List.replicate n .write) = run (run {} ops) (List.replicate n .write) := by
    simp [run, List.foldl_append]
  have hi := inv_run (List.replicate n .write) (run {} ops) (inv_run ops {} inv_init)
  have hd := drain n (run {} ops) hn
  have hp := writes_keep_pushed n (run ({} : St α) ops)
  rw [hrun, ← hp, ← hi.fifo, hd.1, List.append_nil]

/-! Non-vacuity: a burst with a sync in the middle; one item per write. -/
example : (run ({} : St Nat) [.push 1, .push 2, .sync 7, .push 3, .write, .write, .write, .write]).written
    = [.synced 7, .event 1, .event 2, .event 3] := by decide
example : (run ({} : St Nat) [.push 1, .push 2, .write]).lastResult = some .dataStillAvailable := by decide

end SwimVerif.Sup

namespace SwimVerif.SupPath
open SwimVerif.WT

/-- **Supply items end to end, one remote linked throughout**: for every registry and every interleaving of handler
pushes, sync requests, agent writes, runtime reads of the lane, link messages, traffic on other lanes and write
completions: what was sent to the remote for the lane (or is in flight), then what waits in the remote's supply
buffer, then what is in the lane's channel, then what is still queued inside the lane — is exactly the sequence of
items supplied. -/
theorem C14_supply_end_to_end_exactly_once (reg : Registry) (l me : Nat) (ops : List Op)
    (h : ∀ op, op ∈ ops → okOp l op) :
    bodiesFor l (run reg l me {} ops).rt.sent ++ bufSupply (run reg l me {} ops).rt.up l ++
      (Sup.events (run reg l me {} ops).pipe ++ (run reg l me {} ops).lane.eventQ).map Body.raw
      = (run reg l me {} ops).pushed.map Body.raw := by
  have hi := inv_run reg l me ops {} (inv_init l) h
  rw [hi.r.fifo]; exact hi.flow

/-- At quiescence — lane queue empty, lane channel empty, no write in flight — everything supplied at the lane has
been delivered to the remote, once each, in order. -/
theorem C14_supply_end_to_end_delivered_at_quiescence (reg : Registry) (l me : Nat) (ops : List Op)
    (h : ∀ op, op ∈ ops → okOp l op)
    (hq : (run reg l me {} ops).lane.eventQ = []) (hp : (run reg l me {} ops).pipe = [])
    (hidle : (run reg l me {} ops).rt.inflight = none) :
    bodiesFor l (run reg l me {} ops).rt.delivered = (run reg l me {} ops).pushed.map Body.raw := by
  have hi := inv_run reg l me ops {} (inv_init l) h
  have hf := C14_supply_end_to_end_exactly_once reg l me ops h
  have hb := bufs_empty_of_home hi.u (hi.u.w.mpr hidle) l
  rw [sent_eq, hidle, hb.2.1, hq, hp] at hf
  simpa [writeBodies, Sup.events] using hf

/-! Non-vacuity: two items supplied while the remote's writer is busy with another lane. -/
example : bodiesFor 1 (run [0, 1] 1 9 {} [.rt (.push 0 (.value [5])), .push [1], .push [2], .write, .write, .forward,
    .forward, .rt .done, .rt .done, .rt .done]).rt.delivered = [.raw [1], .raw [2]] := by decide

end SwimVerif.SupPath

/-! ## Part 4 — the read task feeds command envelopes to the lanes -/
namespace SwimVerif.RF

/-- **Every lane is given exactly the requests the read task picked for it, in the order it picked them** — read by
the agent, then in the lane's channel, then in the sender's buffer — whatever the interleaving of remotes, lanes,
idle flushes and agent reads, with or without the immediate flush after `feed_frame`. Nothing merged, dropped,
duplicated or sent to another lane. -/
theorem C14_read_feed_lane_gets_what_was_picked (c : Cfg) (ops : List Op) (l : Nat)
    (hl : c.known.contains l = true) :
    (run c {} ops).laneStream l = reqsFor c l (run c {} ops).picked :=
  (inv_run c ops {} (inv_init c)).lane l hl

/-- **Per remote: exactly once, in the order sent.** The commands (and syncs) of remote `r` that lane `l` has been or
is about to be given, followed by those still waiting in `r`'s channel, are exactly what `r` sent for `l`. -/
theorem C14_read_feed_exactly_once_per_remote_in_order (c : Cfg) (ops : List Op) (r l : Nat)
    (hl : c.known.contains l = true) :
    fromRemote r ((run c {} ops).laneStream l) ++ reqsOfInbox c r l ((run c {} ops).inbox r)
      = reqsOfInbox c r l (msgsOf r (run c {} ops).sent) := by
  have hi := inv_run c ops {} (inv_init c)
  rw [hi.lane l hl, fromRemote_reqsFor, ← reqsOfInbox_append, hi.remote r]

/-- **The flush discipline**: at every point at most one lane's sender holds unflushed requests, and it is the lane
recorded in `needs_flush` — before another lane's sender is used the previous one has been flushed. -/
theorem C14_read_feed_one_unflushed_lane (c : Cfg) (ops : List Op) (l : Nat)
    (h : ((run c {} ops).sender l).buf ≠ []) : (run c {} ops).needsFlush = some l :=
  (inv_run c ops {} (inv_init c)).disc l h

/-- **Nothing is stranded**: once the read task goes idle every sender's buffer is empty, so with `r`'s channel
drained everything `r` sent for `l` has been read by the agent or sits in the lane's channel. -/
theorem C14_read_feed_all_forwarded_when_idle (c : Cfg) (ops : List Op) (r l : Nat)
    (hl : c.known.contains l = true) (hr : (run c {} (ops ++ [.idle])).inbox r = []) :
    fromRemote r (deliveredTo l (run c {} (ops ++ [.idle])).delivered ++ ((run c {} (ops ++ [.idle])).sender l).chan)
      = reqsOfInbox c r l (msgsOf r (run c {} (ops ++ [.idle])).sent) := by
  have hrun : run c {} (ops ++ [.idle]) = flushLane (run c {} ops) := by simp [run, List.foldl_append, step]
  have hb : ((run c {} (ops ++ [.idle])).sender l).buf = [] := by
    rw [hrun]; exact flushLane_buf (inv_run c ops {} (inv_init c)).disc l
  have h := C14_read_feed_exactly_once_per_remote_in_order c (ops ++ [.idle]) r l hl
  rw [hr] at h
  simpa [St.laneStream, hb, reqsOfInbox] using h

/-! Non-vacuity: two remotes and two lanes interleaved; the model without the immediate flush still delivers. -/
example : (run { known := [0, 1] } {} [.send 1 0 (.command 11), .send 2 1 (.command 21), .send 1 0 (.command 12),
    .pick 1, .pick 2, .pick 1, .idle]).laneStream 0 = [.command 1 11, .command 1 12] := by decide
example : ((run { known := [0, 1], eager := false } {} [.send 1 0 (.command 11), .send 2 1 (.command 21), .pick 1,
    .pick 2]).sender 0).chan = [.command 1 11] := by decide

end SwimVerif.RF

/-! ## Part 5 — the agent task: `on_command` and the supply lane -/
namespace SwimVerif.CL

/-- **The handler runs exactly once per command received, with that command's value, in the order received** — for
every user handler, every sequence of bodies (valid or not), sync requests, write completions and runtime reads:
the invocations are, in order, each validly decoded command followed by the command its handler sent to its own
lane (if any). A body that does not decode invokes nothing and does not disturb the lane. -/
theorem C14_command_handler_exactly_once_in_order (h : Handler) (evs : List Ev) :
    invoked (run h {} evs).trace = (validCmds (cmdBodies evs)).flatMap h.expand := by
  have hi := inv_run h evs {} (inv_init h)
  have hr := run_received h evs {}
  rw [hi.handler, hr]; rfl

/-- **Items supplied by handlers: exactly once, in order, to the runtime.** What the runtime has read from the supply
lane's channel, then what is in the channel, then the frame in flight, then the lane's queue = the items the handlers
supplied, which are those the received commands call for. -/
theorem C14_agent_supply_exactly_once_in_order (h : Handler) (evs : List Ev) :
    Sup.events ((run h {} evs).sup.taken ++ (run h {} evs).sup.out.chan ++ (run h {} evs).sup.out.inflight.toList)
      ++ (run h {} evs).sup.lane.eventQ = (validCmds (cmdBodies evs)).flatMap h.supplied := by
  have hi := inv_run h evs {} (inv_init h)
  have hr := run_received h evs {}
  rw [hi.pipe, hi.fifo, hi.supplied, hr]; rfl

/-- **No item is stranded in the lane**: queued work keeps the lane in `dirty_items`, and a dirty lane always has a
write in flight whose completion makes the loop write the next item. -/
theorem C14_agent_supply_never_stranded (h : Handler) (evs : List Ev)
    (hq : (run h {} evs).sup.lane.eventQ ≠ [] ∨ (run h {} evs).sup.lane.syncQ ≠ []) :
    (run h {} evs).sup.dirty = true ∧ (run h {} evs).sup.out.inflight.isSome = true := by
  have hi := inv_run h evs {} (inv_init h)
  exact ⟨hi.owed hq, hi.progress (hi.owed hq)⟩

/-- At quiescence (lane not dirty, nothing in flight or in the channel) the runtime has read every supplied item. -/
theorem C14_agent_supply_all_handed_over_at_quiescence (h : Handler) (evs : List Ev)
    (hd : (run h {} evs).sup.dirty = false) (hf : (run h {} evs).sup.out.inflight = none)
    (hc : (run h {} evs).sup.out.chan = []) :
    Sup.events (run h {} evs).sup.taken = (validCmds (cmdBodies evs)).flatMap h.supplied := by
  have hi := inv_run h evs {} (inv_init h)
  have he : (run h {} evs).sup.lane.eventQ = [] := by
    cases hx : (run h {} evs).sup.lane.eventQ with
    | nil => rfl
    | cons a r =>
      have := hi.owed (Or.inl (by simp [hx]))
      rw [hd] at this; exact absurd this (by simp)
  have := C14_agent_supply_exactly_once_in_order h evs
  rw [hf, hc, he] at this
  simpa using this

/-! Non-vacuity (the rig's lifecycle): a bad body between two commands; the second command makes its handler command
its own lane; the writer of the supply lane is away the whole time. -/
example : invoked (run rigHandler {} [.command .cmd (.ok 3), .command .cmd .bad, .command .cmd (.ok 5)]).trace
    = [3, 5, 6] := by decide
example : (run rigHandler {} [.command .cmd (.ok 3), .command .cmd (.ok 5)]).sup.lane.eventQ
    = [32, 33, 61, 62, 51] := by decide
example : (run rigHandler {} [.command .cmd (.ok 3), .writeDone .sup, .read .sup, .writeDone .sup]).sup.taken
    = [.event 31] := by decide

end SwimVerif.CL

/-! ## Commands end to end: remote → read task → lane channel → agent task → `on_command` -/
namespace SwimVerif.CmdPath
open SwimVerif.RF SwimVerif.CL

/-- the command bodies among the requests a lane received, with the (ghost) remote they came from -/
def cmdsOf : List Req → List (Nat × Nat)
  | [] => []
  | .command r b :: rest => (r, b) :: cmdsOf rest
  | .sync _ :: rest => cmdsOf rest

/-- **Every command envelope that reaches a command lane invokes the handler exactly once, with its value, in the
order each remote sent them.** Take any run of the read task (any remotes, lanes, interleaving) and any run of the agent
task whose command lane is fed exactly what the agent read from lane `l`'s channel (`dec` = the lane's decoder). Then
the handler invocations are, in order, the validly decoded bodies the agent read (each followed by the command its
handler sends itself, if any); and for every remote, what the agent read from it is a prefix of what it sent for the
lane — the rest is still on its way (`C14_read_feed_all_forwarded_when_idle`: it arrives). -/
theorem C14_command_lane_end_to_end (c : RF.Cfg) (ops : List RF.Op) (l : Nat) (hl : c.known.contains l = true)
    (h : Handler) (dec : Nat → Body) (evs : List Ev)
    (hfeed : cmdBodies evs = (cmdsOf (deliveredTo l (RF.run c {} ops).delivered)).map (fun p => dec p.2)) :
    invoked (CL.run h {} evs).trace =
        (validCmds ((cmdsOf (deliveredTo l (RF.run c {} ops).delivered)).map (fun p => dec p.2))).flatMap h.expand
      ∧ ∀ r, fromRemote r (deliveredTo l (RF.run c {} ops).delivered)
              <+: reqsOfInbox c r l (msgsOf r (RF.run c {} ops).sent) := by
  refine ⟨by rw [C14_command_handler_exactly_once_in_order, hfeed], fun r => ?_⟩
  have hx := C14_read_feed_exactly_once_per_remote_in_order c ops r l hl
  simp only [St.laneStream, fromRemote_append, List.append_assoc] at hx
  exact ⟨_, hx⟩

/-! Non-vacuity: remote 1 sends 3 then a body that does not decode then 5; remote 2 sends 4 in between. -/
example :
    let s := RF.run { known := [0] } {} [.send 1 0 (.command 3), .send 2 0 (.command 4), .send 1 0 (.command 0),
      .send 1 0 (.command 5), .pick 1, .pick 2, .pick 1, .pick 1, .idle, .take 0, .take 0, .take 0, .take 0]
    cmdsOf (deliveredTo 0 s.delivered) = [(1, 3), (2, 4), (1, 0), (1, 5)] := by decide
example : invoked (CL.run rigHandler {} [.command .cmd (.ok 3), .command .cmd (.ok 4), .command .cmd .bad,
    .command .cmd (.ok 5)]).trace = [3, 4, 5, 6] := by decide

end SwimVerif.CmdPath

/-! ## Part 6 — agent-sent commands inside the agent task (`command_buffer`, `CommandWriter`, `CommandSendComplete`,
commanders: `CommanderIds::get_request`, `Register` / `Registered` records) -/
namespace SwimVerif.CL

/-- **Every command a handler sends is on its way exactly once, in issue order, for the target it was meant for**:
resolve the records — read by the runtime, then in the ad hoc channel, then in the batch of the write in flight, then
in `command_buffer` — the way the runtime does (`Register` binds an id, a `Registered` record goes to what its id is
bound to): the result is exactly the sequence of commands the received lane commands made the handlers send, each
with its intended target. For every handler (ad hoc sends and commanders, created once or again) and every
interleaving of lane requests, lane write completions, ad hoc write completions and runtime reads. -/
theorem C14_agent_commands_exactly_once_in_order (h : Handler) (evs : List Ev) :
    (resolveRun ((run h {} evs).ad.taken ++ (run h {} evs).ad.chan ++ (run h {} evs).ad.inflight
        ++ (run h {} evs).ad.buf)).2 = (validCmds (cmdBodies evs)).flatMap h.intendedBy := by
  have hi := adinv_run h evs {} (adinv_init h)
  rw [hi.ok.fifo, hi.ok.res, hi.meant, run_received h evs {}]; rfl

/-- **Buffered commands are never left behind**: while `command_buffer` is not empty the writer is away, i.e. a write
is in `cmd_send_fut` whose `CommandSendComplete` starts the next write (this is what the loop must do itself — no
handler need run again). -/
theorem C14_agent_commands_never_stranded (h : Handler) (evs : List Ev)
    (hb : (run h {} evs).ad.buf ≠ []) : (run h {} evs).ad.home = false :=
  (adinv_run h evs {} (adinv_init h)).owed hb

/-- **At quiescence (no ad hoc write in flight) every command issued by a handler has been written to the ad hoc
channel exactly once, in issue order — hence in issue order per target.** -/
theorem C14_agent_commands_all_forwarded (h : Handler) (evs : List Ev) (hq : (run h {} evs).ad.home = true) :
    (resolveRun ((run h {} evs).ad.taken ++ (run h {} evs).ad.chan)).2
        = (validCmds (cmdBodies evs)).flatMap h.intendedBy ∧
    ∀ t, adFor t (resolveRun ((run h {} evs).ad.taken ++ (run h {} evs).ad.chan)).2
          = adFor t ((validCmds (cmdBodies evs)).flatMap h.intendedBy) := by
  have hi := adinv_run h evs {} (adinv_init h)
  have hb : (run h {} evs).ad.buf = [] := by
    cases hx : (run h {} evs).ad.buf with
    | nil => rfl
    | cons a r =>
      have := hi.owed (by simp [hx])
      rw [hq] at this; exact absurd this (by simp)
  have hall := C14_agent_commands_exactly_once_in_order h evs
  rw [hi.ok.idle hq, hb] at hall
  simp only [List.append_nil] at hall
  exact ⟨hall, fun t => by rw [hall]⟩

/-- **Commands sent through a `Commander` reach their own target**: among the resolved records, those that carry an
id are — once each, in order — exactly the commands the handlers sent through commanders, and the id each carries is
bound (by the `Register` records that precede it) to that commander's own address. -/
theorem C14_commander_commands_reach_their_own_target (h : Handler) (evs : List Ev) :
    viaCommander (resolveRun ((run h {} evs).ad.taken ++ (run h {} evs).ad.chan ++ (run h {} evs).ad.inflight
        ++ (run h {} evs).ad.buf)).2 = (validCmds (cmdBodies evs)).flatMap h.csentBy := by
  rw [C14_agent_commands_exactly_once_in_order, viaCommander_flatMap]

/-- **Ids are unique per address** (same address → same id, another address → another id): the allocator's table is
inverted by the bindings the runtime has been sent. -/
theorem C14_commander_ids_unique_per_address (h : Handler) (evs : List Ev) (t t' id : Nat)
    (h1 : alGet (run h {} evs).ad.assigned t = some id) (h2 : alGet (run h {} evs).ad.assigned t' = some id) :
    t = t' := by
  have hi := (adinv_run h evs {} (adinv_init h)).ok
  have a := hi.inv t id h1
  have b := hi.inv t' id h2
  rw [a] at b; exact Option.some.inj b

/-- a commander the lifecycle holds carries the id allocated for its address, and the runtime resolves it to it -/
theorem C14_commander_id_resolves_to_its_address (h : Handler) (evs : List Ev) (t id : Nat)
    (hc : alGet (run h {} evs).ad.cache t = some id) :
    alGet (resolveRun (run h {} evs).ad.issued).1 id = some t := by
  have hi := (adinv_run h evs {} (adinv_init h)).ok
  exact hi.inv t id (hi.cache t id hc)

/-- Runtime side (`CommanderIds::set_id`): registering an id never rebinds ANOTHER id. -/
theorem C14_runtime_registration_keeps_other_ids (st : List (Nat × Nat) × List (Bool × AdHoc)) (t id id' : Nat)
    (hne : id ≠ id') : alGet (stepResolve st (.register t id)).1 id' = alGet st.1 id' :=
  stepResolve_register_other st t id id' hne

/-! Non-vacuity (the rig's lifecycle): 17 sends 4 ad hoc commands and one through a commander (6 records with the
`Register`), 22 a burst of 60 and three through commanders; the first write is still in flight when the burst arrives
(it waits in `command_buffer`), one completion restarts the writer, the second brings it home. Two commanders get
different ids and their commands resolve to their own targets. -/
example : ((run rigHandler {} [.command .cmd (.ok 17), .command .cmd (.ok 22)]).ad.inflight.length,
    (run rigHandler {} [.command .cmd (.ok 17), .command .cmd (.ok 22)]).ad.buf.length) = (6, 65) := by decide
example : ((run rigHandler {} [.command .cmd (.ok 17), .command .cmd (.ok 22), .cmdSendDone, .cmdSendDone]).ad.home,
    (run rigHandler {} [.command .cmd (.ok 17), .command .cmd (.ok 22), .cmdSendDone, .cmdSendDone]).ad.chan.length)
    = (true, 71) := by decide
example : (run rigHandler {} [.command .cmd (.ok 7)]).ad.inflight
    = [.addressed ⟨1, 7000, false⟩, .register 3 0, .byId 0 7500 false, .register 1 1, .byId 1 7501 false] := by decide
example : (resolveRun (run rigHandler {} [.command .cmd (.ok 7)]).ad.inflight).2
    = [(false, ⟨1, 7000, false⟩), (true, ⟨3, 7500, false⟩), (true, ⟨1, 7501, false⟩)] := by decide

end SwimVerif.CL

namespace SwimVerif.CmdPath
open SwimVerif.CL

/-- a resolved command as the runtime's `CommandOutput` sees it: `(target, command with its overwrite flag)` -/
def toRec (a : Bool × AdHoc) : Nat × Cmd.Cmd := (a.2.target, ⟨a.2.value, a.2.ow⟩)

/-- **Agent-sent commands end to end**: take any run of the agent task that is quiescent (no ad hoc write in flight)
and whose ad hoc channel the runtime has drained, and any run of the runtime's `CommandOutput` that was given exactly
the records read from that channel, resolved as the runtime resolves them (ids through the `Register` bindings).
Then for every target, what has reached the target's channel, is in flight or is pending there is a SUPERSESSION of
the commands the handlers meant for it — sent ad hoc or through a commander: only an overwritable command may be
missing, and only because a later command to the same target replaced it. -/
theorem C14_agent_commands_reach_target_as_supersession (h : Handler) (evs : List Ev)
    (hq : (CL.run h {} evs).ad.home = true) (hc : (CL.run h {} evs).ad.chan = [])
    (ops : List Cmd.Op)
    (hfeed : (Cmd.run {} ops).appended = (resolveRun (CL.run h {} evs).ad.taken).2.map toRec) (t : Nat) :
    Cmd.Sup (Cmd.cmdsFor t (((validCmds (cmdBodies evs)).flatMap h.intendedBy).map toRec))
      ((Cmd.run {} ops).flow t) := by
  have hall := (C14_agent_commands_all_forwarded h evs hq).1
  rw [hc, List.append_nil] at hall
  have hs := Cmd.C14_commands_flow_is_supersession ops t
  unfold Cmd.St.appendedFor at hs
  rw [hfeed, hall] at hs
  exact hs

end SwimVerif.CmdPath
