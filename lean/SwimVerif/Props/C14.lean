/-
C14 — supply lanes, command lanes and agent-sent commands are never coalesced.
Part 1 (this file, first block): the per-remote uplink queue for a SUPPLY lane — model `Model/WriteTask.lean`
(`SupplyBackpressure`, the supply branch of `replace_and_pop`), system `Model/UplinkSys.lean`. For every registry and
every interleaving of pushes (for any lanes of any kind), link messages and write completions in which lane `l` is a
supply lane that stays linked, the items sent for `l` are exactly the items pushed for `l`, once each, in order.
Part 2: the ad hoc command output `CommandOutput` (`Model/CommandOutput.lean`).
-/
import SwimVerif.Proofs.SupplyFifo
import SwimVerif.Proofs.CommandOutput

set_option linter.unusedVariables false
namespace SwimVerif.WT

/-- **Supply items: exactly once, in push order.** Whatever has been sent (or is in flight) for the lane, followed
by what still waits in its buffer, is exactly the sequence of items pushed — nothing dropped, merged, duplicated or
reordered, however slow the remote is and whatever happens on other lanes. -/
theorem C14_supply_exactly_once_in_order (reg : Registry) (l : Nat) (ops : List UOp)
    (h : ∀ op, op ∈ ops → supplyOp l op) :
    bodiesFor l (urun reg {} ops).sent ++ bufSupply (urun reg {} ops).up l = pushedBodies l (urun reg {} ops).pushed :=
  (sinv_run reg l ops {} uinv_init (sinv_init l) h).fifo

/-- …and once the remote has caught up (no write in flight) everything pushed has been delivered, in order. -/
theorem C14_supply_all_delivered_when_idle (reg : Registry) (l : Nat) (ops : List UOp)
    (h : ∀ op, op ∈ ops → supplyOp l op) (hidle : (urun reg {} ops).inflight = none) :
    bodiesFor l (urun reg {} ops).delivered = pushedBodies l (urun reg {} ops).pushed := by
  have hu := uinv_run reg uinv_init ops
  have hf := C14_supply_exactly_once_in_order reg l ops h
  have hb := bufs_empty_of_home hu (hu.w.mpr hidle) l
  rw [sent_eq, hidle, hb.2.1] at hf
  simpa [writeBodies] using hf

/-! Non-vacuity: a burst while the writer is busy. -/
example : bodiesFor 1 (urun [0, 1] {} [.push 1 (.supply [1]), .push 1 (.supply [2]), .push 1 (.supply [3]),
    .push 0 (.value [9]), .done, .done, .done, .done]).delivered = [.raw [1], .raw [2], .raw [3]] := by decide

end SwimVerif.WT

namespace SwimVerif.Cmd

/-- **Agent-sent commands: each forwarded once, in order per target; only an overwritable command may be superseded,
and only by the next command to the same target.** For every sequence of `append` / `write` / write-completion
steps on a `CommandOutput` and every target `t`: what has reached the channel, then what the write in flight
carries, then what is still pending in `t`'s buffer is a supersession (`Sup`) of the commands appended for `t`. -/
theorem C14_commands_flow_is_supersession (ops : List Op) (t : Nat) :
    Sup ((run {} ops).appendedFor t) ((run {} ops).flow t) :=
  ((invc_run invc_init ops).per t).sup

/-- A non-overwritable command is never dropped … -/
theorem C14_non_overwritable_never_dropped (ops : List Op) (t : Nat) (c : Cmd)
    (h : c ∈ (run {} ops).appendedFor t) (hn : c.overwrite = false) : c ∈ (run {} ops).flow t :=
  sup_keeps_non_overwritable (C14_commands_flow_is_supersession ops t) c h hn

/-- … nothing is invented, duplicated or reordered … -/
theorem C14_commands_in_order (ops : List Op) (t : Nat) :
    ((run {} ops).flow t).Sublist ((run {} ops).appendedFor t) :=
  sup_sublist (C14_commands_flow_is_supersession ops t)

/-- … and the newest command for a target always survives. -/
theorem C14_newest_command_survives (ops : List Op) (t : Nat) :
    ((run {} ops).appendedFor t).getLast? = ((run {} ops).flow t).getLast? :=
  sup_last (C14_commands_flow_is_supersession ops t)

/-- Regression for the defect repaired by the `fix:` (the multi-target branch re-sent the previous frame). -/
example : (run {} [.append 0 ⟨1, false⟩, .write, .append 0 ⟨2, false⟩, .append 1 ⟨3, false⟩, .done, .write,
    .done]).channel = [(0, ⟨1, false⟩), (0, ⟨2, false⟩), (1, ⟨3, false⟩)] := by decide
example : (run {} [.append 0 ⟨1, true⟩, .append 0 ⟨2, false⟩, .write, .done]).channel = [(0, ⟨2, false⟩)] := by decide

end SwimVerif.Cmd
