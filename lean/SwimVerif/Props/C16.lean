/-
C16 — Form: typed, model and wire representations of a value agree.

Model: `Model/FormSchema.lean` (`Ty` = the shape `#[derive(Form)]` gives a type: tag/rename, per field
`header_body | header | attr | slot | body | skip`, field types integer kinds / bool / text / unit / `Option` /
`Vec` / nested derived structs; `toValue` = `as_value`, `fromValue` = `try_from_value` = the recogniser state
machines on the bridge's event stream). Quantifier of the theorems: **every** schema satisfying the explicit
decidable condition `tyWF` (`Model/FormWF.lean`) and every instance of it (`okInst`: right shape, integers in
range, skipped fields at their default) — all attribute combinations at once, not a battery.
The conditions of `tyWF` that the derive macro does *not* enforce are each shown necessary by a witness schema
the macro accepts (`deriveOK`) and on which the round trip fails, in the model and (same witnesses, battery types
S21, S29, S32, S35) on the real code. The model follows /repo after the repairs C16-F1/F5/F7–F11.
-/
import SwimVerif.Proofs.FormReset
import SwimVerif.Model.FormIO
import SwimVerif.Proofs.MsgPackBytes
import SwimVerif.Proofs.MsgPackNorm
import SwimVerif.Proofs.MsgPackMono

set_option linter.unusedVariables false
namespace SwimVerif.Form

/-- **T1.** `try_from_value(as_value(x)) = Ok(x)` for every well-formed schema and every instance. -/
theorem C16_from_to (t : Ty) (x : Inst) (hwf : tyWF t = true) (hx : okInst t x = true) :
    fromValue t (toValue t x) = some x :=
  fromValue_toValue t x hwf hx

/-- The same value read in attribute position (`make_attr_recognizer`: an `attr` field, a lone `header_body`). -/
theorem C16_from_to_attr (t : Ty) (x : Inst) (hwf : tyWF t = true) (ha : attrSafe t = true)
    (hx : okInst t x = true) : (codecOf t).decAttr false (toValue t x) = some x :=
  (good_ty t hwf).attr false ha x hx

/-- The same value read as a delegated body (`make_body_recognizer` after `with_delegate_body` spliced it into
the container), and the delegated part does not start with an attribute of the container. -/
theorem C16_from_to_body (t : Ty) (x : Inst) (names : List String) (hwf : tyWF t = true)
    (hb : bodySafe names t = true) (hx : okInst t x = true) :
    (codecOf t).decBody false (bodySplit (toValue t x)).1 (bodySplit (toValue t x)).2 = some x
    ∧ ∀ n v r, (bodySplit (toValue t x)).1 = (n, v) :: r → names.contains n = false :=
  (good_ty t hwf).body false names hb x hx

/-- A field that `write_with` leaves out (`omit_as_field`) is exactly one that `on_absent` restores. -/
theorem C16_omitted_is_restored (t : Ty) (x : Inst) (hwf : tyWF t = true) (hx : okInst t x = true)
    (ho : (codecOf t).omits x = true) : (codecOf t).absent = some x :=
  (good_ty t hwf).omitted x hx ho

/-- Layout: a derived struct is always a record whose first attribute is its tag. -/
theorem C16_struct_layout (tag : String) (fs : Fields) (xs : List Inst) :
    ∃ hv rest items, toValue (.struct tag fs) (.struct xs) = .record ((tag, hv) :: rest) items := by
  simp only [toValue, codecOf, structCodec]
  exact structEnc_form tag (fieldCs fs 0) xs

/-- Schema violation: a record whose first attribute is not the tag is rejected, whatever else it contains. -/
theorem C16_wrong_tag_rejected (tag : String) (fs : Fields) (t : String) (tv : Val) (attrs : List Attr)
    (items : List Item) (h : t ≠ tag) :
    fromValue (.struct tag fs) (.record ((t, tv) :: attrs) items) = none := by
  have : (t == tag) = false := by simpa using h
  simp [fromValue, codecOf, structCodec, structDec, this]

/-- Schema violation: primitives, and records without attributes, are never read as a struct. -/
theorem C16_not_a_struct_rejected (tag : String) (fs : Fields) (v : Val)
    (h : ∀ t tv attrs items, v ≠ .record ((t, tv) :: attrs) items) :
    fromValue (.struct tag fs) v = none := by
  simp only [fromValue, codecOf, structCodec]
  unfold structDec
  split
  · rename_i t tv attrs items; exact absurd rfl (h t tv attrs items)
  · rfl

/-- Integers are range checked on the way in (`i32::try_from` etc. of the primitive recognisers). -/
theorem C16_int_range (k : NumKind) (k' : NumKind) (n : Int) :
    fromValue (.int k) (.num k' n) = if k.inRange n then some (.int n) else none := by
  simp [fromValue, codecOf, intCodec, intDec]

/-! ### non-vacuity: a schema using every field kind, with nesting, options and collections -/

def exInner : Ty := .struct "S01" (.cons "a" true .slot (.int .i32) (.cons "b" true .slot .text .nil))

/-- battery type S20 extended with a skipped field and collections -/
def exAll : Ty := .struct "all"
  (.cons "hb" true .headerBody (.int .i32)
  (.cons "s_before" true .slot (.opt (.int .i64))
  (.cons "h" true .header (.list .text)
  (.cons "a" true .attr (.opt .bool)
  (.cons "k" true .skip (.int .u64)
  (.cons "b" true .body exInner
  (.cons "s_after" true .slot (.list (.opt exInner)) .nil)))))))

def exAllInst : Inst := .struct [.int (-5), .none, .list [.text "x", .text ""], .some (.bool true), .int 0,
  .struct [.int 7, .text "seven"], .list [.none, .some (.struct [.int 1, .text "q"])]]

example : tyWF exAll = true := by decide
example : deriveOK exAll = true := by decide
example : okInst exAll exAllInst = true := by decide
/-- `@all(-5, h: {x, ""}, s_after: {, @S01{a:1,b:q}}) @a(true) @S01 {a: 7, b: seven}`: the `None` slot `s_before`
is left out, the promoted slots follow the explicit header field, the body's attributes are appended. -/
example : toValue exAll exAllInst =
    .record [("all", .record [] [(none, .num .i32 (-5)),
                (some (.text "h"), .record [] [(none, .text "x"), (none, .text "")]),
                (some (.text "s_after"), .record [] [(none, .extant),
                  (none, .record [("S01", .extant)] [(some (.text "a"), .num .i32 1), (some (.text "b"), .text "q")])])]),
             ("a", .bool true), ("S01", .extant)]
            [(some (.text "a"), .num .i32 7), (some (.text "b"), .text "seven")] := by
  rfl
example : fromValue exAll (toValue exAll exAllInst) = some exAllInst := C16_from_to _ _ (by decide) (by decide)

/-- **T2**: tuple structs (items read by position, renamed fields as slots), unit structs and enums (the tag
selects the variant) are inside `tyWF`; generic types are schemas with the parameter substituted.
Battery types T03 (attribute + unnamed items + skipped field), E02 (unit / labelled / tuple / delegated-body /
header-body variants) and G2<S01, Vec<i32>>. -/
def exT03 : Ty := .struct "T03"
  (.cons "a" true .attr (.int .i32) (.cons "" false .slot (.int .i32) (.cons "" false .skip (.int .i32)
  (.cons "" false .slot .text .nil))))

def exE02 : Ty := .enum
  (.cons "A" .nil
  (.cons "B" (.cons "x" true .header (.int .i32) (.cons "y" true .slot .text .nil))
  (.cons "C" (.cons "" false .slot (.int .i32) (.cons "" false .slot .text .nil))
  (.cons "dee" (.cons "a" true .attr (.opt (.int .i32)) (.cons "b" true .body (.list (.int .i32)) .nil))
  (.cons "F" (.cons "hb" true .headerBody .text (.cons "k" true .skip (.int .i32) (.cons "s" true .slot (.opt exInner) .nil)))
  .nil)))))

def exG2 : Ty := .enum
  (.cons "L" (.cons "" false .slot exInner .nil)
  (.cons "R" (.cons "b" true .headerBody (.list (.int .i32)) (.cons "other" true .slot (.opt exInner) .nil)) .nil))

/-- a struct holding them in attribute, header, slot and body position -/
def exOuter : Ty := .struct "outer"
  (.cons "t" true .attr exT03 (.cons "e" true .header exE02 (.cons "g" true .slot (.list exG2) (.cons "b" true .body exE02 .nil))))

example : tyWF exT03 = true ∧ tyWF exE02 = true ∧ tyWF exG2 = true ∧ tyWF exOuter = true := by decide
example : okInst exOuter (.struct [.struct [.int 1, .int 2, .int 0, .text "z"], .variant 1 [.int 5, .text "y"],
    .list [.variant 0 [.struct [.int 1, .text "a"]], .variant 1 [.list [.int 3], .none]],
    .variant 3 [.some (.int 9), .list [.int 1, .int 2]]]) = true := by decide
example : fromValue exE02 (toValue exE02 (.variant 4 [.text "h", .int 0, .none])) = some (.variant 4 [.text "h", .int 0, .none]) :=
  C16_from_to _ _ (by decide) (by decide)

/-- **T2**: `#[form(newtype)]` structs (everything delegated to the single field that is not skipped) are inside
`tyWF` in slot, header, attribute, header-body, list and option position (battery N01, N02, N03, S27); this is the
former open statement, now a corollary of `C16_from_to`. A newtype used as `#[form(body)]` stays outside (`bodySafe`;
battery S33 shows it fails over a primitive, S34/S38 are tied by correspondence only). -/
theorem C16_newtype_from_to (n : String) (l : Bool) (t : Ty) (rest : Fields) (x : Inst)
    (ht : tyWF t = true) (hr : allSkip rest = true) (hx : okInst (.newtype (.cons n l .slot t rest)) x = true) :
    fromValue (.newtype (.cons n l .slot t rest)) (toValue (.newtype (.cons n l .slot t rest)) x) = some x := by
  apply C16_from_to _ _ _ hx
  simp [tyWF, ntWF, ht, hr]

def exN01 : Ty := .newtype (.cons "" false .slot (.int .i32) .nil)
def exN03 : Ty := .newtype (.cons "" false .slot (.list (.int .i32)) (.cons "" false .skip (.int .i32) .nil))
/-- battery type S27 with N03 added: newtypes as attribute, slot, optional header slot, list element -/
def exS27 : Ty := .struct "S27"
  (.cons "a" true .attr exN01 (.cons "n" true .slot (.newtype (.cons "inner" true .slot exInner .nil))
  (.cons "h" true .header (.opt exN01) (.cons "v" true .slot (.list exN03) .nil))))
example : tyWF exS27 = true := by decide
example : fromValue exS27 (toValue exS27 (.struct [.struct [.int 1], .struct [.struct [.int 2, .text "x"]], .none,
    .list [.struct [.list [.int 3], .int 0]]])) = some (.struct [.struct [.int 1], .struct [.struct [.int 2, .text "x"]], .none,
    .list [.struct [.list [.int 3], .int 0]]]) := C16_from_to _ _ (by decide) (by decide)

/-! ### what the derive macro accepts but the layout cannot invert

The unrestricted statement, over everything `#[derive(Form)]` accepts, is false of the current code: -/
def C16_from_to_all_derivable : Prop :=
  ∀ t x, deriveOK t = true → okInst t x = true → fromValue t (toValue t x) = some x

/-- battery types S16 / S25: `#[form(body)] b: Option<i32>` (resp. `Option<struct>`). Before the repair of C16-F1
(/repo f92467d) `None` could not be read back; the model follows the repaired `EmptyBodyRecognizer` and an `Option`
body over a primitive, struct or enum is now inside `tyWF`. -/
def wS16 : Ty := .struct "S16" (.cons "b" true .body (.opt (.int .i32)) .nil)
def wS25 : Ty := .struct "S25" (.cons "h1" true .header (.list (.int .i32))
  (.cons "h2" true .header (.opt (.list .text)) (.cons "b" true .body (.opt exInner) .nil)))
theorem C16_option_body_roundtrip :
    tyWF wS16 = true ∧ tyWF wS25 = true
    ∧ fromValue wS16 (toValue wS16 (.struct [.none])) = some (.struct [.none])
    ∧ fromValue wS16 (toValue wS16 (.struct [.some (.int 5)])) = some (.struct [.some (.int 5)])
    ∧ fromValue wS25 (toValue wS25 (.struct [.list [], .none, .none])) = some (.struct [.list [], .none, .none]) :=
  ⟨by decide, by decide, C16_from_to _ _ (by decide) (by decide), C16_from_to _ _ (by decide) (by decide),
    C16_from_to _ _ (by decide) (by decide)⟩

/-- battery type S32: `#[form(body)] b: Option<Vec<i32>>`; `Some(vec![])` is written as an empty body and read back
as `None` (inherent to the layout; not repaired by C16-F1). -/
def wS32 : Ty := .struct "S32" (.cons "a" true .attr (.int .i32) (.cons "b" true .body (.opt (.list (.int .i32))) .nil))
theorem C16_option_list_body_fails :
    deriveOK wS32 = true ∧ okInst wS32 (.struct [.int 1, .some (.list [])]) = true
    ∧ (fromValue wS32 (toValue wS32 (.struct [.int 1, .some (.list [])]))).map Inst.render = some "(i1,n)" := by decide

/-- battery type S21: an attribute field named like the tag of the delegated body struct (`DuplicateField`). -/
def wS21 : Ty := .struct "S21" (.cons "S01" true .attr (.int .i32) (.cons "b" true .body exInner .nil))
theorem C16_attr_named_like_body_tag_fails :
    deriveOK wS21 = true ∧ okInst wS21 (.struct [.int 1, .struct [.int 2, .text "x"]]) = true
    ∧ fromValue wS21 (toValue wS21 (.struct [.int 1, .struct [.int 2, .text "x"]])) = none := by decide

/-- battery type S35: the same clash with one variant of a body enum. -/
def wS35 : Ty := .struct "S35" (.cons "beta" true .attr (.int .i32)
  (.cons "b" true .body (.enum (.cons "Alpha" .nil (.cons "beta" .nil .nil))) .nil))
theorem C16_attr_named_like_variant_tag_fails :
    deriveOK wS35 = true ∧ okInst wS35 (.struct [.int 1, .variant 1 []]) = true
    ∧ fromValue wS35 (toValue wS35 (.struct [.int 1, .variant 1 []])) = none
    ∧ fromValue wS35 (toValue wS35 (.struct [.int 1, .variant 0 []])) = some (.struct [.int 1, .variant 0 []]) := by
  refine ⟨by decide, by decide, by decide, ?_⟩
  rfl

/-- battery type S29: `#[form(attr)] a: Vec<Vec<i32>>`; the empty list is read back as `vec![vec![]]` (the
flattened alternative of `FirstOf` wins). -/
def wS29 : Ty := .struct "S29" (.cons "a" true .attr (.list (.list (.int .i32))) (.cons "s" true .slot (.int .i32) .nil))
theorem C16_nested_list_attr_fails :
    deriveOK wS29 = true ∧ okInst wS29 (.struct [.list [], .int 1]) = true
    ∧ (fromValue wS29 (toValue wS29 (.struct [.list [], .int 1]))).map Inst.render = some "([[]],i1)" := by decide

/-- `Vec<Option<()>>`: `None` is written as `Extant`, which the inner unit recogniser claims: `Some(())`. -/
def wOptUnit : Ty := .list (.opt .unit)
theorem C16_option_of_unit_fails :
    deriveOK wOptUnit = true ∧ okInst wOptUnit (.list [.none]) = true
    ∧ (fromValue wOptUnit (toValue wOptUnit (.list [.none]))).map Inst.render = some "[su]" := by decide

theorem C16_from_to_all_derivable_fails : ¬ C16_from_to_all_derivable := by
  intro h
  have := h wS21 (.struct [.int 1, .struct [.int 2, .text "x"]]) (by decide) (by decide)
  have h2 : fromValue wS21 (toValue wS21 (.struct [.int 1, .struct [.int 2, .text "x"]])) = none := by decide
  rw [h2] at this
  cases this

/-- The part of the unrestricted statement that holds: `C16_from_to` (hypothesis `tyWF`). -/
theorem C16_from_to_all_derivable_partial :
    ∀ t x, deriveOK t = true → tyWF t = true → okInst t x = true → fromValue t (toValue t x) = some x :=
  fun t x _ hwf hx => C16_from_to t x hwf hx

/-! ### recognisers that are used again after `reset()`

The element recogniser of a collection is reset and reused from the second element on (`VecRecognizer`), and a
decoder resets its recogniser between frames. `fromValueReused` is the model of such a recogniser. -/

def collect : List (Option Inst) → Option (List Inst)
  | [] => some []
  | none :: _ => none
  | some x :: rest => (collect rest).map (x :: ·)

theorem listItems_collect (d : Val → Option Inst) (vs : List Val) :
    listItems d (vs.map fun v => (none, v)) = collect (vs.map d) := by
  induction vs with
  | nil => rfl
  | cons v vs ih =>
    simp only [List.map_cons, listItems, collect]
    cases d v with
    | none => rfl
    | some x =>
      simp only [ih, collect]
      cases h : collect (vs.map d) <;> simp

/-- Reading a `Vec<T>` is: the first element by the element recogniser as it is, every later one by the same
recogniser after `reset()`, independently of each other. -/
theorem C16_vec_is_elementwise (t : Ty) (v : Val) (vs : List Val) :
    fromValue (.list t) (.record [] ((v :: vs).map fun v => (none, v)))
      = (collect (fromValue t v :: vs.map (fromValueReused t))).map .list := by
  simp only [fromValue, fromValueReused, codecOf, listCodec, listDec, List.map_cons, listItemsFrom, collect,
    listItems_collect]
  cases (codecOf t).dec false v with
  | none => rfl
  | some x =>
    have hfr : fromValueReused t = (codecOf t).dec true := rfl
    simp only [collect, hfr]
    cases h : collect (vs.map ((codecOf t).dec true)) <;> simp

/-- What was written is read back by a reused recogniser exactly as by a fresh one (every `tyWF` schema). -/
theorem C16_reset_is_fresh_on_written (t : Ty) (x : Inst) (hwf : tyWF t = true) (hx : okInst t x = true) :
    fromValueReused t (toValue t x) = fromValue t (toValue t x) := by
  rw [fromValueReused_toValue t x hwf hx, fromValue_toValue t x hwf hx]

/-- The unrestricted statement: a recogniser after `reset()` behaves as a new one, on every input. -/
def C16_reset_is_fresh : Prop := ∀ (t : Ty) (v : Val), fromValueReused t v = fromValue t v

/-- **A recogniser after `reset()` behaves as a new one**: for every schema (no side condition) and every input,
well-formed or not, reading with a recogniser that was used before gives what a fresh one gives; hence reading n
values in sequence with `reset()` in between is n independent reads (`C16_vec_is_elementwise`, the `seq` op).
This was false until /repo b233130 (C16-F16: `VecRecognizer::reset` returned to `Init` even for the instance made for
a flattened attribute body; witness `@S29 @a({}) { s: 1 }` read as `[[]]` fresh and `[]` reused). The proof depends on
`Generated.vecResetKeepsAttrMode`, which the extractor re-reads from `VecRecognizer::reset` on every run: a revert of
the repair makes it `false` and this theorem stops building. -/
theorem C16_reset_is_fresh_holds : C16_reset_is_fresh :=
  fun t v => reset_is_fresh rfl t v

/-- Consequence: every element of a `Vec<T>` is read like a stand-alone `T`. -/
theorem C16_vec_elements_independent (t : Ty) (vs : List Val) :
    fromValue (.list t) (.record [] (vs.map fun v => (none, v))) = (collect (vs.map (fromValue t))).map .list := by
  cases vs with
  | nil => rfl
  | cons v vs =>
    rw [C16_vec_is_elementwise]
    have : fromValueReused t = fromValue t := funext (C16_reset_is_fresh_holds t)
    rw [this]; rfl

end SwimVerif.Form

/-! ## MessagePack byte model (`Model/MsgPack.lean`): generic `Value` path of `swimos_msgpack` -/

namespace SwimVerif.MsgPack
open SwimVerif.Recon

/-- Map and array headers (`write_map_len` / `write_array_len`, FixMap/Map16/Map32, FixArray/Array16/Array32) of every
length `< 2^32` are read back exactly, leave the rest, and a map marker is never an array marker. -/
theorem C16_msgpack_headers_roundtrip : LenRT := lenRT

/-- The structural part of the round trip, for ALL values (records with attributes, map / array / mixed bodies, slots
as 2-arrays, nesting) by mutual induction over `Value`/`Attrs`/`Items`: if the primitive tokens and attribute names
round-trip (`PrimRT`, `NameRT`), then the reader with any fuel `≥ depthV v` reads `write v ++ rest` as
`(mpNorm v, rest)` — the written value up to the re-kinding of machine integers, consuming exactly the bytes written. -/
theorem C16_msgpack_value_roundtrip_of_tokens (hp : PrimRT) (hn : NameRT) :
    ∀ v, mpOk v = true → ∀ rest f, depthV v ≤ f → rdV f (wV v ++ rest) = some (mpNorm v, rest) :=
  fun v hok rest f hf => ((goodV hp hn lenRT v) hok).2 f rest hf

/-- Why a value item of an array body is never mistaken for a slot (`SLOT_MARKER = FixArray(2)`): no written value
starts with an array marker. -/
theorem C16_msgpack_value_never_starts_with_array (hp : PrimRT) (hn : NameRT) :
    ∀ v, mpOk v = true → ∃ m r, wV v = m :: r ∧ isArrMarker m = false :=
  fun v hok => ((goodV hp hn lenRT v) hok).1

/-- The token level: every primitive (non-record) value of the fragment — machine integers (`write_sint` / `write_u64`
↔ fixpos, `cc cd ce cf`, fixneg, `d0 d1 d2 d3`), nil, booleans, text (fixstr / str8 / str16 / str32 + strict UTF-8
decode ∘ encode), blobs (bin8 / bin16 / bin32), big integers (fixext 1/2/4/8/16, ext8 / ext16 / ext32, type byte, sign
byte, minimal big-endian magnitude) — is written starting with a marker that is neither a map nor an array marker and
is read back as `mpNorm v`, leaving the rest; attribute names round-trip through `read_str_len` + `from_utf8`. -/
theorem C16_msgpack_tokens : PrimRT ∧ NameRT := ⟨primRT, nameRT⟩

/-- Per token class (the lemmas `C16_msgpack_tokens` is assembled from). -/
theorem C16_msgpack_int_token (n : Int) (h1 : -9223372036854775808 ≤ n) (h2 : n ≤ 18446744073709551615) :
    TokRT (wInt n) (mkInt n) := wInt_rt n h1 h2
theorem C16_msgpack_utf8_roundtrip (s : List Char) : utf8Dec (utf8Enc s) = some s := utf8Dec_enc s
theorem C16_msgpack_magnitude_roundtrip (m : Nat) : beVal (natBytes m) = m ∧ (natBytes m).length = byteLen m :=
  ⟨beVal_natBytes m, natBytes_length m⟩

/-- Round trip of the byte model for ALL values of the fragment (no floats, lengths `< 2^32`), unconditionally: the
writer succeeds, and reading the written bytes followed by anything yields the written value up to the re-kinding of
machine integers (`mpNorm`) and exactly the unread rest (so encodings are prefix-free). -/
theorem C16_msgpack_value_roundtrip :
    ∀ v, mpOk v = true → ∀ rest, ∃ bs, mpWrite v = some bs ∧ mpRead (bs ++ rest) = some (mpNorm v, rest) :=
  mp_roundtrip

/-- The same with explicit fuel and the token hypotheses discharged. -/
theorem C16_msgpack_value_roundtrip_fuel :
    ∀ v, mpOk v = true → ∀ rest f, depthV v ≤ f → rdV f (wV v ++ rest) = some (mpNorm v, rest) :=
  C16_msgpack_value_roundtrip_of_tokens primRT nameRT

/-- No written value starts with an array marker (unconditional form). -/
theorem C16_msgpack_value_not_array :
    ∀ v, mpOk v = true → ∃ m r, wV v = m :: r ∧ isArrMarker m = false :=
  C16_msgpack_value_never_starts_with_array primRT nameRT

/-- The fuel the reader model needs: `2 * length + 1` always suffices for a written value … -/
theorem C16_msgpack_fuel_suffices (v : Value) : depthV v + 1 ≤ 2 * (wV v).length := fuelV v

/-- … while `length + 1` (the fuel of the model before this proof) does NOT: a nesting level costs three units of fuel
and may cost only two bytes.  `80 91 80 91 c0` is `{ { Extant } }` written by the real writer and read back by the real
reader (corpus/C16/form-msgpack-nested-fuel.ops); with fuel `5 + 1` the model rejected it, i.e. the previous
`C16_msgpack_value_roundtrip_open` was FALSE of the previous model (a model defect, not a code defect). -/
theorem C16_msgpack_fuel_len_plus_one_fails :
    mpOk (.record .nil (.val (.record .nil (.val .extant .nil)) .nil)) = true ∧
    wV (.record .nil (.val (.record .nil (.val .extant .nil)) .nil)) = [128, 145, 128, 145, 192] ∧
    rdV (([128, 145, 128, 145, 192] : List Nat).length + 1) [128, 145, 128, 145, 192] = none ∧
    mpRead [128, 145, 128, 145, 192] = some (.record .nil (.val (.record .nil (.val .extant .nil)) .nil), []) := by
  decide

/-- `Value::eq` (`ReconEq.veq`: integer kinds are ignored) does not see the normalisation: what is read back is equal
to what was written. -/
theorem C16_msgpack_norm_equiv (v : Value) : SwimVerif.ReconEq.veq (mpNorm v) v = true := veq_norm v

/-- Round trip up to `Value::eq`. -/
theorem C16_msgpack_value_roundtrip_eq (v : Value) (hok : mpOk v = true) (rest : List Nat) :
    ∃ bs w, mpWrite v = some bs ∧ mpRead (bs ++ rest) = some (w, rest) ∧ SwimVerif.ReconEq.veq w v = true := by
  obtain ⟨bs, h1, h2⟩ := mp_roundtrip v hok rest
  exact ⟨bs, mpNorm v, h1, h2, veq_norm v⟩

/-- A strict prefix of a written value is an error, never a different value — for ALL values of the fragment (nested
records included).  Token level: every integer width, str / bin / ext header and body, sign and type bytes; structure:
mutual induction over `Value`/`Attrs`/`Items`; the fuel is handled by monotonicity of the reader in its fuel. -/
theorem C16_msgpack_truncated_rejected :
    ∀ v, mpOk v = true → ∀ bs, mpWrite v = some bs → ∀ p, p.length < bs.length → bs.take p.length = p → mpRead p = none :=
  mp_truncated

/-- The same for the recursive reader with ANY fuel. -/
theorem C16_msgpack_truncated_rejected_any_fuel (v : Value) (hok : mpOk v = true) (p q : List Nat) (hq : q ≠ [])
    (hpq : p ++ q = wV v) (f : Nat) : rdV f p = none := rdV_prefix_none v hok p q hq hpq f

/-- More fuel never changes a successful read of the model (so the fuel is a termination device only). -/
theorem C16_msgpack_reader_fuel_monotone {f : Nat} {x : List Nat} {y : Value × List Nat} (h : rdV f x = some y)
    (k : Nat) : rdV (f + k) x = some y := rdV_mono h k

/-- Non-vacuity: a nested record with attributes, a map body inside an array body, a slot with a non-text key. -/
def exRec : Value :=
  .record (.cons ['a'] (.int .u32 300) (.cons ['é'] (.record .nil (.slot (.int .i32 1) (.bool true) .nil)) .nil))
    (.val (.int .i64 (-129)) (.slot (.text ['k']) (.record .nil (.val .extant .nil)) (.val (.data [1, 2, 255]) .nil)))

example : mpOk exRec = true := by decide
example : mpWrite exRec = some [130, 161, 97, 205, 1, 44, 162, 195, 169, 128, 129, 1, 195, 147, 209, 255, 127, 146, 161,
    107, 128, 145, 192, 196, 3, 1, 2, 255] := by decide
example : mpRead ([130, 161, 97, 205, 1, 44, 162, 195, 169, 128, 129, 1, 195, 147, 209, 255, 127, 146, 161,
    107, 128, 145, 192, 196, 3, 1, 2, 255] ++ [7, 7]) = some (mpNorm exRec, [7, 7]) := by decide
/-- a big integer beyond `u64` (2^64 = 9 magnitude bytes, ext8 of 10 bytes, type 0, sign byte 1) and its negative -/
example : mpWrite (.int .big 18446744073709551616) = some [199, 10, 0, 1, 1, 0, 0, 0, 0, 0, 0, 0, 0] := by decide
example : mpRead [199, 10, 0, 0, 1, 0, 0, 0, 0, 0, 0, 0, 0, 9] = some (.int .big (-18446744073709551616), [9]) := by
  decide
-- a 300-byte text: str16
set_option maxRecDepth 8000 in
example : (mpWrite (.text (List.replicate 300 'a'))).map (fun bs => (bs.take 3, bs.length)) = some ([218, 1, 44], 303) := by
  decide
set_option maxRecDepth 8000 in
example : mpRead (218 :: 1 :: 44 :: (List.replicate 300 97 ++ [5])) = some (.text (List.replicate 300 'a'), [5]) := by
  decide
/-- every strict prefix of the written record is rejected -/
example : ∀ k, k < 28 → mpRead (([130, 161, 97, 205, 1, 44, 162, 195, 169, 128, 129, 1, 195, 147, 209, 255, 127, 146, 161,
    107, 128, 145, 192, 196, 3, 1, 2, 255] : List Nat).take k) = none := by decide

/-- non-vacuity of the new theorems on `exRec` and on the densely nested record -/
example : ∃ bs, mpWrite exRec = some bs ∧ mpRead (bs ++ [7, 7]) = some (mpNorm exRec, [7, 7]) :=
  C16_msgpack_value_roundtrip exRec (by decide) [7, 7]
example : mpRead [130, 161, 97, 205, 1, 44, 162, 195] = none :=
  C16_msgpack_truncated_rejected exRec (by decide) [130, 161, 97, 205, 1, 44, 162, 195, 169, 128, 129, 1, 195, 147, 209, 255,
    127, 146, 161, 107, 128, 145, 192, 196, 3, 1, 2, 255] (by decide) [130, 161, 97, 205, 1, 44, 162, 195] (by decide)
    (by decide)
example : mpNorm exRec ≠ exRec ∧ SwimVerif.ReconEq.veq (mpNorm exRec) exRec = true :=
  ⟨by decide, C16_msgpack_norm_equiv exRec⟩
example : TokRT (wInt (-9223372036854775808)) (mkInt (-9223372036854775808)) :=
  C16_msgpack_int_token _ (by decide) (by decide)
example : utf8Dec (utf8Enc ['a', 'é', '€', '😀']) = some ['a', 'é', '€', '😀'] := C16_msgpack_utf8_roundtrip _

end SwimVerif.MsgPack
