/-
C03 — sync gives a consistent snapshot, then a gap-free tail.
Agent side of the lanes: `Model/MapLane.lean` (`WriteQueues`: per-remote key snapshots, event/sync alternation,
`update_sync_queues`, and — after the `fix:` — the count of events that were queued ahead of the request) and
`Model/ValueLane.lean`. The theorems below are facts about EVERY state of the write queues (one-step, unbounded in the
state); the trace-level statement — at `synced`, every key of the remote's replica holds a value the lane held
between the request and that instant, for a remote that was linked all along and for one that held nothing — is
decided on implementation traces by `ML.Mon` (both variants) and kept open as a theorem.
-/
import SwimVerif.Model.MapLane
import SwimVerif.Proofs.ValueLane
import SwimVerif.Proofs.C03Lines
import SwimVerif.Proofs.C03Indep
import SwimVerif.Proofs.C03Fails
import SwimVerif.Proofs.PruneRt

set_option linter.unusedVariables false
namespace SwimVerif.ML

/-- **`synced` only after the snapshot and after everything that preceded the request**: the write queues emit
`synced r` only for a request whose key snapshot is exhausted, and only when no event that was queued ahead of the
request is still waiting (`pending = 0`) or the event queue is empty. -/
theorem C03_synced_only_when_caught_up (w : WQ) (r : Nat) (w' : WQ) (h : w.pop = (some (.synced r), w')) :
    ∃ p, w.syncs[w.syncIndex]? = some ⟨r, [], p⟩ ∧ (p = 0 ∨ w.eq.events = []) := by
  unfold WQ.pop at h
  simp only [] at h
  split at h
  · -- event branch never yields `synced`
    cases hp : w.eq.pop with
    | mk a eq' => cases a <;> simp [hp] at h
  · cases hs : w.syncs[w.syncIndex]? with
    | none => simp [hs] at h
    | some sq =>
      obtain ⟨r0, keys, p⟩ := sq
      cases keys with
      | cons k ks => simp [hs] at h
      | nil =>
        simp only [hs] at h
        by_cases hp0 : p > 0
        · simp only [hp0, if_true] at h
          cases hpop : w.eq.pop with
          | mk a eq' =>
            cases a with
            | some a => simp [hpop] at h
            | none =>
              simp only [hpop] at h
              have hr : r0 = r := by
                have := congrArg Prod.fst h
                simpa using this
              subst hr
              refine ⟨p, rfl, Or.inr ?_⟩
              unfold EQ.pop at hpop
              cases he : w.eq.events with
              | nil => rfl
              | cons a rest => simp [he] at hpop
        · simp only [hp0, if_false] at h
          have hr : r0 = r := by
            have := congrArg Prod.fst h
            simpa using this
          subst hr
          exact ⟨p, rfl, Or.inl (by omega)⟩

/-- A sync event always serves the oldest remaining key of the snapshot of the request whose turn it is. -/
theorem C03_sync_event_from_snapshot (w : WQ) (r k : Nat) (w' : WQ) (h : w.pop = (some (.syncEvent r k), w')) :
    ∃ ks p, w.syncs[w.syncIndex]? = some ⟨r, k :: ks, p⟩ := by
  unfold WQ.pop at h
  simp only [] at h
  split at h
  · cases hp : w.eq.pop with
    | mk a eq' => cases a <;> simp [hp] at h
  · cases hs : w.syncs[w.syncIndex]? with
    | none => simp [hs] at h
    | some sq =>
      obtain ⟨r0, keys, p⟩ := sq
      cases keys with
      | nil =>
        simp only [hs] at h
        split at h <;> simp at h
      | cons k0 ks =>
        simp only [hs] at h
        have := congrArg Prod.fst h
        simp at this
        exact ⟨ks, p, by rw [this.1, this.2]⟩

theorem removeFirst_not_mem (k : Nat) : ∀ (l : List Nat), l.Nodup → k ∉ removeFirst k l := by
  intro l
  induction l with
  | nil => intro _; simp [removeFirst]
  | cons x xs ih =>
    intro hn
    simp only [List.nodup_cons] at hn
    unfold removeFirst
    by_cases hx : x = k
    · subst hx; rw [if_pos rfl]; exact hn.1
    · rw [if_neg hx]
      intro hm
      rcases List.mem_cons.mp hm with h1 | h1
      · exact hx h1.symm
      · exact ih hn.2 h1

/-- **A live event supersedes the snapshot entry**: once an update or remove of key `k` has been emitted as a live
event, no (duplicate-free) snapshot will send `k` again as a sync event — the remote gets `k` from the live event. -/
theorem C03_live_event_supersedes_snapshot (syncs : List SyncQ) (a : Act) (k : Nat) (hk : a.key? = some k)
    (hn : ∀ sq, sq ∈ syncs → sq.keys.Nodup) : ∀ sq, sq ∈ updateSyncs syncs a → k ∉ sq.keys := by
  intro sq hsq
  cases a with
  | clear => simp [Act.key?] at hk
  | upd k' =>
    simp [Act.key?] at hk; subst hk
    simp only [updateSyncs, List.mem_map] at hsq
    obtain ⟨p, hp, rfl⟩ := hsq
    exact removeFirst_not_mem k' p.keys (hn p hp)
  | rem k' =>
    simp [Act.key?] at hk; subst hk
    simp only [updateSyncs, List.mem_map] at hsq
    obtain ⟨p, hp, rfl⟩ := hsq
    exact removeFirst_not_mem k' p.keys (hn p hp)

/-- An emitted `clear` empties every snapshot (the remote's replica is emptied by the same event). -/
theorem C03_clear_empties_snapshots (syncs : List SyncQ) : ∀ sq, sq ∈ updateSyncs syncs .clear → sq.keys = [] := by
  intro sq hsq
  simp only [updateSyncs, List.mem_map] at hsq
  obtain ⟨p, hp, rfl⟩ := hsq
  rfl

/-- Every emitted event counts down the events each request is still waiting for. -/
theorem C03_pending_counts_down (syncs : List SyncQ) (a : Act) :
    (updateSyncs syncs a).map (·.pending) = syncs.map (fun q => q.pending - 1) := by
  cases a <;> simp [updateSyncs, List.map_map, Function.comp_def]

/-! ### The trace-level interval statement

`modelTraceOk` (defined in `Proofs/C03Bridge.lean`) runs the monitor `ML.Mon` — the decidable predicate the check runs
over implementation traces — over the model's own trace: at `synced r`, for a remote that was linked all along and
for one that held nothing, every key of the replica holds a value (or absence) the lane held between the request and
that instant; a write that produces nothing finds no request outstanding and the observer's replica equal to the
lane's map. The proof (`Proofs/C03Queue … C03Trace`) is by the inductive invariant `ML.Inv` linking lane content,
event queue (with its wrapping epochs), each sync queue's remaining keys and `pending` counter, and the monitor's
replicas and per-key histories. -/

/-- **Snapshot consistency, typed form**: for every sequence of lane operations with fresh sync ids the monitor
accepts the model's trace (`traceOkT`: the monitor on operations and frames instead of rendered lines).
The bound `ops.length < 2^64` is what keeps the wrapping epoch arithmetic of `EventQueue` exact. -/
theorem C03_snapshot_consistent_typed (ops : List Op) (hf : syncIdsFresh [] ops = true) (hl : ops.length < M64) :
    traceOkT {} {} ops = true :=
  traceOkT_init ops hf hl

/-- **Snapshot consistency** (`C03_snapshot_consistent` for every trace shorter than 2^64): for every sequence
of lane operations with fresh sync ids, the monitor — run on the rendered lines, exactly as the check runs it on
implementation traces — accepts the model's trace. (`Proofs/C03Lines.lean`: every line of the protocol parses back to
what was rendered, so the line-level predicate equals the typed one.) -/
theorem C03_snapshot_consistent_partial (ops : List Op) (hf : syncIdsFresh [] ops = true) (hl : ops.length < M64) :
    modelTraceOk {} {} ops = true := by
  rw [modelTraceOk_eq]
  exact traceOkT_init ops hf hl

/-- **The invariant behind it, on every reachable state** (lane and monitor run side by side). -/
theorem C03_lane_monitor_invariant (ops : List Op) (hf : syncIdsFresh [] ops = true) (hl : ops.length < M64) :
    ∃ seen U, Inv (jointRun {} {} ops).1 (jointRun {} {} ops).2 seen U :=
  inv_jointRun ops {} {} [] [] inv_init hf (by simp only [List.length_nil]; omega)

/-- **Convergence of the faithful queue model (C02 with wrapping epochs)**: whenever nothing is queued, an observer
that applied every event holds exactly the lane's map, and no sync request is outstanding. -/
theorem C03_quiescent_converged (ops : List Op) (hf : syncIdsFresh [] ops = true) (hl : ops.length < M64)
    (he : (jointRun {} {} ops).1.wq.eq.events = []) (hs : (jointRun {} {} ops).1.wq.syncs = []) :
    (jointRun {} {} ops).2.rep = (jointRun {} {} ops).1.content ∧ (jointRun {} {} ops).2.pend = [] := by
  obtain ⟨seen, U, h⟩ := C03_lane_monitor_invariant ops hf hl
  have := noData_ok (c := (jointRun {} {} ops).1.content) (w := (jointRun {} {} ops).1.wq) h he hs
  have hc := h.cur_eq
  unfold Mon.noDataT at this
  split at this
  · cases this
  · rename_i hpe
    split at this
    · cases this
    · rename_i hrep
      refine ⟨?_, ?_⟩
      · rw [← hc]; exact Classical.not_not.mp hrep
      · cases hpd : (jointRun {} {} ops).2.pend with
        | nil => rfl
        | cons p ps => simp [hpd] at hpe

/-- The full statement (no bound on the length of the trace). -/
def C03_snapshot_consistent : Prop :=
  ∀ (ops : List Op), syncIdsFresh [] ops = true → modelTraceOk {} {} ops = true

/-- The full statement is **false of the model** — an artefact of its unbounded lists, not a defect of the code:
after updates of the 2^64 + 1 keys `0 … 2^64` with no write in between, the epoch of the newest entry
(`(head + len) % 2^64` in `EQ.push`) has wrapped onto the head's; a second update of key 2^64 then overwrites the head
entry (key 0) in place, key 0 is never published, and after the queue is written out the monitor reports the
observer's replica as diverged (`longOps`, `Proofs/C03Fails.lean`). The real `Vec` cannot hold 2^64 entries, so the
code cannot reach this; `C03_snapshot_consistent_partial` (bound `ops.length < 2^64`) is the statement that holds. -/
theorem C03_snapshot_consistent_fails : ¬ C03_snapshot_consistent := by
  intro h
  have := h (longOps M64) (longOps_fresh M64)
  rw [modelTraceOk_eq, longOps_rejected M64 rfl] at this
  cases this

example : syncIdsFresh [] [.update 1 5, .sync 7, .update 2 6, .remove 1, .write, .write, .write, .write, .write] = true ∧
    traceOkT {} {} [.update 1 5, .sync 7, .update 2 6, .remove 1, .write, .write, .write, .write, .write] = true := by
  decide

/-! ### Concurrent syncs -/

/-- The literal reading of "concurrent syncs do not disturb each other": the frames addressed to `r'` are the same
with and without the request of another remote `r`. -/
def C03_concurrent_syncs_independent : Prop :=
  ∀ (ops : List Op) (r r' : Nat), r ≠ r' → syncIdsFresh [] ops = true →
    (indepFramesOf {} ops).filter (Frame.isTo r') =
      (indepFramesOf {} (ops.filter (fun o => !o.isSyncOf r))).filter (Frame.isTo r')

/-- It is false, of the model and of the real `MapLane` alike (`corpus/C03/ml-indep-witness.ops`: the real lane
answers `sync:7:1:9` with the request of remote 8 present and `sync:7:1:5` without): every write serves one queue and
the value is read when the entry is written, so another remote's request delays `r'`'s entries past later updates.
Both answers are consistent snapshots (`C03_snapshot_consistent_partial`). -/
theorem C03_concurrent_syncs_independent_fails : ¬ C03_concurrent_syncs_independent := by
  intro h
  have := h [.update 1 5, .update 2 6, .write, .write, .sync 8, .sync 7, .write, .update 1 9, .write, .write, .write,
    .write, .write, .write] 8 7 (by decide) (by decide)
  revert this
  decide

/-- **Concurrent syncs are independent up to the schedule**: what `WriteQueues::pop` does either serves `r` and then
changes nothing but `r`'s own queue (event queue and every other remote's queue untouched), or it is, entry for
entry, a step (`NPop`: emit the head event / serve a snapshot key / finish a caught-up request, for some queue) of the
write queues from which `r`'s request has been erased. So the request of `r` is visible to the others only through
which write serves whom. -/
theorem C03_concurrent_syncs_independent_partial (w : WQ) (hi : IdxOk w) (t : ToWrite) (ht : w.pop.1 = some t)
    (r : Nat) :
    (t.isFor r = true → w.pop.2.eq = w.eq ∧ eraseRemote r w.pop.2.syncs = eraseRemote r w.syncs) ∧
    (t.isFor r = false → NPop w.eq (eraseRemote r w.syncs) t w.pop.2.eq (eraseRemote r w.pop.2.syncs)) := by
  have hs := pop_spec w hi
  rw [ht] at hs
  exact nPop_erase (popR_nPop hs) r

/-- …and a request itself only appends a queue: erased, the request of `r` is no step at all. -/
theorem C03_sync_request_appends (s : St) (r r' : Nat) :
    eraseRemote r (step s (.sync r')).1.wq.syncs =
      (if r' = r then eraseRemote r s.wq.syncs
       else eraseRemote r s.wq.syncs ++ [⟨r', s.content.map (·.1), s.wq.eq.events.length⟩]) ∧
    (step s (.sync r')).1.wq.eq = s.wq.eq ∧ (step s (.sync r')).1.content = s.content :=
  ⟨eraseRemote_sync r r' _ _ _, rfl, rfl⟩

example : (WQ.pop { syncs := [⟨8, [1], 0⟩, ⟨7, [1, 2], 0⟩], nextIsEvent := false }).1 = some (.syncEvent 8 1) ∧
    IdxOk { syncs := [⟨8, [1], 0⟩, ⟨7, [1, 2], 0⟩], nextIsEvent := false } := by
  constructor
  · decide
  · left; decide

example : (WQ.pop { syncs := [⟨7, [], 0⟩], nextIsEvent := false }).1 = some (.synced 7) := by decide
example : (WQ.pop { eq := { events := [.rem 1], emap := [(1, 0)] }, syncs := [⟨7, [], 1⟩], nextIsEvent := false }).1
    = some (.event (.rem 1)) := by decide

end SwimVerif.ML

namespace SwimVerif.VL

/-- **Value lane sync answer**: a sync request is answered by the lane's *current* value as a sync event for that
remote, immediately followed by `synced` for it; requests are served oldest first, before pending events. -/
theorem C03_value_sync_answer_is_current (s : St) (r : Nat) (rest : List Nat) (h : s.syncQueue = r :: rest) :
    (step s .write).2.1 = [.syncEvent r s.content, .synced r] ∧ (step s .write).1.syncQueue = rest := by
  simp [step, h]

/-- …and a pending change is not forgotten because of it: the write reports that more data is available. -/
theorem C03_value_sync_keeps_pending_event (s : St) (r : Nat) (rest : List Nat) (h : s.syncQueue = r :: rest)
    (hd : s.dirty = true) :
    (step s .write).2.2 = some .dataStillAvailable ∧ (step s .write).1.dirty = true := by
  simp [step, h, hd]

end SwimVerif.VL

/-!
## Who is still registered when it links or syncs: the prune glue of the write task (`Model/PruneRt.lean`)

Quantifier: every `prune_remote_delay` `D > 0`, every script of remotes attaching at different times, linking,
unlinking, syncing (answered by the lane), lane events and clock advances. `reachPr D ops` = the state of the model
(`PruneRemotes` queue with its one shared, re-armed timer; `remove_remote_if_idle`) after the script.
`idleOf s r` = the moment since which `r` has been without links; `sched` = the moments at which a prune timeout was
scheduled for a remote (when it attached, and whenever an unlink removed its last link).
-/
namespace SwimVerif.PruneRt
open SwimVerif

def reachPr (D : Nat) (ops : List Op) : St := run (init D) ops

theorem reachPr_inv (D : Nat) (hD : 0 < D) (ops : List Op) : PInv (reachPr D ops) := pinv_run (pinv_init D hD) ops

theorem reachPr_D (D : Nat) (ops : List Op) : (reachPr D ops).D = D := by
  have : ∀ (s : St) (ops : List Op), (run s ops).D = s.D := by
    intro s ops
    induction ops generalizing s with
    | nil => rfl
    | cons o os ih =>
      simp only [run, List.foldl] at ih ⊢
      rw [ih]
      have hadv : ∀ fuel target (x : St), (advLoop fuel target x).1.D = x.D := by
        intro fuel target
        induction fuel with
        | zero => intro x; rfl
        | succ fuel ih2 =>
          intro x
          match hq : x.queue with
          | [] => rw [advLoop_nil _ _ _ hq]
          | (r0, d) :: rest =>
            by_cases hd : d ≤ target
            · rw [advLoop_due _ _ _ hq hd]; simp only []; rw [ih2]; unfold fire; split <;> rfl
            · rw [advLoop_notdue _ _ _ hq hd]
      have hal : ∀ (x : St) l r, (addLink x l r).D = x.D := by intro x l r; unfold addLink; split <;> rfl
      cases o with
      | adv k => exact hadv _ _ _
      | ev l => rfl
      | attach r => simp only [step]; split <;> rfl
      | link r l => simp only [step]; (repeat' split) <;> first | rfl | exact hal _ _ _
      | rsync r l => simp only [step]; (repeat' split) <;> first | rfl | exact hal _ _ _
      | unlink r l => simp only [step]; (repeat' split) <;> rfl
  exact this (init D) ops

/-- **A remote is deregistered only by the clock, only while it has no link, and only at the deadline of a timeout that
was scheduled for IT**: that deadline is the full delay after a moment at which the remote attached or lost its last
link. (With the shared timer re-armed per entry nobody is pruned at somebody else's deadline.) -/
theorem C03_prune_closed_only_linkless_at_own_deadline (D : Nat) (hD : 0 < D) (ops : List Op) (op : Op) (r t : Nat)
    (hm : (r, Ev.closed t) ∈ (step (reachPr D ops) op).2.2) :
    (∃ k, op = .adv k) ∧ r ∈ (reachPr D ops).reg ∧ (∀ l, (l, r) ∉ (reachPr D ops).links) ∧
    ∃ p, (r, p) ∈ (reachPr D ops).sched ∧ t = p + D ∧ p ≤ idleOf (reachPr D ops) r := by
  have h := reachPr_inv D hD ops
  obtain ⟨hk, hq, hl, hr⟩ := closed_of_step _ op r t hm
  obtain ⟨p, hp, ht, _⟩ := h.q6 r t hq
  have hDD := reachPr_D D ops
  exact ⟨hk, hr, (linkless_iff _ r).mp hl, p, hp, by rw [ht, hDD], (h.q7 r p hp).1⟩

/-- **A remote that has a link when its timeout fires survives**: no advance of the clock closes a linked remote. -/
theorem C03_prune_linked_remote_survives (D : Nat) (hD : 0 < D) (ops : List Op) (k l r t : Nat)
    (hl : (l, r) ∈ (reachPr D ops).links) : (r, Ev.closed t) ∉ (step (reachPr D ops) (.adv k)).2.2 := by
  intro hm
  exact (C03_prune_closed_only_linkless_at_own_deadline D hD ops _ r t hm).2.2.1 l hl

/-- **A request from a registered remote is always answered**: its `link` gets `linked`, its sync (answered by the
lane) gets `linked` unless already linked, the event and `synced`; and it stays registered. -/
theorem C03_prune_registered_request_answered (D : Nat) (ops : List Op) (r l : Nat) (hl : l < 2)
    (hr : r ∈ (reachPr D ops).reg) (ha : r ∈ (reachPr D ops).att) :
    (r, Ev.linked l) ∈ (step (reachPr D ops) (.link r l)).2.2 ∧
    (r, Ev.synced l) ∈ (step (reachPr D ops) (.rsync r l)).2.2 ∧
    (r, Ev.ev l) ∈ (step (reachPr D ops) (.rsync r l)).2.2 ∧
    ((l, r) ∈ (reachPr D ops).links ∨ (r, Ev.linked l) ∈ (step (reachPr D ops) (.rsync r l)).2.2) ∧
    (l, r) ∈ (step (reachPr D ops) (.rsync r l)).1.links ∧ r ∈ (step (reachPr D ops) (.rsync r l)).1.reg := by
  generalize reachPr D ops = s at *
  have hr' : s.reg.contains r = true := by simpa using hr
  have ha' : s.att.contains r = true := by simpa using ha
  have hlk : (l, r) ∈ (addLink s l r).links := by
    unfold addLink; split
    · rename_i h; simpa [linked] using h
    · exact List.mem_cons_self
  refine ⟨by simp [step, ha, hl, hr], by simp [step, ha, hl, hr], by simp [step, ha, hl, hr], ?_, ?_, ?_⟩
  · by_cases hk : linked s l r = true
    · left; simpa [linked] using hk
    · right; simp [step, ha, hl, hr, hk]
  · simp only [step, ha', hl, hr', decide_true, Bool.and_self, if_true]; exact hlk
  · simp only [step, ha', hl, hr', decide_true, Bool.and_self, if_true]
    rw [(addLink_same s l r).2.2]; exact hr

/-- **Nobody outstays its delay**: a remote that is still registered and has no link has been without links for less
than the delay — its timeout is queued with the deadline `idleOf + D`, and every queued deadline lies in the future. -/
theorem C03_prune_idle_remote_removed_in_time (D : Nat) (hD : 0 < D) (ops : List Op) (r : Nat)
    (hr : r ∈ (reachPr D ops).reg) (hl : ∀ l, (l, r) ∉ (reachPr D ops).links) :
    (r, idleOf (reachPr D ops) r + (reachPr D ops).D) ∈ (reachPr D ops).queue ∧
    (reachPr D ops).now < idleOf (reachPr D ops) r + (reachPr D ops).D := by
  have h := reachPr_inv D hD ops
  have hq := h.q3 r hr (by simp) ((linkless_iff _ r).mpr hl)
  exact ⟨hq, h.q1 r _ hq⟩

/-- **A remote is removed only after it has been CONTINUOUSLY without links for the full delay** — exactly the delay
after its current link-less period began. (False before the repair 8d5e4f1 of C03-N1, when a stale entry of the same
remote could remove it; the witness — attached at 0, linked at 100, unlinked at 600 — is now removed at 1301, not 701.) -/
theorem C03_prune_removed_only_after_full_delay (D : Nat) (hD : 0 < D) (ops : List Op) (op : Op) (r t : Nat)
    (hm : (r, Ev.closed t) ∈ (step (reachPr D ops) op).2.2) :
    t = idleOf (reachPr D ops) r + D ∧ idleOf (reachPr D ops) r + D ≤ t := by
  obtain ⟨_, _, _, p, hp, ht, _⟩ := C03_prune_closed_only_linkless_at_own_deadline D hD ops op r t hm
  have h := reachPr_inv D hD ops
  have ht' := closed_time_of_step h op r t hm
  rw [reachPr_D D ops] at ht'
  exact ⟨ht', by omega⟩

example : (step (reachPr 701 [.attach 1, .adv 1, .link 1 0, .adv 5, .unlink 1 0]) (.adv 2)).2.2 = [] := by decide
example : (step (reachPr 701 [.attach 1, .adv 1, .link 1 0, .adv 5, .unlink 1 0, .adv 2]) (.adv 6)).2.2 =
    [(1, .closed 1301)] := by decide

example : (step (reachPr 701 [.attach 1, .adv 4, .attach 2]) (.adv 4)).2.2 = [(1, .closed 701)] := by decide
example : (step (reachPr 701 [.attach 1, .adv 4, .attach 2, .adv 4]) (.rsync 2 1)).2.2 =
    [(2, .linked 1), (2, .ev 1), (2, .synced 1)] := by decide
example : (step (reachPr 701 [.attach 1, .adv 4, .attach 2, .adv 4]) (.adv 4)).2.2 = [(2, .closed 1101)] := by decide

end SwimVerif.PruneRt
