/-
C13 — both stores behave as isolated per-agent, per-item value/map storage.

Models: `Model/StoreKey.lean` (key layout, bytewise order, ordered byte map = one RocksDB column family / one BTreeMap),
`Model/Stores.lean` (`InMem`: `swimos_server_app::in_memory_store`; `Rocks`: `swimos_rocks_store` over three ordered
byte maps, with `reopen`).  Specification (`Proofs/Stores.lean`): `Spec` = names ↦ ids, id ↦ value, id ↦ (key ↦ value),
all plain functions.  Quantifiers: all ids `< 2^64` (layout) / `< 2^56` (prefix iteration, forced by the 8-byte prefix
extractor), all keys and values (any byte strings, including empty, `0x00`, `0xFF`, shared prefixes), all op sequences
with reopen points anywhere.
-/
import SwimVerif.Proofs.Stores
import SwimVerif.Proofs.StoresHandover
import SwimVerif.Proofs.StoresNeverLost
import SwimVerif.Proofs.StoresCrash
import SwimVerif.Proofs.StoresCrashRun
import SwimVerif.Proofs.StoresAlloc

set_option linter.unusedVariables false
namespace SwimVerif.Store
open SwimVerif.Generated.Store

/-! ## T1: key layout -/

/-- The constants read from the sources are the layout the theorems below are about (closed table). -/
theorem C13_layout_constants :
    valTag ≠ mapTag ∧ keyTag < uboundTag ∧ idLen = 8 ∧ sizeLen = 8 ∧
    mapKeyPrefixSize = idLen + 2 * tagLen + sizeLen ∧ prefixExtractorWidth = 8 ∧
    counterInitial = 0 ∧ counterStep = 1 := by decide

/-- **key_injective**: distinct `(tag, lane id, key)` give distinct on-disk keys — whatever the key bytes are
(empty, `0x00`, `0xFF`, one a prefix of another, bytes that look like tags or lengths). -/
theorem C13_key_injective (k1 k2 : StoreKey) (h1 : k1.id < u64) (h2 : k2.id < u64)
    (h : k1.ser = k2.ser) : k1 = k2 := ser_injective k1 k2 h1 h2 h

example : (StoreKey.map 3 (some [])).ser ≠ (StoreKey.map 3 none).ser := by decide
example : (StoreKey.map 1 (some [0])).ser ≠ (StoreKey.map 1 (some [0, 0])).ser := by decide
example : (StoreKey.map 1 (some [255])).ser ≠ (StoreKey.map 256 (some [255])).ser := by decide

/-- **lane_range**: `prefix(id) ≤ k < ubound(id)` iff `k` is a map key of lane `id`. -/
theorem C13_lane_range (id id' : Nat) (h : id < u64) (h' : id' < u64) (k : Bytes) :
    inRange (StoreKey.ser (.map id none)) (mapUbound id) (StoreKey.ser (.map id' (some k))) = true ↔ id' = id :=
  inRange_lane id id' h h' k

example : inRange (StoreKey.ser (.map 1 none)) (mapUbound 1) (StoreKey.ser (.map 1 (some [255, 255]))) = true := by
  decide
example : inRange (StoreKey.ser (.map 1 none)) (mapUbound 1) (StoreKey.ser (.map 257 (some []))) = false := by
  decide

/-- … so `delete_range(prefix(id), ubound(id))` (`clear_map`) removes exactly lane `id`'s entries, from any
contents of the column family. -/
theorem C13_delete_range_exact (m : BMap) (id id' : Nat) (h : id < u64) (h' : id' < u64) (k : Bytes) :
    aget (bdelRange m (StoreKey.ser (.map id none)) (mapUbound id)) (StoreKey.ser (.map id' (some k))) =
      if id' = id then none else aget m (StoreKey.ser (.map id' (some k))) := by
  rw [aget_bdelRange]
  have := inRange_lane id id' h h' k
  by_cases e : id' = id
  · subst e
    have hh := this.mpr rfl
    simp [hh]
  · have hf : inRange (StoreKey.ser (.map id none)) (mapUbound id) (StoreKey.ser (.map id' (some k))) = false := by
      cases hb : inRange (StoreKey.ser (.map id none)) (mapUbound id) (StoreKey.ser (.map id' (some k))) with
      | false => rfl
      | true => exact absurd (this.mp hb) e
    simp [e, hf]

/-! ## T1: the in-memory store refines the specification, for every op sequence -/

/-- **refines_spec (in-memory)**: every sequence of `id_for/get/put/delete/update/remove/clear/read_map` on a node
store is, op for op, the same sequence on the specification: same results (a `read_map` enumerates exactly the
specified map, each key once), same final contents. -/
theorem C13_inmem_refines_spec (ds : List DOp) :
    InMem.abs (InMem.nodeRun {} ds).1 = (InMem.specRun InMem.spec0 ds).1 ∧
    OutsRel (InMem.nodeRun {} ds).2 (InMem.specRun InMem.spec0 ds).2 := by
  have := InMem.nodeRun_refines ds {} InMem.inv_init
  rw [InMem.abs_init] at this
  exact this.2

example : (InMem.nodeRun {} [.idFor [99], .put 0 [1], .idFor [109], .upd 1 [] [7], .upd 1 [0] [8], .read 1, .get 0]).2 =
    [.id 0, .ok, .id 1, .ok, .ok, .entries [([], [7]), ([0], [8])], .some [1]] := by decide

/-- Items never affect each other: an operation on one id leaves the value and the map of every other id as
they were (and `id_for` touches no contents). -/
theorem C13_inmem_isolation (t : Spec) (d : DOp) (i : Nat) (h : DOp.target d ≠ some i) :
    (InMem.specStep t d).1.vals i = t.vals i ∧ (InMem.specStep t d).1.maps i = t.maps i :=
  InMem.spec_isolation t d i h

/-- **id_stable / id_injective (in-memory)**: after any op sequence no id is held by two names, and an id once
assigned to a name is the same after any further ops. -/
theorem C13_inmem_ids_stable_injective (ds ds' : List DOp) :
    (∀ a b n, aget (InMem.nodeRun {} ds).1.ids a = some n → aget (InMem.nodeRun {} ds).1.ids b = some n → a = b) ∧
    (∀ nm n, aget (InMem.nodeRun {} ds).1.ids nm = some n →
      aget (InMem.nodeRun (InMem.nodeRun {} ds).1 ds').1.ids nm = some n) := by
  have r1 := InMem.nodeRun_refines ds {} InMem.inv_init
  have i1 := InMem.ids_run ds InMem.spec0 (idsInv_spec0 0)
  rw [InMem.abs_init] at r1
  have e1 : aget (InMem.nodeRun {} ds).1.ids = (InMem.specRun InMem.spec0 ds).1.ids := congrArg Spec.ids r1.2.1
  constructor
  · intro a b n ha hb
    rw [e1] at ha hb
    exact i1.1.inj a b n ha hb
  · intro nm n h
    have r2 := InMem.nodeRun_refines ds' (InMem.nodeRun {} ds).1 r1.1
    have e2 : aget (InMem.nodeRun (InMem.nodeRun {} ds).1 ds').1.ids =
        (InMem.specRun (InMem.abs (InMem.nodeRun {} ds).1) ds').1.ids := congrArg Spec.ids r2.2.1
    rw [e2]
    have i2 := InMem.ids_run ds' (InMem.abs (InMem.nodeRun {} ds).1) (by rw [r1.2.1]; exact i1.1)
    exact i2.2 nm n h

/-- `read_map` of the in-memory store enumerates in strictly increasing key order. -/
theorem C13_inmem_read_sorted (ds : List DOp) (id : Nat) (l : List (Bytes × Bytes))
    (h : (InMem.nodeStep (InMem.nodeRun {} ds).1 (.read id)).2 = .entries l) : Sorted l := by
  have hinv := (InMem.nodeRun_refines ds {} InMem.inv_init).1
  generalize (InMem.nodeRun {} ds).1 = s at *
  simp only [InMem.nodeStep] at h
  rcases hm : aget s.maps id with _ | m
  · simp only [hm] at h
    split at h
    · cases h
    · cases h; exact sorted_nil
  · simp only [hm] at h
    cases h
    exact hinv id _ hm

/-! ### hand-over of a node's state between agent instances (`Idle`/`InUse`, `Drop`) -/

/-- Restart: dropping the running instance and opening the node again yields the same node state. -/
theorem C13_inmem_restart_keeps_state (s : InMem.St) (a b p : Nat) (uri : Bytes) (st : InMem.NodeState)
    (ha : aget s.slots a = some (.live p uri st)) (hn : aget s.nodes (p, uri) = some (.inUse none))
    (hb : aget s.slots b = none) :
    (InMem.step (InMem.step s (.drp a)).1 (.opn b p uri)).2 = .ready ∧
    aget (InMem.step (InMem.step s (.drp a)).1 (.opn b p uri)).1.slots b = some (.live p uri st) := by
  have hab : b ≠ a := fun e => by rw [e, ha] at hb; exact absurd hb (by simp)
  simp [InMem.step, ha, InMem.dropLive, hn, aget_adel, hab, hb, InMem.openNode, aget_aset]

/-- A new instance started while the old one is still running waits, and receives exactly the old instance's
state when that one is dropped. -/
theorem C13_inmem_waiter_gets_state (s : InMem.St) (a b p : Nat) (uri : Bytes) (st : InMem.NodeState)
    (ha : aget s.slots a = some (.live p uri st)) (hn : aget s.nodes (p, uri) = some (.inUse none))
    (hb : aget s.slots b = none) :
    let s1 := InMem.step s (.opn b p uri)
    let s2 := InMem.step s1.1 (.drp a)
    let s3 := InMem.step s2.1 (.poll b)
    s1.2 = .pending ∧ s3.2 = .ready ∧ aget s3.1.slots b = some (.live p uri st) := by
  have hab : b ≠ a := fun e => by rw [e, ha] at hb; exact absurd hb (by simp)
  have hba : a ≠ b := fun e => hab e.symm
  simp [InMem.step, ha, InMem.dropLive, hn, aget_adel, hab, hba, hb, InMem.openNode, aget_aset, InMem.dropSender,
    InMem.pollSlot]

/-- **Hand-over, every op sequence** (opens, polls, drops — including cancelled pending opens — and data ops over any
number of handles, URIs and planes): a URI never has two running instances; a state that was handed over and a
running instance never coexist, at most one pending open owns a handed-over state, and whoever holds a state
(running instance or pending open) has the plane entry marked in use. -/
theorem C13_inmem_handover_all_sequences (ops : List Op) :
    let s := InMem.run InMem.init ops
    (∀ a b p uri st st', aget s.slots a = some (.live p uri st) → aget s.slots b = some (.live p uri st') → a = b) ∧
    (∀ a b p uri c st st', aget s.slots a = some (.waiting p uri c) → aget s.chans c = some (.full st) →
      aget s.slots b ≠ some (.live p uri st')) ∧
    (∀ a b p uri c c' st st', aget s.slots a = some (.waiting p uri c) → aget s.chans c = some (.full st) →
      aget s.slots b = some (.waiting p uri c') → aget s.chans c' = some (.full st') → a = b) ∧
    (∀ a p uri st, aget s.slots a = some (.live p uri st) → InMem.isInUse (aget s.nodes (p, uri)) = true) := by
  have h := InMem.hinv_run ops InMem.init InMem.hinv_init
  exact ⟨h.u, h.j2, h.j3, h.j1⟩

example : aget (InMem.run InMem.init [.opn 0 0 [47, 97], .opn 1 0 [47, 97], .opn 2 0 [47, 98], .drp 0, .poll 1]).slots 1 =
    some (.live 0 [47, 97] {}) := by decide

/-- **No state is ever lost** (with the FC13a fix), every op sequence: an entry marked in use always has a holder — a
running instance, or a pending open whose channel already carries the handed-over state.  (Invariant `LInv` in
`Proofs/StoresNeverLost.lean`: `HInv` + "every live oneshot channel is owned by the pending open waiting on it" +
this statement; before the fix the step `drp` of a pending open with a full channel broke it.) -/
theorem C13_inmem_state_never_lost :
  ∀ (ops : List Op) (p : Nat) (uri : Bytes),
    InMem.isInUse (aget (InMem.run InMem.init ops).nodes (p, uri)) = true →
    (∃ a st, aget (InMem.run InMem.init ops).slots a = some (.live p uri st)) ∨
    (∃ a c st, aget (InMem.run InMem.init ops).slots a = some (.waiting p uri c) ∧
      aget (InMem.run InMem.init ops).chans c = some (.full st)) :=
  fun ops p uri h => (InMem.linv_run ops InMem.init InMem.linv_init).l p uri h

/-- Non-vacuity: after `open 0; id; put; open 1; drop 0` the entry is in use and its only holder is the pending
open in slot 1, whose channel is full; after the further `drop 1` (cancelled open) the entry is idle again. -/
example :
    let s := InMem.run InMem.init [.opn 0 0 [47, 97], .data 0 (.idFor [99]), .data 0 (.put 0 [170]),
                                   .opn 1 0 [47, 97], .drp 0]
    InMem.isInUse (aget s.nodes (0, [47, 97])) = true ∧ aget s.slots 0 = none ∧
    aget s.slots 1 = some (.waiting 0 [47, 97] 0) ∧
    aget s.chans 0 = some (.full { ids := [([99], 0)], counter := 1, values := [(0, [170])] }) ∧
    InMem.isInUse (aget (InMem.step s (.drp 1)).1.nodes (0, [47, 97])) = false := by decide

/-- Consequence: a URI whose entry is in use can always make progress — there is a slot whose `drop` (running
instance) or `poll` (pending open owning the state) is accepted; the URI is never wedged. -/
theorem C13_inmem_never_wedged (ops : List Op) (p : Nat) (uri : Bytes)
    (h : InMem.isInUse (aget (InMem.run InMem.init ops).nodes (p, uri)) = true) :
    (∃ a, (InMem.step (InMem.run InMem.init ops) (.drp a)).2 = .ok ∧
      ∃ st, aget (InMem.run InMem.init ops).slots a = some (.live p uri st)) ∨
    (∃ a, (InMem.step (InMem.run InMem.init ops) (.poll a)).2 = .ready) := by
  rcases C13_inmem_state_never_lost ops p uri h with ⟨a, st, ha⟩ | ⟨a, c, st, ha, hc⟩
  · exact Or.inl ⟨a, by simp [InMem.step, ha], st, ha⟩
  · exact Or.inr ⟨a, by simp [InMem.step, ha, InMem.pollSlot, hc]⟩

/-- A pending open that already received the state and is then cancelled (dropped) returns the state to the plane:
the next open completes at once with exactly that state (the code after the FC13a fix; before it the state was lost
and the URI could never be opened again). -/
theorem C13_inmem_cancelled_open_returns_state (s : InMem.St) (a b p c : Nat) (uri : Bytes) (st : InMem.NodeState)
    (ha : aget s.slots a = some (.waiting p uri c)) (hc : aget s.chans c = some (.full st))
    (hn : aget s.nodes (p, uri) = some (.inUse none)) (hb : aget s.slots b = none) :
    (InMem.step s (.drp a)).2 = .ok ∧
    aget (InMem.step s (.drp a)).1.nodes (p, uri) = some (.idle st) ∧
    (InMem.step (InMem.step s (.drp a)).1 (.opn b p uri)).2 = .ready ∧
    aget (InMem.step (InMem.step s (.drp a)).1 (.opn b p uri)).1.slots b = some (.live p uri st) := by
  have hab : b ≠ a := fun e => by rw [e, ha] at hb; exact absurd hb (by simp)
  simp [InMem.step, ha, hc, InMem.dropLive, hn, aget_adel, hab, hb, InMem.openNode, aget_aset]

/-- The FC13a witness, on the repaired code: the value written by the first instance is read by the third. -/
example :
    let ops : List Op := [.opn 0 0 [47, 97], .data 0 (.idFor [99]), .data 0 (.put 0 [170]),
                          .opn 1 0 [47, 97], .drp 0, .drp 1, .opn 2 0 [47, 97]]
    let s := InMem.run InMem.init ops
    (InMem.step s (.data 2 (.get 0))).2 = .some [170] := by decide

/-! ## T2: RocksDB as ordered byte maps -/

/-- **prefix_iter_exact**: on a sorted column family whose keys were all written by `update_map` for ids below
`2^56`, `seek(prefix(id))` + `prefix_same_as_start` over the 8-byte extractor, stripped of 18 bytes, yields exactly
lane `id`'s entries, each key once. -/
theorem C13_prefix_iter_exact (m : BMap) (hs : Sorted m) (hwf : WFMap id56 m) (id : Nat) (hid : id < id56) :
    ∃ l, Rocks.stripAll (bseekPrefix m prefixExtractorWidth (StoreKey.ser (.map id none))) = .entries l ∧
      NoDupKeys l ∧ ∀ k, aget l k = aget m (StoreKey.ser (.map id (some k))) := by
  have h := Rocks.planeStep_refines { maps := m, count := some 0 }
    ⟨hs, hwf, by intro c hc; simp at hc; simp [counterInitial, ← hc]⟩ (by simp) [] (.read id) hid
  obtain ⟨_, _, _, h4⟩ := h
  simp only [Rocks.planeStep, Rocks.specStep, Rocks.abs, Option.getD_some] at h4
  rw [bseekPrefix_eq_filter _ _ _ hs] at h4 ⊢
  have hf : (m.filter fun e => ble (StoreKey.ser (.map id none)) e.1 &&
      (e.1.take prefixExtractorWidth == (StoreKey.ser (.map id none)).take prefixExtractorWidth)) =
      m.filter (fun e => iterCond id e.1) := rfl
  rw [hf, stripAll_ok _ id56 (wf_mono hwf _)] at h4 ⊢
  refine ⟨_, rfl, ?_⟩
  simpa [outRel, hid] using h4

/-- The `2^56` bound is forced: lanes `1` and `2^56 + 1` share the 8-byte prefix, and reading lane `1` also
returns the other lane's entry (ids this large cannot come out of `id_for`, which counts up from 1). -/
theorem C13_prefix_iter_fails_above_2_56 :
    Rocks.stripAll (bseekPrefix
      (bput (bput [] (StoreKey.ser (.map 1 (some [1]))) [10]) (StoreKey.ser (.map (id56 + 1) (some [2]))) [20])
      prefixExtractorWidth (StoreKey.ser (.map 1 none))) = .entries [([1], [10]), ([2], [20])] := by decide

/-- **refines_spec (RocksDB model, with reopen points)**: every sequence of opens, drops, data ops with ids below
`2^56` and `reopen`s, on two planes, is op for op the same sequence on the specification, in which `reopen` only
forgets the open handles. -/
theorem C13_rocks_refines_spec (ops : List Op) (hok : ∀ o ∈ ops, Rocks.Op.idOk o) :
    Rocks.absSt (Rocks.runOut Rocks.init ops).1 = (Rocks.srunOut (Rocks.absSt Rocks.init) ops).1 ∧
    OutsRel (Rocks.runOut Rocks.init ops).2 (Rocks.srunOut (Rocks.absSt Rocks.init) ops).2 :=
  (Rocks.run_refines ops Rocks.init Rocks.stInv_init hok).2

example : (Rocks.runOut Rocks.init [.opn 0 0 [47, 97], .data 0 (.idFor [99]), .data 0 (.upd 1 [255] [1]),
    .data 0 (.upd 1 [] [2]), .reopen, .opn 1 0 [47, 98], .data 1 (.idFor [99]), .data 1 (.read 1)]).2 =
    [.ready, .id 1, .ok, .ok, .ok, .ready, .id 2, .entries [([], [2]), ([255], [1])]] := by decide

theorem C13_rocks_isolation (t : Spec) (uri : Bytes) (d : DOp) (i : Nat) (h : DOp.target d ≠ some i) :
    (Rocks.specStep t uri d).1.vals i = t.vals i ∧ (Rocks.specStep t uri d).1.maps i = t.maps i :=
  Rocks.spec_isolation t uri d i h

/-- **id_stable / id_injective on stored names**: across any op sequence with reopen points, per plane, two
different stored names (`lane/<uri>/<item>`) never share an id, and a name keeps its id for ever. -/
theorem C13_rocks_ids_stable_injective_on_stored_names (ops ops' : List Op)
    (hok : ∀ o ∈ ops, Rocks.Op.idOk o) (hok' : ∀ o ∈ ops', Rocks.Op.idOk o) :
    let s := (Rocks.runOut Rocks.init ops).1
    let s' := (Rocks.runOut s ops').1
    (∀ a b n, aget s.p0.lanes a = some n → aget s.p0.lanes b = some n → a = b) ∧
    (∀ a b n, aget s.p1.lanes a = some n → aget s.p1.lanes b = some n → a = b) ∧
    (∀ nm n, aget s.p0.lanes nm = some n → aget s'.p0.lanes nm = some n) ∧
    (∀ nm n, aget s.p1.lanes nm = some n → aget s'.p1.lanes nm = some n) := by
  intro s s'
  have r1 := Rocks.run_refines ops Rocks.init Rocks.stInv_init hok
  have hi0 : IdsInv 1 (Rocks.abs {}) :=
    ⟨by intro nm n h; simp [Rocks.abs, aget] at h, by intro a b n h; simp [Rocks.abs, aget] at h⟩
  have i1 := Rocks.ids_srun ops (Rocks.absSt Rocks.init) hi0 hi0
  have e0 : aget s.p0.lanes = (Rocks.srunOut (Rocks.absSt Rocks.init) ops).1.p0.ids :=
    congrArg (fun x => x.p0.ids) r1.2.1
  have e1 : aget s.p1.lanes = (Rocks.srunOut (Rocks.absSt Rocks.init) ops).1.p1.ids :=
    congrArg (fun x => x.p1.ids) r1.2.1
  have r2 := Rocks.run_refines ops' s r1.1 hok'
  have i2 := Rocks.ids_srun ops' (Rocks.absSt s) (by rw [r1.2.1]; exact i1.1) (by rw [r1.2.1]; exact i1.2.1)
  have f0 : aget s'.p0.lanes = (Rocks.srunOut (Rocks.absSt s) ops').1.p0.ids := congrArg (fun x => x.p0.ids) r2.2.1
  have f1 : aget s'.p1.lanes = (Rocks.srunOut (Rocks.absSt s) ops').1.p1.ids := congrArg (fun x => x.p1.ids) r2.2.1
  refine ⟨?_, ?_, ?_, ?_⟩
  · intro a b n ha hb; rw [e0] at ha hb; exact i1.1.inj a b n ha hb
  · intro a b n ha hb; rw [e1] at ha hb; exact i1.2.1.inj a b n ha hb
  · intro nm n h; rw [f0]; exact i2.2.2.1 nm n h
  · intro nm n h; rw [f1]; exact i2.2.2.2 nm n h

/-- Full statement: different (agent URI, item name) pairs get different ids. -/
def C13_id_injective : Prop :=
  ∀ (uri uri' name name' : Bytes), (uri, name) ≠ (uri', name') → Rocks.laneKey uri name ≠ Rocks.laneKey uri' name'

/-- It is false (finding F10): `("/a", "b/c")` and `("/a/b", "c")` are stored under the same name … -/
theorem C13_id_injective_fails : ¬ C13_id_injective := by
  intro h
  exact h [47, 97] [47, 97, 47, 98] [98, 47, 99] [99] (by decide) (by decide)

/-- … and therefore get the same id and share storage in the model (as in the real store, see the corpus). -/
theorem C13_id_collision_witness :
    (Rocks.runOut Rocks.init [.opn 0 0 [47, 97], .data 0 (.idFor [98, 47, 99]), .opn 1 0 [47, 97, 47, 98],
      .data 1 (.idFor [99]), .data 0 (.put 1 [170]), .data 1 (.get 1)]).2 =
    [.ready, .id 1, .ready, .id 1, .ok, .some [170]] := by decide

/-- What does hold: the stored name determines the pair whenever item names contain no `/`. -/
theorem C13_id_injective_partial (uri uri' name name' : Bytes) (h : 47 ∉ name) (h' : 47 ∉ name')
    (e : Rocks.laneKey uri name = Rocks.laneKey uri' name') : uri = uri' ∧ name = name' :=
  laneKey_inj_of_no_slash uri uri' name name' h h' e

/-- "Counter merged before the name is written": a crash between the two writes of `id_for` (counter advanced, name
not stored, handle gone) leaves a plane in which every later allocation is still fresh. -/
theorem C13_counter_before_name_crash_safe (pl : Rocks.Plane) (h : IdsInv 1 (Rocks.abs pl)) :
    IdsInv 1 (Rocks.abs { pl with counter := some (pl.counter.getD counterInitial + counterStep), count := none }) := by
  refine ⟨?_, h.inj⟩
  intro nm n hn
  have := h.bound nm n hn
  simp only [Rocks.abs, Option.getD_some] at this ⊢
  have : counterStep = 1 := rfl
  omega

/-- The other order would not be safe: name stored, counter not yet merged, crash, reopen — the next name gets
the same id. -/
theorem C13_name_before_counter_would_collide :
    let crashed : Rocks.Plane := { lanes := [([108, 97, 110, 101, 47, 47, 97, 47, 120], 1)], counter := none }
    (Rocks.planeStep (Rocks.openPlane crashed) [47, 97] (.idFor [121])).2 = .id 1 := by decide

/-! ### crash cuts (SIGKILL at any moment)

Trusted, not modelled: RocksDB's WAL — a single write is atomic, durable once returned, and writes become durable in
program order.  What is proved is everything above that: which states the cuts of an op in flight can leave
(`Rocks.crashCuts`, `Proofs/StoresCrash.lean`) and what the reopened store then is. -/

/-- The support statement for the SIGKILL exploration as it was first written: "the reopened database equals the fold
of the acknowledged ops, optionally plus the one in flight". -/
def C13_crash_acknowledged_prefix : Prop :=
  ∀ (acked : List Op) (inflight : Op) (reopened : Rocks.St),
    Rocks.absSt reopened = (Rocks.srunOut (Rocks.absSt Rocks.init) acked).1 ∨
    Rocks.absSt reopened = (Rocks.srunOut (Rocks.absSt Rocks.init) (acked ++ [inflight])).1

/-- As written it is false for a trivial reason: nothing ties `reopened` to the run (any database qualifies). -/
theorem C13_crash_acknowledged_prefix_fails : ¬ C13_crash_acknowledged_prefix := by
  intro h
  rcases h [] .reopen { p0 := { lanes := [([1], 5)] } } with e | e
  · exact absurd (congrArg (fun x => x.p0.ids [1]) e) (by decide)
  · exact absurd (congrArg (fun x => x.p0.ids [1]) e) (by decide)

/-- The intended reading: `reopened` is the recovery (`reopen`) of a crash cut — the state after a prefix of the
RocksDB writes of the op in flight, on top of the acknowledged ops — and equals the specification's fold of the
acknowledged ops, optionally plus the op in flight (handles forgotten). -/
def C13_crash_acknowledged_prefix_cuts : Prop :=
  ∀ (acked : List Op) (inflight : Op), (∀ o ∈ acked, Rocks.Op.idOk o) → Rocks.Op.idOk inflight →
    ∀ crashed ∈ Rocks.crashCuts (Rocks.runOut Rocks.init acked).1 inflight,
      Rocks.absSt (Rocks.recover crashed) = (Rocks.srunOut (Rocks.absSt Rocks.init) (acked ++ [.reopen])).1 ∨
      Rocks.absSt (Rocks.recover crashed) = (Rocks.srunOut (Rocks.absSt Rocks.init) (acked ++ [inflight, .reopen])).1

/-- This is false too, and for a real reason: `KeyStore::id_for` of a new name issues two separate writes
(`merge_keyspace(counter)` then `put_keyspace(name)`); killed in between, the counter is advanced and the name is not
stored — neither the state before `id_for` nor the state after it.  Witness: `open 0 0 /a` acknowledged,
`id 0 "c"` in flight. -/
theorem C13_crash_acknowledged_prefix_cuts_fails : ¬ C13_crash_acknowledged_prefix_cuts := by
  intro h
  have hm : Rocks.setPlane (Rocks.runOut Rocks.init [.opn 0 0 [47, 97]]).1 0
        (Rocks.midIdFor (Rocks.getPlane (Rocks.runOut Rocks.init [.opn 0 0 [47, 97]]).1 0)) ∈
      Rocks.crashCuts (Rocks.runOut Rocks.init [.opn 0 0 [47, 97]]).1 (.data 0 (.idFor [99])) :=
    List.mem_cons_of_mem _ List.mem_cons_self
  rcases h [.opn 0 0 [47, 97]] (.data 0 (.idFor [99])) (by intro o ho; simp at ho; subst ho; trivial) trivial _ hm with e | e
  · exact absurd (congrArg (fun x => x.p0.next) e) (by decide)
  · exact absurd (congrArg (fun x => x.p0.ids (Rocks.laneKey [47, 97] [99])) e) (by decide)

/-- **Crash cuts, what does hold** (all acknowledged op sequences with reopen points, ids `< 2^56`, any op in flight,
any cut): the reopened store satisfies the store invariant (so every refinement theorem above applies to whatever
runs after the crash) and is, in the specification,
* the fold of the acknowledged ops, or
* the fold of the acknowledged ops plus the op in flight, or
* — only when the op in flight is `id_for` of a name not yet stored — the fold of the acknowledged ops with one id
  of that plane burnt (`next + 1`, nothing else changed). -/
theorem C13_crash_acknowledged_prefix_partial (acked : List Op) (inflight : Op)
    (hok : ∀ o ∈ acked, Rocks.Op.idOk o) (hok' : Rocks.Op.idOk inflight) (crashed : Rocks.St)
    (hc : crashed ∈ Rocks.crashCuts (Rocks.runOut Rocks.init acked).1 inflight) :
    Rocks.StInv (Rocks.recover crashed) ∧
    (Rocks.absSt (Rocks.recover crashed) = (Rocks.srunOut (Rocks.absSt Rocks.init) (acked ++ [.reopen])).1 ∨
     Rocks.absSt (Rocks.recover crashed) = (Rocks.srunOut (Rocks.absSt Rocks.init) (acked ++ [inflight, .reopen])).1 ∨
     ∃ slot p uri name, inflight = .data slot (.idFor name) ∧
       aget (Rocks.srunOut (Rocks.absSt Rocks.init) acked).1.slots slot = some (p, uri) ∧
       (Rocks.sget (Rocks.srunOut (Rocks.absSt Rocks.init) acked).1 p).ids (Rocks.laneKey uri name) = none ∧
       Rocks.absSt (Rocks.recover crashed) =
         (Rocks.sstep (Rocks.sset (Rocks.srunOut (Rocks.absSt Rocks.init) acked).1 p
           (Rocks.burn (Rocks.sget (Rocks.srunOut (Rocks.absSt Rocks.init) acked).1 p))) .reopen).1) := by
  have r := Rocks.run_refines acked Rocks.init Rocks.stInv_init hok
  obtain ⟨h1, h2⟩ := Rocks.crashCuts_cases _ r.1 inflight hok' crashed hc
  refine ⟨h1, ?_⟩
  rw [Rocks.srunOut_append, Rocks.srunOut_append, Rocks.srunOut_single, Rocks.srunOut_two, ← r.2.1]
  rcases h2 with e | e | ⟨slot, p, uri, name, e1, e2, e3, e4⟩
  · exact Or.inl e
  · exact Or.inr (Or.inl e)
  · exact Or.inr (Or.inr ⟨slot, p, uri, name, e1, e2, e3, e4⟩)

/-- Non-vacuity (third shape): the mid-`id_for` cut after `open; id "b"; put 1`, reopened, has counter 2 and one stored
name; the next `id_for` of a new name then returns 3 — id 2 is burnt, the value of id 1 is intact. -/
example :
    let s := (Rocks.runOut Rocks.init [.opn 0 0 [47, 97], .data 0 (.idFor [98]), .data 0 (.put 1 [170])]).1
    let crashed := Rocks.setPlane s 0 (Rocks.midIdFor (Rocks.getPlane s 0))
    crashed ∈ Rocks.crashCuts s (.data 0 (.idFor [99])) ∧
    (Rocks.runOut (Rocks.recover crashed) [.opn 0 0 [47, 97], .data 0 (.idFor [99]), .data 0 (.idFor [98]),
      .data 0 (.get 1)]).2 = [.ready, .id 3, .id 1, .some [170]] :=
  ⟨List.mem_cons_of_mem _ List.mem_cons_self, by decide⟩

/-- **Acknowledged prefix, observably**: whatever a client can read back from the reopened store — names ↦ ids,
values, maps — is exactly that of the acknowledged ops, or of the acknowledged ops plus the one in flight; and id
allocation after the crash is still fresh and collision free (all stored ids are `≤` the reloaded counter, no id
belongs to two stored names), on both planes. -/
theorem C13_crash_observable_acked_or_inflight (acked : List Op) (inflight : Op)
    (hok : ∀ o ∈ acked, Rocks.Op.idOk o) (hok' : Rocks.Op.idOk inflight) (crashed : Rocks.St)
    (hc : crashed ∈ Rocks.crashCuts (Rocks.runOut Rocks.init acked).1 inflight) :
    (Rocks.SameData (Rocks.absSt (Rocks.recover crashed))
        (Rocks.srunOut (Rocks.absSt Rocks.init) (acked ++ [.reopen])).1 ∨
     Rocks.SameData (Rocks.absSt (Rocks.recover crashed))
        (Rocks.srunOut (Rocks.absSt Rocks.init) (acked ++ [inflight, .reopen])).1) ∧
    IdsInv 1 (Rocks.absSt (Rocks.recover crashed)).p0 ∧ IdsInv 1 (Rocks.absSt (Rocks.recover crashed)).p1 := by
  have hi0 : IdsInv 1 (Rocks.abs {}) :=
    ⟨by intro nm n h; simp [Rocks.abs, aget] at h, by intro a b n h; simp [Rocks.abs, aget] at h⟩
  obtain ⟨_, h⟩ := C13_crash_acknowledged_prefix_partial acked inflight hok hok' crashed hc
  rcases h with e | e | ⟨slot, p, uri, name, e1, e2, e3, e4⟩
  · rw [e]
    have i := Rocks.ids_srun (acked ++ [.reopen]) (Rocks.absSt Rocks.init) hi0 hi0
    exact ⟨Or.inl (Rocks.sameData_refl _), i.1, i.2.1⟩
  · rw [e]
    have i := Rocks.ids_srun (acked ++ [inflight, .reopen]) (Rocks.absSt Rocks.init) hi0 hi0
    exact ⟨Or.inr (Rocks.sameData_refl _), i.1, i.2.1⟩
  · rw [e4, Rocks.srunOut_append, Rocks.srunOut_single]
    have i := Rocks.ids_srun acked (Rocks.absSt Rocks.init) hi0 hi0
    refine ⟨Or.inl (Rocks.sameData_burn _ p), ?_⟩
    by_cases hp : p = 0
    · simp only [Rocks.sstep, Rocks.sset, Rocks.sget, hp, ↓reduceIte]
      exact ⟨Rocks.idsInv_burn i.1, i.2.1⟩
    · simp only [Rocks.sstep, Rocks.sset, Rocks.sget, hp, ↓reduceIte]
      exact ⟨i.1, Rocks.idsInv_burn i.2.1⟩

/-- Non-vacuity (an `update_map` in flight, both cuts): reopened either without or with the entry. -/
example :
    let s := (Rocks.runOut Rocks.init [.opn 0 0 [47, 97], .data 0 (.idFor [98]), .data 0 (.upd 1 [0] [1])]).1
    Rocks.crashCuts s (.data 0 (.upd 1 [255] [2])) = [s, (Rocks.step s (.data 0 (.upd 1 [255] [2]))).1] ∧
    (Rocks.runOut (Rocks.recover s) [.opn 3 0 [47, 98], .data 3 (.read 1)]).2 = [.ready, .entries [([0], [1])]] ∧
    (Rocks.runOut (Rocks.recover (Rocks.step s (.data 0 (.upd 1 [255] [2]))).1) [.opn 3 0 [47, 98], .data 3 (.read 1)]).2 =
      [.ready, .entries [([0], [1]), ([255], [2])]] := ⟨rfl, by decide, by decide⟩

/-! ### histories with any number of kills -/

/-- **refines_spec with kills and reopen points anywhere** (T2): every history of the RocksDB store model made of
acknowledged ops (opens, drops, data ops with ids `< 2^56`, `reopen`) and kills — each at any cut of any op in flight,
any number of times — is a history of the specification in which a kill forgets the handles and leaves the state
before the op in flight, the state after it, or (for `id_for` of a new name only) the state before it with one id
burnt; the acknowledged results agree op for op. -/
theorem C13_rocks_refines_spec_with_crashes (evs : List Rocks.CEv) (hok : ∀ e ∈ evs, Rocks.CEv.idOk e) :
    ∃ souts, Rocks.SReach (Rocks.absSt Rocks.init) evs (Rocks.absSt (Rocks.crunOut Rocks.init evs).1) souts ∧
      OutsRel (Rocks.crunOut Rocks.init evs).2 souts :=
  (Rocks.crun_refines evs Rocks.init Rocks.stInv_init hok).2

/-- Non-vacuity: a kill inside `id_for "c"` (cut 1: counter merged, name not stored), a kill after the write of an
`update_map` (cut 1) and a kill before the write of a `put_value` (cut 0), with ops in between. -/
example : (Rocks.crunOut Rocks.init [.op (.opn 0 0 [47, 97]), .op (.data 0 (.idFor [98])), .op (.data 0 (.put 1 [170])),
      .crash (.data 0 (.idFor [99])) 1,
      .op (.opn 0 0 [47, 97]), .op (.data 0 (.idFor [99])), .crash (.data 0 (.upd 3 [7] [8])) 1,
      .op (.opn 1 0 [47, 98]), .crash (.data 1 (.put 1 [187])) 0,
      .op (.opn 2 0 [47, 97]), .op (.data 2 (.idFor [98])), .op (.data 2 (.idFor [99])), .op (.data 2 (.get 1)),
      .op (.data 2 (.read 3))]).2 =
    [.ready, .id 1, .ok, .ready, .id 3, .ready, .ready, .id 1, .id 3, .some [170], .entries [([7], [8])]] := by decide

/-- **id_stable / id_injective on stored names, across kills**: in every such history, per plane, two different
stored names never share an id, and a name keeps its id through all later ops, kills and reopens. -/
theorem C13_rocks_ids_stable_injective_across_crashes (evs evs' : List Rocks.CEv)
    (hok : ∀ e ∈ evs, Rocks.CEv.idOk e) (hok' : ∀ e ∈ evs', Rocks.CEv.idOk e) :
    let s := (Rocks.crunOut Rocks.init evs).1
    let s' := (Rocks.crunOut s evs').1
    (∀ a b n, aget s.p0.lanes a = some n → aget s.p0.lanes b = some n → a = b) ∧
    (∀ a b n, aget s.p1.lanes a = some n → aget s.p1.lanes b = some n → a = b) ∧
    (∀ nm n, aget s.p0.lanes nm = some n → aget s'.p0.lanes nm = some n) ∧
    (∀ nm n, aget s.p1.lanes nm = some n → aget s'.p1.lanes nm = some n) := by
  intro s s'
  have hi0 : IdsInv 1 (Rocks.abs {}) :=
    ⟨by intro nm n h; simp [Rocks.abs, aget] at h, by intro a b n h; simp [Rocks.abs, aget] at h⟩
  obtain ⟨r1, souts, r2, _⟩ := Rocks.crun_refines evs Rocks.init Rocks.stInv_init hok
  obtain ⟨i0, i1, _, _⟩ := Rocks.ids_sreach r2 hi0 hi0
  obtain ⟨_, souts', r3, _⟩ := Rocks.crun_refines evs' s r1 hok'
  obtain ⟨_, _, j0, j1⟩ := Rocks.ids_sreach r3 i0 i1
  exact ⟨fun a b n ha hb => i0.inj a b n ha hb, fun a b n ha hb => i1.inj a b n ha hb,
    fun nm n h => j0 nm n h, fun nm n h => j1 nm n h⟩

/-- **Every acknowledged operation is still present after a kill**: whatever a client can read back (names ↦ ids,
values, maps) after a kill is that of the state before the op in flight — the fold of everything acknowledged — or
of the state after it. -/
theorem C13_crash_keeps_acknowledged_data (s s' : Rocks.SSt) (inflight : Op) (h : Rocks.SCrash s inflight s') :
    Rocks.SameData s' (Rocks.sstep s .reopen).1 ∨ Rocks.SameData s' (Rocks.sstep (Rocks.sstep s inflight).1 .reopen).1 :=
  Rocks.scrash_sameData h

example : Rocks.SCrash (Rocks.absSt (Rocks.runOut Rocks.init [.opn 0 0 [47, 97]]).1) (.data 0 (.idFor [99]))
    (Rocks.sstep (Rocks.sset (Rocks.absSt (Rocks.runOut Rocks.init [.opn 0 0 [47, 97]]).1) 0
      (Rocks.burn (Rocks.sget (Rocks.absSt (Rocks.runOut Rocks.init [.opn 0 0 [47, 97]]).1) 0))) .reopen).1 :=
  .burnt 0 0 [47, 97] [99] rfl (by decide) (by decide)

/-- **The `2^56` hypothesis is met by every client history** (T2): a history (acknowledged ops, kills, reopens) in
which every `get/put/delete/update/remove/clear/read_map` goes through an open handle with an id that `id_for`
handed out on that plane (it is stored in the plane's name table at that moment), and which has fewer than `2^56`
events, satisfies `id < 2^56` at every event — the counter grows by at most one per event, a kill inside `id_for`
included — and therefore refines the specification. -/
theorem C13_rocks_refines_spec_allocated_ids (evs : List Rocks.CEv) (hlen : evs.length < id56)
    (ha : Rocks.histAlloc Rocks.init evs) :
    (∀ e ∈ evs, Rocks.CEv.idOk e) ∧
    ∃ souts, Rocks.SReach (Rocks.absSt Rocks.init) evs (Rocks.absSt (Rocks.crunOut Rocks.init evs).1) souts ∧
      OutsRel (Rocks.crunOut Rocks.init evs).2 souts := by
  have hi0 : IdsInv 1 (Rocks.abs {}) :=
    ⟨by intro nm n h; simp [Rocks.abs, aget] at h, by intro a b n h; simp [Rocks.abs, aget] at h⟩
  have hok := Rocks.histAlloc_idOk evs Rocks.init 0 Rocks.stInv_init hi0 hi0 (Nat.le_refl _) (Nat.le_refl _)
    (by omega) ha
  exact ⟨hok, C13_rocks_refines_spec_with_crashes evs hok⟩

example : Rocks.histAlloc Rocks.init [.op (.opn 0 0 [47, 97]), .op (.data 0 (.idFor [98])), .op (.data 0 (.put 1 [170])),
    .crash (.data 0 (.upd 1 [7] [8])) 1, .op (.opn 0 0 [47, 97]), .op (.data 0 (.read 1))] := by
  refine And.intro trivial (And.intro (fun id h => by cases h) (And.intro ?_ (And.intro ?_
    (And.intro trivial (And.intro ?_ trivial))))) <;>
    (intro id h; cases h; exact ⟨0, [47, 97], Rocks.laneKey [47, 97] [98], by decide, by decide⟩)

end SwimVerif.Store
