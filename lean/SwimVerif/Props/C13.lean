import SwimVerif.Model.Stores
namespace SwimVerif.Store
theorem C13_placeholder : True := trivial
end SwimVerif.Store
