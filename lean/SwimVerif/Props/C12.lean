/-
C12 — byte channels are lossless bounded FIFO pipes with no lost wake-ups.
Property theorems only; helper lemmas live in `Proofs/Conduit.lean`.
Quantifier: every capacity ≥ 1 (the constructor takes `NonZeroUsize`), every list of operations
(= every interleaving of polls of the two halves, every request size, every budget).
-/
import SwimVerif.Proofs.Conduit
import SwimVerif.Proofs.ConduitProg

set_option linter.unusedSimpArgs false
namespace SwimVerif.Conduit

/-- Reachable states: any operation sequence from a fresh channel. -/
def reach (cap : Nat) (ops : List Op) : St := run (init cap) ops

/-- Bytes read so far, followed by the buffer, are exactly the bytes accepted so far. -/
theorem C12_prefix_fifo (cap : Nat) (hc : 1 ≤ cap) (ops : List Op) :
    (reach cap ops).readout ++ (reach cap ops).data = (reach cap ops).written :=
  (inv_run (inv_init cap hc) ops).fifo

/-- Hence what was read is always a prefix of what was written. -/
theorem C12_read_is_prefix (cap : Nat) (hc : 1 ≤ cap) (ops : List Op) :
    (reach cap ops).readout <+: (reach cap ops).written :=
  ⟨_, C12_prefix_fifo cap hc ops⟩

/-- The amount buffered never exceeds the configured capacity (which never changes). -/
theorem C12_bounded (cap : Nat) (hc : 1 ≤ cap) (ops : List Op) :
    (reach cap ops).data.length ≤ (reach cap ops).cap :=
  (inv_run (inv_init cap hc) ops).bounded

theorem C12_cap_constant (cap : Nat) (ops : List Op) : (reach cap ops).cap = cap := by
  unfold reach
  suffices ∀ s, (run s ops).cap = s.cap from this (init cap)
  induction ops with
  | nil => intro s; rfl
  | cons op ops ih => intro s; simp only [run, List.foldl] at *; rw [ih, (stable_step s op).1]

/-- **No lost wake-up**: a side whose last poll returned `Pending` from the conduit and that has not been
woken since is the registered waker, and the condition it waits for still holds. -/
theorem C12_no_lost_wakeup (cap : Nat) (hc : 1 ≤ cap) (ops : List Op) :
    ((reach cap ops).waitR = true →
        (reach cap ops).waker = some .R ∧ (reach cap ops).data = [] ∧ (reach cap ops).closed = false) ∧
    ((reach cap ops).waitW = true →
        (reach cap ops).waker = some .W ∧ (reach cap ops).data.length = (reach cap ops).cap ∧
          (reach cap ops).closed = false) :=
  ⟨(inv_run (inv_init cap hc) ops).waitR, (inv_run (inv_init cap hc) ops).waitW⟩

/-- **Progress (reader)**: if the reader is waiting and a step makes data available or closes the channel,
that very step fires the reader's waker. -/
theorem C12_progress_reader (cap : Nat) (hc : 1 ≤ cap) (ops : List Op) (op : Op)
    (hw : (reach cap ops).waitR = true)
    (hp : (step (reach cap ops) op).1.data ≠ [] ∨ (step (reach cap ops) op).1.closed = true) :
    (step (reach cap ops) op).2.wokeR = true :=
  progress_reader_step (inv_run (inv_init cap hc) ops) op hw hp

/-- **Progress (writer)**: if the writer is waiting and a step frees space or closes the channel, that very
step fires the writer's waker. -/
theorem C12_progress_writer (cap : Nat) (hc : 1 ≤ cap) (ops : List Op) (op : Op)
    (hw : (reach cap ops).waitW = true)
    (hp : (step (reach cap ops) op).1.data.length < cap ∨ (step (reach cap ops) op).1.closed = true) :
    (step (reach cap ops) op).2.wokeW = true := by
  apply progress_writer_step (inv_run (inv_init cap hc) ops) op hw
  have := C12_cap_constant cap ops
  unfold reach at this hp
  rw [this]; exact hp

/-- Once closed, always closed, and nothing more is ever accepted. -/
theorem C12_closed_stable (s : St) (op : Op) (h : s.closed = true) :
    (step s op).1.closed = true ∧ (step s op).1.written = s.written :=
  (stable_step s op).2 h

/-- **EOF after drain**: once the channel is closed (writer dropped or shut down), a read that is not
deferred by the task budget returns the first `k` buffered bytes (all of them if `k` is large enough) and,
once the buffer is empty, end-of-stream (`Ready` with nothing read) — never `Pending`. -/
theorem C12_eof_after_drain (s : St) (k : Nat) (hcl : s.closed = true) (ha : s.rAlive = true)
    (hb : (budgetStep s.budget).2 = true) :
    (step s (.read k)).2.res = .bytes (s.data.take k) ∧
    (step s (.read k)).1.data = s.data.drop k := by
  simp only [step, ha, ↓reduceIte]
  fun_cases pollRead s k <;> simp_all +zetaDelta [wakeOut, consumeBudget, trackPending]
  · rename_i h1 h2
    rcases Nat.le_total s.data.length k with h | h
    · simp [Nat.min_eq_left h, List.take_of_length_le h, List.drop_of_length_le h]; omega
    · simp [Nat.min_eq_right h]; omega

/-- After the reader is dropped (or the writer shut down) every write fails and accepts nothing. -/
theorem C12_write_after_close_fails (s : St) (bs : List Nat) (hcl : s.closed = true) (ha : s.wAlive = true)
    (hb : (budgetStep s.budget).2 = true) :
    (step s (.write bs)).2.res = .err ∧ (step s (.write bs)).1.written = s.written := by
  simp [step, ha, pollWrite, consumeBudget, hb, hcl]

/-- Dropping either half closes the channel. -/
theorem C12_drop_closes (s : St) :
    (s.rAlive = true → (step s .dropR).1.closed = true) ∧
    (s.wAlive = true → (step s .dropW).1.closed = true) := by
  constructor <;> intro h <;> simp [step, h, closeOut, wakeOut]

/-- **Co-operative budget**: a poll deferred by the budget (`consume_budget` returned `Pending`) wakes the
polling task itself and changes nothing but the budget: no byte, no registration is lost. -/
theorem C12_budget_pending_harmless (s : St) (k : Nat) (ha : s.rAlive = true)
    (hb : (budgetStep s.budget).2 = false) :
    (step s (.read k)).2 = ⟨.pending, true, false⟩ ∧
    (step s (.read k)).1.data = s.data ∧ (step s (.read k)).1.readout = s.readout ∧
    (step s (.read k)).1.waker = s.waker ∧ (step s (.read k)).1.closed = s.closed := by
  simp [step, ha, pollRead, consumeBudget, hb, selfWake]

theorem C12_budget_pending_harmless_write (s : St) (bs : List Nat) (ha : s.wAlive = true)
    (hb : (budgetStep s.budget).2 = false) :
    (step s (.write bs)).2 = ⟨.pending, false, true⟩ ∧
    (step s (.write bs)).1.data = s.data ∧ (step s (.write bs)).1.written = s.written ∧
    (step s (.write bs)).1.waker = s.waker ∧ (step s (.write bs)).1.closed = s.closed := by
  simp [step, ha, pollWrite, consumeBudget, hb, selfWake]

/-! Non-vacuity: concrete reachable states meeting the hypotheses above. -/

example : (reach 2 [.read 4]).waitR = true := by decide
example : (reach 2 [.write [1, 2], .write [3]]).waitW = true := by decide
example : (step (reach 2 [.read 4]) (.write [7])).2.wokeR = true := by decide
example : (step (reach 2 [.write [1, 2], .write [3]]) (.read 1)).2.wokeW = true := by decide
example : (reach 2 [.write [1, 2], .dropW]).closed = true ∧ (reach 2 [.write [1, 2], .dropW]).data = [1, 2] := by
  decide
example : (budgetStep (some 1)).2 = false := by decide

/-! ## The model is the source (translator tie)

`Generated/ConduitSrc.lean` is regenerated on every run from `swimos_byte_channel/src/channel/mod.rs` by
`tools/extractors/c12.py`: the statement structure of `Conduit::{poll_read, poll_write, poll_flush, poll_shutdown,
read, write, wake, close_channel}`, of the `coop` wrappers of both halves and of both `Drop` impls.  The theorems
below say that these programs, executed by `ConduitProg.exec`, ARE the steps of the model every theorem above is
about.  A change of the source that alters the order of the tests, a branch, a missing wake, an early return or the
place of the lock regenerates a different program and one of these proofs no longer checks. -/

open SwimVerif.ConduitProg in
/-- **Every operation of the model is the translated source of that operation**, for every state and argument:
result, both wake flags and the whole next state (ghost history included). -/
theorem C12_source_is_model (s : St) (op : Op)
    (hlive : match op with
      | .read _ => s.rAlive = true | .dropR => s.rAlive = true
      | .setBudget _ => False | _ => s.wAlive = true) :
    step s op =
      match op with
      | .read _ => outOf (runOp s op) (resRead (runOp s op))
      | .dropR | .dropW => outOf (runOp s op) (resDrop (runOp s op))
      | _ => outOf (runOp s op) (resWrite (runOp s op)) := by
  cases op with
  | read k => simp only [step, runOp]; simp only at hlive; rw [if_pos hlive, reader_poll_read_eq]
  | write bs => simp only [step, runOp]; simp only at hlive; rw [if_pos hlive, writer_poll_write_eq]
  | flush => simp only [step, runOp]; simp only at hlive; rw [if_pos hlive, writer_poll_flush_eq]
  | shutdown => simp only [step, runOp]; simp only at hlive; rw [if_pos hlive, writer_poll_shutdown_eq]
  | dropR => simp only [step, runOp]; simp only at hlive; rw [if_pos hlive, reader_drop_eq]
  | dropW => simp only [step, runOp]; simp only at hlive; rw [if_pos hlive, writer_drop_eq]
  | setBudget n => exact absurd hlive (by simp)

open SwimVerif.ConduitProg in
/-- **Atomicity is read off the source**: every translated operation takes the channel mutex at most once, and no
statement that reads or writes the shared `Conduit` runs outside it (the budget gate, which touches only the
thread-local budget, is the only thing before the lock).  This is what makes "one poll = one atomic step" an
extracted fact rather than an assumption about the text; that `parking_lot::Mutex` serialises the critical
sections stays trusted. -/
theorem C12_source_single_critical_section (s : St) (op : Op) :
    (runOp s op).locks ≤ 1 ∧ (runOp s op).unlockedTouch = false := lock_discipline s op

open SwimVerif.ConduitProg in
/-- **The co-operative budget of the model is the translated `coop/mod.rs`**: `consume_budget` is `budgetStep` (new
cell, `Ready`/`Pending`, and a self-wake exactly on `Pending` — so a poll deferred by the budget can never be a lost
wake-up), `track_progress` is `trackBudget` on a pending poll and the identity otherwise, for every cell value. -/
theorem C12_source_coop_is_model (c : Option Nat) (p : Bool) :
    ((execB Generated.CoopSrc.consume_budget { cell := c }).cell = (budgetStep c).1 ∧
     (execB Generated.CoopSrc.consume_budget { cell := c }).ret = some (if (budgetStep c).2 then .ready else .pending) ∧
     (execB Generated.CoopSrc.consume_budget { cell := c }).wokeSelf = !(budgetStep c).2) ∧
    ((execB Generated.CoopSrc.track_progress { cell := c, pollPending := p }).cell = (if p then trackBudget c else c) ∧
     (execB Generated.CoopSrc.track_progress { cell := c, pollPending := p }).ret = some .same) :=
  ⟨consume_budget_eq c, track_progress_eq c p⟩

example : (SwimVerif.ConduitProg.execB Generated.CoopSrc.consume_budget { cell := some 1 }).wokeSelf = true := by decide

/-! Non-vacuity: the translated `poll_read` on a full two-byte channel with the writer parked returns one byte and
fires the writer's waker, under one lock acquisition. -/
example : (SwimVerif.ConduitProg.runRead (reach 2 [.write [1, 2], .write [3]]) 1).wokeW = true ∧
    (SwimVerif.ConduitProg.runRead (reach 2 [.write [1, 2], .write [3]]) 1).outb = [1] ∧
    (SwimVerif.ConduitProg.runRead (reach 2 [.write [1, 2], .write [3]]) 1).locks = 1 := by decide

end SwimVerif.Conduit
